(* Property C08 — theorems only. Each is closed by [exact] and followed by Print Assumptions.

   [patch src t] is the model of patch_ast(ast.parse(src), src, sorted_children=True) run on the template
   tree [t] captured from the walker (the per-node-type templates and the results of the string/number regular
   expressions are inputs; everything _handle/_handle_parens/_eat_surrounding_parens/_Source do with them
   is the model).  [write] is write_ast.  A [pnode] carries class, cursor at entry, region and
   sorted_children.  Side conditions are boolean and about the template tree only:
     [spaces_only_at_root t]  eat_spaces (pad to the whole text) is not used below the root
     [root_eats_spaces t]     the root does use it
   both hold for every tree rope builds (only _Module passes eat_spaces); the harness counts the cases.

   [patch] is the code as it is now, i.e. after commits ed573d7 (_handle_parens searches the opening
   parenthesis from the cursor at which the node was entered) and aea6dd5 (comments inside an empty tuple).
   [patch_original] is the walker before them: it is refuted below, which is what finding C08-left-escape was. *)
From Coq Require Import List NArith Bool.
From RopeVerif.Lib Require Import Text.
From RopeVerif.C08 Require Import Template TemplateProofs Fragment FragmentProofs Runner Witness WitnessProofs.
Local Open Scope N_scope.

(* Losslessness: writing the annotated tree back out reproduces the source character for character. *)
Theorem C08_lossless :
  forall (src : text) (t : tnode) (p : pnode),
    patch src t = Ok p -> spaces_only_at_root t = true -> root_eats_spaces t = true -> write p = src.
Proof. exact cur_lossless. Qed.
Print Assumptions C08_lossless.

(* The invariant behind it: for every node of the annotated tree, the concatenation of its sorted_children
   (children written recursively) is exactly the slice of the source over its region. *)
Theorem C08_children_cover :
  forall (src : text) (t : tnode) (p : pnode),
    patch src t = Ok p -> spaces_only_at_root t = true ->
    forall n, In n (subnodes p) -> write n = slice src (p_rs n) (p_re n).
Proof. exact cur_children_cover. Qed.
Print Assumptions C08_children_cover.

(* Every child node's region lies inside its parent's region, which lies inside the text. *)
Theorem C08_nested :
  forall (src : text) (t : tnode) (p : pnode),
    patch src t = Ok p -> spaces_only_at_root t = true ->
    forall n q, In n (subnodes p) -> In q (child_nodes (p_ch n)) ->
                p_rs n <= p_rs q /\ p_re q <= p_re n /\ p_re n <= N.of_nat (length src).
Proof. exact cur_nested. Qed.
Print Assumptions C08_nested.

(* Sibling regions are disjoint and increasing, in the order of sorted_children. *)
Theorem C08_ordered :
  forall (src : text) (t : tnode) (p : pnode),
    patch src t = Ok p -> spaces_only_at_root t = true ->
    forall n, In n (subnodes p) -> ordered_from (p_rs n) (child_nodes (p_ch n)).
Proof. exact cur_ordered. Qed.
Print Assumptions C08_ordered.

(* No node's region starts before the cursor the walker had when it entered the node. *)
Theorem C08_no_escape :
  forall (src : text) (t : tnode) (p : pnode),
    patch src t = Ok p -> spaces_only_at_root t = true -> no_escape p = true.
Proof. exact cur_no_escape. Qed.
Print Assumptions C08_no_escape.

(* The cursor never moves backwards: each child is entered at or after the cursor at which its predecessor
   (or its parent's entry) left it, and a node's region ends at the cursor at which it was left. *)
Theorem C08_cursor_monotone :
  forall (src : text) (t : tnode) (p : pnode),
    patch src t = Ok p ->
    forall n, In n (subnodes p) -> entries_in (p_entry n) (p_re n) (child_nodes (p_ch n)).
Proof. exact cur_cursor_monotone. Qed.
Print Assumptions C08_cursor_monotone.

(* Non-vacuity: a captured run of rope on a five-line module (comments containing brackets and keywords,
   a string containing a keyword and '#', a parenthesised operand, a two-line parenthesised tuple) satisfies
   all hypotheses, has at least 15 nodes, and the model reproduces rope's annotated tree on it. *)
Example C08_domain_inhabited :
  exists p, patch (k_src w_good) (k_tree w_good) = Ok p /\
            spaces_only_at_root (k_tree w_good) = true /\ root_eats_spaces (k_tree w_good) = true /\
            (length (subnodes p) >= 15)%nat.
Proof. exact good_in_domain. Qed.
Print Assumptions C08_domain_inhabited.

Example C08_domain_witness_is_ropes_run : run_case w_good = 0.
Proof. exact w_good_agrees. Qed.
Print Assumptions C08_domain_witness_is_ropes_run.

(* The same statements for every version of the two repaired places, under the explicit hypothesis that no
   node escaped (this is how they were stated while finding C08-left-escape was open). *)
Theorem C08_children_cover_any_version :
  forall (o : options) (src : text) (t : tnode) (p : pnode),
    patch_opt o src t = Ok p -> no_escape p = true ->
    forall n, In n (subnodes p) -> write n = slice src (p_rs n) (p_re n).
Proof. exact children_cover. Qed.
Print Assumptions C08_children_cover_any_version.

Theorem C08_lossless_any_version :
  forall (o : options) (src : text) (t : tnode) (p : pnode),
    patch_opt o src t = Ok p -> no_escape p = true -> root_eats_spaces t = true -> write p = src.
Proof. exact lossless. Qed.
Print Assumptions C08_lossless_any_version.

(* Refutation for the walker as it was before ed573d7: the faithful model of that code is not lossless.
   Witness: the template tree rope builds for   x = f("#", (a).b)   (replay corpus/C08/left-escape.json
   fails again on rope if the repair is reverted). *)
Theorem C08_lossless_refuted_original :
  exists (src : text) (t : tnode) (p : pnode),
    patch_original src t = Ok p /\ spaces_only_at_root t = true /\ root_eats_spaces t = true /\
    write p <> src /\ no_escape p = false.
Proof. exact escape_not_lossless_original. Qed.
Print Assumptions C08_lossless_refuted_original.

(* ... and the current code on the same witness, which is also rope's own run on it. *)
Example C08_current_on_refutation_witness :
  exists p, patch (k_src w_escape) (k_tree w_escape) = Ok p /\
            spaces_only_at_root (k_tree w_escape) = true /\ root_eats_spaces (k_tree w_escape) = true /\
            no_escape p = true /\ write p = k_src w_escape.
Proof. exact escape_witness_current. Qed.
Print Assumptions C08_current_on_refutation_witness.

Example C08_refutation_witness_is_ropes_run : run_case w_escape = 0.
Proof. exact w_escape_agrees. Qed.
Print Assumptions C08_refutation_witness_is_ropes_run.


(* ---------------------------------------------------------------------------------------------------------------
   Regions are exact.  [template_of] is the template table of the _<NodeType> methods transcribed for a core of
   the syntax (Fragment.v; compared on every run with the templates captured from the walker, Runner.template_ok).
   For the expression core  name | e.attr | f(args) | l op r  printed with ARBITRARY layout between any two tokens
   (blanks, newlines, comments containing anything: brackets, quotes, keywords, the token searched for), inside a
   module  layout expr layout : annotation succeeds and yields exactly [annot_module]: every node's region is the
   extent of its own text without any surrounding layout (= CPython's span: no parentheses occur in this core),
   its sorted_children are its tokens, its children and the layout between them.  Holds for every version [o]. *)
Theorem C08_exact_fragment :
  forall (o : options) (t0 : trivia) (c : cexpr) (t1 : trivia),
    trivia_ok t0 = true -> cexpr_ok c = true -> trivia_ok t1 = true ->
    patch_opt o (render_module t0 c t1) (template_of (ast_module c)) = Ok (annot_module t0 c t1).
Proof. exact exact_module. Qed.
Print Assumptions C08_exact_fragment.

(* what [annot] says about regions, spelled out: start, end, and the region text is the construct's own text *)
Theorem C08_exact_fragment_regions :
  forall (c : cexpr) (entry start : N),
    p_rs (annot entry start c) = start /\
    p_re (annot entry start c) = start + lenN (rend c) /\
    write (annot entry start c) = rend c.
Proof. exact annot_region. Qed.
Print Assumptions C08_exact_fragment_regions.

(* The key lemma (_good_token / _skip_comment are right): a token that starts with a visible character other
   than '#' and is preceded by layout only is found exactly where it is, whatever the comments contain. *)
Theorem C08_token_found_behind_layout :
  forall (tr : trivia) (tok X : text) (off : N),
    trivia_ok tr = true -> tok_ok tok = true ->
    consume tok (mkcur off (render_tr tr ++ tok ++ X))
    = Ok (off + lenN (render_tr tr), off + lenN (render_tr tr) + lenN tok,
          mkcur (off + lenN (render_tr tr) + lenN tok) X).
Proof. exact consume_trivia. Qed.
Print Assumptions C08_token_found_behind_layout.

(* Non-vacuity, and the tie to the code: for the text
       # top (
       f ( a . b # c )
         , x ) + y  # end
   the hypotheses hold, the text is [render_module] of a concrete tree, CPython's ast of it is [ast_module] of
   that tree, and what rope computed on it (captured) is literally [annot_module] of it. *)
Example C08_exact_fragment_witness_is_ropes_run :
  trivia_ok frag_t0 = true /\ cexpr_ok frag_c = true /\ trivia_ok frag_t1 = true /\
  render_module frag_t0 frag_c frag_t1 = k_src w_frag /\
  k_ast w_frag = Some (ast_module frag_c) /\
  k_rope w_frag = Ok (annot_module frag_t0 frag_c frag_t1) /\
  run_case w_frag = 0.
Proof. exact frag_is_ropes_run. Qed.
Print Assumptions C08_exact_fragment_witness_is_ropes_run.
