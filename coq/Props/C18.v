(* Property C18 — theorems only. Each is closed by [exact] and followed by Print Assumptions.

   Vocabulary (coq/C18/Persist.v): a [disk] gives each of the files rope writes under .ropeproject at
   close either no content or bytes; [save_steps ws] is the program-order list of opens, byte appends and
   closes of the writes [ws] performed by Project.close; [crash_state prog d0 d]: [d] is the disk after some
   prefix of some schedule of [prog] that buffering allows (each file sees its own steps in program order),
   starting from [d0]; [read_data unpickle catches] is _DataFiles.read_data with the exception clauses
   [catches]; [good_write unpickle w]: the pickle bytes of [w] decode to its value, and every non-empty
   strict prefix of them makes pickle.load raise EOFError or UnpicklingError (validated against the real
   pickle module on every case by the harness). [unpickle] is universally quantified. *)
From Coq Require Import List NArith ZArith Bool.
From RopeVerif.Lib Require Import Text.
From RopeVerif.C18 Require Import Persist Table PersistProofs Witness.
Import ListNotations.

(* With a reader that survives both EOFError and UnpicklingError (the proposed repair), whatever bytes of
   whatever files had reached the disk when the process died, each data file reads as the previous
   version, as "no data", or as a complete version written by this save: never [Raised], never a
   mixture. All values, all sizes, all crash points, any number of writes. *)
Theorem C18_reader_total :
  forall (unpickle : bytes -> load) (catches : exn -> bool),
    unpickle [] = Eof -> catches ExEOF = true -> catches ExUnpickling = true ->
    forall (ws : list write) (d0 d : disk) (f : dfile) (vold : pval),
      Forall (good_write unpickle) ws ->
      read_data unpickle catches d0 f = Loaded vold ->
      crash_state (save_steps ws) d0 d ->
      read_data unpickle catches d f = Loaded vold
      \/ read_data unpickle catches d f = Loaded PNone
      \/ exists v, written f ws v /\ read_data unpickle catches d f = Loaded v.
Proof. exact reader_total_old. Qed.
Print Assumptions C18_reader_total.

(* Asking the reopened project for its history succeeds in every crash state and yields the previous
   history, the empty one, or exactly what History.write saved (after its trimming to max_undos). *)
Theorem C18_history_usable :
  forall (unpickle : bytes -> load) (catches : exn -> bool) (ws : list write) (d0 d : disk)
         (undo0 redo0 : list chg),
    unpickle [] = Eof -> repaired catches ->
    Forall (good_write unpickle) ws ->
    (forall w, In w ws -> w_file w = History ->
               exists m undo redo, w_val w = history_write_val m undo redo) ->
    load_history (read_data unpickle catches d0 History) = HOk undo0 redo0 ->
    crash_state (save_steps ws) d0 d ->
    let h := load_history (read_data unpickle catches d History) in
    h = HOk undo0 redo0 \/ h = HOk [] []
    \/ exists w m undo redo, In w ws /\ w_file w = History /\ w_val w = history_write_val m undo redo
                             /\ h = HOk (trim m undo) redo.
Proof. exact history_usable. Qed.
Print Assumptions C18_history_usable.

(* The object db loaded by MemoryDB in every crash state is the previous one, the empty one or the
   written one, and has the shape its users index into. *)
Theorem C18_objectdb_usable :
  forall (unpickle : bytes -> load) (catches : exn -> bool) (ws : list write) (d0 d : disk) (v0 : pval),
    unpickle [] = Eof -> repaired catches ->
    Forall (good_write unpickle) ws ->
    (forall w, In w ws -> w_file w = Objectdb -> files_ok (w_val w) = true) ->
    load_files (read_data unpickle catches d0 Objectdb) = OOk v0 -> files_ok v0 = true ->
    crash_state (save_steps ws) d0 d ->
    exists v, load_files (read_data unpickle catches d Objectdb) = OOk v /\ files_ok v = true
              /\ (v = v0 \/ v = PDict [] \/ written Objectdb ws v).
Proof. exact objectdb_usable. Qed.
Print Assumptions C18_objectdb_usable.

(* The same for the third data file, "globalnames" of the pickle-based contrib.autoimport. *)
Theorem C18_globalnames_usable :
  forall (unpickle : bytes -> load) (catches : exn -> bool) (ws : list write) (d0 d : disk) (v0 : pval),
    unpickle [] = Eof -> repaired catches ->
    Forall (good_write unpickle) ws ->
    (forall w, In w ws -> w_file w = Globalnames -> names_ok (w_val w) = true) ->
    load_names (read_data unpickle catches d0 Globalnames) = OOk v0 -> names_ok v0 = true ->
    crash_state (save_steps ws) d0 d ->
    exists v, load_names (read_data unpickle catches d Globalnames) = OOk v /\ names_ok v = true
              /\ (v = v0 \/ v = PDict [] \/ written Globalnames ws v).
Proof. exact globalnames_usable. Qed.
Print Assumptions C18_globalnames_usable.

(* Any number of sessions: every save may be interrupted anywhere (or complete), the next one starts from the
   disk that was left. Each data file still reads as the initial version, as no data, or as a complete version
   written by one of the saves. *)
Theorem C18_sessions_reader_total :
  forall (unpickle : bytes -> load) (catches : exn -> bool),
    unpickle [] = Eof -> catches ExEOF = true -> catches ExUnpickling = true ->
    forall (d0 : disk) (W : list write) (d : disk) (f : dfile) (v0 : pval),
      evolves unpickle d0 W d ->
      read_data unpickle catches d0 f = Loaded v0 ->
      read_data unpickle catches d f = Loaded v0
      \/ read_data unpickle catches d f = Loaded PNone
      \/ exists v, written f W v /\ read_data unpickle catches d f = Loaded v.
Proof. exact sessions_reader_total. Qed.
Print Assumptions C18_sessions_reader_total.

(* The .json side files are written but never read: disks that agree on the two pickles open alike
   (and none of the theorems above constrains the side files' bytes or their state in [d0]). *)
Theorem C18_json_side_file_irrelevant :
  forall (unpickle : bytes -> load) (catches : exn -> bool) (d d' : disk),
    (forall f, d (P f) = d' (P f)) ->
    load_history (read_data unpickle catches d History) = load_history (read_data unpickle catches d' History)
    /\ load_files (read_data unpickle catches d Objectdb) = load_files (read_data unpickle catches d' Objectdb).
Proof. exact json_side_file_irrelevant_consumers. Qed.
Print Assumptions C18_json_side_file_irrelevant.

(* A save that runs to completion is read back as written (any reader that survives EOFError). *)
Theorem C18_complete_save_loads_new :
  forall (unpickle : bytes -> load) (catches : exn -> bool),
    unpickle [] = Eof ->
    forall (ws : list write) (d0 : disk) (f : dfile),
      catches ExEOF = true ->
      Forall (good_write unpickle) ws ->
      (exists w, In w ws /\ w_file w = f) ->
      exists v, written f ws v /\ read_data unpickle catches (run (save_steps ws) d0) f = Loaded v.
Proof. exact complete_save_loads_new. Qed.
Print Assumptions C18_complete_save_loads_new.

(* The crash set of the model is not too small: while write number |ws1| is in progress, every pair of
   byte prefixes (np of the pickle, nj of the side file) is the disk of a crash state. *)
Theorem C18_every_byte_prefix_is_a_crash_state :
  forall (ws1 : list write) (w : write) (ws2 : list write) (np nj : nat) (d0 : disk),
    crash_state (save_steps (ws1 ++ w :: ws2)) d0 (run (save_steps ws1 ++ partial_write w np nj) d0)
    /\ run (partial_write w np nj) (run (save_steps ws1) d0) (P (w_file w)) = Some (firstn np (w_pickle w))
    /\ run (partial_write w np nj) (run (save_steps ws1) d0) (J (w_file w)) = Some (firstn nj (w_json w)).
Proof.
  exact (fun ws1 w ws2 np nj d0 =>
           conj (every_prefix_is_crash_state ws1 w ws2 np nj d0)
                (partial_write_content w np nj (run (save_steps ws1) d0))).
Qed.
Print Assumptions C18_every_byte_prefix_is_a_crash_state.

(* The writer the tracer observes (per file: truncating open, writes of chunks, close, in program order): the
   disk it produces when every write takes effect at once is the run of its translation into steps. The runner
   checks that this translation IS save_steps, so the model's program is the traced program. *)
Theorem C18_trace_simulation :
  forall (t : list tev) (s : list step) (d : disk),
    trace_steps t = Some s -> forall x, exec_trace t d x = run s d x.
Proof. exact trace_simulation. Qed.
Print Assumptions C18_trace_simulation.

(* The states exact buffering can leave ([delays]: a byte is postponed past steps on other files only) lie
   between: each is a crash state of the theorems (not too large to matter), and every byte prefix of the write
   in progress is one of them (not too small). *)
Theorem C18_buffered_crash_states_are_crash_states :
  forall prog d0 d, buffered_crash_state prog d0 d -> crash_state prog d0 d.
Proof. exact buffered_is_crash_state. Qed.
Print Assumptions C18_buffered_crash_states_are_crash_states.

Theorem C18_every_byte_prefix_is_a_buffered_crash_state :
  forall (ws1 : list write) (w : write) (ws2 : list write) (np nj : nat) (d0 : disk),
    buffered_crash_state (save_steps (ws1 ++ w :: ws2)) d0 (run (save_steps ws1 ++ partial_write w np nj) d0).
Proof. exact every_prefix_is_buffered_crash_state. Qed.
Print Assumptions C18_every_byte_prefix_is_a_buffered_crash_state.

(* Buffering - a byte reaches the disk later than in program order, postponed past steps on other files
   but never past a step on its own file - only produces schedules: the theorems above cover it all. *)
Theorem C18_buffered_orders_are_schedules :
  forall prog l, delays prog l -> schedule_of prog l.
Proof. exact delays_schedule. Qed.
Print Assumptions C18_buffered_orders_are_schedules.

Example C18_delays_example :
  delays [Append (P History) 1%N; Append (J History) 2%N; Close (J History); Close (P History)]
         [Append (J History) 2%N; Close (J History); Append (P History) 1%N; Close (P History)].
Proof. exact delays_example. Qed.
Print Assumptions C18_delays_example.

(* The reader as it stands in rope (except EOFError only): C18_reader_total is false for it ... *)
Theorem C18_truncated_pickle_refuted :
  exists (unpickle : bytes -> load) (ws : list write) (d0 d : disk),
    unpickle [] = Eof /\ Forall (good_write unpickle) ws
    /\ crash_state (save_steps ws) d0 d
    /\ read_data unpickle catches_current d0 History = Loaded PNone
    /\ read_data unpickle catches_current d History = Raised ExUnpickling
    /\ load_history (read_data unpickle catches_current d History) = HRaised ExUnpickling.
Proof. exact truncated_pickle_refuted. Qed.
Print Assumptions C18_truncated_pickle_refuted.

(* ... and this is its only failure: UnpicklingError, exactly when the file under write holds a non-empty
   strict prefix of the new pickle that ends inside an opcode (the signature of the known finding). *)
Theorem C18_current_reader_partial :
  forall (unpickle : bytes -> load) (catches : exn -> bool),
    unpickle [] = Eof ->
    forall (ws : list write) (d0 d : disk) (f : dfile),
      catches ExEOF = true -> catches ExUnpickling = false ->
      Forall (good_write unpickle) ws ->
      crash_state (save_steps ws) d0 d ->
      read_data unpickle catches d f = read_data unpickle catches d0 f
      \/ read_data unpickle catches d f = Loaded PNone
      \/ (exists v, written f ws v /\ read_data unpickle catches d f = Loaded v)
      \/ (read_data unpickle catches d f = Raised ExUnpickling
          /\ exists w b, In w ws /\ w_file w = f /\ d (P f) = Some b /\ b <> []
                         /\ strict_prefix b (w_pickle w) /\ unpickle b = Corrupt).
Proof. exact reader_current. Qed.
Print Assumptions C18_current_reader_partial.

(* The laws assumed of [unpickle] hold for the table instance whenever the boolean check evaluated by the
   runner on every case says so (so the hypotheses of the theorems are discharged by computation there). *)
Theorem C18_table_instance_laws :
  forall (tbl : list tentry) (e : tentry),
    good_pickleb tbl e = true ->
    tbl_unpickle tbl [] = Eof /\ good_pickle (tbl_unpickle tbl) (t_val e) (t_bytes e).
Proof. exact (fun tbl e H => conj (tbl_unpickle_empty tbl) (good_pickleb_sound tbl e H)). Qed.
Print Assumptions C18_table_instance_laws.

(* The fuel that makes DataToChange's model structurally recursive always suffices: on a loaded value of any
   shape the history consumer yields a history or one of Python's exceptions, never the artefact ExFuel. *)
Theorem C18_history_consumer_fuel_suffices :
  forall v : pval, load_history (Loaded v) <> HRaised ExFuel.
Proof. exact load_history_no_fuel. Qed.
Print Assumptions C18_history_consumer_fuel_suffices.

(* Non-vacuity *)
Example C18_hypotheses_satisfiable :
  exists (unpickle : bytes -> load) (ws : list write) (d0 d : disk),
    unpickle [] = Eof /\ repaired catches_repaired /\ Forall (good_write unpickle) ws
    /\ crash_state (save_steps ws) d0 d
    /\ d (P History) = Some [128; 2; 93; 113]%N
    /\ read_data unpickle catches_repaired d History = Loaded PNone
    /\ load_history (read_data unpickle catches_repaired (run (save_steps ws) d0) History) = HOk [] [].
Proof. exact hypotheses_satisfiable. Qed.
Print Assumptions C18_hypotheses_satisfiable.

Example C18_history_roundtrip_example :
  load_history (Loaded (history_write_val 1 [CMove (PStr [97]%N) (PStr [98]%N) false; ex_change] [ex_change]))
  = HOk [ex_change] [ex_change].
Proof. exact history_roundtrip_example. Qed.
Print Assumptions C18_history_roundtrip_example.

Example C18_files_ok_example : files_ok ex_files = true /\ load_files (Loaded ex_files) = OOk ex_files.
Proof. exact files_ok_example. Qed.
Print Assumptions C18_files_ok_example.

Example C18_sessions_example :
  evolves (tbl_unpickle wit_tbl) no_files (([] ++ [wit_write]) ++ [wit_write]) (run (save_steps [wit_write]) wit_disk)
  /\ read_data (tbl_unpickle wit_tbl) catches_repaired (run (save_steps [wit_write]) wit_disk) History = Loaded wit_val.
Proof. exact sessions_example. Qed.
Print Assumptions C18_sessions_example.

(* Outside the property's quantifier (no crash state holds a complete pickle of something else, by
   C18_reader_total), recorded for the manifest: on a complete pickle of a foreign value the history consumer
   raises TypeError / KeyError / IndexError / AttributeError depending on its shape, the dict consumers
   (MemoryDB, AutoImport) take anything. *)
Example C18_foreign_values_example :
  load_history (Loaded (PInt 5)) = HRaised ExType
  /\ load_history (Loaded (PDict [])) = HRaised ExKey
  /\ load_history (Loaded (PStr [])) = HRaised ExIndex
  /\ load_history (Loaded (PStr [97; 98]%N)) = HRaised ExAttribute
  /\ load_history (Loaded (PDict [(PInt 0, PList []); (PBool true, PTuple [])])) = HOk [] []
  /\ load_files (Loaded (PInt 5)) = OOk (PInt 5).
Proof. exact foreign_values_example. Qed.
Print Assumptions C18_foreign_values_example.

Example C18_names_ok_example : names_ok ex_names = true /\ load_names (Loaded ex_names) = OOk ex_names.
Proof. exact names_ok_example. Qed.
Print Assumptions C18_names_ok_example.

Example C18_trace_example :
  trace_steps [TOpen (P History) true; TWrite (P History) [1; 2]%N; TClose (P History)]
  = Some [OpenTrunc (P History); Append (P History) 1%N; Append (P History) 2%N; Close (P History)].
Proof. exact trace_example. Qed.
Print Assumptions C18_trace_example.
