(* Property C13 — a long-lived project answers like a freshly opened one.  Theorems only. *)
From stdpp Require Import gmap list sets.
From Coq Require Import NArith.
From RopeVerif.C13 Require Import Observer PathProofs ObserverProofs WitnessProofs AutoImport AutoImportProofs.

(* ================================================================================================
   HEADLINE THEOREMS — the code as it is now.  The two defects this check found (a concluded import
   resolution surviving a creation/move/removal; a folder move raising half-way) were fixed in /repo by
   commits b19aaa7 and d932e8e; the model variant fix_move = fix_forget = true ([code_cfg]) is the code's
   behaviour and is what the correspondence run compares rope with on every run.  For it the property
   holds at full strength.  The only hypothesis left is the one the property text itself makes about
   changes behind rope's back, stated precisely by [ext_ok] / [ext_sound]: the batch is confined to the
   folder that is validated afterwards, and every modification of a watched resource changes at least
   one component of the (modification time, size) indicator rope stored for it ([ind_sound]; DESIGN's
   indicator_sound).  Steps through rope and queries need nothing. *)

(* Every step — a primitive change through rope, any changes behind rope's back followed by
   project.validate(), any cache-filling query — preserves [Coherent]: every cached module is the parse of
   the file on disk and is watched with a current indicator, a cached package's child list is the
   folder's, the cached file list is the file list, no stored indicator is out of date, and every concluded
   ImportedModule cell is what find_module answers now. *)
Theorem C13_coherent_inv_fixed :
  forall s o, fix_move (cfg s) = true -> fix_forget (cfg s) = true -> ext_ok s o ->
              Coherent s -> Coherent (step s o).
Proof. exact coherent_inv_fixed. Qed.
Print Assumptions C13_coherent_inv_fixed.

(* After ANY history from a freshly opened project, with queries interleaved anywhere, every modelled
   query is answered as by a brand-new project opened on the same directory. *)
Theorem C13_history_agrees_fixed :
  forall d c ops q, fix_move c = true -> fix_forget c = true -> wf_disk d -> ext_sound (init d c) ops ->
    (run_query (run (init d c) ops) q).2 = (run_query (fresh (run (init d c) ops)) q).2.
Proof. exact history_agrees_fixed. Qed.
Print Assumptions C13_history_agrees_fixed.

(* the same, instantiated with the configuration of the current code *)
Theorem C13_history_agrees_current_code :
  forall d soa_pref ops q, wf_disk d -> ext_sound (init d (code_cfg soa_pref)) ops ->
    (run_query (run (init d (code_cfg soa_pref)) ops) q).2
    = (run_query (fresh (run (init d (code_cfg soa_pref)) ops)) q).2.
Proof. exact code_history_agrees. Qed.
Print Assumptions C13_history_agrees_current_code.

(* ================================================================================================
   Theorems that hold for every variant of the code (with or without the fixes). *)

(* The cache layers stay coherent with the directory tree under EVERY step: a primitive change made
   through rope (write / create / move / remove, with FilteredResourceObserver's exact event translation
   and automatic_soa's reload), any sequence of changes made behind rope's back followed by
   project.validate(), and every cache-filling query.  CacheCoherent = every cached module is the parse
   of the file now on disk and is watched with a current indicator (a cached package's child list is
   the folder's), the cached file list is the file list, no stored indicator is out of date, concluded
   cells only point to cached modules.  The only excluded step is the one on which rope itself raises
   (C13_folder_move_raises_refuted). *)
Theorem C13_cache_coherent_inv :
  forall s o, CacheCoherent s -> raises s o = false -> ext_ok s o -> CacheCoherent (step s o).
Proof. exact cache_coherent_inv. Qed.
Print Assumptions C13_cache_coherent_inv.

(* DOCUMENTATION OF THE FIXED DEFECTS.  For the code as found (variant fix_move = fix_forget = false) the
   full-strength statement  forall s o, Coherent s -> Coherent (step s o)  is false
   (C13_shadowing_creation_refuted, C13_folder_move_raises_refuted below); what holds for every variant
   excludes exactly the two defect shapes: the step makes rope raise, or it changes find_module's answer
   under a concluded cell that survives it.  With the fixes both hypotheses are theorems
   (raises_fixed, resolution_unaffected_fixed), which is how C13_coherent_inv_fixed is obtained. *)
Theorem C13_coherent_inv_partial :
  forall s o, Coherent s -> raises s o = false -> ext_ok s o -> resolution_unaffected s o ->
              Coherent (step s o).
Proof. exact coherent_inv_partial. Qed.
Print Assumptions C13_coherent_inv_partial.

(* In a coherent state every modelled query (file list, module source, resolution of an imported name,
   children of a package) is answered as by a brand-new project on the same directory. *)
Theorem C13_query_agrees :
  forall s q, Coherent s -> (run_query s q).2 = (run_query (fresh s) q).2.
Proof. exact query_agrees. Qed.
Print Assumptions C13_query_agrees.

(* The queries that do not go through module lookup need cache coherence only. *)
Theorem C13_cache_query_agrees :
  forall s q, CacheCoherent s -> lookup_free q = true -> (run_query s q).2 = (run_query (fresh s) q).2.
Proof. exact cache_query_agrees. Qed.
Print Assumptions C13_cache_query_agrees.

(* project.validate(f) catches up with ANY sequence of writes, creations, removals and moves made behind
   rope's back below the folder f (f = [] is project.validate()), provided [ind_sound]: a watched resource
   whose current (mtime, size) indicator equals the stored one has not been modified — i.e. every
   modification of a watched resource changed its modification time or its size.  The indicator is modelled
   as that pair; modification times come from a logical clock; a rewrite may keep the old time. *)
Theorem C13_validate_catches_up :
  forall f s xs, CacheCoherent s -> forallb (xunder f) xs = true -> ind_sound s (foldl xstep s xs) ->
                 CacheCoherent (validate_in f (foldl xstep s xs)).
Proof. exact validate_catches_up. Qed.
Print Assumptions C13_validate_catches_up.

(* The same when queries are interleaved with the changes before validate is called (an IDE keeps asking while
   files change under it; the answers in between may be out of date): provided each modification is visible
   in the indicators ([x_sound]: it never brings a watched resource's (mtime, size) to the stored value
   unless nothing changed), project.validate() re-establishes coherence.  [Pending] is the invariant of the
   phase; validate(f) works from any [Pending] state in which everything out of date lies below f. *)
Theorem C13_validate_after_queries :
  forall s ps, CacheCoherent s -> pend_sound s ps -> CacheCoherent (validate (foldl pend_step s ps)).
Proof. exact validate_after_queries. Qed.
Print Assumptions C13_validate_after_queries.

Theorem C13_validate_pending :
  forall f s, Pending s ->
    (forall r i, watched s !! r = Some (Some i) -> stampw s r <> Some i -> inside f r = true) ->
    CacheCoherent (validate_in f s).
Proof. exact validate_pending. Qed.
Print Assumptions C13_validate_pending.

(* non-vacuity, and the history of seeded mutation C13-6 inside the model: a watched module is deleted
   (indicator None), re-created and asked for before validate (cached again, indicator taken), edited again;
   the state before validate is not coherent, the one after it is, and the module answers its last text *)
Example C13_example_pending :
  Coherent wit4 /\ watched wit4 !! [1%N] = Some None /\ pend_sound wit4 wit4_ps
  /\ is_Some (mods (foldl pend_step wit4 wit4_ps) !! [1%N])
  /\ ~ CacheCoherent (foldl pend_step wit4 wit4_ps)
  /\ Coherent (validate (foldl pend_step wit4 wit4_ps))
  /\ (run_query (validate (foldl pend_step wit4 wit4_ps)) (QLoad [1%N])).2
     = ALoad (Some (Some (Content 4 true [] 12))).
Proof. exact pending_example. Qed.
Print Assumptions C13_example_pending.

(* [ind_sound] cannot be dropped: a rewrite that keeps both components is invisible (rope's design) ... *)
Theorem C13_validate_needs_indicator_sound_refuted :
  exists s xs, Coherent s /\ forallb (xunder []) xs = true /\ ~ ind_sound s (foldl xstep s xs)
               /\ ~ CacheCoherent (validate (foldl xstep s xs)).
Proof. exact validate_needs_indicator_sound_refuted. Qed.
Print Assumptions C13_validate_needs_indicator_sound_refuted.

(* ... and the size component is needed: with the weaker indicator "modification time only" (model variant
   ind_size = false; no version of the code, but the mechanism of seeded mutation C13-1) a rewrite that
   keeps the time and changes the size — visible in the pair — leaves a stale module cached after
   validate, and the long-lived project answers differently from a brand-new one. *)
Theorem C13_mtime_only_indicator_refuted :
  exists s xs, ind_size (cfg s) = false /\ Coherent s /\ forallb (xunder []) xs = true
               /\ pair_sound s (foldl xstep s xs)
               /\ ~ CacheCoherent (validate (foldl xstep s xs))
               /\ (run_query (validate (foldl xstep s xs)) (QLoad [1%N])).2
                  <> (run_query (fresh (validate (foldl xstep s xs))) (QLoad [1%N])).2.
Proof. exact mtime_only_indicator_refuted. Qed.
Print Assumptions C13_mtime_only_indicator_refuted.

Example C13_example_pair_indicator :
  Coherent (wit3 true) /\ ext_ok (wit3 true) (OExternal [] wit3_xs)
  /\ Coherent (step (wit3 true) (OExternal [] wit3_xs))
  /\ mods (step (wit3 true) (OExternal [] wit3_xs)) = ∅.
Proof. exact pair_indicator_example. Qed.
Print Assumptions C13_example_pair_indicator.

(* Whole histories from a freshly opened project, queries interleaved anywhere. *)
Theorem C13_history_agrees :
  forall d c ops q, wf_disk d -> admissible (init d c) ops ->
    (run_query (run (init d c) ops) q).2 = (run_query (fresh (run (init d c) ops)) q).2.
Proof. exact history_agrees. Qed.
Print Assumptions C13_history_agrees.

Theorem C13_history_cache_agrees :
  forall d c ops q, wf_disk d -> no_raise (init d c) ops -> lookup_free q = true ->
    (run_query (run (init d c) ops) q).2 = (run_query (fresh (run (init d c) ops)) q).2.
Proof. exact history_cache_agrees. Qed.
Print Assumptions C13_history_cache_agrees.

(* Change sets, refactorings, undo and redo reach the caches as sequences of primitive events. *)
Theorem C13_undo_redo_coherent :
  forall s xs, CacheCoherent s -> no_raise s (map ORope xs) -> CacheCoherent (run s (map ORope xs)).
Proof. exact primitives_cache_coherent. Qed.
Print Assumptions C13_undo_redo_coherent.

(* FIXED DEFECTS, kept as documentation: both witnesses use the variant without the fixes ([cfg0]); their
   replays are corpus/C13/*.json and must pass on the current code (C13_example_fixed shows the model
   variant with the fixes handles both).

   Defect 1, fixed by b19aaa7 (corpus/C13/shadowing-creation.json is this witness): zm0.py imports zm2, resolved to
   zm1/zm2.py; creating zm2.py at the root through rope touches no watched resource, the concluded cell
   survives, the long-lived project keeps answering zm1/zm2.py where a brand-new one answers zm2.py. *)
Theorem C13_shadowing_creation_refuted :
  exists s o q, Coherent s /\ raises s o = false /\ ~ Coherent (step s o)
                /\ (run_query (step s o) q).2 <> (run_query (fresh (step s o)) q).2.
Proof. exact shadowing_creation_refuted. Qed.
Print Assumptions C13_shadowing_creation_refuted.

(* Defect 2, fixed by d932e8e (corpus/C13/folder-move-raises.json is this witness): a reachable coherent state in which
   moving a folder through rope raises after the tree was changed, leaving cached modules of paths that
   no longer exist. *)
Theorem C13_folder_move_raises_refuted :
  exists ops o, admissible (init ∅ cfg0) ops /\ Coherent (run (init ∅ cfg0) ops)
                /\ raises (run (init ∅ cfg0) ops) o = true
                /\ ~ CacheCoherent (step (run (init ∅ cfg0) ops) o).
Proof. exact folder_move_raises_refuted. Qed.
Print Assumptions C13_folder_move_raises_refuted.

(* Non-vacuity: a 15-step history with a package, its cached child list, a resolved import, an external
   batch + validate, a time-preserving rewrite followed by validate of a sub-folder only, and a folder move
   satisfies the hypotheses of every theorem above (ext_ok included). *)
Example C13_example_history :
  admissible (init ∅ cfg0) ex_ops /\ Coherent (run (init ∅ cfg0) ex_ops)
  /\ size (mods (run (init ∅ cfg0) ex_ops)) = 2
  /\ (run_query (run (init ∅ cfg0) (take 9 ex_ops)) (QResolve [1%N] 1%N)).2 = ATarget (Some (Some [4%N])).
Proof. exact example_history. Qed.
Print Assumptions C13_example_history.

Example C13_example_shadowing :
  Coherent wit_warm /\ CacheCoherent (step wit_warm wit_op)
  /\ (run_query wit_warm (QResolve [1%N] 2%N)).2 = ATarget (Some (Some [4%N; 9%N]))
  /\ (run_query (step wit_warm wit_op) (QResolve [1%N] 2%N)).2 = ATarget (Some (Some [4%N; 9%N]))
  /\ (run_query (fresh (step wit_warm wit_op)) (QResolve [1%N] 2%N)).2 = ATarget (Some (Some [9%N])).
Proof. exact shadowing_creation_example. Qed.
Print Assumptions C13_example_shadowing.

Example C13_example_fixed :
  Coherent (run (init wit_disk cfg_fixed) [OQuery (QResolve [1%N] 2%N); wit_op])
  /\ (run_query (run (init wit_disk cfg_fixed) [OQuery (QResolve [1%N] 2%N); wit_op]) (QResolve [1%N] 2%N)).2
     = ATarget (Some (Some [9%N]))
  /\ raises (run (init ∅ cfg_fixed) wit2_ops) wit2_op = false
  /\ Coherent (run (init ∅ cfg_fixed) (wit2_ops ++ [wit2_op])).
Proof. exact fixed_witnesses. Qed.
Print Assumptions C13_example_fixed.

(* ================================================================================================
   The global-name index of rope.contrib.autoimport (coq/C13/AutoImport.v: the index as a map from modules
   to exported names, with the observer events AutoImport listens to; tied to the sqlite index of a live
   observing AutoImport by the stream C correspondence). *)

(* Every change made through rope keeps the index equal to a brand-new one, except a move or removal of a
   folder below which something is indexed ([ai_ok]); a batch behind rope's back is inside the domain only
   if it does not change what a brand-new index would hold (the index has no validate callback). *)
Theorem C13_autoimport_step_coherent :
  forall s t, ai_coherent s -> ai_ok s t = true -> ai_coherent (ai_step s t).
Proof. exact ai_step_coherent. Qed.
Print Assumptions C13_autoimport_step_coherent.

Theorem C13_autoimport_history_agrees :
  forall d ts, ai_admissible (AIState d (fresh_index d)) ts = true ->
               ai_coherent (foldl ai_step (AIState d (fresh_index d)) ts).
Proof. exact ai_history_agrees. Qed.
Print Assumptions C13_autoimport_history_agrees.

(* the index query of C13_query_agrees: a coherent index answers like a brand-new one *)
Theorem C13_autoimport_query_agrees :
  forall s m, ai_coherent s -> ai_query s m = ai_query (AIState (atree s) (fresh_index (atree s))) m.
Proof. exact ai_query_agrees. Qed.
Print Assumptions C13_autoimport_query_agrees.

(* OPEN finding C13-autoimport-folder-events (findings/C13-autoimport-folder-move.json is this witness): *)
Theorem C13_autoimport_folder_move_refuted :
  exists s t m, ai_coherent s /\ t = SRope (AMove [0%N] [4%N]) /\ ~ ai_coherent (ai_step s t)
                /\ ai_query (ai_step s t) m
                   <> ai_query (AIState (atree (ai_step s t)) (fresh_index (atree (ai_step s t)))) m.
Proof. exact autoimport_folder_move_refuted. Qed.
Print Assumptions C13_autoimport_folder_move_refuted.

Theorem C13_autoimport_folder_remove_refuted :
  exists s, ai_coherent s /\ ~ ai_coherent (ai_step s (SRope (ARemove [0%N]))).
Proof. exact autoimport_folder_remove_refuted. Qed.
Print Assumptions C13_autoimport_folder_remove_refuted.

(* OPEN finding C13-autoimport-no-validate (findings/C13-autoimport-no-validate.json is this witness): *)
Theorem C13_autoimport_no_validate_refuted :
  exists s t, ai_coherent s /\ t = SExternal [AWrite [5%N] [2%N]] /\ ~ ai_coherent (ai_step s t).
Proof. exact autoimport_no_validate_refuted. Qed.
Print Assumptions C13_autoimport_no_validate_refuted.

Example C13_example_autoimport :
  ai_admissible (AIState ∅ (fresh_index ∅)) ai_ex = true
  /\ map_to_list (aidx (foldl ai_step (AIState ∅ (fresh_index ∅)) (take 8 ai_ex))) = [([4%N; 9%N], [3%N])].
Proof. exact ai_example. Qed.
Print Assumptions C13_example_autoimport.
