(* Property C09 -- computing changes is pure; performing them touches only what was announced.
   Theorems only; each is closed by [exact] and followed by Print Assumptions.

   Model: the change algebra and its execution are C10's (RopeVerif.C10.Change.run / history_do /
   history_undo / history_redo over RopeVerif.C10.FsModel); RopeVerif.C09.Footprint adds
   [resources] (Change.get_changed_resources), [footprint] (a reported path or a descendant of one),
   [joined]/[resolve]/[real_path] (Project._get_resource_path followed by what the operating system
   makes of "", "." and ".."), [in_root], [realize root c] (the change acting on real paths of a disk
   tree that also contains what lies beside the project root) and [trun], the run instrumented with
   the trace of file-system primitives attempted (its first component is C10's run: C09_trace_is_run).

   The theorems hold for EVERY variant of ChangeSet's rollback, every nesting fuel, every fault index
   and every stop index, for do and undo, whether the call succeeds, fails, or fails and the rollback
   fails too.

   Not theorems (see manifest.d/C09.json): "computing a change never writes" and "a refactoring request
   that cannot be honoured raises a RopeError subclass" quantify over all of rope's Python code; they are
   decided by monitored execution in harness/c09.py. *)
From stdpp Require Import gmap list.
From Coq Require Import NArith.
From RopeVerif.C10 Require Import FsModel Change ChangeProofs.
From RopeVerif.C09 Require Import Footprint FootprintProofs MainProofs Ignore IgnoreProofs.
From RopeVerif.Lib Require Import Text.

(* Frame: a path that is not a reported resource and not below one has the same node after the call
   as before, in the successful case and in the failing case alike ([res_fs] is the tree of either). *)
Theorem C09_frame :
  forall (v : variant) (f : nat) (js : bool) (k : sched) (d : dir) (c : change) (m : fs) (key : list N),
    footprint c key = false -> res_fs (run v f js k d c m) !! key = m !! key.
Proof. exact run_frame. Qed.
Print Assumptions C09_frame.

(* ... through Project.do / History.undo() / History.redo() *)
Theorem C09_frame_history_do :
  forall (v : variant) (f : nat) (c : change) (s : hist) (k : sched) (key : list N),
    footprint c key = false -> hres_fs (history_do v f c s k) !! key = h_fs s !! key.
Proof. exact history_do_frame. Qed.
Print Assumptions C09_frame_history_do.

Theorem C09_frame_history_undo :
  forall (v : variant) (f : nat) (s : hist) (k : sched) (key : list N),
    (forall c, last_change (h_undo s) = Some c -> footprint c key = false) ->
    hres_fs (history_undo v f s k) !! key = h_fs s !! key.
Proof. exact history_undo_frame. Qed.
Print Assumptions C09_frame_history_undo.

Theorem C09_frame_history_redo :
  forall (v : variant) (f : nat) (s : hist) (k : sched) (key : list N),
    (forall c, last_change (h_redo s) = Some c -> footprint c key = false) ->
    hres_fs (history_redo v f s k) !! key = h_fs s !! key.
Proof. exact history_redo_frame. Qed.
Print Assumptions C09_frame_history_redo.

(* Contrapositive: whatever differs after the call is announced.  (The converse is NOT claimed: a
   change set may list a file whose new contents equal the old ones.) *)
Theorem C09_footprint_exact :
  forall (v : variant) (f : nat) (js : bool) (k : sched) (d : dir) (c : change) (m : fs) (key : list N),
    res_fs (run v f js k d c m) !! key <> m !! key -> footprint c key = true.
Proof. exact run_footprint_exact. Qed.
Print Assumptions C09_footprint_exact.

(* The change object kept in the history after a successful do (old contents captured) announces the
   same footprint: undo and redo are covered by what was announced before do. *)
Theorem C09_done_change_same_footprint :
  forall (v : variant) (f : nat) (js : bool) (k : sched) (d : dir) (c : change) (m m' : fs) (k' : sched)
         (c' : change),
    run v f js k d c m = Ok m' k' c' -> forall key, footprint c' key = footprint c key.
Proof. exact run_same_footprint. Qed.
Print Assumptions C09_done_change_same_footprint.

(* ... hence undoing / redoing a performed change later (any tree, any schedule, any variant) touches only
   what was announced before it was performed. *)
Theorem C09_frame_undo_of_done :
  forall (v : variant) (f : nat) (js : bool) (k : sched) (d : dir) (c : change) (m m' : fs) (k' : sched)
         (c' : change) (v2 : variant) (f2 : nat) (js2 : bool) (k2 : sched) (d2 : dir) (m2 : fs) (key : list N),
    run v f js k d c m = Ok m' k' c' -> footprint c key = false ->
    res_fs (run v2 f2 js2 k2 d2 c' m2) !! key = m2 !! key.
Proof. exact run_frame_of_done. Qed.
Print Assumptions C09_frame_undo_of_done.

(* The join lemma: below a root without special segments, a resource path without special segments
   ("", ".", "..") is opened at exactly root/path. *)
Theorem C09_real_path_in_root :
  forall root p : list N, in_root root = true -> in_root p = true -> real_path root p = root ++ p.
Proof. exact real_path_in_root. Qed.
Print Assumptions C09_real_path_in_root.

(* Confinement: if every resource of the change is in_root, nothing outside the project root changes,
   whatever happens ... *)
Theorem C09_confined :
  forall (v : variant) (f : nat) (js : bool) (k : sched) (d : dir) (root : list N) (c : change) (m : fs)
         (key : list N),
    in_root root = true -> all_in_root c = true -> is_prefix root key = false ->
    res_fs (run v f js k d (realize root c) m) !! key = m !! key.
Proof. exact run_confined. Qed.
Print Assumptions C09_confined.

(* ... and every file-system primitive attempted (forward phase and rollback) is called on a path
   below the project root. *)
Theorem C09_confined_trace :
  forall (v : variant) (f : nat) (js : bool) (k : sched) (d : dir) (root : list N) (c : change) (m : fs),
    in_root root = true -> all_in_root c = true ->
    Forall (ev_below root) (snd (trun v f js k d (realize root c) m)).
Proof. exact trace_confined. Qed.
Print Assumptions C09_confined_trace.

(* ".." is the only way out: with "" and "." segments (aliases) the tree outside the root is still
   untouched *)
Theorem C09_confined_no_up :
  forall (v : variant) (f : nat) (js : bool) (k : sched) (d : dir) (root : list N) (c : change) (m : fs)
         (key : list N),
    in_root root = true -> forallb no_up (resources c) = true -> is_prefix root key = false ->
    res_fs (run v f js k d (realize root c) m) !! key = m !! key.
Proof. exact run_confined_no_up. Qed.
Print Assumptions C09_confined_no_up.

(* The instrumented run is C10's run, and its trace only mentions reported resources. *)
Theorem C09_trace_is_run :
  forall (v : variant) (f : nat) (js : bool) (k : sched) (d : dir) (c : change) (m : fs),
    fst (trun v f js k d c m) = run v f js k d c m.
Proof. exact trun_run. Qed.
Print Assumptions C09_trace_is_run.

Theorem C09_trace_in_resources :
  forall (v : variant) (f : nat) (js : bool) (k : sched) (d : dir) (c : change) (m : fs),
    Forall (ev_in (resources c)) (snd (trun v f js k d c m)).
Proof. exact trace_in_resources. Qed.
Print Assumptions C09_trace_in_resources.

(* A successful perform attempts exactly the primitives of its leaf changes, in order: one read and one
   write per ChangeContents, one move / create / remove per MoveResource / CreateResource / RemoveResource. *)
Theorem C09_trace_exact :
  forall (v : variant) (f : nat) (js : bool) (k : sched) (c : change) (m m' : fs) (k' : sched) (c' : change),
    fst (trun v f js k Do c m) = Ok m' k' c' -> snd (trun v f js k Do c m) = expected_events c.
Proof. exact trun_trace_ok. Qed.
Print Assumptions C09_trace_exact.

(* A refused or failed Project.do leaves tree and history exactly as before (C10's atomicity for the
   code with the two C10 repairs, which /repo has), for a change performed through its real paths. *)
Theorem C09_refusal_pure :
  forall (f : nat) (root : list N) (c : change) (s : hist) (k : sched) (s' : hist) (k' : sched) (x : err),
    wf_fs (h_fs s) ->
    history_do repaired f (realize root c) s k = HErr s' k' x ->
    irrev k' = false -> single_failure k x ->
    h_fs s' = h_fs s /\ h_undo s' = h_undo s /\ h_redo s' = h_redo s.
Proof. exact refusal_pure. Qed.
Print Assumptions C09_refusal_pure.

(* Error kinds: the finite table from the error classes of the model to Python classes; exactly the
   injected fault, the operating system's own OSError, NotImplementedError (RemoveResource.undo, C10's
   open finding) and the two model artefacts are not RopeError subclasses. *)
Theorem C09_error_kinds :
  forall c : ecls,
    is_rope_error (cls_of c) =
    match c with
    | Exists | NoParent | NotDone | Interrupted | HistEmpty => true
    | Fault | OsErr | NotImpl | OutOfFuel | Unmodelled => false
    end.
Proof. exact error_kinds_table. Qed.
Print Assumptions C09_error_kinds.

(* Partial: only for creations does the model show that every natural refusal is a RopeError subclass
   (existence checks + OSError wrapped by _create_resource).  For edits, moves and removals the
   operating system's OSError is passed through (C09_os_error_passes_through_example); the full
   statement "a refactoring request rope cannot honour raises a RopeError subclass" is about get_changes
   and is decided by monitored execution. *)
Theorem C09_creation_refusal_kinds_partial :
  forall (k : sched) (p : list N) (b : bool) (m m' : fs) (k' : sched) (x : err),
    flt k = None -> body k Do (CR p b) m = Err m' k' x -> is_rope_error (raised_class x) = true.
Proof. exact creation_refusal_is_library_error. Qed.
Print Assumptions C09_creation_refusal_kinds_partial.

(* ---- the hypothesis all_in_root of C09_confined cannot be dropped ---- *)
(* A statement about the change algebra (hand-built changes included): MoveResource(b.py -> ../evil.py) performs
   successfully and creates a node outside the project root, so nothing in rope.base.change / project establishes
   all_in_root.  This was reachable through Rename(project, module b.py).get_changes("../evil") (finding
   C09-module-rename-escape); since repo commit 1c2d39e Rename refuses a module name that is not an identifier
   (regression input: corpus/C09/module-rename-escape.json), and the harness checks on every performed change that
   the refactorings only return all_in_root changes. *)
Theorem C09_module_rename_escape_refuted :
  exists root c m m' k' c' key,
    in_root root = true /\ wf_fs m /\ all_in_root c = false /\
    run repaired 4 true quiet Do (realize root c) m = Ok m' k' c' /\
    is_prefix root key = false /\ m' !! key <> m !! key.
Proof. exact module_rename_escape_refuted. Qed.
Print Assumptions C09_module_rename_escape_refuted.

(* Likewise ChangeContents(../ext/extmod.py) performs and rewrites a file outside the root.  It was returned by
   MethodObject(...) and InlineMethod(only_current, remove) at a reference to a function defined in the
   out-of-project module (findings C09-method-object-out-of-project / C09-inline-out-of-project; refused resp.
   skipped since repo commits 9e0989b / 94f57ce, regression inputs in corpus/C09/).  Still open: the cross-project
   Rename of a local name (C09-multiproject-local-name) returns such a change, and the same two refactorings
   still edit an IGNORED defining module (a symbolic link to an out-of-project file:
   C09-method-object-ignored-defining-module, C09-inline-ignored-defining-module). *)
Theorem C09_out_of_project_edit_refuted :
  exists root c m m' k' c' key,
    in_root root = true /\ wf_fs m /\ all_in_root c = false /\
    run repaired 4 true quiet Do (realize root c) m = Ok m' k' c' /\
    is_prefix root key = false /\ m' !! key <> m !! key.
Proof. exact out_of_project_edit_refuted. Qed.
Print Assumptions C09_out_of_project_edit_refuted.

(* ---- symbolic links (rope: a link is an ignored resource) ---- *)
(* Confinement in the presence of links: in_root AND no edited resource on or below a link ([ignored_link] is the
   link part of Project.is_ignored).  The change then runs exactly as without links. *)
Theorem C09_confined_links :
  forall (v : variant) (f : nat) (js : bool) (k : sched) (d : dir) (root : list N) (ls : list (list N * list N))
         (c : change) (m : fs) (key : list N),
    in_root root = true -> all_in_root c = true -> no_link_edits root ls c = true -> is_prefix root key = false ->
    res_fs (run v f js k d (realize_l root ls c) m) !! key = m !! key.
Proof. exact run_confined_links. Qed.
Print Assumptions C09_confined_links.

(* ... and the hypothesis cannot be dropped: ChangeContents(lnk.py), all_in_root, rewrites the out-of-project file
   behind the link.  Reachable on rope: InlineMethod / MethodObject on a function defined in an ignored (linked)
   module (open findings C09-inline-ignored-defining-module, C09-method-object-ignored-defining-module). *)
Theorem C09_link_escape_refuted :
  exists root ls c m m' k' c' key,
    in_root root = true /\ wf_fs m /\ all_in_root c = true /\ no_link_edits root ls c = false /\
    run repaired 4 true quiet Do (realize_l root ls c) m = Ok m' k' c' /\
    is_prefix root key = false /\ m' !! key <> m !! key.
Proof. exact link_escape_refuted. Qed.
Print Assumptions C09_link_escape_refuted.

(* ---- ignore patterns (the pattern part of Project.is_ignored; tied to rope's matcher on every resource of every
   generated world) ---- *)
(* whatever lies below an ignored resource is ignored *)
Theorem C09_ignored_below :
  forall (pats : list text) (segs more : list text),
    ignored_by pats segs = true -> ignored_by pats (segs ++ more) = true.
Proof. exact ignored_below. Qed.
Print Assumptions C09_ignored_below.

(* the documented double-slash form reaches ANY depth: d//g matches d/m1/.../mk/f for every k >= 0 *)
Theorem C09_ignore_gap_any_depth :
  forall (d g s0 f : text) (mids : list text),
    gmatch d s0 = true -> gmatch g f = true ->
    pmatch_here [Seg d; Gap; Seg g] (s0 :: mids ++ [f]) = true.
Proof. exact gap_any_depth. Qed.
Print Assumptions C09_ignore_gap_any_depth.

Example C09_ignore_example :
  parse_pat w_pat = [Seg w_gen; Gap; Seg [42; 46; 112; 121]%N] /\
  ignored_by [w_pat] [w_gen; w_g2py] = true /\ ignored_by [w_pat] [w_gen; w_deep; w_deep; w_g2py] = true /\
  ignored_by [w_pat] [w_gen; w_readme] = false /\ ignored_by [w_pat] [w_deep; w_g2py] = false.
Proof. exact ignore_example. Qed.
Print Assumptions C09_ignore_example.

(* ---- previews ---- *)
(* A move whose destination is free lands, with everything below it, exactly at the announced destination
   ("rename to" of MoveResource.get_description, the second resource of get_changed_resources). *)
Theorem C09_move_lands_at_destination :
  forall (p q : list N) (m m' : fs),
    wf_fs m -> simple_move p q m = true -> p_move p q m = POk m' ->
    forall r, m' !! (q ++ r) = m !! (p ++ r) /\ m' !! (p ++ r) = None.
Proof. exact move_lands. Qed.
Print Assumptions C09_move_lands_at_destination.

(* Partial: the unified-diff TEXT of ChangeContents.get_description (difflib) is not modelled; it is checked on every
   run by applying it with an independent patch routine.  What is proved: the preview is computed against exactly
   the contents do replaces ([desc_old] = the old_contents do captures = the file's contents), and what do writes is
   the announced new contents. *)
Theorem C09_description_matches_partial :
  forall (k : sched) (p new : list N) (old : option (list N)) (m m' : fs) (k' : sched) (c' : change),
    body k Do (CC p new old) m = Ok m' k' c' ->
    m' !! p = Some (File new) /\
    (old = None -> c' = CC p new (Some (desc_old (CC p new None) m)) /\
                   m !! p = Some (File (desc_old (CC p new None) m))).
Proof. exact description_matches. Qed.
Print Assumptions C09_description_matches_partial.

(* ---- non-vacuity ---- *)
Example C09_confined_links_example :
  in_root w_root = true /\ all_in_root w_ok = true /\ no_link_edits w_root w_links w_ok = true /\
  realize_l w_root w_links w_ok = realize w_root w_ok.
Proof. exact confined_links_example. Qed.
Print Assumptions C09_confined_links_example.

Example C09_move_lands_example :
  wf_fs w_disk /\ simple_move [10%N; 11%N] [10%N; 12%N] w_disk = true /\
  exists m', p_move [10%N; 11%N] [10%N; 12%N] w_disk = POk m'.
Proof. exact move_lands_example. Qed.
Print Assumptions C09_move_lands_example.

Example C09_description_example :
  exists m' k' c', body quiet Do (CC [10%N; 13%N] [5%N] None) w_disk = Ok m' k' c' /\
                   desc_old (CC [10%N; 13%N] [5%N] None) w_disk = [2%N].
Proof. exact description_example. Qed.
Print Assumptions C09_description_example.

Example C09_confined_example :
  in_root w_root = true /\ all_in_root w_ok = true /\
  exists m' k' c', run repaired 4 true quiet Do (realize w_root w_ok) w_disk = Ok m' k' c' /\
                   m' !! [10%N; 16%N; 11%N] = Some (File [1%N]) /\ m' !! [10%N; 11%N] = None /\
                   m' !! [14%N; 15%N] = w_disk !! [14%N; 15%N].
Proof. exact confined_example. Qed.
Print Assumptions C09_confined_example.

Example C09_frame_example :
  footprint w_fail [14%N; 15%N] = false /\ footprint w_fail [10%N; 13%N] = true /\
  exists s' k' x, history_do repaired 4 w_fail (Hist w_disk [] [] 10) quiet = HErr s' k' x /\
                  raised_class x = PyRopeError /\ h_fs s' !! [10%N; 13%N] = Some (File [2%N]).
Proof. exact frame_example. Qed.
Print Assumptions C09_frame_example.

Example C09_trace_example :
  exists m' k' c',
    trun repaired 4 true quiet Do (realize w_root w_ok) w_disk =
    (Ok m' k' c', [EvRead [10%N; 13%N]; EvWrite [10%N; 13%N]; EvCreate true [10%N; 16%N];
                   EvMove [10%N; 11%N] [10%N; 16%N; 11%N]]).
Proof. exact trace_example. Qed.
Print Assumptions C09_trace_example.

Example C09_refusal_pure_example :
  exists s' k' x,
    wf_fs w_disk /\
    history_do repaired 4 (realize w_root (CS 3 [CC [13%N] [5%N] None; CR [11%N] false]))
               (Hist w_disk [] [] 10) quiet = HErr s' k' x /\
    irrev k' = false /\ single_failure quiet x.
Proof. exact refusal_pure_example. Qed.
Print Assumptions C09_refusal_pure_example.

Example C09_os_error_passes_through_example :
  exists m' k' x, run repaired 4 true quiet Do (CS 4 [CC [10%N; 12%N] [5%N] None]) w_disk = Err m' k' x /\
                  raised_class x = PyOSError /\ is_rope_error (raised_class x) = false.
Proof. exact os_error_passes_through_example. Qed.
Print Assumptions C09_os_error_passes_through_example.
