(* Property C10 — a composite change is all-or-nothing under failure and interruption.
   Theorems only; each is closed by [exact] and followed by Print Assumptions.

   Model: RopeVerif.C10.FsModel (tree as a finite map, primitives of FileSystemCommands with a fault
   countdown) and RopeVerif.C10.Change (ChangeContents / MoveResource / CreateResource / RemoveResource /
   nested ChangeSet, _handle_job_set with the task-handle stop schedule, ChangeSet.do/undo with the
   [done] list and the rollback loop, History.do/undo/redo with the undo and redo lists).
   [repaired] = the rollback loops iterate reversed(done) and finished_job does not re-check the stop
   flag: the behaviour of the code since the fix commits e6a4ce0 and 251ab2a; [as_found] = the code of
   the original snapshot (forward-order rollback, finished_job checks), kept for the refutations.
   The harness decides on every run which variant the code under test is and reports a VIOLATION
   when it is not [repaired].

   Hypotheses shared by the atomicity theorems:
     wf_fs (h_fs s)       the tree before the call is a tree (every entry's parent is a folder);
     single_failure k x   no fault is scheduled, or the reported error IS the injected fault (a second
                          failure while rolling back cannot be survived by any implementation);
     irrev k' = false     no sub-change performed before the failure was irreversible: no
                          RemoveResource was done, no move overwrote a file or landed inside an existing
                          folder, every ChangeContents found the contents it had recorded (Change.leaf_rev).
   They are about every nesting fuel f, every change tree, every fault index and every stop index. *)
From stdpp Require Import gmap list.
From Coq Require Import NArith.
From RopeVerif.C10 Require Import FsModel Change ChangeProofs HistoryProofs Static StaticProofs Observer ObserverProofs.

(* If History.do fails (injected fault at any primitive call, stop at any job boundary, or a natural
   refusal), the tree, the undo list and the redo list are exactly as before, and the error reported
   is the original one (not replaced by an error of the rollback). *)
Theorem C10_do_atomic :
  forall (f : nat) (c : change) (s : hist) (k : sched) (s' : hist) (k' : sched) (x : err),
    wf_fs (h_fs s) ->
    history_do repaired f c s k = HErr s' k' x ->
    irrev k' = false -> single_failure k x ->
    s' = s /\ clean x = true.
Proof. exact history_do_atomic. Qed.
Print Assumptions C10_do_atomic.

Theorem C10_undo_atomic :
  forall (f : nat) (s : hist) (k : sched) (s' : hist) (k' : sched) (x : err),
    wf_fs (h_fs s) ->
    history_undo repaired f s k = HErr s' k' x ->
    irrev k' = false -> single_failure k x ->
    s' = s /\ clean x = true.
Proof. exact history_undo_atomic. Qed.
Print Assumptions C10_undo_atomic.

Theorem C10_redo_atomic :
  forall (f : nat) (s : hist) (k : sched) (s' : hist) (k' : sched) (x : err),
    wf_fs (h_fs s) ->
    history_redo repaired f s k = HErr s' k' x ->
    irrev k' = false -> single_failure k x ->
    s' = s /\ clean x = true.
Proof. exact history_redo_atomic. Qed.
Print Assumptions C10_redo_atomic.

(* The lemma behind the rollback, for arbitrarily nested and dependent change sets (create a folder,
   a file in it, move into it ...): whatever ChangeSet.do / undo has performed is compensated exactly
   by running the opposite direction on the returned change. *)
Theorem C10_nested :
  forall (f : nat) (k : sched) (d : dir) (c : change) (m m1 : fs) (k1 : sched) (c1 : change),
    wf_fs m -> run repaired f true k d c m = Ok m1 k1 c1 -> irrev k1 = false ->
    wf_fs m1 /\
    forall k0, flt k0 = None -> exists c2, run repaired f false k0 (opp d) c1 m1 = Ok m k0 c2.
Proof. exact done_change_compensable. Qed.
Print Assumptions C10_nested.

(* A static class needing no run-time side condition: change trees built from content edits (old
   contents not yet recorded) and file/folder creations, nested arbitrarily. *)
Theorem C10_edits_creations_atomic :
  forall (f : nat) (c : change) (s : hist) (k : sched) (s' : hist) (k' : sched) (x : err),
    static_ok c = true ->
    wf_fs (h_fs s) -> irrev k = false ->
    history_do repaired f c s k = HErr s' k' x ->
    single_failure k x ->
    s' = s /\ clean x = true.
Proof. exact edits_creations_atomic. Qed.
Print Assumptions C10_edits_creations_atomic.

(* "The error is reported": in every variant, if History.do returns normally then a scheduled fault
   has not fired (it is still pending). *)
Theorem C10_fault_never_swallowed :
  forall (v : variant) (f : nat) (c : change) (s : hist) (k : sched) (s' : hist) (k' : sched),
    history_do v f c s k = HOk s' k' ->
    (exists n, flt k = Some n) -> (exists n, flt k' = Some n).
Proof. exact fault_never_swallowed. Qed.
Print Assumptions C10_fault_never_swallowed.

(* History bookkeeping on success: the redo list is cleared, the performed change (with the captured
   old contents) is appended to the undo list, trimmed to the limit, unless it changes no resource. *)
Theorem C10_success_effect :
  forall (v : variant) (f : nat) (c : change) (s : hist) (k : sched) (s' : hist) (k' : sched),
    history_do v f c s k = HOk s' k' ->
    h_redo s' = [] /\ h_limit s' = h_limit s /\
    exists c', run v f true (notify k) Do c (h_fs s) = Ok (h_fs s') k' c' /\
               h_undo s' = (if interesting c' then trim (h_limit s) (h_undo s ++ [c']) else h_undo s).
Proof. exact history_do_effect. Qed.
Print Assumptions C10_success_effect.

(* With the rollback-order repair ALONE (finished_job behaving either way, b arbitrary) the statement
   holds for every fault index as long as the task is not stopped.  Partial: the full statement (any
   stop index) is C10_do_atomic for [repaired] and is refuted for b = true by C10_stop_at_finish_refuted
   (whose witness does not depend on the rollback order). *)
Theorem C10_do_atomic_order_fix_partial :
  forall (b : bool) (f : nat) (c : change) (s : hist) (k : sched) (s' : hist) (k' : sched) (x : err),
    wf_fs (h_fs s) -> stp k = None /\ stopped k = false ->
    history_do (Variant true b) f c s k = HErr s' k' x ->
    irrev k' = false -> single_failure k x ->
    s' = s /\ clean x = true.
Proof. exact history_do_atomic_nostop. Qed.
Print Assumptions C10_do_atomic_order_fix_partial.

Theorem C10_undo_atomic_order_fix_partial :
  forall (b : bool) (f : nat) (s : hist) (k : sched) (s' : hist) (k' : sched) (x : err),
    wf_fs (h_fs s) -> stp k = None /\ stopped k = false ->
    history_undo (Variant true b) f s k = HErr s' k' x ->
    irrev k' = false -> single_failure k x ->
    s' = s /\ clean x = true.
Proof. exact history_undo_atomic_nostop. Qed.
Print Assumptions C10_undo_atomic_order_fix_partial.

(* ---- the code as found (before the fixes) did not satisfy the statement of C10_do_atomic; the
   witnesses are replayed on every run from corpus/C10/ and must now pass ---- *)
(* forward-order rollback: [edit a A->B; edit a B->C; create a (refused)] leaves B *)
Theorem C10_rollback_order_refuted :
  exists f c s k s' k' x,
    wf_fs (h_fs s) /\ history_do as_found f c s k = HErr s' k' x /\
    irrev k' = false /\ single_failure k x /\ h_fs s' <> h_fs s.
Proof. exact rollback_order_refuted. Qed.
Print Assumptions C10_rollback_order_refuted.

(* the same defect in ChangeSet.undo: three edits of one file, the last undo step is hit by the fault,
   the two undone steps are re-done in the wrong order *)
Theorem C10_undo_rollback_order_refuted :
  exists f s k s' k' x,
    wf_fs (h_fs s) /\ history_undo as_found f s k = HErr s' k' x /\
    irrev k' = false /\ single_failure k x /\ h_fs s' <> h_fs s.
Proof. exact undo_rollback_order_refuted. Qed.
Print Assumptions C10_undo_rollback_order_refuted.

(* stop observed by finished_job after the primitive ran: the edit stays although do raised *)
Theorem C10_stop_at_finish_refuted :
  exists f c s k s' k' x,
    wf_fs (h_fs s) /\ history_do as_found f c s k = HErr s' k' x /\
    irrev k' = false /\ single_failure k x /\ h_fs s' <> h_fs s.
Proof. exact stop_at_finish_refuted. Qed.
Print Assumptions C10_stop_at_finish_refuted.

(* RemoveResource.undo is not implemented: even the repaired variant cannot restore a removed file,
   so the hypothesis [irrev k' = false] cannot be dropped *)
Theorem C10_remove_not_undoable_refuted :
  exists f c s k s' k' x,
    wf_fs (h_fs s) /\ history_do repaired f c s k = HErr s' k' x /\
    single_failure k x /\ h_fs s' <> h_fs s /\ irrev k' = true.
Proof. exact remove_not_undoable_refuted. Qed.
Print Assumptions C10_remove_not_undoable_refuted.

(* ---- non-vacuity ---- *)
(* nested dependent change set with non-empty history, injected fault at the folder move after four
   sub-changes were performed: every hypothesis of C10_do_atomic holds *)
Example C10_do_atomic_example :
  exists s' k' x,
    wf_fs (h_fs w_nest_s) /\ history_do repaired 6 w_nest_c w_nest_s w_nest_k = HErr s' k' x /\
    irrev k' = false /\ single_failure w_nest_k x /\ static_ok w_nest_c = false.
Proof. exact do_atomic_example. Qed.
Print Assumptions C10_do_atomic_example.

(* undo of that change set, stopped at a job boundary after two sub-changes were undone *)
Example C10_undo_atomic_example :
  exists s' k' x,
    wf_fs (h_fs w_undo_s) /\ history_undo repaired 6 w_undo_s w_undo_k = HErr s' k' x /\
    irrev k' = false /\ single_failure w_undo_k x /\ x = E Interrupted.
Proof. exact undo_atomic_example. Qed.
Print Assumptions C10_undo_atomic_example.

(* the input of C10_rollback_order_refuted under the repaired variant: refused, state restored *)
Example C10_rollback_order_repaired_example :
  exists s' k' x,
    history_do repaired 4 w_order_c w_order_s quiet = HErr s' k' x /\ x = E Exists /\ s' = w_order_s.
Proof. exact rollback_order_repaired. Qed.
Print Assumptions C10_rollback_order_repaired_example.

Example C10_do_atomic_order_fix_example :
  exists s' k' x,
    wf_fs (h_fs w_nest_s) /\ (stp w_nest_k = None /\ stopped w_nest_k = false) /\
    history_do (Variant true true) 6 w_nest_c w_nest_s w_nest_k = HErr s' k' x /\
    irrev k' = false /\ single_failure w_nest_k x.
Proof. exact do_atomic_order_fix_example. Qed.
Print Assumptions C10_do_atomic_order_fix_example.

(* ================================ deepening: static side condition ================================ *)
(* [reversible_cs f m c] (Static.rscan) is computed from the change tree and the tree before the call
   only: every leaf, in the tree in which the fault-free run would execute it, is exactly reversible
   (edit of an existing file whose recorded old contents match or are absent, move of an existing
   resource to a free place in an existing folder, creation of a free path; no RemoveResource) or is
   refused there.  It implies the run-time side condition for EVERY schedule of faults and stops and
   every variant. *)
Theorem C10_static_sound :
  forall (v : variant) (f : nat) (c : change) (m : fs) (k : sched),
    reversible_cs f m c = true -> irrev k = false ->
    irrev (res_k (run v f true k Do c m)) = false.
Proof. exact reversible_cs_irrev. Qed.
Print Assumptions C10_static_sound.

(* C10_do_atomic with purely static hypotheses (moves included) *)
Theorem C10_do_atomic_static :
  forall (f : nat) (c : change) (s : hist) (k : sched) (s' : hist) (k' : sched) (x : err),
    wf_fs (h_fs s) -> reversible_cs f (h_fs s) c = true -> irrev k = false ->
    history_do repaired f c s k = HErr s' k' x ->
    single_failure k x ->
    s' = s /\ clean x = true.
Proof. exact history_do_atomic_static. Qed.
Print Assumptions C10_do_atomic_static.

Theorem C10_undo_atomic_static :
  forall (f : nat) (s : hist) (k : sched) (s' : hist) (k' : sched) (x : err) (c0 : change) (rest : list change),
    wf_fs (h_fs s) -> h_undo s = c0 :: rest ->
    reversible_undo f (h_fs s) (List.last rest c0) = true -> irrev k = false ->
    history_undo repaired f s k = HErr s' k' x ->
    single_failure k x ->
    s' = s /\ clean x = true.
Proof. exact history_undo_atomic_static. Qed.
Print Assumptions C10_undo_atomic_static.

Theorem C10_redo_atomic_static :
  forall (f : nat) (s : hist) (k : sched) (s' : hist) (k' : sched) (x : err) (c0 : change) (rest : list change),
    wf_fs (h_fs s) -> h_redo s = c0 :: rest ->
    reversible_cs f (h_fs s) (List.last rest c0) = true -> irrev k = false ->
    history_redo repaired f s k = HErr s' k' x ->
    single_failure k x ->
    s' = s /\ clean x = true.
Proof. exact history_redo_atomic_static. Qed.
Print Assumptions C10_redo_atomic_static.

Example C10_static_example :
  reversible_cs 6 (h_fs w_nest_s) w_nest_c = true /\ static_ok w_nest_c = false /\
  exists s' k' x, history_do repaired 6 w_nest_c w_nest_s w_nest_k = HErr s' k' x /\ single_failure w_nest_k x.
Proof. exact static_example. Qed.
Print Assumptions C10_static_example.

Example C10_static_refusal_example :
  reversible_cs 4 (h_fs w_order_s) w_order_c = true /\
  exists k' x, history_do repaired 4 w_order_c w_order_s quiet = HErr w_order_s k' x.
Proof. exact static_refusal_example. Qed.
Print Assumptions C10_static_refusal_example.

(* ================= deepening: observers and partial writes as failure points ================= *)
(* Observer.v extends the schedule by [obs] (the n-th observer notification after a primitive
   raises) and [prim_atomic] (false: the injected fault of a write hits after the file was
   truncated).  With both switched off the extended model IS Change.history_do. *)
Theorem C10_observer_model_conservative :
  forall (v : variant) (f : nat) (c : change) (s : hist) (k : osched),
    obs k = None /\ prim_atomic k = true ->
    ohistory_do v f c s k = embh k (history_do v f c s (ok k)).
Proof. exact ohistory_do_plain. Qed.
Print Assumptions C10_observer_model_conservative.

(* all-or-nothing for runs in which no observer raises and primitives fail atomically *)
Theorem C10_do_atomic_observer_free :
  forall (f : nat) (c : change) (s : hist) (k : osched) (s' : hist) (k' : osched) (x : oerr),
    obs k = None /\ prim_atomic k = true -> wf_fs (h_fs s) ->
    ohistory_do repaired f c s k = OHErr s' k' x ->
    irrev (ok k') = false -> (flt (ok k) = None \/ ois_fault x = true) ->
    s' = s /\ oclean x = true.
Proof. exact ohistory_do_atomic. Qed.
Print Assumptions C10_do_atomic_observer_free.

Theorem C10_undo_atomic_observer_free :
  forall (f : nat) (s : hist) (k : osched) (s' : hist) (k' : osched) (x : oerr),
    obs k = None /\ prim_atomic k = true -> wf_fs (h_fs s) ->
    ohistory_undo repaired f s k = OHErr s' k' x ->
    irrev (ok k') = false -> (flt (ok k) = None \/ ois_fault x = true) ->
    s' = s /\ oclean x = true.
Proof. exact ohistory_undo_atomic. Qed.
Print Assumptions C10_undo_atomic_observer_free.

(* what survives every failure, observers and partial writes included, in every variant: the undo
   list, the redo list and the limit are those before the call (only the tree can be damaged) *)
Theorem C10_failure_keeps_history_lists :
  forall (v : variant) (f : nat) (c : change) (s : hist) (k : osched) (s' : hist) (k' : osched) (x : oerr),
    (ohistory_do v f c s k = OHErr s' k' x \/ ohistory_undo v f s k = OHErr s' k' x
     \/ ohistory_redo v f s k = OHErr s' k' x) ->
    h_undo s' = h_undo s /\ h_redo s' = h_redo s /\ h_limit s' = h_limit s.
Proof. exact ohistory_lists_unchanged. Qed.
Print Assumptions C10_failure_keeps_history_lists.

(* open finding C10-observer-read-fault: an observer that raises after the first write; even the
   repaired variant keeps the write (the sub-change is not in [done]) *)
Theorem C10_observer_failure_refuted :
  exists f c s k s' k' x,
    wf_fs (h_fs s) /\ prim_atomic k = true /\ flt (ok k) = None /\
    ohistory_do repaired f c s k = OHErr s' k' x /\ x = OObs /\
    irrev (ok k') = false /\ h_fs s' <> h_fs s.
Proof. exact observer_failure_refuted. Qed.
Print Assumptions C10_observer_failure_refuted.

(* open finding C10-partial-write: without the assumption [prim_atomic] a single injected fault at
   the write of [edit a] leaves a truncated *)
Theorem C10_partial_write_refuted :
  exists f c s k s' k' x,
    wf_fs (h_fs s) /\ obs k = None /\ prim_atomic k = false /\
    ohistory_do repaired f c s k = OHErr s' k' x /\ (flt (ok k) = None \/ ois_fault x = true) /\
    irrev (ok k') = false /\ h_fs s' <> h_fs s.
Proof. exact partial_write_refuted. Qed.
Print Assumptions C10_partial_write_refuted.

Example C10_observer_free_example :
  exists s' k' x,
    (obs (OS w_nest_k None true) = None /\ prim_atomic (OS w_nest_k None true) = true) /\ wf_fs (h_fs w_nest_s) /\
    ohistory_do repaired 6 w_nest_c w_nest_s (OS w_nest_k None true) = OHErr s' k' x /\
    irrev (ok k') = false /\ (flt (ok (OS w_nest_k None true)) = None \/ ois_fault x = true).
Proof. exact observer_free_example. Qed.
Print Assumptions C10_observer_free_example.

(* the observer failure at the SECOND notification: the first edit is rolled back, the second stays *)
Example C10_observer_failure_second_example :
  exists s' k',
    ohistory_do repaired 4 w_obs_c w_obs_s (OS quiet (Some 1) true) = OHErr s' k' OObs /\
    h_fs s' !! ppy = Some (File cX1) /\ h_fs s' !! pa = Some (File cC).
Proof. exact observer_failure_second. Qed.
Print Assumptions C10_observer_failure_second_example.
