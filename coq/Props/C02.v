(* Property C02 - occurrence finding is exact: all and only the references to the chosen binding.
   Theorems only; each is closed by [exact] and followed by Print Assumptions.

   MODEL  = coq/C02/Occurrences.v  (findit.find_occurrences for one module: the candidates, the holding scope of
            a token by patched region, the chain of ifs of get_primary_and_pyname_at, same_pyname, the filter)
            on top of coq/C15/RopeScopes.v (rope's scopes and lookup chain)
   SPEC   = [spec_binding]: the token's name resolved by CPython's rule (coq/C15/Scoping.v, validated against
            symtable on every case) from the scope Python evaluates the token in - header expressions and the first
            iterable of a comprehension in the ENCLOSING scope
   DOMAIN = [in_fragment_C02] = in_fragment_C15 /\ every core token satisfies [tok_ok] /\ [imports_ok]; every
            excluded shape is a recorded finding with a [_refuted] theorem below whose witness is that finding's
            replay (coq/C02/Witnesses.v is generated from harness/c02_witness.py)

   PARTIAL.  The full-strength statements quantify over every identifier token:
     C02_sound    : in_fragment_C02 p -> o in rope_occurrences p q -> spec_binding p o = spec_binding p q
     C02_complete : in_fragment_C02 p -> statically_determined p q -> spec_binding p o = spec_binding p q ->
                    o in rope_occurrences p q
   They are proved for the CORE tokens (names in load / store / del position, parameters, def and class names,
   except / global / import-bound names: the tokens whose binding needs no knowledge of objects).  For
   keyword-argument names and attribute names the model is tied to rope by the correspondence run and
   judged by the oracle of the harness, but no theorem relates it to a Coq spec (that needs a model of
   rope's type inference).  C02_query_independent is proved at full strength, for every token and every module. *)
From Coq Require Import List NArith Bool.
From RopeVerif.C15 Require Import Syntax Scoping RopeScopes Fragment.
From RopeVerif.C02 Require Import Occurrences OccurrencesProofs Witnesses Theorems Project ProjectProofs ProjectTheorems.
Import ListNotations.

(* Inside the domain, the PyName rope's chain of ifs computes for a core token is exactly the PyName owned by
   the binding CPython resolves the token to (None when the name is unbound) - for every module of the
   fragment (unbounded size and nesting), every set of builtins, every table of inherited attributes. *)
Theorem C02_pyname_agrees_partial :
  forall (p : program) (nl : N) (bi : list ident) (inh : list nat -> ident -> option binding)
         (init call : ident) (meths : list (list nat * option ident * (bool * bool))) (kwlike : N -> bool),
    in_fragment_C15 p = true ->
    forall t : tok,
    core t = true ->
    tok_ok bi inh (rope_tree p) meths kwlike t = true ->
    rope_pyname_at bi inh (rope_tree p) init call meths kwlike t
    = pn_of (rope_tree p) (spec_binding bi (spec_tree nl p) t) (t_name t).
Proof. exact pyname_agrees. Qed.
Print Assumptions C02_pyname_agrees_partial.

(* none belonging to a different binding *)
Theorem C02_sound_partial :
  forall (p : program) (nl : N) (bi : list ident) (inh : list nat -> ident -> option binding)
         (init call : ident) (meths : list (list nat * option ident * (bool * bool))) (kwlike : N -> bool) (q o : tok),
    in_fragment_C02 bi inh init call meths kwlike p = true ->
    In q (toks p) -> core q = true -> core o = true ->
    In o (rope_occurrences bi inh (rope_tree p) init call meths kwlike (toks p) q) ->
    spec_binding bi (spec_tree nl p) o = spec_binding bi (spec_tree nl p) q.
Proof. exact sound. Qed.
Print Assumptions C02_sound_partial.

(* none missing: every token of the same spelling that denotes the same existing binding is reported *)
Theorem C02_complete_partial :
  forall (p : program) (nl : N) (bi : list ident) (inh : list nat -> ident -> option binding)
         (init call : ident) (meths : list (list nat * option ident * (bool * bool))) (kwlike : N -> bool) (q o : tok),
    in_fragment_C02 bi inh init call meths kwlike p = true ->
    In q (toks p) -> In o (toks p) -> core q = true -> core o = true ->
    t_name o = t_name q ->
    spec_binding bi (spec_tree nl p) o = spec_binding bi (spec_tree nl p) q ->
    spec_binding bi (spec_tree nl p) q <> BNone ->
    In o (rope_occurrences bi inh (rope_tree p) init call meths kwlike (toks p) q).
Proof. exact complete. Qed.
Print Assumptions C02_complete_partial.

(* the answer does not depend on which occurrence is used to ask: for EVERY scope tree, token list and token
   (keyword arguments, attributes and import forms included; no domain hypothesis) *)
Theorem C02_query_independent :
  forall (bi : list ident) (inh : list nat -> ident -> option binding) (rt : rscope)
         (init call : ident) (meths : list (list nat * option ident * (bool * bool))) (kwlike : N -> bool)
         (ts : list tok) (q o : tok),
    In o (rope_occurrences bi inh rt init call meths kwlike ts q) ->
    rope_occurrences bi inh rt init call meths kwlike ts o
    = rope_occurrences bi inh rt init call meths kwlike ts q.
Proof. exact query_independent. Qed.
Print Assumptions C02_query_independent.

(* a token that has a PyName is one of its own occurrences *)
Theorem C02_query_reflexive :
  forall (bi : list ident) (inh : list nat -> ident -> option binding) (rt : rscope)
         (init call : ident) (meths : list (list nat * option ident * (bool * bool))) (kwlike : N -> bool)
         (ts : list tok) (q : tok) (b : binding) (x : ident) (i : bool),
    In q ts ->
    rope_pyname_at bi inh rt init call meths kwlike q = PName b x i ->
    In q (rope_occurrences bi inh rt init call meths kwlike ts q).
Proof. exact query_reflexive. Qed.
Print Assumptions C02_query_reflexive.

(* rope evaluates a header / first-iterable token in the scope being defined; under [header_ok] that is the
   evaluation Python performs in the enclosing scope *)
Theorem C02_header_lookup :
  forall (bi : list ident) (inh : list nat -> ident -> option binding) (rt : rscope)
         (env : list nat) (j : nat) (x : ident),
    header_ok inh rt env j x = true ->
    rope_lookup bi inh rt (env ++ [j]) x = rope_lookup bi inh rt env x.
Proof. exact lookup_inner. Qed.
Print Assumptions C02_header_lookup.

(* ------------------------------------------------------------------ refutations (open findings) *)
(* x = 1 / def f(a=x): x = 2 ...  : the default's x is reported with the local x *)
Theorem C02_header_default_refuted :
  in_fragment_C15 w_header_expression = true
  /\ m_frag w_header_expression bi_header_expression ids_header_expression init_header_expression
            call_header_expression odd_header_expression prop_header_expression kwl_header_expression = false
  /\ unsound w_header_expression nl_header_expression bi_header_expression ids_header_expression
             init_header_expression call_header_expression odd_header_expression prop_header_expression kwl_header_expression.
Proof. exact header_default_refuted. Qed.
Print Assumptions C02_header_default_refuted.

(* class A: x = 1 / def m(self, a=x)  : the default's x (the class attribute) is reported with the global x *)
Theorem C02_header_class_attribute_refuted :
  in_fragment_C15 w_header_class_attribute = true
  /\ m_frag w_header_class_attribute bi_header_class_attribute ids_header_class_attribute
            init_header_class_attribute call_header_class_attribute odd_header_class_attribute prop_header_class_attribute
            kwl_header_class_attribute = false
  /\ unsound w_header_class_attribute nl_header_class_attribute bi_header_class_attribute
             ids_header_class_attribute init_header_class_attribute call_header_class_attribute
             odd_header_class_attribute prop_header_class_attribute kwl_header_class_attribute.
Proof. exact header_class_attribute_refuted. Qed.
Print Assumptions C02_header_class_attribute_refuted.

(* [x for x in x] : the iterable is reported with the iteration variable *)
Theorem C02_comprehension_first_iterable_refuted :
  in_fragment_C15 w_comprehension_first_iterable = true
  /\ m_frag w_comprehension_first_iterable bi_comprehension_first_iterable ids_comprehension_first_iterable
            init_comprehension_first_iterable call_comprehension_first_iterable
            odd_comprehension_first_iterable prop_comprehension_first_iterable kwl_comprehension_first_iterable = false
  /\ unsound w_comprehension_first_iterable nl_comprehension_first_iterable bi_comprehension_first_iterable
             ids_comprehension_first_iterable init_comprehension_first_iterable
             call_comprehension_first_iterable odd_comprehension_first_iterable prop_comprehension_first_iterable
             kwl_comprehension_first_iterable.
Proof. exact comprehension_first_iterable_refuted. Qed.
Print Assumptions C02_comprehension_first_iterable_refuted.

(* class C: C = 1 : the class name is reported with the attribute and is missing from the uses of the class *)
Theorem C02_class_name_own_attribute_refuted :
  in_fragment_C15 w_class_name_own_attribute = true
  /\ m_frag w_class_name_own_attribute bi_class_name_own_attribute ids_class_name_own_attribute
            init_class_name_own_attribute call_class_name_own_attribute odd_class_name_own_attribute prop_class_name_own_attribute
            kwl_class_name_own_attribute = false
  /\ unsound w_class_name_own_attribute nl_class_name_own_attribute bi_class_name_own_attribute
             ids_class_name_own_attribute init_class_name_own_attribute call_class_name_own_attribute
             odd_class_name_own_attribute prop_class_name_own_attribute kwl_class_name_own_attribute
  /\ incomplete w_class_name_own_attribute nl_class_name_own_attribute bi_class_name_own_attribute
                ids_class_name_own_attribute init_class_name_own_attribute call_class_name_own_attribute
                odd_class_name_own_attribute prop_class_name_own_attribute kwl_class_name_own_attribute.
Proof. exact class_name_own_attribute_refuted. Qed.
Print Assumptions C02_class_name_own_attribute_refuted.

(* class K: pass / y = 1 / K(y=y) : the keyword y is reported as an occurrence of the variable y *)
Theorem C02_kwarg_unresolved_callee_refuted :
  in_fragment_C15 w_kwarg_unresolved_callee = true
  /\ keyword_as_variable w_kwarg_unresolved_callee bi_kwarg_unresolved_callee ids_kwarg_unresolved_callee
                         init_kwarg_unresolved_callee call_kwarg_unresolved_callee
                         odd_kwarg_unresolved_callee prop_kwarg_unresolved_callee kwl_kwarg_unresolved_callee.
Proof. exact kwarg_unresolved_callee_refuted. Qed.
Print Assumptions C02_kwarg_unresolved_callee_refuted.

(* from foo import x in f, from bar import x in g : one group *)
Theorem C02_unresolved_import_conflation_refuted :
  in_fragment_C15 w_unresolved_import_conflation = true
  /\ m_frag w_unresolved_import_conflation bi_unresolved_import_conflation ids_unresolved_import_conflation
            init_unresolved_import_conflation call_unresolved_import_conflation
            odd_unresolved_import_conflation prop_unresolved_import_conflation kwl_unresolved_import_conflation = false
  /\ unsound w_unresolved_import_conflation nl_unresolved_import_conflation bi_unresolved_import_conflation
             ids_unresolved_import_conflation init_unresolved_import_conflation
             call_unresolved_import_conflation odd_unresolved_import_conflation prop_unresolved_import_conflation
             kwl_unresolved_import_conflation.
Proof. exact unresolved_import_conflation_refuted. Qed.
Print Assumptions C02_unresolved_import_conflation_refuted.

(* def f(a=1): return a / def f(): pass : the parameter a in the header is missing from the occurrences of a *)
Theorem C02_param_default_of_rebound_def_refuted :
  in_fragment_C15 w_param_default_of_rebound_def = true
  /\ m_frag w_param_default_of_rebound_def bi_param_default_of_rebound_def ids_param_default_of_rebound_def
            init_param_default_of_rebound_def call_param_default_of_rebound_def
            odd_param_default_of_rebound_def prop_param_default_of_rebound_def kwl_param_default_of_rebound_def = false
  /\ incomplete w_param_default_of_rebound_def nl_param_default_of_rebound_def bi_param_default_of_rebound_def
                ids_param_default_of_rebound_def init_param_default_of_rebound_def
                call_param_default_of_rebound_def odd_param_default_of_rebound_def prop_param_default_of_rebound_def
                kwl_param_default_of_rebound_def.
Proof. exact param_default_of_rebound_def_refuted. Qed.
Print Assumptions C02_param_default_of_rebound_def_refuted.

(* ------------------------------------------------------------------ non-vacuity *)
Example C02_example_in_fragment :
  m_frag w_example bi_example ids_example init_example call_example odd_example prop_example kwl_example = true
  /\ length (toks w_example) = 49%nat
  /\ length (filter core (toks w_example)) = 41%nat.
Proof. exact example_in_fragment. Qed.
Print Assumptions C02_example_in_fragment.

Example C02_example_occurrences :
  example_occs 3 = Some [3; 14; 135]%N
  /\ example_occs 99 = Some [97; 99; 108; 116; 129]%N
  /\ example_occs 12 = Some [12; 22; 71; 106]%N
  /\ example_occs 30 = Some [30; 46; 63; 69; 83]%N
  /\ example_occs 39 = Some [39; 48; 79]%N
  /\ example_occs 123 = Some [123; 125]%N.
Proof. exact example_occurrences. Qed.
Print Assumptions C02_example_occurrences.

(* ------------------------------------------------------------------ two-module projects (coq/C02/Project.v) *)
(* In a project of two modules in which the imports of lib resolve (ImportedModule / ImportedName transparent,
   same_pyname's import clause comparing what the two PyNames resolve to, attributes of the imported module and
   keyword arguments of imported defs / classes evaluated in lib's tree), the occurrence set collected over both
   files does not depend on the occurrence used to ask, in whichever module it stands: for every pair of modules,
   token list and token (no domain hypothesis).  The model is compared with rope on every run (multi stream);
   rope itself violates the statement where two bindings of one spelling share a line (open finding
   imported-name-same-line-homonym; such tokens are kept out of the comparison). *)
Theorem C02_project_query_independent :
  forall (lib main : modctx) (init call libname : ident) (ts : list (bool * tok)) (q o : bool * tok),
    In o (occurrences2 lib main init call libname ts q) ->
    occurrences2 lib main init call libname ts o = occurrences2 lib main init call libname ts q.
Proof. exact project_query_independent. Qed.
Print Assumptions C02_project_query_independent.

Theorem C02_project_query_reflexive :
  forall (lib main : modctx) (init call libname : ident) (ts : list (bool * tok)) (q : bool * tok) (t : tgt),
    In q ts ->
    tgt_of (pyname2_at lib main init call libname (fst q) (snd q)) = Some t ->
    In q (occurrences2 lib main init call libname ts q).
Proof. exact project_query_reflexive. Qed.
Print Assumptions C02_project_query_reflexive.

(* same_pyname in a project is "resolve to the same thing" *)
Theorem C02_project_same_pyname :
  forall a b : pn2, same2 a b = true <-> exists t, tgt_of a = Some t /\ tgt_of b = Some t.
Proof. exact same2_true. Qed.
Print Assumptions C02_project_same_pyname.

Example C02_example_project_occurrences :
  ex2_occs 1 = Some [1; 70]%N
  /\ ex2_occs 24 = Some [24; 76]%N
  /\ ex2_occs 12 = Some [11; 12; 90]%N
  /\ ex2_occs 54 = Some [15; 35; 54]%N
  /\ ex2_occs 38 = Some [38; 58]%N
  /\ ex2_occs 100 = Some [47; 20; 100; 118; 130]%N
  /\ ex2_occs 122 = Some [55; 122]%N
  /\ ex2_occs 104 = Some [73; 91; 104]%N
  /\ ex2_occs 66 = Some [2; 66; 86; 126]%N.
Proof. exact example_project_occurrences. Qed.
Print Assumptions C02_example_project_occurrences.
