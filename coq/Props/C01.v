(* Property C01 - rename preserves the program: same bindings, same behaviour.
   Theorems only; each is closed by [exact] and followed by Print Assumptions.

   MODEL  = coq/C01/Rename.v   Rename.__init__ / get_changes / validate_changes / _is_local / _rename_module /
                               rename_in_module: the respelled tokens are C02's occurrences (coq/C02/Occurrences.v, on
                               rope's scope model coq/C15/RopeScopes.v); a project of flat modules with module-level
                               imports; the module move
            coq/C01/Collector.v ChangeCollector on text
   SPEC   = alpha-equivalence on CPython's scoping rules (coq/C15/Scoping.v, validated against symtable on every case):
            after the rename every identifier token, read with its NEW spelling and resolved from its scope in the
            SPEC tree of the RELABELLED program, has the owner scope its old spelling had in the old program
            ([alpha_tok]); together with freshness of the new name this is "every occurrence refers to the same
            definition as before" (the respelled tokens are exactly those of one binding, so distinct bindings
            stay distinct).
   DOMAIN = C02's fragment [in_fragment_C02] (every excluded shape is a finding of C15 / C02 and - where it
            reproduces at rename level - of C01), a fresh name, core tokens (names in load / store / del position,
            parameters, def / class names, global declarations, import-bound names).

   PARTIAL.  The full-strength statement is
       C01_alpha : in_fragment_C02 p -> statically_determined p q -> fresh n p -> alpha p (rename p q n) (binding q) n
   for every kind of identifier and multi-module projects, and C01_same_output_core (the renamed program prints the
   same).  Proved here: [C01_alpha_partial] for ONE module and the core tokens; its only hypothesis about the
   program term besides C02's fragment is that the occurrence ids are pairwise different ([unique_ids]; they are
   token indices).  That C02's token traversal and the SPEC's binder traversal agree ([well_tokened]) is now a
   theorem ([C01_binders_are_tokens], [C01_well_tokened]).  [C01_alpha_exact] holds for EVERY program and every
   respelled set that is exact on the binders.  Attributes, keyword arguments,
   imports across modules and the module move are tied to rope by the correspondence run and judged by the oracle
   (symtable binding maps before / after, execution before / after), not by a theorem; behaviour preservation is the
   execution oracle's job. *)
From Coq Require Import List NArith Bool PeanoNat Permutation.
From RopeVerif.Lib Require Import Text.
From RopeVerif.C15 Require Import Syntax Scoping RopeScopes Fragment.
From RopeVerif.C02 Require Import Occurrences.
From RopeVerif.C01 Require Import Collector CollectorProofs Rename RenameProofs OccTree OccTreeProofs AlphaSpec
                                  AlphaTreeProofs AlphaProofs TokensProofs AlphaC02Proofs Runner Witnesses Theorems.
Import ListNotations.

(* ------------------------------------------------------------------ ChangeCollector *)
(* the text get_changed returns does not depend on the order in which non-empty, pairwise disjoint changes were
   added - for every text and every list of changes *)
Theorem C01_collector_order_independent :
  forall (t : text) (cs cs' : list change),
    Permutation cs cs' -> pairwise apart cs -> get_changed t cs = get_changed t cs'.
Proof. exact collector_order_independent. Qed.
Print Assumptions C01_collector_order_independent.

(* rename at text level is a relabelling of tokens: when the changes are the word ranges of the selected words of a
   text (added in any order), get_changed is that text with exactly those words replaced *)
Theorem C01_collector_words :
  forall (segs : list (text * text)) (sel : list bool) (nw tail : text) (cs : list change),
    words_nonempty segs ->
    Permutation cs (word_changes 0 segs sel nw) ->
    get_changed (render segs tail) cs
    = match cs with
      | [] => None
      | _ => let r := render_sel segs sel nw tail in
             if text_eqb r (render segs tail) then None else Some r
      end.
Proof. exact collector_words. Qed.
Print Assumptions C01_collector_words.

Example C01_collector_example :
  words_nonempty ex_segs
  /\ Permutation (rev (word_changes 0 ex_segs ex_sel ex_new)) (word_changes 0 ex_segs ex_sel ex_new)
  /\ get_changed (render ex_segs ex_tail) (rev (word_changes 0 ex_segs ex_sel ex_new))
     = Some [97; 98; 32; 110; 101; 119; 40; 121; 44; 32; 110; 101; 119; 41]%N.
Proof. exact collector_example. Qed.
Print Assumptions C01_collector_example.

(* C01_parses at text level: what rename_in_module returns for a module is the old text with the same gaps
   (layout, comments, strings, operators, keywords - everything that is not an identifier token) in the same order
   and the same number of words, the k-th word respelled exactly when its token id is among the renamed ones *)
Theorem C01_rename_text_skeleton :
  forall (segs : list (text * text)) (wids ids : list N) (nw tail r : text),
    words_nonempty segs ->
    rename_text segs wids ids nw tail = Some r ->
    let segs' := relabel_segs segs (map (fun i => memNid i ids) wids) nw in
    r = render segs' tail
    /\ map fst segs' = map fst segs
    /\ length segs' = length segs
    /\ forall k g w, nth_error segs k = Some (g, w) ->
         nth_error segs' k = Some (g, if memNid (nth k wids 0%N) ids && Nat.ltb k (length wids) then nw else w).
Proof. exact rename_text_skeleton. Qed.
Print Assumptions C01_rename_text_skeleton.

Example C01_rename_text_example :
  rename_text ex_segs [0; 1; 2; 3]%N [1; 3]%N ex_new ex_tail
  = Some [97; 98; 32; 110; 101; 119; 40; 121; 44; 32; 110; 101; 119; 41]%N.
Proof. exact rename_text_example. Qed.
Print Assumptions C01_rename_text_example.

(* ------------------------------------------------------------------ the _is_local shortcut *)
(* a name _is_local accepts (an AssignedName held by a function scope) has no occurrence outside its own module:
   whatever the other modules import or access, a search of every module finds it only at home *)
Theorem C01_local_shortcut_complete :
  forall (bi : list ident) (init call : ident) (cx : list mctx) (kq : gkey) (x : ident) (j : nat) (i : N),
    (forall c, In c cx -> rk (x_rt c) = KModule) ->
    is_local cx kq = true ->
    In (j, i) (occurrences_everywhere bi init call cx kq x) ->
    exists b y, kq = GVar j b y.
Proof. exact local_shortcut_complete. Qed.
Print Assumptions C01_local_shortcut_complete.

(* ... so get_changes computes the same edits with the shortcut (only the module of the query is searched) as
   without it *)
Theorem C01_local_shortcut_same_edits :
  forall (bi : list ident) (init call : ident) (cx : list mctx) (cmp : nat -> tok -> bool)
         (kq : gkey) (x : ident) (m : nat),
    (forall c, In c cx -> rk (x_rt c) = KModule) ->
    is_local cx kq = true -> (exists b y, kq = GVar m b y) ->
    let f := fun jc : nat * mctx => match edits_in bi init call cx cmp kq x (fst jc) (snd jc) with
                                    | [] => []
                                    | l => [(fst jc, l)]
                                    end in
    flat_map f (filter (fun jc => Nat.eqb (fst jc) m) (enum_from 0 cx)) = flat_map f (enum_from 0 cx).
Proof. exact local_shortcut_same_edits. Qed.
Print Assumptions C01_local_shortcut_same_edits.

Example C01_local_example :
  let cx := p_cx w_example_mods w_example_builtins w_example_idents w_example_odd w_example_prop in
  (forall c, In c cx -> rk (x_rt c) = KModule)
  /\ is_local cx (p_key w_example_mods w_example_builtins w_example_idents w_example_init w_example_call
                        w_example_odd w_example_prop w_example_q_total) = true
  /\ is_local cx (p_key w_example_mods w_example_builtins w_example_idents w_example_init w_example_call
                        w_example_odd w_example_prop w_example_q_limit) = false
  /\ p_rename w_example_mods w_example_builtins w_example_idents w_example_init w_example_call w_example_odd w_example_prop
              w_example_q_total = RChanges true [(0%nat, [16; 27; 32; 34; 40]%N)] [].
Proof. exact example_local. Qed.
Print Assumptions C01_local_example.

(* ------------------------------------------------------------------ alpha-equivalence *)
(* relabelling commutes with the SPEC: the scope tree CPython's rules give the relabelled program is the token
   tree of the old program read through the new spellings - for every program and every relabelling *)
Theorem C01_relabel_spec_tree :
  forall (f : occ -> occ) (nl : N) (p : program),
    spec_tree nl (relabel f p) = to_s (fun o => oname (f o)) (spec_otree nl p).
Proof. exact spec_tree_relabel. Qed.
Print Assumptions C01_relabel_spec_tree.

(* on scope trees: if in every scope of a chain exactly those entries spelled x are respelled n from which x denotes
   the binding owned by scope Pb, then from the innermost scope the respelled name denotes in the respelled tree what
   the old name denoted in the old tree - every tree, every chain, every name *)
Theorem C01_resolve_respelled :
  forall (bi : list ident) (x n : ident) (Pb : list nat) (mg mg' : list ident),
    (forall z, z <> x -> z <> n -> mem z mg' = mem z mg) ->
    mem n mg' = mem x mg && path_eqb Pb [] ->
    mem x mg' = mem x mg && negb (path_eqb Pb []) ->
    forall ch ch' : list (list nat * sscope),
    crel bi x n Pb mg ch ch' ->
    forall y, y <> n ->
    resolve_chain mg' bi ch' (rho x n (D bi x Pb mg ch) y) = resolve_chain mg bi ch y.
Proof. exact resolve_rel. Qed.
Print Assumptions C01_resolve_respelled.

(* for EVERY program and every set of respelled tokens that is exact on the binder tokens of every scope
   ([exact_tree]: respelled iff spelled x and x denotes the target there; no nonlocal; n does not occur): a token
   whose own respelling is exact denotes after the rename what it denoted before *)
Theorem C01_alpha_exact :
  forall (bi : list ident) (nl : N) (p : program) (x n : ident) (Pb : list nat) (ids : list N),
    x <> n ->
    exact_tree bi x n Pb ids (spec_otree nl p) = true ->
    forall (env : list nat) (i : N) (y : ident),
      y <> n ->
      memN i ids = (is_target Pb (spec_resolve bi (spec_tree nl p) env x) && N.eqb y x) ->
      alpha_tok bi nl p ids n env i y = true.
Proof. exact alpha_program. Qed.
Print Assumptions C01_alpha_exact.

(* C02's token traversal and the SPEC's binder traversal agree on the whole fragment: every binder token of every
   scope of the token tree (bound names and global declarations) is a core token of [toks p] that sits in that
   scope, and no scope declares a nonlocal - for every program of C15's fragment, any size and nesting *)
Theorem C01_binders_are_tokens :
  forall (nl : N) (p : program),
    in_fragment_C15 p = true ->
    forall ch, In ch (o_chains [] [] (spec_otree nl p)) ->
      (forall o, In o (chain_scope ch) ->
         exists t, In t (toks p) /\ core t = true /\ t_occ t = o /\ t_env t = chain_path ch)
      /\ match ch with (_, os) :: _ => ononlocals os = [] | [] => True end.
Proof. exact binders_are_tokens. Qed.
Print Assumptions C01_binders_are_tokens.

(* ... hence the structural hypothesis the first version of the alpha theorem carried is a theorem *)
Theorem C01_well_tokened :
  forall (nl : N) (p : program),
    in_fragment_C15 p = true -> unique_ids p = true -> well_tokened nl p = true.
Proof. exact well_tokened_frag. Qed.
Print Assumptions C01_well_tokened.

(* the rename rope performs (the respelled tokens are C02's occurrences of the query token): inside C02's domain,
   for a program term whose token ids are pairwise different and a name no token is spelled like, every core token
   of the renamed module denotes the binding it denoted.  (_partial: one module, core tokens - see the header.) *)
Theorem C01_alpha_partial :
  forall (p : program) (nl : N) (bi : list ident) (inh : list nat -> ident -> option binding)
         (init call : ident) (meths : list (list nat * option ident * (bool * bool))) (kwlike : N -> bool)
         (q : tok) (n : ident) (Pb : list nat),
    in_fragment_C02 bi inh init call meths kwlike p = true ->
    unique_ids p = true ->
    fresh_name p n = true ->
    In q (toks p) -> core q = true ->
    spec_binding bi (spec_tree nl p) q = BScope Pb ->
    forall t : tok,
      In t (toks p) -> core t = true ->
      alpha_tok bi nl p (rename_ids bi inh (rope_tree p) init call meths kwlike (toks p) q) n
                (t_env t) (t_id t) (t_name t) = true.
Proof. exact alpha_rename_full. Qed.
Print Assumptions C01_alpha_partial.

(* non-vacuity: the example module (a global also written under a global declaration, a function with a
   defaulted parameter and a loop variable that shadows a parameter, a comprehension, keyword arguments) is inside
   the domain; three renames with their respelled tokens, each satisfying the conclusion on every core token *)
Example C01_example_domain :
  m_frag ex_m w_example_builtins w_example_idents w_example_init w_example_call w_example_odd w_example_prop = true
  /\ unique_ids (pm_prog ex_m) = true
  /\ fresh_name (pm_prog ex_m) w_example_fresh = true
  /\ length (toks (pm_prog ex_m)) = 32%nat.
Proof. exact example_domain. Qed.
Print Assumptions C01_example_domain.

Example C01_example_renames :
  ex_binding (snd w_example_q_limit) = Some (BScope [])
  /\ ex_ids (snd w_example_q_limit) = Some [0; 51; 53; 57; 63; 69; 81; 85; 92]%N
  /\ ex_alpha (snd w_example_q_limit) = Some true
  /\ ex_binding (snd w_example_q_size) = Some (BScope [0%nat])
  /\ ex_ids (snd w_example_q_size) = Some [7; 18; 23; 36]%N
  /\ ex_alpha (snd w_example_q_size) = Some true
  /\ ex_ids (snd w_example_q_total) = Some [16; 27; 32; 34; 40]%N
  /\ ex_alpha (snd w_example_q_total) = Some true.
Proof. exact example_renames. Qed.
Print Assumptions C01_example_renames.

(* ------------------------------------------------------------------ two defects that were found and fixed *)
(* These two statements are about the code AS IT WAS FOUND ([project_rename_as_found]); the defects were repaired in
   /repo (commits 94dbab8 and 3758d0a), the model the correspondence ties to the code is the repaired one, and the
   [_fixed] examples state the present behaviour on the same witnesses (corpus/C01 replays them on every run). *)
(* import mb as k / print(k.y): a rename at k also moved mb.py while `mb` in the import statement kept its spelling *)
Theorem C01_module_alias_refuted :
  p_rename_as_found w_module_alias_moves_module_mods w_module_alias_moves_module_builtins
           w_module_alias_moves_module_idents w_module_alias_moves_module_init
           w_module_alias_moves_module_call w_module_alias_moves_module_odd w_module_alias_moves_module_prop w_module_alias_moves_module_q
  = RChanges false [(0%nat, [3; 7]%N)] [1%nat]
  /\ left_behind w_module_alias_moves_module_mods w_module_alias_moves_module_builtins
                 w_module_alias_moves_module_idents w_module_alias_moves_module_init
                 w_module_alias_moves_module_call w_module_alias_moves_module_odd w_module_alias_moves_module_prop w_module_alias_moves_module_q
     = true.
Proof. exact module_alias_refuted. Qed.
Print Assumptions C01_module_alias_refuted.

Example C01_module_alias_fixed :
  p_rename w_module_alias_moves_module_mods w_module_alias_moves_module_builtins
           w_module_alias_moves_module_idents w_module_alias_moves_module_init
           w_module_alias_moves_module_call w_module_alias_moves_module_odd w_module_alias_moves_module_prop w_module_alias_moves_module_q
  = RChanges false [(0%nat, [3; 7]%N)] []
  /\ left_behind_now w_module_alias_moves_module_mods w_module_alias_moves_module_builtins
                 w_module_alias_moves_module_idents w_module_alias_moves_module_init
                 w_module_alias_moves_module_call w_module_alias_moves_module_odd w_module_alias_moves_module_prop w_module_alias_moves_module_q
     = false.
Proof. exact module_alias_fixed. Qed.
Print Assumptions C01_module_alias_fixed.

(* x = [1, 2] / print(len(x)): a rename at len was accepted and respelled the builtin *)
Theorem C01_builtin_refuted :
  builtin_respelled w_builtin_renamed_mods w_builtin_renamed_builtins w_builtin_renamed_idents
                    w_builtin_renamed_init w_builtin_renamed_call w_builtin_renamed_odd w_builtin_renamed_prop w_builtin_renamed_q = true.
Proof. exact builtin_refuted. Qed.
Print Assumptions C01_builtin_refuted.

Example C01_builtin_fixed :
  p_rename w_builtin_renamed_mods w_builtin_renamed_builtins w_builtin_renamed_idents
           w_builtin_renamed_init w_builtin_renamed_call w_builtin_renamed_odd w_builtin_renamed_prop w_builtin_renamed_q = RRefused.
Proof. exact builtin_fixed. Qed.
Print Assumptions C01_builtin_fixed.

(* ------------------------------------------------------------------ refutations (open findings) *)
(* z = 2 / print([z for z in range(z)]): outside the domain; after renaming the global z the z of range(z) denotes
   nothing *)
Theorem C01_comprehension_first_iterable_refuted :
  m_frag cfi_m w_comprehension_first_iterable_builtins w_comprehension_first_iterable_idents
         w_comprehension_first_iterable_init w_comprehension_first_iterable_call w_comprehension_first_iterable_odd w_comprehension_first_iterable_prop
  = false
  /\ exists q, m_tok cfi_m (snd w_comprehension_first_iterable_q) = Some q
               /\ m_alpha_fails cfi_m w_comprehension_first_iterable_builtins w_comprehension_first_iterable_idents
                                 w_comprehension_first_iterable_init w_comprehension_first_iterable_call
                                 w_comprehension_first_iterable_odd w_comprehension_first_iterable_prop q w_comprehension_first_iterable_fresh <> [].
Proof. exact comprehension_first_iterable_refuted. Qed.
Print Assumptions C01_comprehension_first_iterable_refuted.
