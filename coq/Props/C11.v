(* Property C11 — undo and redo are exact inverses over any history of changes.
   Theorems only; each is closed by [exact] and followed by Print Assumptions.

   Model: RopeVerif.C10 (tree as a finite map, change algebra, [run] = ChangeSet.do/undo, one step of
   _perform_undos/_perform_redos) and RopeVerif.C11.History (get_changed_resources with the File/Folder
   class, Folder.contains, _depends_on, the dependency scan, _move_front, _perform_undos(n), drop,
   History.do with _is_change_interesting and _remove_extra_items).  [hstep bp repaired f ign o s quiet] is
   one History operation of the code under test, under a task handle that is never stopped and a file
   system that does not fail (failures and interruption are C10's subject); the harness checks on every
   run that the code behaves as this model.

   Vocabulary (RopeVerif.C11.ExecProofs / HistoryProofs):
     link f d c a b     doing (d = Do) / undoing (d = Undo) change c from tree a succeeds, is exactly
                        reversible (Change.leaf_rev at every leaf), leads to tree b and returns c itself;
                        it is [run] under a calm schedule (C11_exec_is_run);
     chain f d l a b    the changes of l processed in list order, each a link;
     replay f base l m  = chain f Do l base m: performing l in order from the tree base gives m;
     Consistent f s     the tree is a tree, the undo list can be undone LIFO from it and the redo list
                        redone LIFO from it, every step a link;
     cok L              resource classes are coherent: resources with one path have one class, a resource
                        whose path lies strictly above another one is a Folder (what real trees satisfy at
                        any one time; boolean form class_ok);
     apart ps qs        no path of ps equals, lies below or lies above a path of qs.
   [bp] selects the dependency test of _depends_on: true = paths only (equal, below or above), which is
   what the code under test is EXPECTED to implement (/repo ed5101e); false = the test as found before that
   fix (Resource equality is class and path, containment asks the class).  The headline statements below
   are for bp = true and need no hypothesis on resource classes; the [_as_found] variants keep the
   statement for bp = false under [cok] as documentation.  The harness runs the model with bp = true; a
   code that behaves as bp = false again is a VIOLATION.
   Domain restriction, shown necessary by the refutations below: [irrev k = false] (no removal, no
   overwriting move among the performed leaves). *)
From stdpp Require Import gmap list.
From Coq Require Import NArith.
From RopeVerif.C10 Require Import FsModel Change.
From RopeVerif.C12 Require Persist.
From RopeVerif.C11 Require Import History ExecProofs CommuteProofs HistoryProofs SelectiveProofs DeepenProofs WitnessProofs.

(* ---- the schedule-free view used in the statements is C10's run ---- *)
Theorem C11_exec_is_run :
  forall (v : variant) (f : nat) (js : bool) (k : sched) (d : dir) (c : change) (m : fs),
    flt k = None /\ stp k = None /\ stopped k = false ->
    match exec f d c m with
    | Some (m', c', ir) => run v f js k d c m = Ok m' (if js && ir then set_irrev k else k) c'
    | None => exists m' k' x, run v f js k d c m = Err m' k' x
    end.
Proof. exact run_exec. Qed.
Print Assumptions C11_exec_is_run.

(* ---- undo / redo with nothing to undo / redo is refused (HistoryError) and changes nothing ---- *)
Theorem C11_empty_refused :
  forall (bp : bool) (v : variant) (f : nat) (ign : list N -> bool) (sel : option nat) (drp : bool) (s : hist) (k : sched),
    (h_undo s = [] -> hstep bp v f ign (OUndo sel drp) s k = SErr s k (E HistEmpty))
    /\ (h_redo s = [] -> hstep bp v f ign (ORedo sel) s k = SErr s k (E HistEmpty)).
Proof. exact (fun bp v f ign sel drp s k => conj (empty_undo_refused bp v f ign sel drp s k) (empty_redo_refused bp v f ign sel s k)). Qed.
Print Assumptions C11_empty_refused.

(* ---- a new change clears the redo list ---- *)
Theorem C11_new_change_clears_redo :
  forall (bp : bool) (v : variant) (f : nat) (ign : list N -> bool) (c : change) (s : hist) (k : sched) (s' : hist) (k' : sched) deps,
    hstep bp v f ign (ODo c) s k = SOk s' k' deps -> h_redo s' = [] /\ deps = [].
Proof. exact new_change_clears_redo. Qed.
Print Assumptions C11_new_change_clears_redo.

(* ---- the limit: |undo| + |redo| <= limit is kept by every operation, successful or not; hence after
   any session that starts within the limit (e.g. with empty lists) the undo list never exceeds it ---- *)
Theorem C11_limit :
  forall (bp : bool) (v : variant) (f : nat) (ign : list N -> bool) (os : list op) (s : hist),
    length (h_undo s) + length (h_redo s) <= h_limit s ->
    length (h_undo (hsteps bp v f ign os s)) + length (h_redo (hsteps bp v f ign os s)) <= h_limit s
    /\ h_limit (hsteps bp v f ign os s) = h_limit s.
Proof.
  exact (fun bp v f ign os s H =>
           match limit_session bp v f ign os s H with
           | conj A B => conj (eq_ind _ (fun n => _ <= n) A _ B) B
           end).
Qed.
Print Assumptions C11_limit.

(* ---- undo after do restores exactly the tree and the undo list (minus the oldest entry when the limit
   was hit), redo = [the change] ---- *)
Theorem C11_undo_do :
  forall (bp : bool) (f : nat) (ign : list N -> bool) (c : change) (s s1 : hist) (k1 : sched) deps,
    wf_fs (h_fs s) -> 0 < h_limit s ->
    hstep bp repaired f ign (ODo c) s quiet = SOk s1 k1 deps -> irrev k1 = false ->
    h_undo s1 <> h_undo s ->
    exists c' s2,
      hstep bp repaired f ign (OUndo None false) s1 quiet = SOk s2 quiet [length (h_undo s1) - 1]
      /\ h_fs s2 = h_fs s /\ h_undo s2 = trim (h_limit s - 1) (h_undo s) /\ h_redo s2 = [c']
      /\ h_limit s2 = h_limit s.
Proof. exact undo_after_do. Qed.
Print Assumptions C11_undo_do.

(* ---- redo after undo, and undo after redo, restore the whole state (tree and both lists) ---- *)
Theorem C11_redo_undo :
  forall (bp : bool) (f : nat) (ign : list N -> bool) (s : hist),
    Consistent f s -> h_undo s <> [] ->
    exists s1, hstep bp repaired f ign (OUndo None false) s quiet = SOk s1 quiet [length (h_undo s) - 1]
               /\ hstep bp repaired f ign (ORedo None) s1 quiet = SOk s quiet [length (h_redo s)].
Proof. exact redo_after_undo. Qed.
Print Assumptions C11_redo_undo.

Theorem C11_undo_redo :
  forall (bp : bool) (f : nat) (ign : list N -> bool) (s : hist),
    Consistent f s -> h_redo s <> [] ->
    exists s1, hstep bp repaired f ign (ORedo None) s quiet = SOk s1 quiet [length (h_redo s) - 1]
               /\ hstep bp repaired f ign (OUndo None false) s1 quiet = SOk s quiet [length (h_undo s)].
Proof. exact undo_after_redo. Qed.
Print Assumptions C11_undo_redo.

(* ---- drop=True: the same tree and undo list as a plain undo, the redo list untouched ---- *)
Theorem C11_drop :
  forall (bp : bool) (f : nat) (ign : list N -> bool) (s : hist),
    Consistent f s -> h_undo s <> [] ->
    exists s1 s2,
      hstep bp repaired f ign (OUndo None false) s quiet = SOk s1 quiet [length (h_undo s) - 1]
      /\ hstep bp repaired f ign (OUndo None true) s quiet = SOk s2 quiet [length (h_undo s) - 1]
      /\ h_fs s2 = h_fs s1 /\ h_undo s2 = h_undo s1 /\ h_redo s2 = h_redo s /\ h_limit s2 = h_limit s.
Proof. exact undo_drop. Qed.
Print Assumptions C11_drop.

(* ---- independent changes commute, for doing and for undoing: arbitrarily nested change sets whose
   resource paths neither coincide nor nest ---- *)
Theorem C11_commute :
  forall (f : nat) (d : dir) (e x : change) (a a1 b : fs),
    wf_fs a -> link f d e a a1 -> link f d x a1 b -> apart (roots e) (roots x) ->
    exists a1', link f d x a a1' /\ link f d e a1' b.
Proof. exact swap_any. Qed.
Print Assumptions C11_commute.

(* ---- the Consistent invariant: kept by a successful do (of a change touching a non-ignored resource,
   all performed leaves exactly reversible), a refused do changes nothing; kept by selective undo and redo
   (the two theorems below, which contain plain undo()/redo() as the case of the last position) ---- *)
Theorem C11_inv_do :
  forall (bp : bool) (f : nat) (ign : list N -> bool) (c : change) (s s' : hist) (k' : sched) deps,
    Consistent f s -> interesting_in ign c = true ->
    hstep bp repaired f ign (ODo c) s quiet = SOk s' k' deps -> irrev k' = false ->
    Consistent f s'.
Proof. exact consistent_do_ok. Qed.
Print Assumptions C11_inv_do.

Theorem C11_do_refused :
  forall (bp : bool) (f : nat) (ign : list N -> bool) (c : change) (s s' : hist) (k' : sched) (x : err),
    wf_fs (h_fs s) ->
    hstep bp repaired f ign (ODo c) s quiet = SErr s' k' x -> irrev k' = false -> s' = s.
Proof. exact consistent_do_refused. Qed.
Print Assumptions C11_do_refused.

(* ---- selective undo: History.undo(undo_list[i], drop) succeeds, returns the dependency closure, keeps
   the non-members in order, moves the members (most recent first) to the redo list unless drop, and the
   tree it leaves is the replay, from the SAME initial tree, of the changes that remain: "the tree equals
   the one obtained by never having made them".  The new state is Consistent (after drop: see below). ---- *)
Theorem C11_selective_undo :
  forall (f : nat) (ign : list N -> bool) (s : hist) (i : nat) (drp : bool),
    Consistent f s -> i < length (h_undo s) ->
    exists s' base,
      hstep true repaired f ign (OUndo (Some i) drp) s quiet = SOk s' quiet (find_deps true (h_undo s) i)
      /\ h_undo s' = part false (marks true (h_undo s) i) (h_undo s)
      /\ h_redo s' = (if drp then h_redo s else h_redo s ++ rev (part true (marks true (h_undo s) i) (h_undo s)))
      /\ h_limit s' = h_limit s
      /\ wf_fs base /\ replay f base (h_undo s) (h_fs s) /\ replay f base (h_undo s') (h_fs s')
      /\ wf_fs (h_fs s')
      /\ (drp = false -> Consistent f s').
Proof. exact (fun f ign s i drp Hc => selective_undo true f ign s i drp Hc (or_introl eq_refl)). Qed.
Print Assumptions C11_selective_undo.

Theorem C11_selective_redo :
  forall (f : nat) (ign : list N -> bool) (s : hist) (i : nat),
    Consistent f s -> i < length (h_redo s) ->
    exists s',
      hstep true repaired f ign (ORedo (Some i)) s quiet = SOk s' quiet (find_deps true (h_redo s) i)
      /\ h_redo s' = part false (marks true (h_redo s) i) (h_redo s)
      /\ h_undo s' = h_undo s ++ rev (part true (marks true (h_redo s) i) (h_redo s))
      /\ h_limit s' = h_limit s
      /\ Consistent f s'.
Proof. exact (fun f ign s i Hc => selective_redo true f ign s i Hc (or_introl eq_refl)). Qed.
Print Assumptions C11_selective_redo.

(* the same two statements for the dependency test as found before ed5101e (bp = false): they need coherent
   resource classes, see C11_class_blind_dependency_refuted *)
Theorem C11_selective_undo_as_found :
  forall (f : nat) (ign : list N -> bool) (s : hist) (i : nat) (drp : bool),
    Consistent f s -> cok (resources_list (h_undo s)) -> i < length (h_undo s) ->
    exists s' base,
      hstep false repaired f ign (OUndo (Some i) drp) s quiet = SOk s' quiet (find_deps false (h_undo s) i)
      /\ h_undo s' = part false (marks false (h_undo s) i) (h_undo s)
      /\ h_redo s' = (if drp then h_redo s else h_redo s ++ rev (part true (marks false (h_undo s) i) (h_undo s)))
      /\ h_limit s' = h_limit s
      /\ wf_fs base /\ replay f base (h_undo s) (h_fs s) /\ replay f base (h_undo s') (h_fs s')
      /\ wf_fs (h_fs s')
      /\ (drp = false -> Consistent f s').
Proof. exact (fun f ign s i drp Hc Hk => selective_undo false f ign s i drp Hc (or_intror Hk)). Qed.
Print Assumptions C11_selective_undo_as_found.

Theorem C11_selective_redo_as_found :
  forall (f : nat) (ign : list N -> bool) (s : hist) (i : nat),
    Consistent f s -> cok (resources_list (h_redo s)) -> i < length (h_redo s) ->
    exists s',
      hstep false repaired f ign (ORedo (Some i)) s quiet = SOk s' quiet (find_deps false (h_redo s) i)
      /\ h_redo s' = part false (marks false (h_redo s) i) (h_redo s)
      /\ h_undo s' = h_undo s ++ rev (part true (marks false (h_redo s) i) (h_redo s))
      /\ h_limit s' = h_limit s
      /\ Consistent f s'.
Proof. exact (fun f ign s i Hc Hk => selective_redo false f ign s i Hc (or_intror Hk)). Qed.
Print Assumptions C11_selective_redo_as_found.

(* ---- the dependency scan is sound: a change that is NOT taken is apart from every resource of the
   chosen change and of the members before it ([okmarks]: at a non-member, [apart (roots c) acc] for the
   accumulated paths acc) ---- *)
Theorem C11_closure_sound :
  forall (c : change) (T : list change), okmarks (roots c) (mark_scan true (resources c) T) T.
Proof. exact (fun c T => closure_sound true c T (or_introl eq_refl)). Qed.
Print Assumptions C11_closure_sound.

Theorem C11_closure_sound_as_found :
  forall (c : change) (T : list change),
    cok (resources_list (c :: T)) -> okmarks (roots c) (mark_scan false (resources c) T) T.
Proof. exact (fun c T H => closure_sound false c T (or_intror H)). Qed.
Print Assumptions C11_closure_sound_as_found.

(* ... and tight: a change is only taken along when one of its paths equals, lies below or lies above a
   path of the chosen change or of an earlier member ("precisely the later changes that touch the same
   resources") *)
Theorem C11_closure_tight :
  forall (bp : bool) (rs acc : list (bool * list N)),
    depends_on bp rs acc = true ->
    exists r s, In r rs /\ In s acc /\ nested (snd r) (snd s) = true.
Proof. exact closure_tight. Qed.
Print Assumptions C11_closure_tight.

(* ---- the invariant in one statement: every operation whose outcome satisfies [step_ok] (a do touches a
   non-ignored resource and performs only exactly reversible leaves, also when refused half-way; an undo
   does not drop) keeps Consistent - successful or refused, last or chosen change, listed or not ---- *)
Theorem C11_inv :
  forall (f : nat) (ign : list N -> bool) (o : op) (s : hist),
    Consistent f s ->
    step_ok ign o (hstep true repaired f ign o s quiet) ->
    Consistent f (sres_state (hstep true repaired f ign o s quiet)).
Proof. exact (fun f ign o s Hc => consistent_step true f ign o s Hc (or_introl eq_refl)). Qed.
Print Assumptions C11_inv.

Theorem C11_inv_as_found :
  forall (f : nat) (ign : list N -> bool) (o : op) (s : hist),
    Consistent f s ->
    cok (resources_list (h_undo s)) /\ cok (resources_list (h_redo s)) ->
    step_ok ign o (hstep false repaired f ign o s quiet) ->
    Consistent f (sres_state (hstep false repaired f ign o s quiet)).
Proof. exact (fun f ign o s Hc Hk => consistent_step false f ign o s Hc (or_intror Hk)). Qed.
Print Assumptions C11_inv_as_found.

(* ---- well-behaved sessions: a condition WITHOUT the ghost flag.  [step_wb]: a do touches a non-ignored
   resource and, from the tree at that moment, either succeeds with every leaf exactly reversible (decided by
   the schedule-free [exec]) or is refused and is built from fresh edits and creations (C10's static_ok); no
   undo drops.  Every state such a session reaches from a Consistent state is Consistent. ---- *)
Theorem C11_well_behaved_reachable :
  forall (f : nat) (ign : list N -> bool) (os : list op) (s : hist),
    Consistent f s -> well_behaved_session true f ign os s = true ->
    Consistent f (hsteps true repaired f ign os s).
Proof. exact well_behaved_reachable. Qed.
Print Assumptions C11_well_behaved_reachable.

(* the purely syntactic sub-class (no tree is looked at): sessions whose performed changes are nested sets of
   edits with unrecorded old contents and creations, touching a non-ignored resource, and no drop *)
Theorem C11_static_reachable :
  forall (f : nat) (ign : list N -> bool) (os : list op) (s : hist),
    Consistent f s -> static_session ign os = true -> Consistent f (hsteps true repaired f ign os s).
Proof. exact static_reachable. Qed.
Print Assumptions C11_static_reachable.

(* hypothesis-free corollaries for a project that starts with an empty history on a well-formed tree *)
Theorem C11_well_behaved_selective_undo :
  forall (f : nat) (ign : list N -> bool) (os : list op) (m : fs) (lim i : nat) (drp : bool),
    wf_fs m ->
    well_behaved_session true f ign os (Hist m [] [] lim) = true ->
    let s := hsteps true repaired f ign os (Hist m [] [] lim) in
    i < length (h_undo s) ->
    exists s' base,
      hstep true repaired f ign (OUndo (Some i) drp) s quiet = SOk s' quiet (find_deps true (h_undo s) i)
      /\ h_undo s' = part false (marks true (h_undo s) i) (h_undo s)
      /\ h_redo s' = (if drp then h_redo s else h_redo s ++ rev (part true (marks true (h_undo s) i) (h_undo s)))
      /\ wf_fs base /\ replay f base (h_undo s) (h_fs s) /\ replay f base (h_undo s') (h_fs s')
      /\ (drp = false -> Consistent f s').
Proof. exact well_behaved_selective_undo. Qed.
Print Assumptions C11_well_behaved_selective_undo.

Theorem C11_well_behaved_selective_redo :
  forall (f : nat) (ign : list N -> bool) (os : list op) (m : fs) (lim i : nat),
    wf_fs m ->
    well_behaved_session true f ign os (Hist m [] [] lim) = true ->
    let s := hsteps true repaired f ign os (Hist m [] [] lim) in
    i < length (h_redo s) ->
    exists s',
      hstep true repaired f ign (ORedo (Some i)) s quiet = SOk s' quiet (find_deps true (h_redo s) i)
      /\ h_redo s' = part false (marks true (h_redo s) i) (h_redo s)
      /\ h_undo s' = h_undo s ++ rev (part true (marks true (h_redo s) i) (h_redo s))
      /\ Consistent f s'.
Proof. exact well_behaved_selective_redo. Qed.
Print Assumptions C11_well_behaved_selective_redo.

(* ---- stale redo entries.  An entry of the redo list is stale when the list can no longer be redone LIFO
   with every step succeeding and exactly reversible (boolean: consistentRb).  Without drop=True no stale
   entry can arise; and a drop is harmless exactly when the shape of the finding is absent: the dropped
   changes are apart from every redo entry. ---- *)
Theorem C11_no_stale_without_drop :
  forall (f : nat) (ign : list N -> bool) (os : list op) (s : hist),
    Consistent f s -> well_behaved_session true f ign os s = true ->
    exists top, chain f Do (rev (h_redo (hsteps true repaired f ign os s)))
                      (h_fs (hsteps true repaired f ign os s)) top.
Proof. exact no_stale_without_drop. Qed.
Print Assumptions C11_no_stale_without_drop.

Theorem C11_drop_safe :
  forall (f : nat) (ign : list N -> bool) (s : hist) (i : nat),
    Consistent f s -> i < length (h_undo s) ->
    (forall y z, In y (part true (marks true (h_undo s) i) (h_undo s)) -> In z (h_redo s) ->
                 apart (roots y) (roots z)) ->
    Consistent f (sres_state (hstep true repaired f ign (OUndo (Some i) true) s quiet)).
Proof. exact drop_safe. Qed.
Print Assumptions C11_drop_safe.

(* ---- lowering max_history_items between two operations ([set_limit]) trims nothing and keeps Consistent;
   the undo list may exceed the new limit (C11_limit_lowered_example) until the next recorded do, which
   re-establishes |undo| + |redo| <= limit whatever the lists were ---- *)
Theorem C11_limit_restored_by_do :
  forall (bp : bool) (v : variant) (f : nat) (ign : list N -> bool) (c : change) (s : hist) (k : sched)
         (s' : hist) (k' : sched) deps,
    hstep bp v f ign (ODo c) s k = SOk s' k' deps -> h_undo s' <> h_undo s ->
    length (h_undo s') + length (h_redo s') <= h_limit s' /\ h_limit s' = h_limit s.
Proof. exact limit_restored_by_do. Qed.
Print Assumptions C11_limit_restored_by_do.

(* ---- closing and reopening the project (C12's model of History.write / _load_history): what is reloaded
   is the image of the same redo list and of the undo list trimmed to the limit, and that state is
   Consistent when the state before was - so every theorem above holds after a reopen as before it.
   ([emb sp] is the change as C12's persistence model sees it, sp renders a path.) ---- *)
Theorem C11_reopen :
  forall (f : nat) (sp : list N -> list N) (lim : nat) (s : hist),
    RopeVerif.C12.Persist.reopen true (RopeVerif.C12.Persist.close true lim (emb_hist sp s))
    = Some (emb_hist sp (Hist (h_fs s) (trim lim (h_undo s)) (h_redo s) (h_limit s)))
    /\ (Consistent f s -> Consistent f (Hist (h_fs s) (trim lim (h_undo s)) (h_redo s) (h_limit s))).
Proof. exact (fun f sp lim s => conj (reopen_bridge sp lim s) (reopen_consistent f lim s)). Qed.
Print Assumptions C11_reopen.

(* ---- Project.is_ignored on the default kind of patterns (no slash): whatever lies below an ignored resource
   is ignored ---- *)
Theorem C11_ignored_below :
  forall (tbl : list (N * list N)) (pats : list (list N)) (p r : list N),
    ignored_by tbl pats p = true -> ignored_by tbl pats (p ++ r) = true.
Proof. exact ignored_below. Qed.
Print Assumptions C11_ignored_below.

(* ---- the boolean predicates the harness evaluates on every case imply the hypotheses above ---- *)
Theorem C11_domain_check_sound :
  forall (f : nat) (s : hist),
    (consistentb f s = true -> Consistent f s)
    /\ (class_ok (resources_list (h_undo s)) = true -> cok (resources_list (h_undo s))).   (* bp = false only *)
Proof. exact (fun f s => conj (consistentb_sound f s) (class_ok_sound _)). Qed.
Print Assumptions C11_domain_check_sound.

(* ---- refutations: the faithful model does not satisfy the unrestricted statements; each witness is
   replayed on rope by the harness (open findings, except the class-blind one which is fixed) ---- *)
(* RemoveResource.undo is NotImplementedError: the removed file is not restored by undo *)
Theorem C11_remove_not_undoable_refuted :
  exists f ign c s s1 k1 d1 s2 k2,
    wf_fs (h_fs s) /\ undoable c = false
    /\ hstep true repaired f ign (ODo c) s quiet = SOk s1 k1 d1 /\ irrev k1 = true
    /\ hstep true repaired f ign (OUndo None false) s1 quiet = SErr s2 k2 (E NotImpl)
    /\ h_fs s !! pa = Some (File cA) /\ h_fs s2 !! pa = None /\ length (h_undo s2) = 1.
Proof. exact remove_not_undoable_refuted. Qed.
Print Assumptions C11_remove_not_undoable_refuted.

(* FIXED in /repo by ed5101e; kept as documentation of the as-found dependency test (bp = false), for which
   the [_as_found] theorems need [cok].  A code that behaves like this again is reported as a VIOLATION.
   _depends_on compared resources by class and path: a Folder created where a File was moved away from
   is not a dependency; the selective undo of the move puts the file INSIDE the new folder and leaves a
   state that is not Consistent.  [cok] cannot be dropped from C11_selective_undo_as_found. *)
Theorem C11_class_blind_dependency_refuted :
  exists s s' k' deps,
    Consistent 6 s /\ class_ok (resources_list (h_undo s)) = false
    /\ hstep false repaired 6 (fun _ => false) (OUndo (Some 0) false) s quiet = SOk s' k' deps
    /\ deps = [0] /\ h_fs s' !! paa = Some (File cA) /\ consistentb 6 s' = false.
Proof. exact class_blind_dependency_refuted. Qed.
Print Assumptions C11_class_blind_dependency_refuted.

(* the same input under the path-comparing dependency test (bp = true, the code as fixed): the folder
   creation is taken along, the file is back in place, the state is Consistent *)
Example C11_class_blind_dependency_repaired_example :
  exists s' k' deps,
    hstep true repaired 6 (fun _ => false) (OUndo (Some 0) false) w_alias quiet = SOk s' k' deps
    /\ deps = [0; 1] /\ h_fs s' !! pa = Some (File cA) /\ consistentb 6 s' = true.
Proof. exact class_blind_dependency_repaired. Qed.
Print Assumptions C11_class_blind_dependency_repaired_example.

(* a MoveResource onto an existing file overwrites it; undo cannot bring the overwritten file back.
   [irrev k1 = false] cannot be dropped from C11_undo_do (and [undoable c] does not imply it). *)
Theorem C11_move_overwrite_refuted :
  exists f ign c s s1 k1 d1 s2 k2 d2,
    wf_fs (h_fs s) /\ undoable c = true
    /\ hstep true repaired f ign (ODo c) s quiet = SOk s1 k1 d1 /\ irrev k1 = true
    /\ hstep true repaired f ign (OUndo None false) s1 quiet = SOk s2 k2 d2
    /\ h_fs s !! pb = Some (File cB) /\ h_fs s2 !! pb = None.
Proof. exact move_overwrite_refuted. Qed.
Print Assumptions C11_move_overwrite_refuted.

(* drop=True forgets the undone change but keeps redo entries that depend on it (move a -> d/a; edit d/a;
   undo; undo with drop): the redo half of Consistent is lost, and redo() then writes d/a although a is
   back in place.  This is why C11_selective_undo claims only the undo half of Consistent after a drop. *)
Theorem C11_drop_stale_redo_refuted :
  exists s1 k1 d1 s2 k2 d2,
    Consistent 6 w_drop
    /\ hstep true repaired 6 (fun _ => false) (OUndo None true) w_drop quiet = SOk s1 k1 d1
    /\ consistentUb 6 s1 = true /\ consistentRb 6 s1 = false
    /\ hstep true repaired 6 (fun _ => false) (ORedo None) s1 quiet = SOk s2 k2 d2
    /\ irrev k2 = true
    /\ h_fs s2 !! pa = Some (File cA) /\ h_fs s2 !! pda = Some (File cC).
Proof. exact drop_stale_redo_refuted. Qed.
Print Assumptions C11_drop_stale_redo_refuted.

(* ---- non-vacuity ---- *)
(* a history of four change sets (edit, folder move, edit below the moved folder, nested set creating a
   folder and a file in it); selective undo of the folder move takes the later edit with it and leaves the
   first and the last change: every hypothesis of C11_selective_undo holds, the selection is not LIFO *)
Example C11_selective_undo_example :
  Consistent 6 w_hist /\ 1 < length (h_undo w_hist)
  /\ find_deps true (h_undo w_hist) 1 = [1; 2]
  /\ length (part false (marks true (h_undo w_hist) 1) (h_undo w_hist)) = 2.
Proof. exact selective_undo_example. Qed.
Print Assumptions C11_selective_undo_example.

(* after it, selective redo of the edit (first in the redo list) has to redo the folder move as well *)
Example C11_selective_redo_example :
  Consistent 6 w_hist2 /\ 0 < length (h_redo w_hist2)
  /\ find_deps true (h_redo w_hist2) 0 = [0; 1].
Proof. exact selective_redo_example. Qed.
Print Assumptions C11_selective_redo_example.

Example C11_undo_do_example :
  exists s1 k1 deps,
    wf_fs (h_fs w_hist) /\ 0 < h_limit w_hist
    /\ hstep true repaired 6 (fun _ => false) (ODo (CS 5 [MV pa [6%N; 1%N] false; CC [6%N; 1%N] cB None])) w_hist quiet = SOk s1 k1 deps
    /\ irrev k1 = false /\ h_undo s1 <> h_undo w_hist.
Proof. exact undo_after_do_example. Qed.
Print Assumptions C11_undo_do_example.

Example C11_limit_example :
  (length (h_undo (st w_tree 2)) + length (h_redo (st w_tree 2)) <= h_limit (st w_tree 2))
  /\ length (h_undo (hsteps true repaired 6 (fun _ => false) w_ops (st w_tree 2))) = 2.
Proof. exact limit_example. Qed.
Print Assumptions C11_limit_example.

Example C11_commute_example :
  exists a a1 b,
    wf_fs a /\ link 6 Do (CS 1 [CC pa cC (Some cA)]) a a1 /\ link 6 Do (CS 2 [MV pd pe true]) a1 b
    /\ apart (roots (CS 1 [CC pa cC (Some cA)])) (roots (CS 2 [MV pd pe true])).
Proof. exact swap_example. Qed.
Print Assumptions C11_commute_example.

Example C11_well_behaved_example :
  wf_fs (list_to_map w_tree) /\ well_behaved_session true 6 no_ign w_session (st w_tree 100) = true
  /\ static_session no_ign w_session = false
  /\ length (h_undo (hsteps true repaired 6 no_ign w_session (st w_tree 100))) = 3
  /\ length (h_redo (hsteps true repaired 6 no_ign w_session (st w_tree 100))) = 1.
Proof. exact well_behaved_example. Qed.
Print Assumptions C11_well_behaved_example.

Example C11_static_example :
  static_session no_ign w_static = true
  /\ length (h_undo (hsteps true repaired 6 no_ign w_static (st w_tree 100))) = 2
  /\ h_fs (hsteps true repaired 6 no_ign w_static (st w_tree 100)) !! pdb = Some (File cD).
Proof. exact static_example. Qed.
Print Assumptions C11_static_example.

Example C11_drop_safe_example :
  Consistent 6 w_dropok /\ 0 < length (h_undo w_dropok)
  /\ (forall y z, In y (part true (marks true (h_undo w_dropok) 0) (h_undo w_dropok)) -> In z (h_redo w_dropok) ->
                  apart (roots y) (roots z))
  /\ length (h_redo w_dropok) = 1.
Proof. exact drop_safe_example. Qed.
Print Assumptions C11_drop_safe_example.

Example C11_limit_lowered_example :
  length (h_undo (set_limit 1 w_hist)) = 4 /\ h_limit (set_limit 1 w_hist) = 1
  /\ exists s' k' deps,
       hstep true repaired 6 no_ign (ODo (CS 9 [CC pa cD None])) (set_limit 1 w_hist) quiet = SOk s' k' deps
       /\ length (h_undo s') = 1.
Proof. exact limit_lowered_example. Qed.
Print Assumptions C11_limit_lowered_example.

Example C11_ignored_example :
  ignored_by w_tbl w_pats [2%N] = true /\ ignored_by w_tbl w_pats [4%N; 3%N; 1%N] = true
  /\ ignored_by w_tbl w_pats [5%N] = true /\ ignored_by w_tbl w_pats [1%N] = false
  /\ ignored_by w_tbl w_pats [4%N; 1%N] = false.
Proof. exact ignored_example. Qed.
Print Assumptions C11_ignored_example.
