(* Property C03 — extract method preserves behaviour or is refused. Theorems only; each is closed by
   [exact] and followed by Print Assumptions.

   Flow (coq/C03/Flow.v) is the fragment: assignments, augmented assignments, print, if/else, while, for over
   range, return, pass, break, continue over integer expressions; [run n params vec body] is what a caller of
   the host observes (how it ended — fell off the end, returned v, name read while unbound, out of fuel — and
   what it printed) with fuel n for loop iterations. A located program [lc] is a host body with a selected
   contiguous statement range [region lc]; [orig lc] is the host, [plug lc [c]] the host with the range replaced.
   [SCall _ Rt A body tail shared] is the statement `Rt = g(A)` (or `g(A)`, or `return g(A)` when tail) for a
   function g with parameters A and body `body; return Rt`; shared = defined at module level beside
   module-level host code. *)
From Coq Require Import List NArith ZArith Bool.
From RopeVerif.C03 Require Import Flow Collector Dataflow Current LiveProofs OutlineProofs CollectorProofs Witnesses Sufficient SufficientProofs OneLine OneLineProofs ExtractVar ExtractVarProofs.
Import ListNotations.

(* The outlining lemma, independent of rope. outline_ok (coq/C03/Dataflow.v) is the conjunction of: the
   region has no break/continue that leaves it and no return except a final top-level one; every name the
   region may read before assigning it and that may be bound on entry (earlier assignments, parameters,
   assignments of earlier loop iterations) is in A; every name in A is definitely bound on entry; every name
   the region may assign and that is live at its exit (including round enclosing loops) is in Rt; every name
   in Rt is definitely assigned by the region or is in A. Then outlining preserves the observable behaviour
   for every argument vector and every fuel (equal fuel on both sides, so also non-termination). *)
Theorem C03_outline_sound :
  forall (lc : loc) (params A Rt : list var) (shared : bool),
    outline_ok lc params A Rt shared = true ->
    forall (n : nat) (vec : list Z),
      run n params vec (plug lc [SCall 0%N Rt A (region lc) (returns_last (region lc)) shared])
      = run n params vec (orig lc).
Proof. exact outline_sound. Qed.
Print Assumptions C03_outline_sound.

(* the hypotheses are satisfiable by a region inside a loop that carries two values round it *)
Example C03_outline_sound_nonvacuous :
  outline_ok ex_loop [va] [vx; vy] [vy; vx] false = true
  /\ run 20 [va] [3]%Z (orig ex_loop) = (Ret 3%Z, [3; 1; 0]%Z).
Proof. vm_compute. split; reflexivity. Qed.
Print Assumptions C03_outline_sound_nonvacuous.

(* Soundness of the liveness analysis the hypotheses are phrased with: two runs of the same statements from
   stores that agree on the live-in names end the same way, print the same, and agree on the names live at
   the exit taken. *)
Theorem C03_liveness_sound :
  forall n ss k s1 s2 o,
    nocall ss = true -> conv_b ss k = true ->
    rel Qtrue (live_b ss k) s1 s2 ->
    res_rel Qtrue k (exec n ss s1 o) (exec n ss s2 o).
Proof. exact (live_sound Qtrue Qtrue_refl). Qed.
Print Assumptions C03_liveness_sound.

(* The model of rope's extract (collector with the code's flag discipline or any repaired one): whenever the
   args/returns it computes satisfy the outlining hypotheses for this host and region, the program it produces
   behaves like the original. The harness evaluates this boolean for every generated case ("in the theorem's
   domain") with sw = current (coq/C03/Current.v), the discipline of the code including the four committed fixes. *)
Theorem C03_extract_preserves :
  forall sw glob params lc p',
    extract sw glob params lc = Some p' ->
    outline_ok lc params (args_rope sw glob params lc) (rets_rope sw glob params lc) glob = true ->
    forall n vec, run n params vec p' = run n params vec (orig lc).
Proof. exact extract_preserves. Qed.
Print Assumptions C03_extract_preserves.

Example C03_extract_preserves_nonvacuous :
  outline_ok ex_loop [va] (args_rope current false [va] ex_loop) (rets_rope current false [va] ex_loop) false = true
  /\ args_rope current false [va] ex_loop = [vx; vy] /\ rets_rope current false [va] ex_loop = [vy; vx]
  /\ outline_ok ex_tail [va; vb] (args_rope current false [va; vb] ex_tail) (rets_rope current false [va; vb] ex_tail) false = true
  /\ returns_last (region ex_tail) = true.
Proof. vm_compute. repeat split; reflexivity. Qed.
Print Assumptions C03_extract_preserves_nonvacuous.

(* A region is refused exactly when the refusal conditions fire, and then nothing is produced; the refusal
   conditions coincide with the shape hypothesis of the outlining lemma (control cannot escape an accepted
   region). A break/continue counts as escaping unless it lies in the BODY of a loop of the region: the
   else-clause of a loop belongs to the enclosing loop (unmatched_bc_s, coq/C03/Flow.v), and C03_outline_sound
   is proved for the semantics in which a break/continue of an else-clause leaves the enclosing loop. *)
Theorem C03_refusal_no_change :
  forall sw glob params lc,
    (accepted (region lc) = false <-> extract sw glob params lc = None)
    /\ (accepted (region lc) = true <-> no_escape (region lc) = true).
Proof.
  intros. split; [exact (refusal_no_change sw glob params lc)|].
  split; [exact (accepted_no_escape _) | exact (no_escape_accepted _)].
Qed.
Print Assumptions C03_refusal_no_change.

Example C03_refusal_nonvacuous :
  accepted (region ex_refused_ret) = false /\ accepted (region ex_refused_brk) = false
  /\ accepted (region ex_loop) = true
  (* an inner loop selected with its else-clause: `continue` there belongs to the outer loop => refused; with
     a harmless else-clause the matched `break` of the body is fine => accepted, and extracted correctly *)
  /\ accepted (region ex_refused_else) = false /\ accepted (region ex_accepted_else) = true
  /\ outline_ok ex_accepted_else [va] (args_rope current false [va] ex_accepted_else)
                 (rets_rope current false [va] ex_accepted_else) false = true.
Proof. vm_compute. repeat split; reflexivity. Qed.
Print Assumptions C03_refusal_nonvacuous.

(* C03_collector_sufficient at full strength would read
       forall lc, accepted (region lc) = true -> outline_ok lc params (args_rope current ..) (rets_rope current ..) = true
   and is still false for the current code (open defects: see the counterexamples for `current` below). Proved
   variant, for the current discipline (fixes 25782e7, c0fa7ad, f6cf806, 99f0982 included), on the syntactic class
   side_C03 (coq/C03/Sufficient.v): the region is a run of simple statements (assignment, augmented assignment,
   print, pass, optionally a final return) at the top level of the function body; whatever precedes it (any
   statements, loops and conditionals included) definitely assigns every name it may assign; whatever follows
   it is ARBITRARY (before f6cf806 the class had to demand that the rest of the function assigns none of the
   region's names: the repaired kill discipline -- only writes at the top level of the body kill -- is proved
   to over-approximate liveness); lines are in source order. Then the collector (visitor followed through the
   three phases before / inside / after the region) computes args/returns that satisfy every hypothesis of the
   outlining lemma, and the region is accepted. Not widened further: regions containing compound statements
   stay outside because of the open defect C03-maybe-written-read, regions inside loops because of
   C03-loop-carried / C03-loop-prewritten. *)
Theorem C03_collector_sufficient_partial :
  forall params pre R post,
    side_C03 params pre R post = true ->
    let lc := LHere pre R post in
    accepted (region lc) = true
    /\ outline_ok lc params (args_rope current false params lc) (rets_rope current false params lc) false = true.
Proof. exact collector_sufficient. Qed.
Print Assumptions C03_collector_sufficient_partial.

(* hence, on that class, extraction as the current code performs it preserves the behaviour for every argument
   vector and every fuel (C03_collector_sufficient_partial + C03_outline_sound) *)
Theorem C03_extract_correct_partial :
  forall params pre R post,
    side_C03 params pre R post = true ->
    exists p', extract current false params (LHere pre R post) = Some p'
               /\ forall n vec, run n params vec p' = run n params vec (pre ++ R ++ post).
Proof.
  intros params pre R post H. destruct (collector_sufficient params pre R post H) as [ACC OK].
  simpl in ACC. unfold extract. simpl region. rewrite ACC. eexists. split; [reflexivity|].
  intros n vec. apply (outline_sound (LHere pre R post)). exact OK.
Qed.
Print Assumptions C03_extract_correct_partial.

(* the class is inhabited by a region that reads and updates two names, preceded by a loop and followed by a
   conditional that REASSIGNS one of them (allowed since f6cf806) and a return *)
Example C03_collector_sufficient_nonvacuous :
  side_C03 [va] [SAssign 2 vx (EConst 0); SWhile 3 (EBin Lt (EVar vx) (EVar va)) [SAug 4 vx Add (EConst 1)] [];
                 SAssign 5 vy (EVar va)]
           [SAug 6 vy Add (EVar vx); SAssign 7 vz (EBin Mul (EVar vy) (EConst 2)); SPrint 8 (EVar vz)]
           [SIf 9 (EVar vz) [SAssign 10 vy (EConst 0)] []; SReturn 11 (EBin Add (EVar vz) (EVar vy))] = true.
Proof. vm_compute. reflexivity. Qed.
Print Assumptions C03_collector_sufficient_nonvacuous.

(* The five committed fixes (25782e7, c0fa7ad, f6cf806, 99f0982, 98267e1): the current discipline satisfies the
   outlining hypotheses on the witnesses of the five fixed defects (so by C03_extract_preserves they are now
   extracted correctly; their replays are corpus cases that must pass), and one further switch each would do the
   same for two repairable open defects (maybe-written-read, loop-carried). *)
Theorem C03_fixed_defects_sound :
  repaired current false [va; vb] w_nested = true
  /\ repaired current false [va] w_branch = true
  /\ repaired current false [va] w_loopdepth = true
  /\ repaired current true [] w_module = true
  /\ repaired (sw_or current (only false false false true false false)) false [va; vb] w_readmaybe = true
  /\ repaired (sw_or current (only false false false false true false)) false [va] w_loopcarried = true
  /\ repaired current false [va] w_compiter = true.
Proof. exact current_compute. Qed.
Print Assumptions C03_fixed_defects_sound.

(* Computed counterexamples. The first four are about the discipline of the code AS IT WAS FOUND (as_is); those
   defects are FIXED in /repo and the lemmas stay as documentation (replays: corpus/C03/). The other five are
   about the CURRENT code and are open findings (replays: findings/); the harness checks on every run that each
   replay is the lemma's witness. *)

(* nested `if` in the extracted `if`: leaving it resets `conditional`, x counts as written, is returned but
   not passed: the new function raises UnboundLocalError when the outer condition is false *)
(* FIXED by 25782e7; statement about the as-found discipline as_is *)
Theorem C03_nested_conditional_refuted :
  exists p', extract as_is false [va; vb] w_nested = Some p'
             /\ run 5 [va; vb] [0; 0]%Z p' <> run 5 [va; vb] [0; 0]%Z (orig w_nested).
Proof. exact nested_conditional_refuted. Qed.
Print Assumptions C03_nested_conditional_refuted.

(* the write in the sibling else-branch enters postwritten and hides the later `return z`: z is not returned,
   the host silently returns 0 instead of 4 *)
(* FIXED by f6cf806; statement about the as-found discipline as_is *)
Theorem C03_postwritten_branch_refuted :
  exists p', extract as_is false [va] w_branch = Some p'
             /\ run 5 [va] [1]%Z p' <> run 5 [va] [1]%Z (orig w_branch).
Proof. exact postwritten_branch_refuted. Qed.
Print Assumptions C03_postwritten_branch_refuted.

(* a read inside a conditional is dropped when the name is in maybe_written, even if the conditional write
   belongs to an earlier statement: z is not passed *)
Theorem C03_maybe_written_read_refuted :
  exists p', extract current false [va; vb] w_readmaybe = Some p'
             /\ run 5 [va; vb] [0; 1]%Z p' <> run 5 [va; vb] [0; 1]%Z (orig w_readmaybe).
Proof. exact maybe_written_read_refuted. Qed.
Print Assumptions C03_maybe_written_read_refuted.

(* leaving a loop inside the region decrements loop_depth although entering it did not increment it: the
   loop-carried x is not returned, the host loops for ever *)
(* FIXED by c0fa7ad; statement about the as-found discipline as_is *)
Theorem C03_loop_depth_refuted :
  exists p', extract as_is false [va] w_loopdepth = Some p'
             /\ run 20 [va] [2]%Z p' <> run 20 [va] [2]%Z (orig w_loopdepth).
Proof. exact loop_depth_refuted. Qed.
Print Assumptions C03_loop_depth_refuted.

(* a name written in the region and read earlier in the enclosing loop body (not in the region) is not returned *)
Theorem C03_loop_carried_refuted :
  exists p', extract current false [va] w_loopcarried = Some p'
             /\ run 20 [va] [2]%Z p' <> run 20 [va] [2]%Z (orig w_loopcarried).
Proof. exact loop_carried_refuted. Qed.
Print Assumptions C03_loop_carried_refuted.

(* the iterable of a comprehension is evaluated in the enclosing scope, but a read there of an outer name that is
   spelled like the comprehension's loop variable is discarded by `read - comp_names | read`: the name is not
   passed to the new function *)
(* FIXED by 98267e1; statement about the discipline just before that commit (before_98267e1) *)
Theorem C03_comprehension_iterable_refuted :
  exists p', extract before_98267e1 false [va] w_compiter = Some p'
             /\ run 5 [va] [2]%Z p' <> run 5 [va] [2]%Z (orig w_compiter).
Proof. exact comprehension_iterable_refuted. Qed.
Print Assumptions C03_comprehension_iterable_refuted.

(* a name bound later in the enclosing loop body reaches the region in the next iteration but is not in
   prewritten: it is not passed, the new function raises NameError from the second iteration on (passing it would raise
   in the first iteration: this region cannot be extracted by parameter passing at all and should be refused) *)
Theorem C03_loop_prewritten_refuted :
  exists p', extract current false [va] w_loopprew = Some p'
             /\ run 20 [va] [2]%Z p' <> run 20 [va] [2]%Z (orig w_loopprew).
Proof. exact loop_prewritten_refuted. Qed.
Print Assumptions C03_loop_prewritten_refuted.

(* module level: args = read & postread & written; a global that is read and rebound in the region but not
   read afterwards becomes an unbound local of the new function *)
(* FIXED by 99f0982; statement about the as-found discipline as_is *)
Theorem C03_module_args_refuted :
  exists p', extract as_is true [] w_module = Some p'
             /\ run 5 [] [] p' <> run 5 [] [] (orig w_module).
Proof. exact module_args_refuted. Qed.
Print Assumptions C03_module_args_refuted.

(* prewritten is a may-analysis: a name that is only conditionally bound before the region is passed, the call
   itself raises although the region would not have read it *)
Theorem C03_arg_maybe_unbound_refuted :
  exists p', extract current false [va] w_argunbound = Some p'
             /\ run 5 [va] [0]%Z p' <> run 5 [va] [0]%Z (orig w_argunbound).
Proof. exact arg_maybe_unbound_refuted. Qed.
Print Assumptions C03_arg_maybe_unbound_refuted.

(* a name only conditionally assigned in the region and not bound before is returned: `return x` raises *)
Theorem C03_result_maybe_unbound_refuted :
  exists p', extract current false [va] w_retunbound = Some p'
             /\ run 5 [va] [0]%Z p' <> run 5 [va] [0]%Z (orig w_retunbound).
Proof. exact result_maybe_unbound_refuted. Qed.
Print Assumptions C03_result_maybe_unbound_refuted.

(* starting from the as-found discipline, with the one corresponding discipline repaired (restore the flag / balanced decrement / nested writes do not
   kill / reads are not dropped / all loop writes are live / read & (written | maybe_written)) the same six
   programs satisfy the outlining hypotheses, so by C03_extract_preserves they are extracted correctly *)
Theorem C03_repaired_disciplines_partial :
  repaired (only true false false false false false) false [va; vb] w_nested = true
  /\ repaired (only false false true false false false) false [va] w_branch = true
  /\ repaired (only false false false true false false) false [va; vb] w_readmaybe = true
  /\ repaired (only false true false false false false) false [va] w_loopdepth = true
  /\ repaired (only false false false false true false) false [va] w_loopcarried = true
  /\ repaired (only false false false false false true) true [] w_module = true.
Proof. exact repairs_compute. Qed.
Print Assumptions C03_repaired_disciplines_partial.

(* One-line (sub-expression) selections, the textual refusal condition _is_region_on_a_word: a selection
   [start, stop) is refused as "on a word" exactly when one of its borders lies strictly inside a run of word
   characters (alphanumeric per the input table, or `_`), i.e. cuts an identifier, keyword or number. The
   harness compares region_on_a_word with the real refusal on selections that cut identifiers at letters,
   digits, underscores and non-ASCII letters. *)
Theorem C03_word_cut_refusal :
  forall alnum src start stop, 0 < stop ->
    region_on_a_word alnum src start stop = cuts_border alnum src start || cuts_border alnum src stop.
Proof. exact region_on_a_word_spec. Qed.
Print Assumptions C03_word_cut_refusal.

(* `count` inside `max_count` (m a x _ c o u n t = 109 97 120 95 99 111 117 110 116): refused; the whole name: not *)
Example C03_word_cut_nonvacuous :
  let alnum := fun c => N.leb 97 c && N.leb c 122 in
  let src := [32; 109; 97; 120; 95; 99; 111; 117; 110; 116; 32]%N in
  region_on_a_word alnum src 5 10 = true /\ region_on_a_word alnum src 1 10 = false
  /\ region_on_a_word alnum src 1 4 = true.
Proof. vm_compute. repeat split; reflexivity. Qed.
Print Assumptions C03_word_cut_nonvacuous.

(* Extract variable. C03_variable at full strength would say: for every statement of the host (at any nesting
   depth, including the tests of if/while and the range of for) and every selected sub-expression, putting
   `v = sub` in front of the statement and replacing the occurrence by v preserves behaviour. That is false for
   rope (open findings: the test of a while loop is evaluated once; an expression inside a comprehension that
   uses its loop variable is moved out of it). Proved variant: the statement is a simple statement (assignment,
   augmented assignment, print, return) at the top level of the function body, the selection is reached through
   binary operators only (it cannot lie inside a comprehension), and the new name is read nowhere in the
   function. Then the behaviour is preserved for every argument vector and fuel, including the case in which a
   name of the selection is unbound (both fail before anything is printed). Not proved (no counterexample known,
   covered by the execution oracle of the sub-expression stream): statements nested in compound statements, the
   tests of `if` and the ranges of `for`. *)
Theorem C03_variable_partial :
  forall params pre s post v l p ss,
    simple_s s = true -> extract_variable v l s p = Some ss ->
    ~ In v (reads (pre ++ s :: post)) ->
    nocall post = true -> conv_b post k0 = true ->
    forall n vec, run n params vec (pre ++ ss ++ post) = run n params vec (pre ++ s :: post).
Proof. exact variable_sound. Qed.
Print Assumptions C03_variable_partial.

(* x = (a + 1) * b with `a + 1` selected: v = a + 1; x = v * b *)
Example C03_variable_nonvacuous :
  extract_variable 9%N 0%N (SAssign 2 vx (EBin Mul (EBin Add (EVar va) (EConst 1)) (EVar vb))) [false]
  = Some [SAssign 0 9%N (EBin Add (EVar va) (EConst 1)); SAssign 2 vx (EBin Mul (EVar 9%N) (EVar vb))]
  /\ ~ In 9%N (reads ([] ++ SAssign 2 vx (EBin Mul (EBin Add (EVar va) (EConst 1)) (EVar vb)) :: [SReturn 3 (EVar vx)])).
Proof. split; [reflexivity|]. vm_compute. intuition discriminate. Qed.
Print Assumptions C03_variable_nonvacuous.
