(* Expressions as the *text* that rope manipulates and as the *trees* Python evaluates.

   rope inlines by replacing the source range of a name by the source text of an expression
   (rename.rename_in_module(..., replace_primary=True, writes=False) in _inline_variable).  To expose what
   that does to operator precedence, an expression is kept here in the shape its token string has:
       sum  ::= prod (('+' | '-') prod)*      prod ::= atom ('*' atom)*      atom ::= NUM | NAME | '(' sum ')'
   i.e. a [sum] is the list of its signed terms and a [prod] the list of its factors.  Textual replacement
   of a NAME by the text of a sum is then literally splicing one such list into another ([tsubst_*]): the
   first term of the replacement joins the product to the left of the name, the last term joins the
   product to its right -- which is how Python parses the resulting text.  The well-behaved substitution
   ([psubst_*]) puts the replacement in parentheses.

   Statements: `x = e` and `print(e1, ..., en)`; programs are straight-line module bodies.
   Definitions only; proofs in ExprProofs.v. *)
From Coq Require Import List NArith ZArith Bool.
Import ListNotations.

Inductive atom :=
| ANum (n : N)
| AVar (x : N)
| AParen (s : list (bool * list atom)).      (* '(' sum ')' ; the bool of a term: true = '-' *)

Notation prod := (list atom) (only parsing).
Notation sum := (list (bool * list atom)) (only parsing).

(* ------------------------------------------------------------------------------------------------ *)
(* evaluation over Python ints *)
Fixpoint eval_atom (env : N -> Z) (a : atom) : Z :=
  match a with
  | ANum n => Z.of_N n
  | AVar x => env x
  | AParen s =>
      (fix es (s : list (bool * list atom)) : Z :=
         match s with
         | [] => 0%Z
         | t :: s' =>
             let v := (fix ep (p : list atom) : Z :=
                         match p with [] => 1%Z | a :: p' => (eval_atom env a * ep p')%Z end) (snd t) in
             ((if fst t then - v else v) + es s')%Z
         end) s
  end.

Fixpoint eval_prod (env : N -> Z) (p : prod) : Z :=
  match p with [] => 1%Z | a :: p' => (eval_atom env a * eval_prod env p')%Z end.

Definition signed (neg : bool) (v : Z) : Z := if neg then (- v)%Z else v.

Fixpoint eval_sum (env : N -> Z) (s : sum) : Z :=
  match s with [] => 0%Z | t :: s' => (signed (fst t) (eval_prod env (snd t)) + eval_sum env s')%Z end.

(* ------------------------------------------------------------------------------------------------ *)
(* textual juxtaposition  f '*' g  of two token strings: the last term of f and the first of g fuse *)
Fixpoint mul_text (f g : sum) : sum :=
  match f with
  | [] => g
  | t :: f' =>
      match f' with
      | [] => match g with [] => [t] | u :: g' => (fst t, snd t ++ snd u) :: g' end
      | _ => t :: mul_text f' g
      end
  end.

(* the text of a term list after a sign token *)
Definition set_sign (neg : bool) (f : sum) : sum :=
  match f with [] => [] | t :: f' => (neg, snd t) :: f' end.

Definition is_var (x : N) (a : atom) : bool := match a with AVar y => N.eqb x y | _ => false end.

(* textual replacement of the reads of x by the text r *)
Fixpoint tsub_atom (x : N) (r : sum) (a : atom) : atom :=
  match a with
  | AParen s =>
      AParen
        ((fix ts (s : list (bool * list atom)) : sum :=
            match s with
            | [] => []
            | t :: s' =>
                set_sign (fst t)
                  ((fix tp (p : list atom) : sum :=
                      match p with
                      | [] => [(false, [])]
                      | a :: p' =>
                          mul_text (if is_var x a then r else [(false, [tsub_atom x r a])]) (tp p')
                      end) (snd t))
                ++ ts s'
            end) s)
  | _ => a
  end.

Definition atom_text (x : N) (r : sum) (a : atom) : sum :=
  if is_var x a then r else [(false, [tsub_atom x r a])].

Fixpoint tsubst_prod (x : N) (r : sum) (p : prod) : sum :=
  match p with
  | [] => [(false, [])]
  | a :: p' => mul_text (atom_text x r a) (tsubst_prod x r p')
  end.

Fixpoint tsubst_sum (x : N) (r : sum) (s : sum) : sum :=
  match s with
  | [] => []
  | t :: s' => set_sign (fst t) (tsubst_prod x r (snd t)) ++ tsubst_sum x r s'
  end.

(* the substitution that preserves meaning: the replacement in parentheses *)
Fixpoint psub_atom (x : N) (r : sum) (a : atom) : atom :=
  match a with
  | ANum n => ANum n
  | AVar y => if N.eqb x y then AParen r else AVar y
  | AParen s =>
      AParen
        ((fix ps (s : list (bool * list atom)) : sum :=
            match s with
            | [] => []
            | t :: s' =>
                (fst t, (fix pp (p : list atom) : list atom :=
                           match p with [] => [] | a :: p' => psub_atom x r a :: pp p' end) (snd t))
                :: ps s'
            end) s)
  end.
Definition psubst_prod (x : N) (r : sum) (p : prod) : prod := map (psub_atom x r) p.
Definition psubst_sum (x : N) (r : sum) (s : sum) : sum :=
  map (fun t => (fst t, psubst_prod x r (snd t))) s.

(* variables read by an expression *)
Fixpoint vars_atom (a : atom) : list N :=
  match a with
  | ANum _ => []
  | AVar x => [x]
  | AParen s =>
      (fix vs (s : list (bool * list atom)) : list N :=
         match s with
         | [] => []
         | t :: s' =>
             (fix vp (p : list atom) : list N :=
                match p with [] => [] | a :: p' => vars_atom a ++ vp p' end) (snd t) ++ vs s'
         end) s
  end.
Fixpoint vars_prod (p : prod) : list N := match p with [] => [] | a :: p' => vars_atom a ++ vars_prod p' end.
Fixpoint vars_sum (s : sum) : list N := match s with [] => [] | t :: s' => vars_prod (snd t) ++ vars_sum s' end.

Definition memv (n : N) (l : list N) : bool := existsb (N.eqb n) l.

(* ------------------------------------------------------------------------------------------------ *)
(* where textual replacement is safe *)
Definition single_term (r : sum) : bool := match r with [t] => negb (fst t) | _ => false end.
Definition wf_rhs (r : sum) : bool := match r with t :: _ => negb (fst t) | [] => false end.

Definition is_just_var (x : N) (p : prod) : bool := match p with [a] => is_var x a | _ => false end.

(* every read of x in the expression is a whole '+'-term (or does not occur at that level) *)
Fixpoint occ_ok_atom (x : N) (a : atom) : bool :=
  match a with
  | AParen s =>
      (fix os (s : list (bool * list atom)) : bool :=
         match s with
         | [] => true
         | t :: s' =>
             ((is_just_var x (snd t) && negb (fst t))
              || (fix op (p : list atom) : bool :=
                    match p with [] => true | a :: p' => negb (is_var x a) && occ_ok_atom x a && op p' end) (snd t))
             && os s'
         end) s
  | _ => true
  end.
Fixpoint occ_ok_prod (x : N) (p : prod) : bool :=
  match p with [] => true | a :: p' => negb (is_var x a) && occ_ok_atom x a && occ_ok_prod x p' end.
Definition occ_ok_term (x : N) (t : bool * list atom) : bool :=
  (is_just_var x (snd t) && negb (fst t)) || occ_ok_prod x (snd t).
Fixpoint occ_ok_sum (x : N) (s : sum) : bool :=
  match s with [] => true | t :: s' => occ_ok_term x t && occ_ok_sum x s' end.

(* the replacement text r may be put for x in s without parentheses *)
Definition prec_ok (x : N) (r : sum) (s : sum) : bool := single_term r || occ_ok_sum x s.

(* ------------------------------------------------------------------------------------------------ *)
(* statements, straight-line programs *)
Inductive stmt :=
| SAssign (x : N) (e : sum)
| SPrint (es : list sum).

Definition upd_env (env : N -> Z) (x : N) (v : Z) : N -> Z := fun y => if N.eqb x y then v else env y.

Fixpoint run (p : list stmt) (env : N -> Z) : (N -> Z) * list (list Z) :=
  match p with
  | [] => (env, [])
  | SAssign x e :: r => run r (upd_env env x (eval_sum env e))
  | SPrint es :: r => let res := run r env in (fst res, map (eval_sum env) es :: snd res)
  end.
Definition output (p : list stmt) (env : N -> Z) : list (list Z) := snd (run p env).

Definition tsubst_stmt (x : N) (r : sum) (s : stmt) : stmt :=
  match s with
  | SAssign y e => SAssign y (tsubst_sum x r e)
  | SPrint es => SPrint (map (tsubst_sum x r) es)
  end.

Definition assigns (x : N) (s : stmt) : bool := match s with SAssign y _ => N.eqb x y | _ => false end.
Definition reads (s : stmt) : list N :=
  match s with SAssign _ e => vars_sum e | SPrint es => flat_map vars_sum es end.

Fixpoint first_def (x : N) (p : list stmt) : option sum :=
  match p with
  | [] => None
  | SAssign y e :: r => if N.eqb x y then Some e else first_def x r
  | _ :: r => first_def x r
  end.

Fixpoint remove_first_def (x : N) (p : list stmt) : list stmt :=
  match p with
  | [] => []
  | s :: r => if assigns x s then r else s :: remove_first_def x r
  end.

Definition count_defs (x : N) (p : list stmt) : nat := length (filter (assigns x) p).

(* inline._inline_variable: the definition is the right-hand side of pyname.assignments[0]; every read of
   the name in the module is replaced by its text (writes=False: assignment targets are left alone); with
   remove the lines of that first assignment are deleted.  None: the name has no assignment. *)
Definition inline_var_core (remove : bool) (x : N) (p : list stmt) : option (list stmt) :=
  match first_def x p with
  | None => None
  | Some r =>
      let p' := map (tsubst_stmt x r) p in
      Some (if remove then remove_first_def x p' else p')
  end.

(* InlineVariable: refused (None) unless the name is assigned exactly once *)
Definition inline_variable (remove : bool) (x : N) (p : list stmt) : option (list stmt) :=
  if Nat.eqb (count_defs x p) 1 then inline_var_core remove x p else None.

(* ------------------------------------------------------------------------------------------------ *)
(* side condition of the substitution theorem, computed on the program *)
Fixpoint split_def (x : N) (p : list stmt) : option (list stmt * sum * list stmt) :=
  match p with
  | [] => None
  | s :: r =>
      match s with
      | SAssign y e =>
          if N.eqb x y then Some ([], e, r)
          else match split_def x r with Some (pre, e', post) => Some (s :: pre, e', post) | None => None end
      | _ => match split_def x r with Some (pre, e', post) => Some (s :: pre, e', post) | None => None end
      end
  end.

Definition prec_ok_stmt (x : N) (r : sum) (s : stmt) : bool :=
  match s with SAssign _ e => prec_ok x r e | SPrint es => forallb (prec_ok x r) es end.

Definition reads_var (x : N) (s : stmt) : bool := memv x (reads s).

(* the three conditions separately, so that the harness can tell which one a case violates *)
Definition cond_once (x : N) (p : list stmt) : bool :=
  match split_def x p with
  | Some (pre, r, post) =>
      negb (existsb (assigns x) post) && negb (existsb (reads_var x) pre) && negb (memv x (vars_sum r)) && wf_rhs r
  | None => false
  end.
Definition cond_deps_stable (x : N) (p : list stmt) : bool :=
  match split_def x p with
  | Some (_, r, post) => forallb (fun y => negb (existsb (assigns y) post)) (vars_sum r)
  | None => false
  end.
Definition cond_prec (x : N) (p : list stmt) : bool :=
  match split_def x p with
  | Some (_, r, post) => forallb (prec_ok_stmt x r) post
  | None => false
  end.
Definition side_variable (x : N) (p : list stmt) : bool :=
  cond_once x p && cond_deps_stable x p && cond_prec x p.
