(* Model of the name-conflict step of _DefinitionGenerator._calculate_definition (rope/refactor/inline.py):

       source = header + self.body
       all_names = names the module `source` defines (not builtins)
       if set(all_names).intersection(set(host_vars)):
           prefix = next(unique_prefix)                       # "__N__"
           to_be_inlined = [prefix + item for item in to_be_inlined]
           for item in all_names:  rename every occurrence of item in source to prefix + item
       for name in to_be_inlined:  source = _inline_variable(..., name)

   [host] are the names of the scope of the call site (scope.get_names()); the prefixed spelling of a name is
   given by a table (the harness interns "__N__x" next to "x").  Every occurrence of a guest name is renamed,
   the argument texts in the header lines included -- which is where argument capture comes from.
   Definitions only; proofs in RenameProofs.v. *)
From Coq Require Import List NArith ZArith Bool.
From RopeVerif.C04 Require Import Inline Expr Call.
Import ListNotations.

Fixpoint ren_atom (r : N -> N) (a : atom) : atom :=
  match a with
  | ANum n => ANum n
  | AVar x => AVar (r x)
  | AParen s =>
      AParen
        ((fix rs (s : list (bool * list atom)) : list (bool * list atom) :=
            match s with
            | [] => []
            | t :: s' =>
                (fst t, (fix rp (p : list atom) : list atom :=
                           match p with [] => [] | a :: p' => ren_atom r a :: rp p' end) (snd t)) :: rs s'
            end) s)
  end.
Definition ren_prod (r : N -> N) (p : list atom) : list atom := map (ren_atom r) p.
Definition ren_sum (r : N -> N) (s : list (bool * list atom)) : list (bool * list atom) :=
  map (fun t => (fst t, ren_prod r (snd t))) s.
Definition ren_stmt (r : N -> N) (st : stmt) : stmt :=
  match st with
  | SAssign x e => SAssign (r x) (ren_sum r e)
  | SPrint es => SPrint (map (ren_sum r) es)
  end.

Fixpoint assigned (p : list stmt) : list N :=
  match p with
  | [] => []
  | SAssign x _ :: q => x :: assigned q
  | _ :: q => assigned q
  end.

(* the names the guest module (header + body) defines *)
Definition all_names (hdr : list (N * N)) (body : list stmt) : list N := map fst hdr ++ assigned body.

Definition conflict (names host : list N) : bool := existsb (fun n => memv n host) names.

Definition table_ren (ptbl : list (N * N)) (names : list N) (n : N) : N :=
  if memv n names then match od_get n ptbl with Some m => m | None => n end else n.

(* _calculate_definition up to the replacement of returns *)
Definition calculate_definition (tbl : tok_table) (hdr : list (N * N)) (body : list stmt)
           (host : list N) (ptbl : list (N * N)) : option (list stmt) :=
  let g := guest tbl hdr body in
  let names := all_names hdr body in
  if conflict names host then
    let r := table_ren ptbl names in
    inline_header (map r (map fst hdr)) (map (ren_stmt r) g)
  else inline_header (map fst hdr) g.

(* ------------------------------------------------------------------------------------------------ *)
(* side conditions of the theorem *)
Definition uses_stmt (st : stmt) : list N :=
  match st with SAssign x e => x :: vars_sum e | SPrint es => flat_map vars_sum es end.
Definition uses (p : list stmt) : list N := flat_map uses_stmt p.

Fixpoint dedup (l : list N) : list N :=
  match l with [] => [] | x :: r => if memv x r then dedup r else x :: dedup r end.

(* the renaming is injective on the names the guest uses: the prefixed spellings are fresh *)
Definition ren_ok (r : N -> N) (p : list stmt) : bool := nodupN (map r (dedup (uses p))).

(* every read of a guest name comes after an assignment to it: the guest does not depend on what the
   caller's environment holds under those names (no argument text mentions a guest name, locals are
   assigned before they are read) *)
Fixpoint def_before_read (names defd : list N) (p : list stmt) : bool :=
  match p with
  | [] => true
  | st :: q =>
      forallb (fun y => negb (memv y names) || memv y defd) (reads st)
      && def_before_read names (match st with SAssign x _ => x :: defd | _ => defd end) q
  end.

Definition side_renamed (tbl : tok_table) (hdr : list (N * N)) (body : list stmt) (r : N -> N) : bool :=
  let g := guest tbl hdr body in
  let names := all_names hdr body in
  ren_ok r g
  && forallb (fun x => memv x names || N.eqb (r x) x) (dedup (uses g))
  && def_before_read names [] g
  && nodupN (map fst hdr) && args_closed tbl hdr
  && side_header (map r (map fst hdr)) (map (ren_stmt r) g).
