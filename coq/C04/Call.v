(* Model of the parameter part of _DefinitionGenerator._calculate_definition (rope/refactor/inline.py):

       header, to_be_inlined = self._calculate_header(primary, pyname, call)
       source = header + self.body
       ...
       for name in to_be_inlined:
           pymodule = libutils.get_string_module(self.project, source, self.resource)
           pyname = pymodule[name]
           source = _inline_variable(self.project, pymodule, pyname, name)

   on bodies that are straight-line (x = e / print(e, ...); a final `return e` is represented as a last
   print).  The header lines `p = v` are put in front of the body and the header names are inlined one after
   the other with _inline_variable (first assignment, every read, the assignment line removed): sequential,
   textual.  The renaming of all guest names on a conflict with the host scope is not part of this model
   (the harness compares modulo the `__N__` prefix and checks the prefixed names separately).
   Definitions only; proofs in CallProofs.v. *)
From Coq Require Import List NArith ZArith Bool.
From RopeVerif.C04 Require Import Inline Expr.
Import ListNotations.

(* the source text of an argument/default token, as an expression *)
Definition tok_table := list (N * list (bool * list atom)).
Definition tok_expr (tbl : tok_table) (v : N) : list (bool * list atom) :=
  match od_get v tbl with Some e => e | None => [] end.

Definition header_stmts (tbl : tok_table) (hdr : list (N * N)) : list stmt :=
  map (fun nv => SAssign (fst nv) (tok_expr tbl (snd nv))) hdr.

Definition guest (tbl : tok_table) (hdr : list (N * N)) (body : list stmt) : list stmt :=
  header_stmts tbl hdr ++ body.

Fixpoint inline_header (names : list N) (p : list stmt) : option (list stmt) :=
  match names with
  | [] => Some p
  | n :: r =>
      match inline_var_core true n p with
      | Some p' => inline_header r p'
      | None => None
      end
  end.

(* one call site: header from the generator state, then the parameters inlined into header + body *)
Definition inline_call (alias : bool) (d : definfo) (tbl : tok_table) (body : list stmt)
           (st : list (N * option N)) (c : call) : option (list stmt) * list (N * option N) :=
  let hs := calculate_header alias d st c in
  (inline_header (map fst (fst hs)) (guest tbl (fst hs) body), snd hs).

(* all sites handled by one generator: a left fold threading the generator state *)
Fixpoint inline_calls (alias : bool) (d : definfo) (tbl : tok_table) (body : list stmt)
         (st : list (N * option N)) (cs : list call) : list (option (list stmt)) :=
  match cs with
  | [] => []
  | c :: r =>
      let res := inline_call alias d tbl body st c in
      fst res :: inline_calls alias d tbl body (snd res) r
  end.

(* ------------------------------------------------------------------------------------------------ *)
(* Reference semantics of the call: the arguments are evaluated in the caller's environment and bound
   simultaneously, then the body runs. *)
Definition bind_env (tbl : tok_table) (b : list (N * N)) (env : N -> Z) : N -> Z :=
  fun y => match od_get y b with Some v => eval_sum env (tok_expr tbl v) | None => env y end.

Definition call_output (tbl : tok_table) (b : list (N * N)) (body : list stmt) (env : N -> Z) : list (list Z) :=
  output body (bind_env tbl b env).

(* side conditions, computed along the sequence of inlinings exactly as the code performs them *)
Fixpoint side_header (names : list N) (p : list stmt) : bool :=
  match names with
  | [] => true
  | n :: r =>
      side_variable n p &&
      match inline_var_core true n p with
      | Some p' => side_header r p'
      | None => false
      end
  end.

(* no argument text mentions a name that the header assigns (a parameter that receives a value) *)
Definition args_closed (tbl : tok_table) (hdr : list (N * N)) : bool :=
  forallb (fun nv => forallb (fun n => negb (memv n (vars_sum (tok_expr tbl (snd nv))))) (map fst hdr)) hdr.

Definition side_call (tbl : tok_table) (hdr : list (N * N)) (body : list stmt) : bool :=
  nodupN (map fst hdr) && args_closed tbl hdr && side_header (map fst hdr) (guest tbl hdr body).
