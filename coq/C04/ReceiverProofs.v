From Coq Require Import List NArith Bool.
From RopeVerif.Lib Require Import Text.
From RopeVerif.C04 Require Import Receiver.
Import ListNotations.

Lemma split_last_none c t : existsb (N.eqb c) t = false -> split_last c t = None.
Proof.
  induction t as [|x t IH]; cbn [existsb split_last]; intro H; [reflexivity|].
  apply orb_false_iff in H. destruct H as [H1 H2]. rewrite (IH H2).
  rewrite N.eqb_sym in H1. rewrite H1. reflexivity.
Qed.

Lemma split_last_app c recv name :
  existsb (N.eqb c) name = false -> split_last c (recv ++ c :: name) = Some (recv, name).
Proof.
  intro H. induction recv as [|x recv IH]; cbn [app split_last].
  - rewrite (split_last_none c name H), N.eqb_refl. reflexivity.
  - rewrite IH. reflexivity.
Qed.

(* The implicit argument of `recv.name(...)` is the whole receiver text, however many dots it contains. *)
Lemma receiver_full recv name :
  existsb (N.eqb dot) name = false ->
  implicit_receiver true (recv ++ dot :: name) = Some (strip recv).
Proof. intro H. unfold implicit_receiver. rewrite (split_last_app dot recv name H). reflexivity. Qed.

Lemma read_args_full recv name pos :
  existsb (N.eqb dot) name = false ->
  read_args true (recv ++ dot :: name) pos = strip recv :: pos.
Proof. intro H. unfold read_args. rewrite (receiver_full recv name H). reflexivity. Qed.

(* "app.hub.store.get" -> "app.hub.store" *)
Example receiver_chain :
  implicit_receiver true [97;112;112;46;104;117;98;46;115;116;111;114;101;46;103;101;116]%N
  = Some [97;112;112;46;104;117;98;46;115;116;111;114;101]%N.
Proof. reflexivity. Qed.
