(* Model of the call-site part of rope/refactor/inline.py (InlineMethod):
     functionutils.ArgumentMapping.__init__            -> [param_dict]
     _DefinitionGenerator._get_definition_params       -> [get_definition_params]
     _DefinitionGenerator._calculate_header            -> [calculate_header]
     the loop over the call sites handled by one generator -> [inline_sites]
   and the specification [bind] of Python's call binding.  Definitions only; proofs in InlineProofs.v.

   Identifiers and argument/default expressions are tokens (N): the harness interns source strings in one
   table, so the token of the parameter name "a" and of the argument expression "a" coincide exactly when
   the strings do (the code compares `name != value` on strings).

   [alias] selects the variant of the code: [false] = the dict is copied per call site
   (`paramdict = dict(self.definition_params)`: the CURRENT code, since /repo 45cf20a), [true] = the code
   before that fix (`paramdict = self.definition_params`, the dict of the generator updated in place by every
   call site).  The harness compares rope with [alias = false]; the other variant is evaluated only to name
   a regression. *)
From Coq Require Import List NArith Bool.
Import ListNotations.

(* ------------------------------------------------------------------------------------------------ *)
(* Python dicts as insertion-ordered association lists: d[k] = v keeps the position of an existing key *)
Fixpoint od_get {V} (k : N) (d : list (N * V)) : option V :=
  match d with
  | [] => None
  | (k0, v) :: r => if N.eqb k0 k then Some v else od_get k r
  end.

Fixpoint od_set {V} (k : N) (v : V) (d : list (N * V)) : list (N * V) :=
  match d with
  | [] => [(k, v)]
  | (k0, v0) :: r => if N.eqb k0 k then (k0, v) :: r else (k0, v0) :: od_set k v r
  end.

Definition memN (n : N) (l : list N) : bool := existsb (N.eqb n) l.

Fixpoint nodupN (l : list N) : bool :=
  match l with
  | [] => true
  | x :: r => negb (memN x r) && nodupN r
  end.

(* ------------------------------------------------------------------------------------------------ *)
(* DefinitionInfo (args_with_defaults, args_arg, keywords_arg) and the call as CallInfo.read sees it   *)
Record definfo := mkDef {
  d_params : list (N * option N);     (* args_with_defaults: (name, default source or None) *)
  d_star   : bool;                    (* args_arg is not None *)
  d_kwstar : bool                     (* keywords_arg is not None *)
}.

Record call := mkCall {
  c_args : list N;                    (* positional argument sources, left to right (star arguments removed) *)
  c_kws  : list (N * N);              (* keyword arguments (name, source) in call order *)
  c_star : bool                       (* the call has a *x or a **y argument (CallInfo.args_arg / keywords_arg):
                                         not mapped by ArgumentMapping; such a call site has no binding in [bind] *)
}.

Definition pnames (d : definfo) : list N := map fst (d_params d).
Definition has_param (d : definfo) (n : N) : bool := memN n (pnames d).

(* ArgumentMapping.__init__: param_dict (args_arg / keyword_args surplus is not used by inlining) *)
Fixpoint map_pos (ps : list (N * option N)) (args : list N) (pd : list (N * N)) : list (N * N) :=
  match args, ps with
  | v :: args', (n, _) :: ps' => map_pos ps' args' (od_set n v pd)
  | _, _ => pd
  end.

Fixpoint map_kws (d : definfo) (kws : list (N * N)) (pd : list (N * N)) : list (N * N) :=
  match kws with
  | [] => pd
  | (n, v) :: r => if has_param d n then map_kws d r (od_set n v pd) else map_kws d r pd
  end.

Definition param_dict (d : definfo) (c : call) : list (N * N) :=
  map_kws d (c_kws c) (map_pos (d_params d) (c_args c) []).

(* ------------------------------------------------------------------------------------------------ *)
(* The generator state: self.definition_params, a dict name -> value source or None                    *)
Notation pstate := (list (N * option N)) (only parsing).

(* _get_definition_params: dict(args_with_defaults); None = RefactoringError (list/keyword arguments) *)
Definition init_state (d : definfo) : pstate :=
  fold_left (fun s p => od_set (fst p) (snd p) s) (d_params d) [].

Definition get_definition_params (d : definfo) : option pstate :=
  if d_star d || d_kwstar d then None else Some (init_state d).

(* for param_name, value in mapping.param_dict.items(): paramdict[param_name] = value *)
Definition update_state (st : pstate) (pd : list (N * N)) : pstate :=
  fold_left (fun s kv => od_set (fst kv) (Some (snd kv)) s) pd st.

(* for name, value in paramdict.items(): if name != value and value is not None: header += ... *)
Fixpoint header_of (st : pstate) : list (N * N) :=
  match st with
  | [] => []
  | (n, Some v) :: r => if N.eqb n v then header_of r else (n, v) :: header_of r
  | (n, None) :: r => header_of r
  end.

(* _calculate_header: (header lines as (name, value); to_be_inlined = map fst header), new generator state *)
Definition calculate_header (alias : bool) (d : definfo) (st : pstate) (c : call)
  : list (N * N) * pstate :=
  let pd := update_state st (param_dict d c) in
  (header_of pd, if alias then pd else st).

(* the call sites handled by one generator, in processing order: headers and the state after each site *)
Fixpoint inline_sites (alias : bool) (d : definfo) (st : pstate) (cs : list call)
  : list (list (N * N) * pstate) :=
  match cs with
  | [] => []
  | c :: r =>
      let hs := calculate_header alias d st c in
      hs :: inline_sites alias d (snd hs) r
  end.

Definition headers (alias : bool) (d : definfo) (st : pstate) (cs : list call) : list (list (N * N)) :=
  map fst (inline_sites alias d st cs).

(* ------------------------------------------------------------------------------------------------ *)
(* Specification: Python's binding of a call without * / ** to a definition without * / ** parameters
   (positional-or-keyword parameters only): positional arguments left to right, then keywords, then
   defaults; None = TypeError (too many positionals, unknown keyword, parameter bound twice, missing). *)
Fixpoint bind_pos (ps : list (N * option N)) (args : list N)
  : option (list (N * N) * list (N * option N)) :=
  match args with
  | [] => Some ([], ps)
  | v :: args' =>
      match ps with
      | [] => None
      | (n, _) :: ps' =>
          match bind_pos ps' args' with
          | Some (b, rest) => Some ((n, v) :: b, rest)
          | None => None
          end
      end
  end.

Fixpoint kws_ok (rest : list N) (kws : list (N * N)) : bool :=
  match kws with
  | [] => true
  | (n, _) :: r => memN n rest && negb (memN n (map fst r)) && kws_ok rest r
  end.

Fixpoint bind_rest (rest : list (N * option N)) (kws : list (N * N)) : option (list (N * N)) :=
  match rest with
  | [] => Some []
  | (n, dflt) :: r =>
      match (match od_get n kws with Some v => Some v | None => dflt end) with
      | None => None
      | Some v => match bind_rest r kws with Some b => Some ((n, v) :: b) | None => None end
      end
  end.

Definition bind (d : definfo) (c : call) : option (list (N * N)) :=
  if d_star d || d_kwstar d || c_star c then None
  else
    match bind_pos (d_params d) (c_args c) with
    | None => None
    | Some (b, rest) =>
        if kws_ok (map fst rest) (c_kws c) then
          match bind_rest rest (c_kws c) with
          | Some b2 => Some (b ++ b2)
          | None => None
          end
        else None
    end.

Definition valid_def (d : definfo) : bool := nodupN (pnames d) && negb (d_star d) && negb (d_kwstar d).
Definition well_formed_call (d : definfo) (c : call) : bool :=
  match bind d c with Some _ => true | None => false end.

(* what a call site must give: `p = v` lines for the parameters whose value is not their own name *)
Fixpoint header_of_binding (b : list (N * N)) : list (N * N) :=
  match b with
  | [] => []
  | (n, v) :: r => if N.eqb n v then header_of_binding r else (n, v) :: header_of_binding r
  end.

(* ------------------------------------------------------------------------------------------------ *)
(* Domain of the theorem about the aliased variant (alias = true, the code before 45cf20a): no call site relies on the
   default of a parameter that an earlier site of the same generator passed explicitly.              *)
Fixpoint no_stale_from (d : definfo) (passed : list N) (cs : list call) : bool :=
  match cs with
  | [] => true
  | c :: r =>
      let pd := param_dict d c in
      forallb (fun n => negb (memN n passed) || memN n (map fst pd)) (pnames d)
      && no_stale_from d (map fst pd ++ passed) r
  end.
Definition no_stale (d : definfo) (cs : list call) : bool := no_stale_from d [] cs.
