From Coq Require Import List NArith ZArith Bool Lia.
From RopeVerif.C04 Require Import Inline InlineProofs Expr ExprProofs Call CallProofs Rename RenameProofs Splice.
Import ListNotations.

Lemma split_ret_spec : forall q qb r, split_ret q = Some (qb, r) -> q = qb ++ [SPrint [r]].
Proof.
  induction q as [|st q IH]; intros qb r H; [discriminate|].
  cbn [split_ret] in H.
  assert (G : (exists r0, st = SPrint [r0] /\ q = []) \/
              match split_ret q with Some (qb0, r0) => Some (st :: qb0, r0) | None => None end = Some (qb, r)).
  { destruct st as [x e|es]; [right; exact H|].
    destruct es as [|r0 [|r1 es]]; try (right; exact H).
    destruct q; [left; exists r0; split; reflexivity | right; exact H]. }
  destruct G as [(r0 & E1 & E2)|G].
  - subst. cbn [split_ret] in H. inversion H; subst. reflexivity.
  - destruct (split_ret q) as [[qb0 r0]|] eqn:S; [|discriminate]. inversion G; subst.
    cbn [app]. f_equal. apply IH. reflexivity.
Qed.

Lemma assigned_app p q : assigned (p ++ q) = assigned p ++ assigned q.
Proof. induction p as [|[x e|es] p IH]; cbn [app assigned]; [reflexivity | rewrite IH; reflexivity | exact IH]. Qed.

Lemma run_frame : forall p e y, ~ In y (assigned p) -> fst (run p e) y = e y.
Proof.
  induction p as [|[x e0|es] p IH]; intros e y H; cbn [run assigned] in *.
  - reflexivity.
  - rewrite IH by (intro I; apply H; right; exact I). unfold upd_env.
    destruct (N.eqb_spec x y) as [E|]; [exfalso; apply H; left; exact E | reflexivity].
  - cbn [fst]. apply IH. exact H.
Qed.

Lemma dbr_nil p defd : def_before_read [] defd p = true.
Proof.
  revert defd. induction p as [|st p IH]; intro defd; cbn [def_before_read]; [reflexivity|].
  rewrite IH, andb_true_r. apply forallb_forall. intros y _. reflexivity.
Qed.

Lemma run_agree p e1 e2 : (forall y, In y (uses p) -> e1 y = e2 y) -> snd (run p e1) = snd (run p e2).
Proof.
  intro H. apply (def_before_read_indep [] p [] e1 e2 (dbr_nil p [])). intros y Hy _. exact (H y Hy).
Qed.

Lemma output_app p q e : snd (run (p ++ q) e) = snd (run p e) ++ snd (run q (fst (run p e))).
Proof. rewrite run_app. reflexivity. Qed.

Lemma fst_run_app p q e : fst (run (p ++ q) e) = fst (run q (fst (run p e))).
Proof. rewrite run_app. reflexivity. Qed.

(* The host with the call inlined prints what the host prints when the call is executed as Python executes it. *)
Lemma call_preserves_full pre kind post tbl hdr body ret host ptbl d :
  inline_site kind tbl hdr body ret host ptbl = Some d ->
  domain_site tbl hdr body ret host ptbl = true ->
  frame_ok kind d post = true ->
  forall env, output (pre ++ d ++ post) env = ref_host pre kind post tbl hdr body ret env.
Proof.
  intros HI HD HF env. unfold inline_site in HI. unfold domain_site in HD.
  destruct (definition_preserves tbl hdr (with_ret body ret) host ptbl HD) as (q & Eq & Oq).
  rewrite Eq in HI. unfold output, ref_host, ref_site. rewrite !output_app.
  set (env1 := fst (run pre env)). f_equal.
  unfold frame_ok in HF. rewrite forallb_forall in HF.
  destruct ret as [e|].
  - destruct (split_ret q) as [[qb r]|] eqn:S; [|discriminate].
    assert (Hq := split_ret_spec q qb r S). subst q.
    assert (O1 := Oq env1). unfold output, call_output, output, with_ret in O1. rewrite !output_app in O1.
    cbn [run snd fst map] in O1. apply app_inj_tail in O1. destruct O1 as [A B]. inversion B as [B'].
    destruct kind as [|y]; inversion HI; subst d; clear HI.
    + cbn [fst snd]. rewrite A. f_equal. apply run_agree. intros z Hz. apply run_frame. intro I.
      specialize (HF z I). rewrite orb_false_r in HF. apply negb_true_iff, memv_false in HF. exact (HF Hz).
    + rewrite output_app, fst_run_app. cbn [run fst snd app]. rewrite A, app_nil_r. f_equal.
      apply run_agree. intros z Hz. unfold upd_env. destruct (N.eqb_spec y z) as [E|NE]; [reflexivity|].
      apply run_frame. intro I.
      assert (I2 : In z (assigned (qb ++ [SAssign y r]))) by (rewrite assigned_app; apply in_or_app; left; exact I).
      specialize (HF z I2). apply orb_true_iff in HF. destruct HF as [HF|HF].
      * apply negb_true_iff, memv_false in HF. exact (HF Hz).
      * apply N.eqb_eq in HF. congruence.
  - destruct kind as [|y]; [|discriminate]. inversion HI; subst d; clear HI.
    assert (O1 := Oq env1). unfold output, call_output, output, with_ret in O1. cbn [fst snd]. rewrite O1. f_equal.
    apply run_agree. intros z Hz. apply run_frame. intro I.
    specialize (HF z I). rewrite orb_false_r in HF. apply negb_true_iff, memv_false in HF. exact (HF Hz).
Qed.

(* x = 2; t = 5; y = f(x * 3); print(y, t)   with  def f(a): t = a * 2; return t + a
   names a=1 t=9 x=11 y=12, prefixed 101 109: the host's t survives *)
Example call_preserves_nontrivial :
  let tbl := [(21%N, [(false, [AVar 11; ANum 3])])] in
  let hdr := [(1%N, 21%N)] in
  let body := [SAssign 9 [(false, [AVar 1; ANum 2])]] in
  let ret := Some [(false, [AVar 9]); (false, [AVar 1])] in
  let pre := [SAssign 11 (num 2); SAssign 9 (num 5)] in
  let post := [SPrint [nmv 12; nmv 9]] in
  let host := [9%N; 11%N; 12%N] in
  let ptbl := [(1%N, 101%N); (9%N, 109%N)] in
  let d := [SAssign 109 [(false, [AVar 11; ANum 3; ANum 2])];
            SAssign 12 [(false, [AVar 109]); (false, [AVar 11; ANum 3])]] in
  inline_site (KAssign 12) tbl hdr body ret host ptbl = Some d /\
  domain_site tbl hdr body ret host ptbl = true /\ frame_ok (KAssign 12) d post = true /\
  ref_host pre (KAssign 12) post tbl hdr body ret (fun _ => 0%Z) = [[18%Z; 5%Z]].
Proof. repeat split; vm_compute; reflexivity. Qed.

(* without the renaming the host's variable is overwritten: the frame condition is what renaming is for *)
Lemma frame_needed :
  exists pre kind post tbl hdr body ret d env,
    inline_site kind tbl hdr body ret [] [] = Some d /\
    domain_site tbl hdr body ret [] [] = true /\ frame_ok kind d post = false /\
    output (pre ++ d ++ post) env <> ref_host pre kind post tbl hdr body ret env.
Proof.
  exists [SAssign 9 (num 5)], KStmt, [SPrint [nmv 9]], [(21%N, num 3)], [(1%N, 21%N)],
         [SAssign 9 [(false, [AVar 1; ANum 2])]; SPrint [nmv 9]], None.
  eexists. exists (fun _ => 0%Z). split; [vm_compute; reflexivity|]. repeat split; vm_compute; congruence.
Qed.
