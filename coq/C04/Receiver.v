(* Model of the receiver / implicit-argument computation of functionutils.CallInfo.read
   (_FunctionCallParser.get_parameters):

       if self.is_called_as_a_method():        # implicit_arg and "." in self.call[:self.first_parens]
           instance = self.call[: self.call.rindex(".", 0, self.first_parens)]
           args.insert(0, instance.strip())

   on text (list of code points).  [head] is self.call[:self.first_parens], the text in front of the opening
   parenthesis of the call.  Definitions only; proofs in ReceiverProofs.v. *)
From Coq Require Import List NArith Bool.
From RopeVerif.Lib Require Import Text.
Import ListNotations.

Definition dot : N := 46%N.

(* str.rindex(c) as a split: (t[:i], t[i+1:]) for the last index i of c; None = ValueError / not found *)
Fixpoint split_last (c : N) (t : text) : option (text * text) :=
  match t with
  | [] => None
  | x :: r =>
      match split_last c r with
      | Some (a, b) => Some (x :: a, b)
      | None => if N.eqb x c then Some ([], r) else None
      end
  end.

Definition is_space (c : N) : bool :=
  N.eqb c 32 || N.eqb c 9 || N.eqb c 10 || N.eqb c 11 || N.eqb c 12 || N.eqb c 13.

Fixpoint lstrip (t : text) : text :=
  match t with
  | c :: r => if is_space c then lstrip r else t
  | [] => []
  end.
Definition strip (t : text) : text := rev (lstrip (rev (lstrip t))).

(* the implicit first argument, if any *)
Definition implicit_receiver (implicit : bool) (head : text) : option text :=
  if implicit then
    match split_last dot head with
    | Some (r, _) => Some (strip r)
    | None => None
    end
  else None.

(* CallInfo.args for a call without a constructor: receiver (if any) in front of the positional arguments *)
Definition read_args (implicit : bool) (head : text) (pos : list text) : list text :=
  match implicit_receiver implicit head with
  | Some r => r :: pos
  | None => pos
  end.
