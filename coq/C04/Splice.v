(* Model of what InlineMethod puts in place of a call site (_InlineFunctionCallsForModuleHandle.occurred_outside_skip
   + _DefinitionGenerator._replace_returns_with), for the two simplest kinds of call site in a straight-line host:

     f(args)          the call is the whole statement (returns = False): the definition text replaces the line; the
                      `return` keyword is deleted, which leaves the returned expression as an expression statement
                      (no effect in this language: dropped)
     y = f(args)      (returns = True): the definition text without the return goes in front of the line and the
                      call is replaced by the returned expression:  y = <returned expression>

   The function is  def f(params): body; [return ret]  with straight-line body.  Definitions only. *)
From Coq Require Import List NArith ZArith Bool.
From RopeVerif.C04 Require Import Inline Expr Call Rename.
Import ListNotations.

Inductive site_kind := KStmt | KAssign (y : N).

(* the definition is computed on body + `return ret` (the return kept as a trailing print, as in Call.v) *)
Definition with_ret (body : list stmt) (ret : option (list (bool * list atom))) : list stmt :=
  match ret with Some e => body ++ [SPrint [e]] | None => body end.

Fixpoint split_ret (q : list stmt) : option (list stmt * list (bool * list atom)) :=
  match q with
  | [] => None
  | [SPrint [r]] => Some ([], r)
  | st :: q' => match split_ret q' with Some (qb, r) => Some (st :: qb, r) | None => None end
  end.

Definition inline_site (kind : site_kind) (tbl : tok_table) (hdr : list (N * N)) (body : list stmt)
           (ret : option (list (bool * list atom))) (host : list N) (ptbl : list (N * N)) : option (list stmt) :=
  match calculate_definition tbl hdr (with_ret body ret) host ptbl with
  | None => None
  | Some q =>
      match ret with
      | None => match kind with KStmt => Some q | KAssign _ => None end     (* `y = None`: not modelled *)
      | Some _ =>
          match split_ret q with
          | None => None
          | Some (qb, r) => Some (match kind with KStmt => qb | KAssign y => qb ++ [SAssign y r] end)
          end
      end
  end.

Definition inline_host (pre : list stmt) (kind : site_kind) (post : list stmt) tbl hdr body ret host ptbl
  : option (list stmt) :=
  match inline_site kind tbl hdr body ret host ptbl with
  | Some d => Some (pre ++ d ++ post)
  | None => None
  end.

(* ------------------------------------------------------------------------------------------------ *)
(* Reference semantics: Python's call.  The arguments are evaluated in the caller's environment and bound
   simultaneously in a NEW environment (a copy: reads of names the function does not bind see the caller's
   values, as globals do for a module-level caller); the body runs there; nothing the function assigns is
   visible to the caller; the value of the call is the returned expression in the final local environment. *)
Definition ref_site (kind : site_kind) tbl hdr (body : list stmt) (ret : option (list (bool * list atom)))
           (env : N -> Z) : (N -> Z) * list (list Z) :=
  let res := run body (bind_env tbl hdr env) in
  (match kind, ret with
   | KAssign y, Some e => upd_env env y (eval_sum (fst res) e)
   | _, _ => env
   end, snd res).

Definition ref_host (pre : list stmt) (kind : site_kind) (post : list stmt) tbl hdr body ret (env : N -> Z)
  : list (list Z) :=
  let r1 := run pre env in
  let r2 := ref_site kind tbl hdr body ret (fst r1) in
  snd r1 ++ snd r2 ++ snd (run post (fst r2)).

(* side conditions *)
Definition domain_site tbl hdr body ret host ptbl : bool :=
  let b := with_ret body ret in
  if conflict (all_names hdr b) host
  then side_renamed tbl hdr b (table_ren ptbl (all_names hdr b))
  else side_call tbl hdr b.

(* the names the inlined text assigns are not used by the rest of the host (except the target of the call) *)
Definition frame_ok (kind : site_kind) (d post : list stmt) : bool :=
  forallb (fun n => negb (memv n (uses post)) || match kind with KAssign y => N.eqb n y | KStmt => false end)
          (assigned d).
