(* Proofs about Call.v *)
From Coq Require Import List NArith ZArith Bool Lia.
From RopeVerif.C04 Require Import Inline InlineProofs Expr ExprProofs Call.
Import ListNotations.

Lemma run_ext p : forall e1 e2, (forall y, e1 y = e2 y) ->
  snd (run p e1) = snd (run p e2) /\ forall y, fst (run p e1) y = fst (run p e2) y.
Proof.
  induction p as [|s p IH]; intros e1 e2 H; cbn [run].
  - split; [reflexivity | exact H].
  - destruct s as [x e|es].
    + apply IH. intro y. unfold upd_env. destruct (N.eqb x y); [|apply H].
      apply eval_sum_ext. intros z _. apply H.
    + destruct (IH e1 e2 H) as [A B]. cbn [fst snd]. split; [|exact B]. rewrite A. f_equal.
      apply map_ext. intro e. apply eval_sum_ext. intros z _. apply H.
Qed.

Lemma side_variable_core x p :
  side_variable x p = true ->
  exists q, inline_var_core true x p = Some q /\ forall env, output q env = output p env.
Proof.
  intro H. destruct (variable_subst x p H) as (q & E & O). exists q. split; [|exact O].
  unfold inline_variable in E. destruct (Nat.eqb (count_defs x p) 1); [exact E | discriminate].
Qed.

Lemma header_subst names : forall p,
  side_header names p = true ->
  exists q, inline_header names p = Some q /\ forall env, output q env = output p env.
Proof.
  induction names as [|n names IH]; intros p H; cbn [side_header inline_header] in *.
  - exists p. split; [reflexivity | reflexivity].
  - apply andb_true_iff in H. destruct H as [H1 H2].
    destruct (side_variable_core n p H1) as (p' & E & O). rewrite E in *.
    destruct (IH p' H2) as (q & Eq & Oq). exists q. split; [exact Eq|].
    intro env. rewrite Oq. apply O.
Qed.

Lemma run_header tbl : forall hdr env,
  NoDup (map fst hdr) -> args_closed tbl hdr = true ->
  snd (run (header_stmts tbl hdr) env) = [] /\
  forall y, fst (run (header_stmts tbl hdr) env) y = bind_env tbl hdr env y.
Proof.
  intros hdr env ND AC.
  (* generalise: the values are evaluated in env0, which agrees with the running environment outside
     the header names *)
  assert (G : forall done todo e,
             hdr = done ++ todo ->
             (forall y, e y = match od_get y done with Some v => eval_sum env (tok_expr tbl v) | None => env y end) ->
             snd (run (header_stmts tbl todo) e) = [] /\
             forall y, fst (run (header_stmts tbl todo) e) y = bind_env tbl hdr env y).
  { intros done todo. revert done. induction todo as [|[n v] todo IH]; intros done e Eh He.
    - cbn [header_stmts map run fst snd]. split; [reflexivity|]. intro y. rewrite He.
      unfold bind_env. rewrite Eh, app_nil_r. reflexivity.
    - cbn [header_stmts map run fst snd]. fold (header_stmts tbl todo).
      apply (IH (done ++ [(n, v)])); [rewrite <- app_assoc; exact Eh|].
      intro y. unfold upd_env. rewrite od_get_app. cbn [od_get].
      assert (Nd : od_get n done = None).
      { apply od_get_None. intro I. rewrite Eh, map_app in ND. cbn [map fst] in ND.
        apply NoDup_remove_2 in ND. apply ND. apply in_or_app. left. exact I. }
      destruct (N.eqb_spec n y) as [E|NE].
      + subst y. rewrite Nd.
        (* the value text mentions no header name, so it evaluates in e as in env *)
        apply eval_sum_ext. intros z Hz. rewrite He.
        destruct (od_get z done) as [w|] eqn:G; [|reflexivity]. exfalso.
        unfold args_closed in AC. rewrite forallb_forall in AC.
        assert (Inv : In (n, v) hdr) by (rewrite Eh; apply in_or_app; right; left; reflexivity).
        specialize (AC (n, v) Inv). rewrite forallb_forall in AC.
        assert (Iz : In z (map fst hdr)) by (rewrite Eh, map_app; apply in_or_app; left; exact (od_get_Some_In _ _ _ G)).
        specialize (AC z Iz). apply negb_true_iff, memv_false in AC. exact (AC Hz).
      + rewrite He. destruct (od_get y done); reflexivity. }
  apply (G [] hdr env eq_refl). intro y. reflexivity.
Qed.

(* Inlining the parameters of a call site into the body gives a program that prints what the body
   prints when the arguments are evaluated in the caller's environment and bound to the parameters. *)
Lemma call_params_subst tbl hdr body :
  side_call tbl hdr body = true ->
  exists q, inline_header (map fst hdr) (guest tbl hdr body) = Some q /\
            forall env, output q env = call_output tbl hdr body env.
Proof.
  unfold side_call. intro H. apply andb_true_iff in H. destruct H as [H H3].
  apply andb_true_iff in H. destruct H as [H1 H2]. apply nodupN_NoDup in H1.
  destruct (header_subst _ _ H3) as (q & E & O). exists q. split; [exact E|].
  intro env. rewrite O. unfold output, guest, call_output, output. rewrite run_app. cbn [snd].
  destruct (run_header tbl hdr env H1 H2) as [A B]. rewrite A. cbn [app].
  apply run_ext. exact B.
Qed.

(* ------------------------------------------------------------------------------------------------ *)
(* the three ways in which the code as it stands leaves this domain; names a=1 b=2, tokens 21.. *)
Definition nmv (n : N) : list (bool * list atom) := [(false, [AVar n])].

(* def f(a, b): print(a - b);  f(b, a)   ==>  print(b - b)          (argument captured by a parameter) *)
Lemma call_arg_capture_refuted :
  exists tbl hdr body q env,
    inline_header (map fst hdr) (guest tbl hdr body) = Some q /\
    args_closed tbl hdr = false /\ output q env <> call_output tbl hdr body env.
Proof.
  exists [(21%N, nmv 2); (22%N, nmv 1)], [(1%N, 21%N); (2%N, 22%N)],
         [SPrint [[(false, [AVar 1]); (true, [AVar 2])]]].
  eexists. exists (fun y => if N.eqb y 1 then 1%Z else 2%Z).
  split; [vm_compute; reflexivity|]. split; vm_compute; congruence.
Qed.

(* def f(a): a = a * 10; print(a);  f(20)  ==>  a = 20 * 10; print(20)   (known bug 1 of inline.py) *)
Lemma call_param_reassigned_refuted :
  exists tbl hdr body q env,
    inline_header (map fst hdr) (guest tbl hdr body) = Some q /\
    args_closed tbl hdr = true /\ side_header (map fst hdr) (guest tbl hdr body) = false /\
    output q env <> call_output tbl hdr body env.
Proof.
  exists [(21%N, [(false, [ANum 20])])], [(1%N, 21%N)],
         [SAssign 1 [(false, [AVar 1; ANum 10])]; SPrint [nmv 1]].
  eexists. exists (fun _ => 0%Z).
  split; [vm_compute; reflexivity|]. repeat split; vm_compute; congruence.
Qed.

(* def f(a): print(a * 10);  f(10 + 10)  ==>  print(10 + 10 * 10)        (known bug 2 of inline.py) *)
Lemma call_arg_precedence_refuted :
  exists tbl hdr body q env,
    inline_header (map fst hdr) (guest tbl hdr body) = Some q /\
    args_closed tbl hdr = true /\ side_header (map fst hdr) (guest tbl hdr body) = false /\
    output q env <> call_output tbl hdr body env.
Proof.
  exists [(21%N, [(false, [ANum 10]); (false, [ANum 10])])], [(1%N, 21%N)],
         [SPrint [[(false, [AVar 1; ANum 10])]]].
  eexists. exists (fun _ => 0%Z).
  split; [vm_compute; reflexivity|]. repeat split; vm_compute; congruence.
Qed.

Example call_params_subst_nontrivial :
  (* def f(a, b, c): t = a * b - c; print(t, a);   f(x * 2, c=y + 1, b=3) in positional/keyword order *)
  let tbl := [(21%N, [(false, [AVar 11; ANum 2])]); (22%N, [(false, [ANum 3])]);
              (23%N, [(false, [AVar 12]); (false, [ANum 1])])] in
  let hdr := [(1%N, 21%N); (2%N, 22%N); (3%N, 23%N)] in
  let body := [SAssign 9 [(false, [AVar 1; AVar 2]); (false, [AVar 3])]; SPrint [nmv 9; nmv 1]] in
  side_call tbl hdr body = true /\
  inline_header (map fst hdr) (guest tbl hdr body) =
    Some [SAssign 9 [(false, [AVar 11; ANum 2; ANum 3]); (false, [AVar 12]); (false, [ANum 1])];
          SPrint [nmv 9; [(false, [AVar 11; ANum 2])]]].
Proof. split; vm_compute; reflexivity. Qed.

(* binding + parameter inlining of one call site, from the initial generator state *)
Lemma call_preserves alias d c b tbl body :
  valid_def d = true -> bind d c = Some b ->
  side_call tbl (header_of_binding b) body = true ->
  exists q, fst (inline_call alias d tbl body (init_state d) c) = Some q /\
            forall env, output q env = call_output tbl (header_of_binding b) body env.
Proof.
  intros VD HB SC. unfold inline_call. cbn [fst].
  rewrite (header_correct alias d c b VD HB). apply call_params_subst. exact SC.
Qed.

(* every site of a sequence, for the copying variant *)
Lemma calls_preserve d tbl body : forall cs bs,
  valid_def d = true -> map (bind d) cs = map Some bs ->
  Forall (fun b => side_call tbl (header_of_binding b) body = true) bs ->
  Forall2 (fun r b => exists q, r = Some q /\ forall env, output q env = call_output tbl (header_of_binding b) body env)
          (inline_calls false d tbl body (init_state d) cs) bs.
Proof.
  induction cs as [|c cs IH]; intros [|b bs] VD HB HF; cbn [map] in HB; try discriminate.
  - constructor.
  - inversion HB. inversion HF; subst. cbn [inline_calls]. constructor.
    + apply call_preserves; assumption.
    + change (snd (inline_call false d tbl body (init_state d) c)) with (init_state d).
      apply IH; assumption.
Qed.
