(* Proofs about Rename.v: renaming is alpha-equivalence; the renamed, parameter-inlined definition prints
   what the call prints. *)
From Coq Require Import List NArith ZArith Bool Lia.
From RopeVerif.C04 Require Import Inline InlineProofs Expr ExprProofs Call CallProofs Rename.
Import ListNotations.

Lemma ren_atom_paren r s : ren_atom r (AParen s) = AParen (ren_sum r s).
Proof. reflexivity. Qed.

Lemma ren_eval_atom r env env' a :
  (forall x, In x (vars_atom a) -> env' (r x) = env x) ->
  eval_atom env' (ren_atom r a) = eval_atom env a.
Proof.
  induction a as [n|y|s IH] using atom_ind2; intro H.
  - reflexivity.
  - cbn [ren_atom eval_atom]. apply H. left. reflexivity.
  - rewrite ren_atom_paren, !eval_atom_paren. rewrite vars_atom_paren in H. unfold ren_sum.
    induction s as [|t s IHs]; [reflexivity|]. inversion IH as [|? ? Ht Hs]; subst.
    cbn [map eval_sum fst snd vars_sum] in *.
    rewrite IHs; [|exact Hs | intros x Hx; apply H, in_or_app; right; exact Hx]. f_equal. f_equal.
    assert (Hp : forall x, In x (vars_prod (snd t)) -> env' (r x) = env x)
      by (intros x Hx; apply H, in_or_app; left; exact Hx).
    unfold ren_prod. clear -Ht Hp. induction (snd t) as [|a p IHp]; [reflexivity|]. inversion Ht; subst.
    cbn [map eval_prod vars_prod] in *.
    rewrite IHp; [|assumption | intros x Hx; apply Hp, in_or_app; right; exact Hx]. f_equal.
    apply H1. intros x Hx. apply Hp, in_or_app. left. exact Hx.
Qed.

Lemma ren_eval_sum r env env' e :
  (forall x, In x (vars_sum e) -> env' (r x) = env x) ->
  eval_sum env' (ren_sum r e) = eval_sum env e.
Proof.
  intro H. rewrite <- (eval_atom_paren env' (ren_sum r e)), <- (eval_atom_paren env e), <- ren_atom_paren.
  apply ren_eval_atom. rewrite vars_atom_paren. exact H.
Qed.

Definition inj_on (r : N -> N) (U : list N) : Prop :=
  forall x y, In x U -> In y U -> r x = r y -> x = y.

Lemma dedup_In x l : In x (dedup l) <-> In x l.
Proof.
  induction l as [|y l IH]; cbn [dedup]; [tauto|].
  destruct (memv y l) eqn:M.
  - rewrite IH. split; [intro H; right; exact H|]. intros [E|H]; [subst; apply memv_In; exact M | exact H].
  - cbn [In]. rewrite IH. tauto.
Qed.

Lemma nodup_map_inj r l : NoDup (map r l) -> inj_on r l.
Proof.
  induction l as [|z l IH]; intros ND x y Hx Hy E; [destruct Hx|].
  cbn [map] in ND. inversion ND as [|? ? NI ND']; subst.
  destruct Hx as [Ex|Hx], Hy as [Ey|Hy]; subst.
  - reflexivity.
  - exfalso. apply NI. rewrite E. apply in_map. exact Hy.
  - exfalso. apply NI. rewrite <- E. apply in_map. exact Hx.
  - exact (IH ND' x y Hx Hy E).
Qed.

Lemma ren_ok_inj r p : ren_ok r p = true -> inj_on r (uses p).
Proof.
  unfold ren_ok. intro H. apply nodupN_NoDup in H. intros x y Hx Hy E.
  apply (nodup_map_inj r (dedup (uses p)) H); [apply dedup_In; exact Hx | apply dedup_In; exact Hy | exact E].
Qed.

(* alpha-equivalence: a renaming that is injective on the names of the program does not change what it
   prints, when the environment is renamed along *)
Lemma rename_alpha r U : inj_on r U -> forall p env env',
  incl (uses p) U ->
  (forall x, In x U -> env' (r x) = env x) ->
  snd (run (map (ren_stmt r) p) env') = snd (run p env).
Proof.
  intros INJ. induction p as [|st p IH]; intros env env' INC REL; [reflexivity|].
  assert (INCp : incl (uses p) U).
  { intros x Hx. apply INC. unfold uses. cbn [flat_map]. apply in_or_app. right. exact Hx. }
  assert (INCs : incl (uses_stmt st) U).
  { intros x Hx. apply INC. unfold uses. cbn [flat_map]. apply in_or_app. left. exact Hx. }
  destruct st as [x e|es]; cbn [map ren_stmt run].
  - apply IH; [exact INCp|]. intros y Hy. unfold upd_env.
    assert (Hx : In x U) by (apply INCs; left; reflexivity).
    assert (EV : eval_sum env' (ren_sum r e) = eval_sum env e).
    { apply ren_eval_sum. intros z Hz. apply REL, INCs. right. exact Hz. }
    destruct (N.eqb_spec x y) as [E|NE].
    + subst y. rewrite N.eqb_refl. exact EV.
    + destruct (N.eqb_spec (r x) (r y)) as [E2|_]; [exfalso; apply NE; exact (INJ x y Hx Hy E2)|].
      apply REL. exact Hy.
  - cbn [snd]. rewrite (IH env env' INCp REL). f_equal. rewrite map_map. apply map_ext_in. intros e He.
    apply ren_eval_sum. intros z Hz. apply REL, INCs. cbn [uses_stmt]. apply in_flat_map. exists e. split; assumption.
Qed.

(* a program that assigns the names of [names] before it reads them does not depend on what the initial
   environment holds under those names *)
Lemma def_before_read_indep names : forall p defd e1 e2,
  def_before_read names defd p = true ->
  (forall y, In y (uses p) -> memv y names = false \/ In y defd -> e1 y = e2 y) ->
  snd (run p e1) = snd (run p e2).
Proof.
  induction p as [|st p IH]; intros defd e1 e2 H AG; [reflexivity|].
  cbn [def_before_read] in H. apply andb_true_iff in H. destruct H as [H1 H2].
  rewrite forallb_forall in H1.
  assert (EV : forall e, incl (vars_sum e) (reads st) -> eval_sum e1 e = eval_sum e2 e).
  { intros e INC. apply eval_sum_ext. intros y Hy. apply AG.
    - unfold uses. cbn [flat_map]. apply in_or_app. left.
      destruct st as [x e0|es]; cbn [uses_stmt reads] in *; [right; apply INC; exact Hy | apply INC; exact Hy].
    - specialize (H1 y (INC y Hy)). apply orb_true_iff in H1. destruct H1 as [A|A].
      + left. apply negb_true_iff in A. exact A.
      + right. apply memv_In. exact A. }
  destruct st as [x e|es]; cbn [run].
  - apply (IH (x :: defd)); [exact H2|]. intros y Hy C. unfold upd_env.
    destruct (N.eqb_spec x y) as [E|NE].
    + apply EV. intros z Hz. exact Hz.
    + apply AG; [unfold uses; cbn [flat_map]; apply in_or_app; right; exact Hy|].
      destruct C as [C|[C|C]]; [left; exact C | congruence | right; exact C].
  - cbn [snd]. rewrite (IH defd e1 e2 H2).
    + f_equal. apply map_ext_in. intros e He. apply EV. cbn [reads]. intros z Hz. apply in_flat_map. exists e. split; assumption.
    + intros y Hy C. apply AG; [unfold uses; cbn [flat_map]; apply in_or_app; right; exact Hy | exact C].
Qed.

(* The renamed and parameter-inlined definition prints what the call prints. *)
Lemma call_renamed_preserves tbl hdr body r :
  side_renamed tbl hdr body r = true ->
  exists q, inline_header (map r (map fst hdr)) (map (ren_stmt r) (guest tbl hdr body)) = Some q /\
            forall env, output q env = call_output tbl hdr body env.
Proof.
  unfold side_renamed. intro H.
  apply andb_true_iff in H. destruct H as [H SH]. apply andb_true_iff in H. destruct H as [H AC].
  apply andb_true_iff in H. destruct H as [H ND]. apply andb_true_iff in H. destruct H as [H DBR].
  apply andb_true_iff in H. destruct H as [OK ID].
  set (g := guest tbl hdr body) in *. set (names := all_names hdr body) in *.
  destruct (header_subst _ _ SH) as (q & E & O). exists q. split; [exact E|].
  intro env. rewrite O. unfold output.
  (* renamed guest under env = guest under env0 *)
  set (env0 := fun x => env (r x)).
  rewrite (rename_alpha r (uses g) (ren_ok_inj r g OK) g env0 env (fun x Hx => Hx) (fun x _ => eq_refl)).
  (* the guest does not look at env0 under the guest names, elsewhere env0 = env *)
  rewrite (def_before_read_indep names g [] env0 env DBR).
  - apply nodupN_NoDup in ND. unfold g, guest, call_output, output. rewrite run_app. cbn [snd].
    destruct (run_header tbl hdr env ND AC) as [A B]. rewrite A. cbn [app]. apply run_ext. exact B.
  - intros y Hy [C|[]]. unfold env0. rewrite forallb_forall in ID.
    assert (Hd : In y (dedup (uses g))) by (apply dedup_In; exact Hy).
    specialize (ID y Hd). rewrite C in ID. cbn [orb] in ID. apply N.eqb_eq in ID. rewrite ID. reflexivity.
Qed.

(* _calculate_definition with or without the conflict renaming *)
Lemma definition_preserves tbl hdr body host ptbl :
  (if conflict (all_names hdr body) host
   then side_renamed tbl hdr body (table_ren ptbl (all_names hdr body))
   else side_call tbl hdr body) = true ->
  exists q, calculate_definition tbl hdr body host ptbl = Some q /\
            forall env, output q env = call_output tbl hdr body env.
Proof.
  unfold calculate_definition. destruct (conflict (all_names hdr body) host); intro H.
  - apply call_renamed_preserves. exact H.
  - apply call_params_subst. exact H.
Qed.

(* def f(a): t = a * 2; print(t)   called as f(x * 3) where the host scope has its own t:
   names a=1 t=9 x=11, prefixed __0__a=101 __0__t=109 *)
Example definition_preserves_nontrivial :
  let tbl := [(21%N, [(false, [AVar 11; ANum 3])])] in
  let hdr := [(1%N, 21%N)] in
  let body := [SAssign 9 [(false, [AVar 1; ANum 2])]; SPrint [nmv 9; [(false, [AVar 1]); (true, [ANum 3])]]] in
  let ptbl := [(1%N, 101%N); (9%N, 109%N)] in
  conflict (all_names hdr body) [9%N; 11%N] = true /\
  side_renamed tbl hdr body (table_ren ptbl (all_names hdr body)) = true /\
  calculate_definition tbl hdr body [9%N; 11%N] ptbl =
    Some [SAssign 109 [(false, [AVar 11; ANum 3; ANum 2])];
          SPrint [nmv 109; [(false, [AVar 11; ANum 3]); (true, [ANum 3])]]].
Proof. repeat split; vm_compute; reflexivity. Qed.

(* def f(a): print(a)  called as f(a + 1) where the host scope has its own a (a=1, __0__a=101):
   the argument text is renamed with the guest names -> print(__0__a + 1), which reads a name nobody defines *)
Lemma definition_capture_refuted :
  exists tbl hdr body host ptbl q env,
    conflict (all_names hdr body) host = true /\
    calculate_definition tbl hdr body host ptbl = Some q /\
    def_before_read (all_names hdr body) [] (guest tbl hdr body) = false /\
    output q env <> call_output tbl hdr body env.
Proof.
  exists [(21%N, [(false, [AVar 1]); (false, [ANum 1])])], [(1%N, 21%N)], [SPrint [nmv 1]], [1%N], [(1%N, 101%N)].
  eexists. exists (fun y => if N.eqb y 1 then 5%Z else 0%Z).
  split; [vm_compute; reflexivity|]. split; [vm_compute; reflexivity|]. split; vm_compute; congruence.
Qed.
