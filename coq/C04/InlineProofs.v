(* Proofs about the call-site model of Inline.v. *)
From Coq Require Import List NArith Bool Lia.
From RopeVerif.C04 Require Import Inline.
Import ListNotations.

(* ------------------------------------------------------------------------------------------------ *)
(* membership / nodup *)
Lemma memN_In n l : memN n l = true <-> In n l.
Proof.
  unfold memN. rewrite existsb_exists. split.
  - intros (x & Hx & E). apply N.eqb_eq in E. subst. exact Hx.
  - intro H. exists n. split; [exact H | apply N.eqb_refl].
Qed.

Lemma memN_false n l : memN n l = false <-> ~ In n l.
Proof.
  rewrite <- memN_In. destruct (memN n l); split; intro H.
  - discriminate.
  - exfalso. apply H. reflexivity.
  - discriminate.
  - reflexivity.
Qed.

Lemma memN_app n a b : memN n (a ++ b) = memN n a || memN n b.
Proof. unfold memN. apply existsb_app. Qed.

Lemma nodupN_NoDup l : nodupN l = true <-> NoDup l.
Proof.
  induction l as [|x l IH]; cbn [nodupN].
  - split; [constructor | reflexivity].
  - rewrite andb_true_iff, negb_true_iff, memN_false, IH. split.
    + intros [A B]. constructor; assumption.
    + intro H. inversion H; subst. split; assumption.
Qed.

Lemma NoDup_snoc {A} (l : list A) x : NoDup l -> ~ In x l -> NoDup (l ++ [x]).
Proof.
  induction l as [|y l IH]; cbn; intros H NI.
  - constructor; [intros [] | constructor].
  - inversion H; subst. constructor.
    + rewrite in_app_iff. intros [I|[I|[]]]; [contradiction | subst; apply NI; left; reflexivity].
    + apply IH; [assumption | intro I; apply NI; right; exact I].
Qed.

(* ------------------------------------------------------------------------------------------------ *)
(* ordered dicts *)
Section OD.
Context {V : Type}.
Implicit Types d : list (N * V).

Lemma od_get_set k k' (v : V) d :
  od_get k (od_set k' v d) = if N.eqb k' k then Some v else od_get k d.
Proof.
  induction d as [|[k0 v0] d IH]; cbn [od_set od_get].
  - reflexivity.
  - destruct (N.eqb_spec k0 k') as [E|NE]; cbn [od_get].
    + subst k0. destruct (N.eqb k' k); reflexivity.
    + destruct (N.eqb_spec k0 k) as [E2|NE2].
      * subst k0. destruct (N.eqb_spec k' k); [congruence | reflexivity].
      * exact IH.
Qed.

Lemma od_get_None k d : od_get k d = None <-> ~ In k (map fst d).
Proof.
  induction d as [|[k0 v0] d IH]; cbn [od_get map fst].
  - split; [intros _ [] | reflexivity].
  - destruct (N.eqb_spec k0 k) as [E|NE].
    + split; [discriminate | intro H; exfalso; apply H; left; exact E].
    + rewrite IH. split; [intros H [A|A]; [congruence | exact (H A)] | intros H A; apply H; right; exact A].
Qed.

Lemma od_get_Some_In k (v : V) d : od_get k d = Some v -> In k (map fst d).
Proof.
  intro H. destruct (in_dec N.eq_dec k (map fst d)) as [I|NI]; [exact I|].
  apply od_get_None in NI. congruence.
Qed.

Lemma od_set_fresh k (v : V) d : ~ In k (map fst d) -> od_set k v d = d ++ [(k, v)].
Proof.
  induction d as [|[k0 v0] d IH]; cbn [od_set map fst app]; intro H.
  - reflexivity.
  - destruct (N.eqb_spec k0 k) as [E|NE]; [exfalso; apply H; left; exact E|].
    rewrite IH; [reflexivity | intro A; apply H; right; exact A].
Qed.

Lemma od_set_keys_in k (v : V) d : In k (map fst d) -> map fst (od_set k v d) = map fst d.
Proof.
  induction d as [|[k0 v0] d IH]; cbn [od_set map fst]; intro H.
  - destruct H.
  - destruct (N.eqb_spec k0 k) as [E|NE]; cbn [map fst]; [reflexivity|].
    rewrite IH; [reflexivity | destruct H; [congruence | assumption]].
Qed.

Lemma od_set_keys k (v : V) d :
  map fst (od_set k v d) = if memN k (map fst d) then map fst d else map fst d ++ [k].
Proof.
  destruct (memN k (map fst d)) eqn:E.
  - apply od_set_keys_in, memN_In, E.
  - apply memN_false in E. rewrite od_set_fresh by exact E. rewrite map_app. reflexivity.
Qed.

Lemma od_set_nodup k (v : V) d : NoDup (map fst d) -> NoDup (map fst (od_set k v d)).
Proof.
  intro H. rewrite od_set_keys. destruct (memN k (map fst d)) eqn:E; [exact H|].
  apply memN_false in E. apply NoDup_snoc; assumption.
Qed.
End OD.

Lemma od_get_app {V} k (a b : list (N * V)) :
  od_get k (a ++ b) = match od_get k a with Some v => Some v | None => od_get k b end.
Proof.
  induction a as [|[k0 v0] a IH]; cbn [app od_get]; [reflexivity|].
  destruct (N.eqb k0 k); [reflexivity | exact IH].
Qed.

Lemma od_get_in_nodup {V} k (v : V) d : NoDup (map fst d) -> In (k, v) d -> od_get k d = Some v.
Proof.
  induction d as [|[k0 v0] d IH]; cbn [map fst od_get]; intros ND I; [destruct I|].
  inversion ND as [|? ? NI ND']; subst. destruct I as [E|I].
  - inversion E; subst. rewrite N.eqb_refl. reflexivity.
  - destruct (N.eqb_spec k0 k) as [E|NE].
    + subst. exfalso. apply NI. change k with (fst (k, v)). apply in_map. exact I.
    + apply IH; assumption.
Qed.

(* d[k] = w on an existing key of a dict: pointwise replacement *)
Definition repl {V} (k : N) (w : V) (p : N * V) : N * V := if N.eqb (fst p) k then (fst p, w) else p.

Lemma od_set_map {V} k (w : V) (d : list (N * V)) :
  NoDup (map fst d) -> In k (map fst d) -> od_set k w d = map (repl k w) d.
Proof.
  induction d as [|[k0 v0] d IH]; cbn [map fst od_set]; intros ND I; [destruct I|].
  inversion ND as [|? ? NI ND']; subst. unfold repl at 1. cbn [fst].
  destruct (N.eqb_spec k0 k) as [E|NE].
  - subst k0. f_equal. rewrite <- (map_id d) at 1. apply map_ext_in. intros [k1 v1] I1.
    unfold repl. cbn [fst]. destruct (N.eqb_spec k1 k) as [E1|]; [|reflexivity].
    subst. exfalso. apply NI. change k with (fst (k, v1)). apply in_map. exact I1.
  - f_equal. apply IH; [exact ND' | destruct I; [congruence | assumption]].
Qed.

(* ------------------------------------------------------------------------------------------------ *)
(* update_state as a pointwise map *)
Definition upd (st : list (N * option N)) (pd : list (N * N)) : list (N * option N) :=
  map (fun p => (fst p, match od_get (fst p) pd with Some v => Some v | None => snd p end)) st.

Lemma upd_keys st pd : map fst (upd st pd) = map fst st.
Proof. unfold upd. rewrite map_map. reflexivity. Qed.

Lemma update_state_cons st k v pd :
  update_state st ((k, v) :: pd) = update_state (od_set k (Some v) st) pd.
Proof. reflexivity. Qed.

Lemma update_state_upd pd : forall st,
  NoDup (map fst st) -> NoDup (map fst pd) -> incl (map fst pd) (map fst st) ->
  update_state st pd = upd st pd.
Proof.
  induction pd as [|[k v] pd IH]; intros st NS NP INC.
  - unfold update_state, upd. cbn [fold_left od_get]. rewrite <- (map_id st) at 1.
    apply map_ext. intros [a b]. reflexivity.
  - rewrite update_state_cons. cbn [map fst] in NP, INC. inversion NP as [|? ? NI NP']; subst.
    assert (Ik : In k (map fst st)) by (apply INC; left; reflexivity).
    rewrite IH.
    + rewrite (od_set_map k (Some v) st NS Ik). unfold upd. rewrite map_map. apply map_ext.
      intros [a b]. unfold repl. cbn [fst snd od_get].
      destruct (N.eqb_spec a k) as [E|NE]; cbn [fst snd].
      * subst a. rewrite N.eqb_refl. apply od_get_None in NI. rewrite NI. reflexivity.
      * destruct (N.eqb_spec k a); [congruence | reflexivity].
    + rewrite od_set_keys_in by exact Ik. exact NS.
    + exact NP'.
    + rewrite od_set_keys_in by exact Ik. intros x Hx. apply INC. right. exact Hx.
Qed.

(* ------------------------------------------------------------------------------------------------ *)
(* keys of param_dict *)
Lemma map_pos_keys ps : forall args pd,
  NoDup (map fst pd) -> incl (map fst pd) (map fst ps ++ map fst pd) ->
  NoDup (map fst (map_pos ps args pd)) /\
  (forall x, In x (map fst (map_pos ps args pd)) -> In x (map fst ps) \/ In x (map fst pd)).
Proof.
  induction ps as [|[n dv] ps IH]; intros args pd ND _.
  - destruct args; cbn [map_pos]; (split; [exact ND | intros x Hx; right; exact Hx]).
  - destruct args as [|v args]; cbn [map_pos].
    + split; [exact ND | intros x Hx; right; exact Hx].
    + destruct (IH args (od_set n v pd)) as [A B].
      * apply od_set_nodup. exact ND.
      * intros x Hx. apply in_or_app. right. exact Hx.
      * split; [exact A|]. intros x Hx. destruct (B x Hx) as [I|I].
        -- left. right. exact I.
        -- rewrite od_set_keys in I. destruct (memN n (map fst pd)); [right; exact I|].
           apply in_app_or in I. destruct I as [I|[I|[]]]; [right; exact I | left; left; exact I].
Qed.

Lemma map_kws_keys d kws : forall pd,
  NoDup (map fst pd) -> (forall x, In x (map fst pd) -> In x (pnames d)) ->
  NoDup (map fst (map_kws d kws pd)) /\ (forall x, In x (map fst (map_kws d kws pd)) -> In x (pnames d)).
Proof.
  induction kws as [|[n v] kws IH]; intros pd ND INC; cbn [map_kws].
  - split; assumption.
  - destruct (has_param d n) eqn:HP.
    + apply IH; [apply od_set_nodup; exact ND|].
      intros x Hx. rewrite od_set_keys in Hx. destruct (memN n (map fst pd)); [apply INC; exact Hx|].
      apply in_app_or in Hx. destruct Hx as [I|[I|[]]]; [apply INC; exact I|].
      subst. apply memN_In. exact HP.
    + apply IH; assumption.
Qed.

Lemma param_dict_keys d c :
  NoDup (map fst (param_dict d c)) /\ incl (map fst (param_dict d c)) (pnames d).
Proof.
  unfold param_dict.
  destruct (map_pos_keys (d_params d) (c_args c) []) as [A B]; [constructor | intros x [] |].
  apply map_kws_keys; [exact A|]. intros x Hx. destruct (B x Hx) as [I|[]]. exact I.
Qed.

Lemma init_state_nodup d : NoDup (pnames d) -> init_state d = d_params d.
Proof.
  unfold init_state, pnames.
  assert (G : forall (ps acc : list (N * option N)), NoDup (map fst acc ++ map fst ps) ->
            fold_left (fun s p => od_set (fst p) (snd p) s) ps acc = acc ++ ps).
  { induction ps as [|[n dv] ps IH]; intros acc ND; cbn [fold_left fst snd].
    - rewrite app_nil_r. reflexivity.
    - cbn [map fst] in ND. rewrite od_set_fresh.
      + rewrite IH; [rewrite <- app_assoc; reflexivity|].
        rewrite map_app. cbn [map fst]. rewrite <- app_assoc. exact ND.
      + intro I. apply NoDup_remove_2 in ND. apply ND. apply in_or_app. left. exact I. }
  intro ND. exact (G (d_params d) [] ND).
Qed.

(* ------------------------------------------------------------------------------------------------ *)
(* the mapping of a well-formed call *)
Lemma bind_pos_split ps : forall args b rest,
  bind_pos ps args = Some (b, rest) ->
  exists ps1, ps = ps1 ++ rest /\ map fst ps1 = map fst b.
Proof.
  induction ps as [|[n dv] ps IH]; intros [|v args] b rest H; cbn [bind_pos] in H.
  - inversion H; subst. exists []. split; reflexivity.
  - discriminate.
  - inversion H; subst. exists []. split; reflexivity.
  - destruct (bind_pos ps args) as [[b' rest']|] eqn:E; [|discriminate]. inversion H; subst.
    destruct (IH _ _ _ E) as (ps1 & E1 & E2). exists ((n, dv) :: ps1). split.
    + cbn [app]. rewrite <- E1. reflexivity.
    + cbn [map fst]. rewrite E2. reflexivity.
Qed.

Lemma map_pos_bind ps : forall args b rest pd,
  bind_pos ps args = Some (b, rest) -> NoDup (map fst ps) ->
  (forall n, In n (map fst ps) -> ~ In n (map fst pd)) ->
  map_pos ps args pd = pd ++ b.
Proof.
  induction ps as [|[n dv] ps IH]; intros [|v args] b rest pd H ND FR; cbn [bind_pos] in H.
  - inversion H; subst. cbn [map_pos]. rewrite app_nil_r. reflexivity.
  - discriminate.
  - inversion H; subst. cbn [map_pos]. rewrite app_nil_r. reflexivity.
  - destruct (bind_pos ps args) as [[b' rest']|] eqn:E; [|discriminate]. inversion H; subst.
    cbn [map_pos]. cbn [map fst] in ND, FR. inversion ND as [|? ? NI ND']; subst.
    rewrite od_set_fresh by (apply FR; left; reflexivity).
    rewrite (IH _ _ _ _ E ND').
    + rewrite <- app_assoc. reflexivity.
    + intros m Hm I. rewrite map_app in I. apply in_app_or in I. destruct I as [I|[I|[]]].
      * exact (FR m (or_intror Hm) I).
      * cbn [fst] in I. subst. exact (NI Hm).
Qed.

Lemma kws_ok_spec rest kws :
  kws_ok rest kws = true -> NoDup (map fst kws) /\ incl (map fst kws) rest.
Proof.
  induction kws as [|[n v] kws IH]; cbn [kws_ok map fst]; intro H.
  - split; [constructor | intros x []].
  - apply andb_true_iff in H. destruct H as [H H3]. apply andb_true_iff in H. destruct H as [H1 H2].
    apply negb_true_iff, memN_false in H2. apply memN_In in H1. destruct (IH H3) as [A B].
    split; [constructor; assumption|]. intros x [E|I]; [subst; exact H1 | exact (B x I)].
Qed.

Lemma map_kws_app d kws : forall pd,
  (forall n, In n (map fst kws) -> has_param d n = true) -> NoDup (map fst kws) ->
  (forall n, In n (map fst kws) -> ~ In n (map fst pd)) ->
  map_kws d kws pd = pd ++ kws.
Proof.
  induction kws as [|[n v] kws IH]; intros pd HP ND FR; cbn [map_kws].
  - rewrite app_nil_r. reflexivity.
  - cbn [map fst] in HP, ND, FR. inversion ND as [|? ? NI ND']; subst.
    rewrite (HP n (or_introl eq_refl)). rewrite od_set_fresh by (apply FR; left; reflexivity).
    rewrite IH.
    + rewrite <- app_assoc. reflexivity.
    + intros m Hm. apply HP. right. exact Hm.
    + exact ND'.
    + intros m Hm I. rewrite map_app in I. apply in_app_or in I. destruct I as [I|[I|[]]].
      * exact (FR m (or_intror Hm) I).
      * cbn [fst] in I. subst. exact (NI Hm).
Qed.

Definition someify (p : N * N) : N * option N := (fst p, Some (snd p)).

Lemma upd_rest rest kws D : forall b2,
  bind_rest rest kws = Some b2 ->
  (forall p, In p rest -> od_get (fst p) D = od_get (fst p) kws) ->
  upd rest D = map someify b2.
Proof.
  induction rest as [|[n dv] rest IH]; intros b2 H EQ; cbn [bind_rest] in H.
  - inversion H; subst. reflexivity.
  - unfold upd. cbn [map fst snd]. fold (upd rest D).
    assert (EQn := EQ (n, dv) (or_introl eq_refl)). cbn [fst] in EQn. rewrite EQn.
    destruct (od_get n kws) as [v|] eqn:G.
    + destruct (bind_rest rest kws) as [b|] eqn:E; [|discriminate]. inversion H; subst.
      cbn [map]. unfold someify at 1. cbn [fst snd]. f_equal. apply IH; [reflexivity|].
      intros p Hp. apply EQ. right. exact Hp.
    + destruct dv as [v|]; [|discriminate].
      destruct (bind_rest rest kws) as [b|] eqn:E; [|discriminate]. inversion H; subst.
      cbn [map]. unfold someify at 1. cbn [fst snd]. f_equal. apply IH; [reflexivity|].
      intros p Hp. apply EQ. right. exact Hp.
Qed.

Lemma valid_def_spec d : valid_def d = true -> NoDup (pnames d) /\ d_star d = false /\ d_kwstar d = false.
Proof.
  unfold valid_def. intro H. apply andb_true_iff in H. destruct H as [H H3].
  apply andb_true_iff in H. destruct H as [H1 H2]. apply nodupN_NoDup in H1.
  apply negb_true_iff in H2, H3. auto.
Qed.

(* Main lemma: the parameter dictionary from which the header of a well-formed call is built is
   exactly Python's binding of the call. *)
Lemma binding_correct d c b :
  valid_def d = true -> bind d c = Some b ->
  update_state (init_state d) (param_dict d c) = map someify b.
Proof.
  intros VD HB. destruct (valid_def_spec d VD) as (ND & S1 & S2).
  unfold bind in HB. rewrite S1, S2 in HB. cbn [orb] in HB.
  destruct (c_star c); [discriminate|].
  destruct (bind_pos (d_params d) (c_args c)) as [[b1 rest]|] eqn:BP; [|discriminate].
  destruct (kws_ok (map fst rest) (c_kws c)) eqn:KO; [|discriminate].
  destruct (bind_rest rest (c_kws c)) as [b2|] eqn:BR; [|discriminate]. inversion HB; subst b. clear HB.
  destruct (bind_pos_split _ _ _ _ BP) as (ps1 & Eps & Enames).
  destruct (kws_ok_spec _ _ KO) as [NDk INCk].
  unfold pnames in ND. rewrite Eps, map_app in ND.
  assert (PD : param_dict d c = b1 ++ c_kws c).
  { unfold param_dict. rewrite (map_pos_bind _ _ _ _ [] BP).
    - cbn [app]. apply map_kws_app.
      + intros n Hn. unfold has_param, pnames. apply memN_In. rewrite Eps, map_app.
        apply in_or_app. right. apply INCk. exact Hn.
      + exact NDk.
      + intros n Hn I. rewrite <- Enames in I.
        assert (R := INCk n Hn). clear -ND I R.
        induction (map fst ps1) as [|x l IH]; [destruct I|].
        cbn [app] in ND. inversion ND; subst. destruct I as [E|I].
        * subst. apply H1. apply in_or_app. right. exact R.
        * exact (IH H2 I).
    - rewrite Eps, map_app. exact ND.
    - intros n _ []. }
  rewrite init_state_nodup by (unfold pnames; rewrite Eps, map_app; exact ND).
  destruct (param_dict_keys d c) as [NDpd INCpd].
  rewrite update_state_upd; [| unfold pnames in *; rewrite Eps, map_app; exact ND | exact NDpd | exact INCpd].
  rewrite PD in *. rewrite Eps. unfold upd. rewrite map_app, map_app. f_equal.
  - (* the positional prefix *)
    transitivity (map (fun n => (n, od_get n (b1 ++ c_kws c))) (map fst ps1)).
    + rewrite map_map. apply map_ext_in. intros [n dv] I. cbn [fst snd].
      destruct (od_get n (b1 ++ c_kws c)) as [v|] eqn:G; [reflexivity|].
      exfalso. apply od_get_None in G. apply G. rewrite map_app. apply in_or_app. left.
      rewrite <- Enames. change n with (fst (n, dv)). apply in_map. exact I.
    + rewrite Enames, map_map. apply map_ext_in. intros [n v] I. unfold someify. cbn [fst snd].
      f_equal. apply od_get_in_nodup; [exact NDpd | apply in_or_app; left; exact I].
  - (* the remaining parameters: keyword or default *)
    apply (upd_rest rest (c_kws c) (b1 ++ c_kws c) b2 BR).
    intros [n dv] I. cbn [fst]. rewrite od_get_app.
    destruct (od_get n b1) as [v|] eqn:G; [|reflexivity].
    exfalso. apply od_get_Some_In in G. rewrite <- Enames in G.
    assert (R : In n (map fst rest)) by (change n with (fst (n, dv)); apply in_map; exact I).
    clear -ND G R. induction (map fst ps1) as [|x l IH]; [destruct G|].
    cbn [app] in ND. inversion ND; subst. destruct G as [E|G].
    + subst. apply H1. apply in_or_app. right. exact R.
    + exact (IH H2 G).
Qed.

Lemma header_of_someify b : header_of (map someify b) = header_of_binding b.
Proof.
  induction b as [|[n v] b IH]; [reflexivity|].
  cbn [map header_of_binding]. unfold someify at 1. cbn [fst snd header_of].
  destruct (N.eqb n v); rewrite IH; reflexivity.
Qed.

Lemma header_correct alias d c b :
  valid_def d = true -> bind d c = Some b ->
  fst (calculate_header alias d (init_state d) c) = header_of_binding b.
Proof.
  intros VD HB. unfold calculate_header. cbn [fst].
  rewrite (binding_correct d c b VD HB). apply header_of_someify.
Qed.

(* ------------------------------------------------------------------------------------------------ *)
(* state invariance of the repaired variant, independence of the sites *)
Lemma state_invariant d st c : snd (calculate_header false d st c) = st.
Proof. reflexivity. Qed.

Lemma sites_independent d st cs :
  inline_sites false d st cs = map (calculate_header false d st) cs.
Proof. induction cs as [|c cs IH]; cbn [inline_sites map]; [reflexivity|]. rewrite state_invariant, IH. reflexivity. Qed.

Lemma sites_bind d cs bs :
  valid_def d = true -> map (bind d) cs = map Some bs ->
  headers false d (init_state d) cs = map header_of_binding bs.
Proof.
  intros VD. unfold headers. rewrite sites_independent, map_map. revert bs.
  induction cs as [|c cs IH]; intros [|b bs] H; cbn [map] in *; try discriminate; [reflexivity|].
  inversion H. f_equal; [apply header_correct; assumption | apply IH; assumption].
Qed.

(* ------------------------------------------------------------------------------------------------ *)
(* the aliased variant (alias = true, the code before /repo 45cf20a): harmless exactly when no site relies on a stale default *)
Lemma od_ext {V} (a : list (N * V)) : forall b,
  NoDup (map fst a) -> map fst a = map fst b -> (forall k, od_get k a = od_get k b) -> a = b.
Proof.
  induction a as [|[k v] a IH]; intros [|[k' v'] b] ND EK EG; cbn [map fst] in *; try discriminate; [reflexivity|].
  inversion EK; subst k'. inversion ND as [|? ? NI ND']; subst.
  assert (Ev := EG k). cbn [od_get] in Ev. rewrite N.eqb_refl in Ev. inversion Ev; subst v'.
  f_equal. apply IH; [exact ND' | assumption |].
  intro x. assert (Ex := EG x). cbn [od_get] in Ex.
  destruct (N.eqb_spec k x) as [E|NE]; [|exact Ex].
  subst x. apply od_get_None in NI. rewrite NI. symmetry. apply od_get_None. rewrite <- H1. apply od_get_None. exact NI.
Qed.

Lemma od_get_upd k st pd :
  od_get k (upd st pd) =
  match od_get k st with
  | Some dv => Some (match od_get k pd with Some v => Some v | None => dv end)
  | None => None
  end.
Proof.
  induction st as [|[n dv] st IH]; cbn [upd map od_get fst snd]; [reflexivity|].
  fold (upd st pd). destruct (N.eqb_spec n k) as [E|NE]; [subst; reflexivity | exact IH].
Qed.

Lemma alias_harmless_gen d : forall cs passed st,
  NoDup (pnames d) ->
  map fst st = pnames d ->
  (forall n, memN n passed = false -> od_get n st = od_get n (d_params d)) ->
  no_stale_from d passed cs = true ->
  headers true d st cs = headers false d (d_params d) cs.
Proof.
  induction cs as [|c cs IH]; intros passed st ND EK AG NS; [reflexivity|].
  cbn [no_stale_from] in NS. apply andb_true_iff in NS. destruct NS as [NS1 NS2].
  unfold headers. cbn [inline_sites map]. fold (headers true d (snd (calculate_header true d st c)) cs).
  fold (headers false d (snd (calculate_header false d (d_params d) c)) cs).
  rewrite state_invariant. unfold calculate_header. cbn [fst snd].
  destruct (param_dict_keys d c) as [NDpd INCpd].
  assert (NDs : NoDup (map fst st)) by (rewrite EK; exact ND).
  rewrite (update_state_upd _ st NDs NDpd) by (rewrite EK; exact INCpd).
  rewrite (update_state_upd _ (d_params d) ND NDpd INCpd).
  assert (EQ : upd st (param_dict d c) = upd (d_params d) (param_dict d c)).
  { apply od_ext.
    - rewrite upd_keys. exact NDs.
    - rewrite !upd_keys. exact EK.
    - intro k. rewrite !od_get_upd.
      destruct (od_get k (param_dict d c)) as [v|] eqn:G.
      + destruct (od_get k st) eqn:G1, (od_get k (d_params d)) eqn:G2; try reflexivity; exfalso.
        * apply od_get_Some_In in G1. apply od_get_None in G2. apply G2. fold (pnames d). rewrite <- EK. exact G1.
        * apply od_get_Some_In in G2. apply od_get_None in G1. apply G1. rewrite EK. exact G2.
      + destruct (in_dec N.eq_dec k (pnames d)) as [I|NI].
        * rewrite forallb_forall in NS1. specialize (NS1 k I). apply orb_true_iff in NS1.
          destruct NS1 as [P|P].
          -- apply negb_true_iff in P. rewrite (AG k P). reflexivity.
          -- apply memN_In in P. apply od_get_None in G. contradiction.
        * assert (A : od_get k st = None) by (apply od_get_None; rewrite EK; exact NI).
          assert (B : od_get k (d_params d) = None) by (apply od_get_None; exact NI).
          rewrite A, B. reflexivity. }
  rewrite EQ. f_equal.
  apply (IH (map fst (param_dict d c) ++ passed)); [exact ND | | | exact NS2].
  - rewrite <- EQ, upd_keys. exact EK.
  - intros n Hn. rewrite memN_app in Hn. apply orb_false_iff in Hn. destruct Hn as [H1 H2].
    rewrite od_get_upd. apply memN_false in H1.
    assert (G : od_get n (param_dict d c) = None) by (apply od_get_None; exact H1).
    rewrite G. destruct (od_get n (d_params d)); reflexivity.
Qed.

Lemma alias_harmless d cs :
  valid_def d = true -> no_stale d cs = true ->
  headers true d (init_state d) cs = headers false d (init_state d) cs.
Proof.
  intros VD NS. destruct (valid_def_spec d VD) as (ND & _ & _).
  rewrite init_state_nodup by exact ND.
  apply (alias_harmless_gen d cs [] (d_params d) ND); [reflexivity | reflexivity | exact NS].
Qed.

Lemma alias_sites_bind d cs bs :
  valid_def d = true -> no_stale d cs = true -> map (bind d) cs = map Some bs ->
  headers true d (init_state d) cs = map header_of_binding bs.
Proof. intros VD NS HB. rewrite alias_harmless by assumption. apply sites_bind; assumption. Qed.

(* ------------------------------------------------------------------------------------------------ *)
(* refutation for the aliased variant (the code before /repo 45cf20a): def f(a, b=5); f(1, b=2); f(3).
   tokens: a=1 b=2 "1"=11 "2"=12 "3"=13 "5"=15 *)
Definition wit_def : definfo := mkDef [(1%N, None); (2%N, Some 15%N)] false false.
Definition wit_c1 : call := mkCall [11%N] [(2%N, 12%N)] false.
Definition wit_c2 : call := mkCall [13%N] [] false.

Lemma state_invariant_refuted :
  exists d c1 c2,
    valid_def d = true /\ well_formed_call d c1 = true /\ well_formed_call d c2 = true /\
    snd (calculate_header true d (init_state d) c1) <> init_state d /\
    (exists b2, bind d c2 = Some b2 /\
       nth 1 (headers true d (init_state d) [c1; c2]) [] <> header_of_binding b2) /\
    no_stale d [c1; c2] = false.
Proof.
  exists wit_def, wit_c1, wit_c2. repeat split; try (vm_compute; congruence).
  exists [(1%N, 13%N); (2%N, 15%N)]. split; vm_compute; congruence.
Qed.
