(* Proofs about the expression/statement model of Expr.v. *)
From Coq Require Import List NArith ZArith Bool Lia.
From RopeVerif.C04 Require Import Expr.
Import ListNotations.

(* ------------------------------------------------------------------------------------------------ *)
(* induction principle for the nested type *)
Section AtomInd.
  Variable P : atom -> Prop.
  Hypothesis Hn : forall n, P (ANum n).
  Hypothesis Hv : forall x, P (AVar x).
  Hypothesis Hp : forall s, Forall (fun t => Forall P (snd t)) s -> P (AParen s).
  Fixpoint atom_ind2 (a : atom) : P a :=
    match a with
    | ANum n => Hn n
    | AVar x => Hv x
    | AParen s =>
        Hp s ((fix go (s : list (bool * list atom)) : Forall (fun t => Forall P (snd t)) s :=
                 match s with
                 | [] => Forall_nil _
                 | t :: s' =>
                     Forall_cons t
                       ((fix gp (p : list atom) : Forall P p :=
                           match p with
                           | [] => Forall_nil _
                           | a :: p' => Forall_cons a (atom_ind2 a) (gp p')
                           end) (snd t))
                       (go s')
                 end) s)
    end.
End AtomInd.

(* ------------------------------------------------------------------------------------------------ *)
(* the nested fixes are the top-level functions *)
Lemma eval_atom_paren env s : eval_atom env (AParen s) = eval_sum env s.
Proof.
  induction s as [|t s IH]; [reflexivity|].
  change (eval_atom env (AParen (t :: s))) with
    (signed (fst t) ((fix ep (p : list atom) : Z :=
                        match p with [] => 1%Z | a :: p' => (eval_atom env a * ep p')%Z end) (snd t))
     + eval_atom env (AParen s))%Z.
  rewrite IH. cbn [eval_sum]. f_equal. f_equal.
  induction (snd t) as [|a p IHp]; [reflexivity|]. cbn [eval_prod]. rewrite <- IHp. reflexivity.
Qed.

Lemma tsub_atom_paren x r s : tsub_atom x r (AParen s) = AParen (tsubst_sum x r s).
Proof.
  cbn [tsub_atom]. f_equal.
  induction s as [|t s IH]; [reflexivity|]. cbn [tsubst_sum]. rewrite <- IH. f_equal. f_equal.
  induction (snd t) as [|a p IHp]; [reflexivity|]. cbn [tsubst_prod]. rewrite <- IHp. reflexivity.
Qed.

Lemma psub_atom_paren x r s : psub_atom x r (AParen s) = AParen (psubst_sum x r s).
Proof.
  reflexivity.
Qed.

Lemma vars_atom_paren s : vars_atom (AParen s) = vars_sum s.
Proof.
  reflexivity.
Qed.

Lemma occ_ok_atom_paren x s : occ_ok_atom x (AParen s) = occ_ok_sum x s.
Proof.
  cbn [occ_ok_atom]. induction s as [|t s IH]; [reflexivity|]. cbn [occ_ok_sum]. rewrite <- IH. f_equal.
  unfold occ_ok_term. f_equal.
  induction (snd t) as [|a p IHp]; [reflexivity|]. cbn [occ_ok_prod]. rewrite <- IHp. reflexivity.
Qed.

(* ------------------------------------------------------------------------------------------------ *)
(* evaluation of sums *)
Lemma eval_sum_app env a b : eval_sum env (a ++ b) = (eval_sum env a + eval_sum env b)%Z.
Proof. induction a as [|t a IH]; cbn [app eval_sum]; [reflexivity|]. rewrite IH. lia. Qed.

Lemma eval_prod_app env a b : eval_prod env (a ++ b) = (eval_prod env a * eval_prod env b)%Z.
Proof. induction a as [|t a IH]; cbn [app eval_prod]; [lia|]. rewrite IH. lia. Qed.

Lemma signed_mul neg a b : signed neg (a * b) = (signed neg a * b)%Z.
Proof. destruct neg; cbn [signed]; lia. Qed.

(* environments that agree on the variables of an expression *)
Lemma eval_atom_ext env1 env2 a :
  (forall y, In y (vars_atom a) -> env1 y = env2 y) -> eval_atom env1 a = eval_atom env2 a.
Proof.
  induction a as [n|y|s IH] using atom_ind2; intro H.
  - reflexivity.
  - cbn [eval_atom]. apply H. left. reflexivity.
  - rewrite !eval_atom_paren. rewrite vars_atom_paren in H.
    induction s as [|t s IHs]; [reflexivity|]. inversion IH as [|? ? Ht Hs]; subst.
    cbn [eval_sum vars_sum] in *. rewrite IHs; [|exact Hs | intros y Hy; apply H, in_or_app; right; exact Hy].
    f_equal. f_equal.
    assert (Hp : forall y, In y (vars_prod (snd t)) -> env1 y = env2 y)
      by (intros y Hy; apply H, in_or_app; left; exact Hy).
    clear -Ht Hp. induction (snd t) as [|a p IHp]; [reflexivity|]. inversion Ht; subst.
    cbn [eval_prod vars_prod] in *. rewrite IHp; [|assumption | intros y Hy; apply Hp, in_or_app; right; exact Hy].
    f_equal. apply H1. intros y Hy. apply Hp, in_or_app. left. exact Hy.
Qed.

Lemma eval_prod_ext env1 env2 p :
  (forall y, In y (vars_prod p) -> env1 y = env2 y) -> eval_prod env1 p = eval_prod env2 p.
Proof.
  induction p as [|a p IH]; intro H; [reflexivity|]. cbn [eval_prod vars_prod] in *.
  rewrite IH by (intros y Hy; apply H, in_or_app; right; exact Hy).
  f_equal. apply eval_atom_ext. intros y Hy. apply H, in_or_app. left. exact Hy.
Qed.

Lemma eval_sum_ext env1 env2 s :
  (forall y, In y (vars_sum s) -> env1 y = env2 y) -> eval_sum env1 s = eval_sum env2 s.
Proof.
  induction s as [|t s IH]; intro H; [reflexivity|]. cbn [eval_sum vars_sum] in *.
  rewrite IH by (intros y Hy; apply H, in_or_app; right; exact Hy).
  f_equal. f_equal. apply eval_prod_ext. intros y Hy. apply H, in_or_app. left. exact Hy.
Qed.

(* ------------------------------------------------------------------------------------------------ *)
(* the parenthesised substitution is substitution *)
Lemma psub_atom_eval env x r a :
  eval_atom env (psub_atom x r a) = eval_atom (upd_env env x (eval_sum env r)) a.
Proof.
  induction a as [n|y|s IH] using atom_ind2.
  - reflexivity.
  - cbn [psub_atom eval_atom]. unfold upd_env. destruct (N.eqb x y); [apply eval_atom_paren | reflexivity].
  - rewrite psub_atom_paren, !eval_atom_paren. unfold psubst_sum.
    induction s as [|t s IHs]; [reflexivity|]. inversion IH as [|? ? Ht Hs]; subst.
    cbn [map eval_sum fst snd]. rewrite IHs by exact Hs. f_equal. f_equal.
    unfold psubst_prod. clear -Ht. induction (snd t) as [|a p IHp]; [reflexivity|]. inversion Ht; subst.
    cbn [map eval_prod]. rewrite IHp by assumption. f_equal. assumption.
Qed.

(* ------------------------------------------------------------------------------------------------ *)
(* textual juxtaposition *)
Lemma mul_text_single t u g : mul_text [t] (u :: g) = (fst t, snd t ++ snd u) :: g.
Proof. reflexivity. Qed.

Lemma mul_text_unit f : f <> [] -> mul_text f [(false, [])] = f.
Proof.
  induction f as [|t f IH]; intro H; [congruence|].
  destruct f as [|t' f'].
  - cbn [mul_text snd]. rewrite app_nil_r. destruct t; reflexivity.
  - change (mul_text (t :: t' :: f') [(false, [])]) with (t :: mul_text (t' :: f') [(false, [])]).
    rewrite IH by discriminate. reflexivity.
Qed.

(* ------------------------------------------------------------------------------------------------ *)
(* Semantics of textual replacement where it is safe.  env' is the environment in which x holds the
   value of the replacement text. *)
Section Safe.
  Variable env : N -> Z.
  Variable x : N.
  Variable r : sum.
  Hypothesis Hwf : wf_rhs r = true.
  Let env' := upd_env env x (eval_sum env r).

  Definition safe_atom (a : atom) : Prop := single_term r = true \/ occ_ok_atom x a = true.
  Definition safe_prod (p : prod) : Prop := single_term r = true \/ occ_ok_prod x p = true.

  Lemma single_term_shape : single_term r = true -> exists q, r = [(false, q)].
  Proof.
    unfold single_term. destruct r as [|[neg q] [|u r']]; try discriminate.
    destruct neg; [discriminate|]. intros _. exists q. reflexivity.
  Qed.

  (* a product without a problematic read of x stays one product *)
  Lemma tsubst_prod_safe p :
    Forall (fun a => safe_atom a -> is_var x a = false -> eval_atom env (tsub_atom x r a) = eval_atom env' a) p ->
    safe_prod p ->
    exists p', tsubst_prod x r p = [(false, p')] /\ eval_prod env p' = eval_prod env' p.
  Proof.
    induction p as [|a p IHp]; intros HF HS.
    - exists []. split; reflexivity.
    - inversion HF as [|? ? Ha Hp']; subst.
      assert (HSp : safe_prod p).
      { destruct HS as [S|O]; [left; exact S|]. right. cbn [occ_ok_prod] in O.
        apply andb_true_iff in O. tauto. }
      destruct (IHp Hp' HSp) as (p' & E & V). cbn [tsubst_prod]. rewrite E. unfold atom_text.
      destruct (is_var x a) eqn:IV.
      + (* a read of x inside a product: only when the replacement is a single product *)
        destruct HS as [S|O].
        * destruct (single_term_shape S) as (q & Eq). rewrite Eq. rewrite mul_text_single. cbn [fst snd].
          exists (q ++ p'). split; [reflexivity|]. rewrite eval_prod_app, V. cbn [eval_prod]. f_equal.
          destruct a as [|y|]; try discriminate. cbn [is_var] in IV. apply N.eqb_eq in IV. subst y.
          cbn [eval_atom]. unfold env', upd_env. rewrite N.eqb_refl, Eq. cbn [eval_sum signed fst snd]. lia.
        * cbn [occ_ok_prod] in O. rewrite IV in O. discriminate.
      + rewrite mul_text_single. cbn [fst snd app]. exists (tsub_atom x r a :: p'). split; [reflexivity|].
        cbn [eval_prod]. rewrite V. f_equal. apply Ha; [|reflexivity].
        destruct HS as [S|O]; [left; exact S|]. right. cbn [occ_ok_prod] in O.
        apply andb_true_iff in O. destruct O as [O _]. apply andb_true_iff in O. tauto.
  Qed.

  Lemma tsubst_term_safe t :
    Forall (fun a => safe_atom a -> is_var x a = false -> eval_atom env (tsub_atom x r a) = eval_atom env' a) (snd t) ->
    (single_term r = true \/ occ_ok_term x t = true) ->
    eval_sum env (set_sign (fst t) (tsubst_prod x r (snd t))) = signed (fst t) (eval_prod env' (snd t)).
  Proof.
    intros HF HS.
    assert (C : safe_prod (snd t) \/ (is_just_var x (snd t) && negb (fst t) = true)).
    { destruct HS as [S|O]; [left; left; exact S|]. unfold occ_ok_term in O. apply orb_true_iff in O.
      destruct O as [O|O]; [right; exact O | left; right; exact O]. }
    destruct C as [SP|J].
    - destruct (tsubst_prod_safe (snd t) HF SP) as (p' & E & V). rewrite E. cbn [set_sign eval_sum snd fst].
      rewrite V. lia.
    - apply andb_true_iff in J. destruct J as [J1 J2]. apply negb_true_iff in J2. rewrite J2.
      destruct (snd t) as [|a [|b p]]; try discriminate. cbn [is_just_var] in J1.
      cbn [tsubst_prod]. unfold atom_text. rewrite J1.
      assert (NE : r <> []) by (destruct r; [discriminate | discriminate]).
      rewrite (mul_text_unit r NE).
      assert (SS : set_sign false r = r).
      { destruct r as [|[neg q] r']; [reflexivity|]. cbn [wf_rhs fst] in Hwf. apply negb_true_iff in Hwf.
        subst neg. reflexivity. }
      rewrite SS. cbn [signed eval_prod].
      destruct a as [|y|]; try discriminate. cbn [is_var] in J1. apply N.eqb_eq in J1. subst y.
      cbn [eval_atom]. unfold env', upd_env. rewrite N.eqb_refl. lia.
  Qed.

  Lemma tsub_atom_safe a :
    safe_atom a -> is_var x a = false -> eval_atom env (tsub_atom x r a) = eval_atom env' a.
  Proof.
    induction a as [n|y|s IH] using atom_ind2; intros HS IV.
    - reflexivity.
    - cbn [tsub_atom eval_atom]. cbn [is_var] in IV. unfold env', upd_env. rewrite IV. reflexivity.
    - rewrite tsub_atom_paren, !eval_atom_paren.
      assert (HS' : single_term r = true \/ occ_ok_sum x s = true).
      { destruct HS as [S|O]; [left; exact S | right; rewrite <- occ_ok_atom_paren; exact O]. }
      clear HS IV. induction s as [|t s IHs]; [reflexivity|]. inversion IH as [|? ? Ht Hs]; subst.
      cbn [tsubst_sum eval_sum]. rewrite eval_sum_app.
      rewrite IHs; [| exact Hs |].
      + f_equal. apply tsubst_term_safe; [exact Ht|].
        destruct HS' as [S|O]; [left; exact S|]. right. cbn [occ_ok_sum] in O. apply andb_true_iff in O. tauto.
      + destruct HS' as [S|O]; [left; exact S|]. right. cbn [occ_ok_sum] in O. apply andb_true_iff in O. tauto.
  Qed.

  Lemma tsubst_sum_safe s :
    prec_ok x r s = true -> eval_sum env (tsubst_sum x r s) = eval_sum env' s.
  Proof.
    intro H. unfold prec_ok in H. apply orb_true_iff in H.
    induction s as [|t s IHs]; [reflexivity|].
    cbn [tsubst_sum eval_sum]. rewrite eval_sum_app. rewrite IHs.
    - f_equal. apply tsubst_term_safe.
      + apply Forall_forall. intros a _. apply tsub_atom_safe.
      + destruct H as [S|O]; [left; exact S|]. right. cbn [occ_ok_sum] in O. apply andb_true_iff in O. tauto.
    - destruct H as [S|O]; [left; exact S|]. right. cbn [occ_ok_sum] in O. apply andb_true_iff in O. tauto.
  Qed.
End Safe.

(* ------------------------------------------------------------------------------------------------ *)
(* expressions that do not read x *)
Lemma memv_In n l : memv n l = true <-> In n l.
Proof.
  unfold memv. rewrite existsb_exists. split.
  - intros (y & Hy & E). apply N.eqb_eq in E. subst. exact Hy.
  - intro H. exists n. split; [exact H | apply N.eqb_refl].
Qed.

Lemma memv_false n l : memv n l = false <-> ~ In n l.
Proof.
  rewrite <- memv_In. destruct (memv n l); split; intro H.
  - discriminate.
  - exfalso. apply H. reflexivity.
  - discriminate.
  - reflexivity.
Qed.

Lemma notin_occ_ok_atom x a : ~ In x (vars_atom a) -> is_var x a = false /\ occ_ok_atom x a = true.
Proof.
  induction a as [n|y|s IH] using atom_ind2; intro H.
  - split; reflexivity.
  - split; [|reflexivity]. cbn [is_var]. apply N.eqb_neq. intro E. apply H. left. symmetry. exact E.
  - split; [reflexivity|]. rewrite occ_ok_atom_paren. rewrite vars_atom_paren in H.
    induction s as [|t s IHs]; [reflexivity|]. inversion IH as [|? ? Ht Hs]; subst.
    cbn [occ_ok_sum vars_sum] in *. rewrite IHs; [|exact Hs | intro I; apply H, in_or_app; right; exact I].
    rewrite andb_true_r. unfold occ_ok_term. apply orb_true_iff. right.
    assert (Hp : ~ In x (vars_prod (snd t))) by (intro I; apply H, in_or_app; left; exact I).
    clear -Ht Hp. induction (snd t) as [|a p IHp]; [reflexivity|]. inversion Ht; subst.
    cbn [occ_ok_prod vars_prod] in *.
    destruct (H1 (fun I => Hp (in_or_app _ _ _ (or_introl I)))) as [A B]. rewrite A, B.
    cbn [negb andb]. apply IHp; [assumption | intro I; apply Hp, in_or_app; right; exact I].
Qed.

Lemma notin_occ_ok_sum x s : ~ In x (vars_sum s) -> occ_ok_sum x s = true.
Proof.
  intro H. rewrite <- occ_ok_atom_paren. apply notin_occ_ok_atom. rewrite vars_atom_paren. exact H.
Qed.

Definition agree (x : N) (e1 e2 : N -> Z) : Prop := forall y, y <> x -> e1 y = e2 y.

Lemma eval_agree x e1 e2 s : agree x e1 e2 -> ~ In x (vars_sum s) -> eval_sum e1 s = eval_sum e2 s.
Proof. intros A H. apply eval_sum_ext. intros y Hy. apply A. intro E. subst. exact (H Hy). Qed.

(* replacing in an expression that does not read x changes nothing observable *)
Lemma tsubst_noread env x r s :
  wf_rhs r = true -> ~ In x (vars_sum s) -> eval_sum env (tsubst_sum x r s) = eval_sum env s.
Proof.
  intros W H. rewrite (tsubst_sum_safe env x r W).
  - apply eval_sum_ext. intros y Hy. unfold upd_env. destruct (N.eqb_spec x y); [subst; contradiction | reflexivity].
  - unfold prec_ok. rewrite (notin_occ_ok_sum x s H). apply orb_true_r.
Qed.

(* ------------------------------------------------------------------------------------------------ *)
(* programs *)
Lemma split_def_spec x : forall p pre r post,
  split_def x p = Some (pre, r, post) ->
  p = pre ++ SAssign x r :: post /\ existsb (assigns x) pre = false.
Proof.
  induction p as [|s p IH]; intros pre r post H; cbn [split_def] in H; [discriminate|].
  destruct s as [y e|es].
  - destruct (N.eqb_spec x y) as [E|NE].
    + inversion H; subst. split; reflexivity.
    + destruct (split_def x p) as [[[pre' r'] post']|] eqn:S; [|discriminate]. inversion H; subst.
      destruct (IH _ _ _ eq_refl) as [A B]. split; [cbn [app]; rewrite <- A; reflexivity|].
      cbn [existsb assigns]. rewrite B. apply N.eqb_neq in NE. rewrite NE. reflexivity.
  - destruct (split_def x p) as [[[pre' r'] post']|] eqn:S; [|discriminate]. inversion H; subst.
    destruct (IH _ _ _ eq_refl) as [A B]. split; [cbn [app]; rewrite <- A; reflexivity|].
    cbn [existsb assigns]. exact B.
Qed.

Lemma assigns_tsubst x y r s : assigns y (tsubst_stmt x r s) = assigns y s.
Proof. destruct s; reflexivity. Qed.

Lemma first_def_app x pre r post :
  existsb (assigns x) pre = false -> first_def x (pre ++ SAssign x r :: post) = Some r.
Proof.
  induction pre as [|s pre IH]; cbn [app first_def existsb]; intro H.
  - rewrite N.eqb_refl. reflexivity.
  - apply orb_false_iff in H. destruct H as [H1 H2]. destruct s as [y e|es]; cbn [assigns] in H1.
    + rewrite H1. apply IH. exact H2.
    + apply IH. exact H2.
Qed.

Lemma remove_first_def_app x pre s post :
  existsb (assigns x) pre = false -> assigns x s = true ->
  remove_first_def x (pre ++ s :: post) = pre ++ post.
Proof.
  induction pre as [|s0 pre IH]; cbn [app remove_first_def existsb]; intros H A.
  - rewrite A. reflexivity.
  - apply orb_false_iff in H. destruct H as [H1 H2]. rewrite H1. f_equal. apply IH; assumption.
Qed.

Lemma existsb_map_assigns x y r p :
  existsb (assigns y) (map (tsubst_stmt x r) p) = existsb (assigns y) p.
Proof. induction p as [|s p IH]; cbn [map existsb]; [reflexivity|]. rewrite assigns_tsubst, IH. reflexivity. Qed.

Lemma count_defs_once x pre r post :
  existsb (assigns x) pre = false -> existsb (assigns x) post = false ->
  count_defs x (pre ++ SAssign x r :: post) = 1%nat.
Proof.
  intros H1 H2. unfold count_defs. rewrite filter_app. cbn [filter assigns]. rewrite N.eqb_refl.
  assert (F : forall l, existsb (assigns x) l = false -> filter (assigns x) l = []).
  { induction l as [|s l IH]; cbn [existsb filter]; intro H; [reflexivity|].
    apply orb_false_iff in H. destruct H as [A B]. rewrite A. apply IH. exact B. }
  rewrite (F pre H1), (F post H2). reflexivity.
Qed.

Section Sim.
  Variable x : N.
  Variable r : sum.
  Hypothesis Hwf : wf_rhs r = true.
  Hypothesis Hself : ~ In x (vars_sum r).

  (* statements before the definition: they neither read nor assign x *)
  Lemma pre_sim : forall pre e1 e2,
    agree x e1 e2 ->
    existsb (assigns x) pre = false -> existsb (reads_var x) pre = false ->
    snd (run (map (tsubst_stmt x r) pre) e2) = snd (run pre e1) /\
    agree x (fst (run pre e1)) (fst (run (map (tsubst_stmt x r) pre) e2)).
  Proof.
    induction pre as [|s pre IH]; intros e1 e2 A H1 H2; cbn [map run existsb] in *.
    - split; [reflexivity | exact A].
    - apply orb_false_iff in H1. destruct H1 as [H1 H1']. apply orb_false_iff in H2. destruct H2 as [H2 H2'].
      unfold reads_var in H2. apply memv_false in H2.
      destruct s as [y e|es]; cbn [tsubst_stmt run reads] in *.
      + apply IH; [|assumption|assumption].
        intros z Hz. unfold upd_env. destruct (N.eqb y z); [|apply A; exact Hz].
        rewrite (tsubst_noread e2 x r e Hwf H2). apply eval_agree with (x := x); assumption.
      + destruct (IH e1 e2 A H1' H2') as [O E]. cbn [fst snd]. split; [|exact E]. rewrite O. f_equal.
        rewrite map_map. apply map_ext_in. intros e He.
        assert (NI : ~ In x (vars_sum e)).
        { intro I. apply H2. apply in_flat_map. exists e. split; assumption. }
        rewrite (tsubst_noread e2 x r e Hwf NI). symmetry. apply eval_agree with (x := x); assumption.
  Qed.

  (* statements after the definition *)
  Lemma post_sim : forall post e1 e2,
    agree x e1 e2 -> e1 x = eval_sum e2 r ->
    existsb (assigns x) post = false ->
    forallb (fun y => negb (existsb (assigns y) post)) (vars_sum r) = true ->
    forallb (prec_ok_stmt x r) post = true ->
    snd (run (map (tsubst_stmt x r) post) e2) = snd (run post e1).
  Proof.
    assert (EV : forall e1 e2 e, agree x e1 e2 -> e1 x = eval_sum e2 r -> prec_ok x r e = true ->
                 eval_sum e2 (tsubst_sum x r e) = eval_sum e1 e).
    { intros e1 e2 e A X P. rewrite (tsubst_sum_safe e2 x r Hwf e P). apply eval_sum_ext.
      intros y _. unfold upd_env. destruct (N.eqb_spec x y) as [E|NE]; [subst; symmetry; exact X|].
      symmetry. apply A. congruence. }
    induction post as [|s post IH]; intros e1 e2 A X H1 H2 H3; cbn [map run existsb forallb] in *; [reflexivity|].
    apply orb_false_iff in H1. destruct H1 as [H1 H1']. apply andb_true_iff in H3. destruct H3 as [H3 H3'].
    assert (H2' : forallb (fun y => negb (existsb (assigns y) post)) (vars_sum r) = true).
    { rewrite forallb_forall in *. intros y Hy. specialize (H2 y Hy). apply negb_true_iff in H2.
      apply orb_false_iff in H2. apply negb_true_iff. tauto. }
    destruct s as [y e|es]; cbn [tsubst_stmt run prec_ok_stmt assigns] in *.
    - apply IH; [| |assumption|assumption|assumption].
      + intros z Hz. unfold upd_env. destruct (N.eqb y z); [|apply A; exact Hz].
        symmetry. apply EV; assumption.
      + apply N.eqb_neq in H1. unfold upd_env at 1. destruct (N.eqb_spec y x) as [E|_]; [congruence|].
        rewrite X. apply eval_sum_ext. intros z Hz. unfold upd_env. destruct (N.eqb_spec y z) as [E|]; [|reflexivity].
        subst z. rewrite forallb_forall in H2. specialize (H2 y Hz). apply negb_true_iff in H2.
        apply orb_false_iff in H2. destruct H2 as [H2 _]. rewrite N.eqb_refl in H2. discriminate.
    - cbn [snd]. rewrite (IH e1 e2 A X H1' H2' H3'). f_equal.
      rewrite map_map. apply map_ext_in. intros e He. apply EV; [assumption|assumption|].
      rewrite forallb_forall in H3. apply H3. exact He.
  Qed.
End Sim.

Lemma run_app p q env : 
  run (p ++ q) env = (fst (run q (fst (run p env))), snd (run p env) ++ snd (run q (fst (run p env)))).
Proof.
  revert env. induction p as [|s p IH]; intro env; cbn [app run].
  - cbn [fst snd app]. destruct (run q env); reflexivity.
  - destruct s as [y e|es]; [apply IH|]. rewrite IH. cbn [fst snd app]. reflexivity.
Qed.

(* Inlining a once-assigned variable preserves the output of the program, under the side condition. *)
Lemma variable_subst x p :
  side_variable x p = true ->
  exists q, inline_variable true x p = Some q /\ forall env, output q env = output p env.
Proof.
  unfold side_variable, cond_once, cond_deps_stable, cond_prec.
  destruct (split_def x p) as [[[pre r] post]|] eqn:S; [|discriminate]. intro H.
  apply andb_true_iff in H. destruct H as [H H3]. apply andb_true_iff in H. destruct H as [H H2].
  apply andb_true_iff in H. destruct H as [H Hwf]. apply andb_true_iff in H. destruct H as [H Hself].
  apply andb_true_iff in H. destruct H as [Hpost Hpre].
  apply negb_true_iff in Hpost, Hpre, Hself. apply memv_false in Hself.
  destruct (split_def_spec x p pre r post S) as [Ep Hdef]. subst p.
  unfold inline_variable, inline_var_core. rewrite (count_defs_once x pre r post Hdef Hpost). cbn [Nat.eqb].
  rewrite (first_def_app x pre r post Hdef). eexists. split; [reflexivity|].
  intro env. rewrite map_app. cbn [map]. rewrite remove_first_def_app;
    [| rewrite existsb_map_assigns; exact Hdef | cbn [tsubst_stmt assigns]; apply N.eqb_refl].
  unfold output. rewrite !run_app. cbn [snd run].
  destruct (pre_sim x r Hwf pre env env (fun y _ => eq_refl) Hdef Hpre) as [O A]. rewrite O. f_equal.
  apply (post_sim x r Hwf Hself post); [| |assumption|assumption|assumption].
  - intros z Hz. unfold upd_env. destruct (N.eqb_spec x z) as [E|]; [congruence|]. apply A. exact Hz.
  - unfold upd_env. rewrite N.eqb_refl. apply eval_agree with (x := x); assumption.
Qed.

(* ------------------------------------------------------------------------------------------------ *)
(* refutations: tokens a=1 b=2 *)
Definition nm (n : N) : sum := [(false, [AVar n])].
Definition num (n : N) : sum := [(false, [ANum n])].

(* b = 1; a = b + 1; b = 10; print(a)  ==>  b = 1; b = 10; print(b + 1) *)
Definition wit_reassigned : list stmt :=
  [SAssign 2 (num 1); SAssign 1 [(false, [AVar 2]); (false, [ANum 1])]; SAssign 2 (num 10); SPrint [nm 1]].

Lemma variable_reassigned_dep_refuted :
  exists x p q, inline_variable true x p = Some q /\
    cond_once x p = true /\ cond_prec x p = true /\ cond_deps_stable x p = false /\
    exists env, output q env <> output p env.
Proof.
  exists 1%N, wit_reassigned. eexists. split; [vm_compute; reflexivity|].
  repeat split; try (vm_compute; reflexivity). exists (fun _ => 0%Z). vm_compute. congruence.
Qed.

(* b = 1; a = b + 1; print(a * 2)  ==>  b = 1; print(b + 1 * 2) *)
Definition wit_precedence : list stmt :=
  [SAssign 2 (num 1); SAssign 1 [(false, [AVar 2]); (false, [ANum 1])];
   SPrint [[(false, [AVar 1; ANum 2])]]].

Lemma variable_precedence_refuted :
  exists x p q, inline_variable true x p = Some q /\
    cond_once x p = true /\ cond_deps_stable x p = true /\ cond_prec x p = false /\
    exists env, output q env <> output p env.
Proof.
  exists 1%N, wit_precedence. eexists. split; [vm_compute; reflexivity|].
  repeat split; try (vm_compute; reflexivity). exists (fun _ => 0%Z). vm_compute. congruence.
Qed.

Example variable_subst_nontrivial :
  let p := [SAssign 2 (num 3); SAssign 3 (num 4);
            SAssign 1 [(false, [AVar 2]); (true, [AVar 3; ANum 2])];            (* a = b - c * 2 *)
            SAssign 4 [(false, [AVar 1]); (false, [ANum 5; AParen [(false, [AVar 1]); (true, [AVar 2])]])];
                                                                                (* d = a + 5 * (a - b) *)
            SPrint [[(false, [AVar 4])]; [(false, [AVar 1])]]] in
  side_variable 1 p = true /\
  inline_variable true 1 p =
    Some [SAssign 2 (num 3); SAssign 3 (num 4);
          SAssign 4 [(false, [AVar 2]); (true, [AVar 3; ANum 2]);
                     (false, [ANum 5; AParen [(false, [AVar 2]); (true, [AVar 3; ANum 2]); (true, [AVar 2])]])];
          SPrint [[(false, [AVar 4])]; [(false, [AVar 2]); (true, [AVar 3; ANum 2])]]].
Proof. split; vm_compute; reflexivity. Qed.
