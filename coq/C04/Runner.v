(* Correspondence runner of C04.  The harness writes, per generated project, the definition and the call
   sites (extracted from the generated sources with CPython's ast, not taken from rope) together with what
   the instrumented rope did at every call site; the comparison is computed here by vm_compute. *)
From Coq Require Import List NArith ZArith Bool.
From RopeVerif.Lib Require Import Text.
From RopeVerif.C04 Require Import Inline Expr Call Rename Splice Receiver.
Import ListNotations.

Definition pairs_eqb (a b : list (N * N)) : bool :=
  (fix go (a b : list (N * N)) : bool :=
     match a, b with
     | [], [] => true
     | (x, y) :: a', (x', y') :: b' => N.eqb x x' && N.eqb y y' && go a' b'
     | _, _ => false
     end) a b.

Definition optN_eqb (a b : option N) : bool :=
  match a, b with Some x, Some y => N.eqb x y | None, None => true | _, _ => false end.

Fixpoint state_eqb (a b : list (N * option N)) : bool :=
  match a, b with
  | [], [] => true
  | (x, y) :: a', (x', y') :: b' => N.eqb x x' && optN_eqb y y' && state_eqb a' b'
  | _, _ => false
  end.

Definition opt_pairs_eqb (a b : option (list (N * N))) : bool :=
  match a, b with Some x, Some y => pairs_eqb x y | None, None => true | _, _ => false end.

(* ------------------------------------------------------------------------------------------------ *)
(* function inlining: headers and generator state per call site *)
Record site := mkSite {
  s_call   : call;
  s_header : list (N * N);            (* the `name = value` lines rope put in front of the body *)
  s_after  : list (N * option N);     (* generator.definition_params after the site *)
  s_pybind : option (list (N * N))    (* inspect.signature(...).bind(...) + defaults; None = TypeError *)
}.
Record group := mkGroup {             (* the call sites handled by one _DefinitionGenerator, in order *)
  g_init  : list (N * option N);      (* its definition_params before the first site *)
  g_sites : list site
}.
Record mcase := mkM {
  m_def     : definfo;
  m_refused : bool;                   (* rope raised "Cannot inline functions with list and keyword arguments" *)
  m_groups  : list group
}.

(* codes: 0 agree; 1 header differs; 2 state after the site differs; 3 [bind] differs from CPython;
          4 refusal differs; 5 initial state differs *)
Fixpoint run_sites (alias : bool) (d : definfo) (st : list (N * option N)) (ss : list site) : N :=
  match ss with
  | [] => 0%N
  | s :: r =>
      let hs := calculate_header alias d st (s_call s) in
      if negb (opt_pairs_eqb (bind d (s_call s)) (s_pybind s)) then 3%N
      else if negb (pairs_eqb (fst hs) (s_header s)) then 1%N
      else if negb (state_eqb (snd hs) (s_after s)) then 2%N
      else run_sites alias d (snd hs) r
  end.

Fixpoint run_groups (alias : bool) (d : definfo) (st0 : list (N * option N)) (gs : list group) : N :=
  match gs with
  | [] => 0%N
  | g :: r =>
      if negb (state_eqb st0 (g_init g)) then 5%N
      else
        let c := run_sites alias d st0 (g_sites g) in
        if N.eqb c 0 then run_groups alias d st0 r else c
  end.

Definition run_mcase (alias : bool) (c : mcase) : N :=
  match get_definition_params (m_def c) with
  | None => if m_refused c then 0%N else 4%N
  | Some st0 => if m_refused c then 4%N else run_groups alias (m_def c) st0 (m_groups c)
  end.

(* flags: 1 = every site is a well-formed call of a valid definition (domain of C04_sites_bind);
          2 = no site relies on a default after an earlier site of its group passed the parameter (no_stale);
          4 = the two variants of the code produce different headers on this case *)
Definition group_calls (g : group) : list call := map s_call (g_sites g).
Definition headers_eqb (a b : list (list (N * N))) : bool :=
  (fix go (a b : list (list (N * N))) : bool :=
     match a, b with
     | [], [] => true
     | x :: a', y :: b' => pairs_eqb x y && go a' b'
     | _, _ => false
     end) a b.

Definition mflags (c : mcase) : N :=
  let d := m_def c in
  let dom := valid_def d && forallb (fun g => forallb (well_formed_call d) (group_calls g)) (m_groups c) in
  let ns := forallb (fun g => no_stale d (group_calls g)) (m_groups c) in
  let vis := negb (forallb (fun g => headers_eqb (headers true d (init_state d) (group_calls g))
                                                 (headers false d (init_state d) (group_calls g))) (m_groups c)) in
  ((if dom then 1 else 0) + (if ns then 2 else 0) + (if vis then 4 else 0))%N.

(* ------------------------------------------------------------------------------------------------ *)
(* variable inlining on straight-line modules *)
Fixpoint atom_eqb (a b : atom) {struct a} : bool :=
  match a, b with
  | ANum x, ANum y => N.eqb x y
  | AVar x, AVar y => N.eqb x y
  | AParen s, AParen s' =>
      (fix gs (s s' : list (bool * list atom)) {struct s} : bool :=
         match s, s' with
         | [], [] => true
         | t :: r, t' :: r' =>
             Bool.eqb (fst t) (fst t')
             && (fix gp (p p' : list atom) {struct p} : bool :=
                   match p, p' with
                   | [], [] => true
                   | a :: q, a' :: q' => atom_eqb a a' && gp q q'
                   | _, _ => false
                   end) (snd t) (snd t')
             && gs r r'
         | _, _ => false
         end) s s'
  | _, _ => false
  end.
Definition sum_eqb (a b : list (bool * list atom)) : bool := atom_eqb (AParen a) (AParen b).

Fixpoint sums_eqb (a b : list (list (bool * list atom))) : bool :=
  match a, b with
  | [], [] => true
  | x :: a', y :: b' => sum_eqb x y && sums_eqb a' b'
  | _, _ => false
  end.

Definition stmt_eqb (a b : stmt) : bool :=
  match a, b with
  | SAssign x e, SAssign y e' => N.eqb x y && sum_eqb e e'
  | SPrint es, SPrint es' => sums_eqb es es'
  | _, _ => false
  end.

Fixpoint prog_eqb (a b : list stmt) : bool :=
  match a, b with
  | [], [] => true
  | x :: a', y :: b' => stmt_eqb x y && prog_eqb a' b'
  | _, _ => false
  end.

Record vcase := mkV {
  v_x      : N;
  v_remove : bool;
  v_prog   : list stmt;
  v_result : option (list stmt)       (* the module after rope's change; None = RefactoringError *)
}.

(* code: 0 agree, 1 differs;  + 10 * (cond_once + 2 * cond_deps_stable + 4 * cond_prec) *)
Definition run_vcase (c : vcase) : N :=
  let m := inline_variable (v_remove c) (v_x c) (v_prog c) in
  let code := match m, v_result c with
              | Some p, Some q => if prog_eqb p q then 0 else 1
              | None, None => 0
              | _, _ => 1
              end%N in
  let fl := ((if cond_once (v_x c) (v_prog c) then 1 else 0)
             + (if cond_deps_stable (v_x c) (v_prog c) then 2 else 0)
             + (if cond_prec (v_x c) (v_prog c) then 4 else 0))%N in
  (code + 10 * fl)%N.

(* ------------------------------------------------------------------------------------------------ *)
(* function inlining: the definition text produced for a call site (parameters inlined into the body) *)
Record dsite := mkD {
  ds_hdr    : list (N * N);              (* the header rope computed for the site (compared above) *)
  ds_host   : list N;                    (* names of the scope of the call site (CPython symtable) *)
  ds_ptbl   : list (N * N);              (* guest name -> its "__N__" spelling *)
  ds_result : option (list stmt)         (* _calculate_definition's text, parsed (prefixes kept) *)
}.
Record dcase := mkDC {
  dc_tbl   : tok_table;                  (* argument/default token -> expression *)
  dc_body  : list stmt;                  (* the body of the function; `return e` as a last print *)
  dc_sites : list dsite
}.

(* code: 0 agree, 1 differs; + 10 if the site is in the domain of C04_definition_preserves; + 20 if the guest
   names are renamed at this site (conflict with the host scope) *)
Definition run_dsite (tbl : tok_table) (body : list stmt) (s : dsite) : N :=
  let hdr := ds_hdr s in
  let names := all_names hdr body in
  let code := match calculate_definition tbl hdr body (ds_host s) (ds_ptbl s), ds_result s with
              | Some p, Some q => if prog_eqb p q then 0 else 1
              | None, None => 0
              | _, _ => 1
              end%N in
  let c := conflict names (ds_host s) in
  (code + (if (if c then side_renamed tbl hdr body (table_ren (ds_ptbl s) names) else side_call tbl hdr body)
           then 10 else 0)
        + (if c then 20 else 0))%N.

Definition run_dcase (c : dcase) : list N := map (run_dsite (dc_tbl c) (dc_body c)) (dc_sites c).

(* ------------------------------------------------------------------------------------------------ *)
Fixpoint number_from {A} (f : A -> N) (i : N) (cs : list A) : list (N * N) :=
  match cs with
  | [] => []
  | c :: r => (i, f c) :: number_from f (N.succ i) r
  end.

Definition nonzero (l : list (N * N)) : list (N * N) := filter (fun p => negb (N.eqb (snd p) 0)) l.

Definition mismatches (alias : bool) (cs : list mcase) : list (N * N) :=
  nonzero (number_from (run_mcase alias) 0 cs).
Definition all_mflags (cs : list mcase) : list (N * N) := number_from mflags 0 cs.
Definition vresults (cs : list vcase) : list (N * N) := number_from run_vcase 0 cs.

Fixpoint number_list (i : N) (l : list N) : list (N * N) :=
  match l with [] => [] | x :: r => (i, x) :: number_list (N.succ i) r end.
Definition dresults (cs : list dcase) : list (N * N) := number_list 0 (flat_map run_dcase cs).

(* ------------------------------------------------------------------------------------------------ *)
(* CallInfo.read: the argument list with the implicit receiver, on the text of the call *)
Record rcase := mkR {
  r_head     : text;            (* source in front of the opening parenthesis (CPython ast: the func node) *)
  r_implicit : bool;            (* rope classified the call as a method / classmethod call *)
  r_pos      : list text;       (* source of the positional arguments (CPython ast) *)
  r_obs      : list text        (* CallInfo.args as rope computed them *)
}.
Fixpoint texts_eqb (a b : list text) : bool :=
  match a, b with
  | [], [] => true
  | x :: a', y :: b' => text_eqb x y && texts_eqb a' b'
  | _, _ => false
  end.
Definition run_rcase (c : rcase) : N :=
  if texts_eqb (read_args (r_implicit c) (r_head c) (r_pos c)) (r_obs c) then 0%N else 1%N.
Definition rresults (cs : list rcase) : list (N * N) := nonzero (number_from run_rcase 0 cs).

(* ------------------------------------------------------------------------------------------------ *)
(* whole straight-line host modules with one call site (statement-level or assignment-level) *)
Record scase := mkS {
  sc_pre    : list stmt;
  sc_kind   : site_kind;
  sc_post   : list stmt;
  sc_tbl    : tok_table;
  sc_hdr    : list (N * N);
  sc_body   : list stmt;
  sc_ret    : option (list (bool * list atom));
  sc_host   : list N;
  sc_ptbl   : list (N * N);
  sc_result : option (list stmt)      (* the module after InlineMethod(remove=True), parsed *)
}.
(* code: 0 agree, 1 differs; + 10 if domain_site; + 20 if frame_ok *)
Definition run_scase (c : scase) : N :=
  let m := inline_host (sc_pre c) (sc_kind c) (sc_post c) (sc_tbl c) (sc_hdr c) (sc_body c) (sc_ret c)
                       (sc_host c) (sc_ptbl c) in
  let code := match m, sc_result c with
              | Some p, Some q => if prog_eqb p q then 0 else 1
              | None, None => 0
              | _, _ => 1
              end%N in
  let fr := match inline_site (sc_kind c) (sc_tbl c) (sc_hdr c) (sc_body c) (sc_ret c) (sc_host c) (sc_ptbl c) with
            | Some d => frame_ok (sc_kind c) d (sc_post c)
            | None => false
            end in
  (code + (if domain_site (sc_tbl c) (sc_hdr c) (sc_body c) (sc_ret c) (sc_host c) (sc_ptbl c) then 10 else 0)
        + (if fr then 20 else 0))%N.
Definition sresults (cs : list scase) : list (N * N) := number_from run_scase 0 cs.
