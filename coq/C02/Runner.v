(* Correspondence runner for C02.  A case carries one module (translated from the source by the harness), the
   textual facts about its tokens the model takes as input, and two independent observations:
     c_rope  for every identifier token used as the query point, the token ids
             rope.contrib.findit.find_occurrences reports (in the same module); [raised] marks an exception
     c_py    for the tokens whose binding CPython's symtable decides, the scope owning that binding
   Computed here: MODEL (Occurrences.v) against rope on the modelled tokens, SPEC (spec_binding, i.e.
   coq/C15/Scoping.v) against CPython, and - inside the theorems' domain - MODEL against SPEC. *)
From Coq Require Import List NArith Bool PeanoNat.
From RopeVerif.C15 Require Import Syntax Scoping RopeScopes Fragment.
From RopeVerif.C02 Require Import Occurrences.
Import ListNotations.

Record case := {
  c_prog : program;
  c_nlines : N;
  c_builtins : list ident;
  c_idents : list ident;
  c_init : ident;
  c_call : ident;
  c_odd : list ident;              (* staticmethod, classmethod *)
  c_prop : ident;                  (* property *)
  c_kwlike : list N;               (* ids of the tokens that textually look like keyword arguments *)
  c_skip : list N;                 (* ids of tokens in a textual situation outside the model *)
  c_rope : list (N * list N);
  c_py : list (N * binding)
}.

Definition raised : N := 999999.

Definition memN (x : N) (l : list N) : bool := existsb (N.eqb x) l.
Definition subsetN (a b : list N) : bool := forallb (fun x => memN x b) a.
Definition seteqN (a b : list N) : bool := subsetN a b && subsetN b a.

Definition is_unmodelled (pn : pyname) : bool := match pn with PUnmodelled => true | _ => false end.
Definition is_error (pn : pyname) : bool := match pn with PError => true | _ => false end.

Fixpoint assocN {A} (x : N) (l : list (N * A)) : option A :=
  match l with
  | [] => None
  | (y, v) :: r => if N.eqb x y then Some v else assocN x r
  end.

Section Run.
  Variable c : case.
  Let p := c_prog c.
  Let rt := rope_tree p.
  Let st := spec_tree (c_nlines c) p.
  Let bi := c_builtins c.
  Let tblst := rope_inh bi rt (c_idents c).
  Let inh := inh_of (fst tblst).
  Let ms := methods (c_odd c) (c_prop c) p.
  Let kwl := kw_of (c_kwlike c).
  Let ts := toks p.
  Let pn := rope_pyname_at bi inh rt (c_init c) (c_call c) ms kwl.

  Definition compared (t : tok) : bool := negb (is_unmodelled (pn t)) && negb (memN (t_id t) (c_skip c)).

  (* 0 agree; 2 the reported set differs from the model's; 3 rope raised / did not raise unlike the model;
     4 no observation for the token *)
  Definition check_query (cmp : list tok) (q : tok) : N :=
    match assocN (t_id q) (c_rope c) with
    | None => 4
    | Some obs =>
        if is_error (pn q) then (if memN raised obs then 0 else 3)
        else if memN raised obs then 3
        else
          let want := map t_id (rope_occurrences bi inh rt (c_init c) (c_call c) ms kwl cmp q) in
          let got := filter (fun i => existsb (fun t => N.eqb (t_id t) i) cmp) obs in
          if seteqN want got then 0 else 2
    end%N.

  Fixpoint first_bad {A} (f : A -> N) (idf : A -> N) (l : list A) : N :=
    match l with
    | [] => 0
    | x :: r => let code := f x in if N.eqb code 0 then first_bad f idf r else (code + 100 * idf x)%N
    end.

  Definition check_spec (t : tok) : N :=
    if core t then
      match assocN (t_id t) (c_py c) with
      | Some b => if binding_eqb (spec_binding bi st t) b then 0 else 11
      | None => 0
      end%N
    else 0%N.

  Definition pn_regular (x : pyname) : bool := match x with PNone | PName _ _ _ => true | _ => false end.
  Definition pn_binding (x : pyname) : binding := match x with PName b _ _ => b | _ => BNone end.

  Definition check_theorem (t : tok) : N :=
    if core t then
      (if pn_regular (pn t) && binding_eqb (pn_binding (pn t)) (spec_binding bi st t) then 0 else 21)%N
    else 0%N.

  Definition in_domain : bool := in_fragment_C02 bi inh (c_init c) (c_call c) ms kwl p.

  (* result: 0 agree, 9 outside the model's domain (cyclic superclasses), 1 the token lists differ,
     otherwise code + 100 * token id *)
  Definition run_case : N :=
    if negb (snd tblst) then 9%N
    else if negb (seteqN (map t_id ts) (map fst (c_rope c))) then 1%N
    else
      let cmp := filter compared ts in
      let r := first_bad (check_query cmp) t_id cmp in
      if negb (N.eqb r 0) then r
      else
        let r := first_bad check_spec t_id ts in
        if negb (N.eqb r 0) then r
        else if in_domain then first_bad check_theorem t_id ts
        else 0%N.

  (* why a token is outside the domain of the theorems (0: it is inside)
       1 the C15 per-query exclusion (class-body / class-level comprehension lookup: findings of C15)
       2 a plain name that textually looks like a keyword argument (does not occur in valid Python since 9405717)
       3 header expression not evaluated alike     4 first iterable of a comprehension not evaluated alike
       5 def / class name absent from its scope    6 class name that is also an attribute of the class
       7 defaulted parameter whose def name is rebound     8 an import PyName with a homonym import elsewhere
       9 keyword argument evaluated as a variable (callee without a known signature)
       10 not modelled *)
  Definition imp_conflict (t : tok) : bool :=
    match pn t with
    | PName b x true =>
        existsb (fun u => N.eqb (t_name u) (t_name t)
                          && match pn u with
                             | PName b' x' true => negb (binding_eqb b b' && N.eqb x x')
                             | _ => false
                             end) ts
    | _ => false
    end.

  Definition reason (t : tok) : N :=
    (if core t then
       if negb (query_ok inh rt (t_env t) (t_name t)) then 1
       else
         let r :=
           match t_role t with
           | RPlain =>
               if kwl (t_id t) then 2
               else if inner_ok inh rt t then 0
               else match scope_at rt (t_hold t) with
                    | Some h => if skind_eqb (rk h) KComp then 4 else 3
                    | None => 3
                    end
           | RDef => if present bi inh rt (t_env t) (t_name t) then 0 else 5
           | RClass =>
               if parent_is_class rt (t_env t)
               then (if present bi inh rt (t_env t) (t_name t) then 0 else 5)
               else if inner_ok inh rt t then 0 else 6
           | RParam _ => if tok_ok bi inh rt ms kwl t then 0 else 7
           | _ => 0
           end in
         if N.eqb r 0 then (if imp_conflict t then 8 else 0) else r
     else
       match t_role t, pn t with
       | RKw _, PName b x _ => match entry_at rt b x with Some NParam => 0 | _ => 9 end
       | _, PUnmodelled => 10
       | _, _ => if imp_conflict t then 8 else 0
       end)%N.

  Definition reasons : list (N * N) :=
    flat_map (fun t => let r := reason t in if N.eqb r 0 then [] else [(t_id t, r)]) ts.

  (* for the evidence: 1 inside the theorems' domain; number of compared tokens; number of core tokens *)
  Definition stats : list N :=
    [if in_domain then 1%N else 0%N; N.of_nat (length (filter compared ts)); N.of_nat (length (filter core ts));
     N.of_nat (length ts)].
End Run.

Fixpoint mismatches_from (i : N) (cs : list case) : list (N * N) :=
  match cs with
  | [] => []
  | c :: r =>
      let code := run_case c in
      if N.eqb code 0 then mismatches_from (N.succ i) r else (i, code) :: mismatches_from (N.succ i) r
  end.
Definition mismatches (cs : list case) : list (N * N) := mismatches_from 0 cs.
Definition all_stats (cs : list case) : list (list N) := map stats cs.
Definition all_reasons (cs : list case) : list (list (N * N)) := map reasons cs.
Definition c15_domain (cs : list case) : list N := map (fun c => if in_fragment_C15 (c_prog c) then 1%N else 0%N) cs.

(* debugging aid for the harness: the model's view of one case *)
Definition describe (c : case) : list (N * N * list N) :=
  let p := c_prog c in
  let rt := rope_tree p in
  let bi := c_builtins c in
  let inh := inh_of (fst (rope_inh bi rt (c_idents c))) in
  let ms := methods (c_odd c) (c_prop c) p in
  let kwl := kw_of (c_kwlike c) in
  let ts := toks p in
  let pn := rope_pyname_at bi inh rt (c_init c) (c_call c) ms kwl in
  map (fun q => (t_id q,
                 match pn q with PNone => 0 | PName _ _ false => 1 | PName _ _ true => 2 | PFreshImport => 3
                            | PError => 4 | PUnmodelled => 5 end,
                 map t_id (rope_occurrences bi inh rt (c_init c) (c_call c) ms kwl ts q)))%N ts.
