(* Proofs about the occurrence model (Occurrences.v).
   1. rope's evaluation of a header / first-iterable token in the child scope coincides with the evaluation in
      the scope Python uses, under [header_ok]                                    ([lookup_inner])
   2. for every core token inside the domain, the PyName rope's chain of ifs returns is the PyName owned by the
      binding CPython resolves the token to                                       ([pyname_agrees])
      - through C15's lookup theorem (rope_lookup = spec_resolve on the fragment)
   3. [same_pyname] is an equivalence on the PyNames the model produces          ([same_sym], [same_trans])
   4. the statements of coq/Props/C02.v. *)
From Coq Require Import List NArith Bool PeanoNat Lia.
From RopeVerif.C15 Require Import Syntax Scoping RopeScopes Fragment RopeScopesProofs LookupProofs Theorems.
From RopeVerif.C02 Require Import Occurrences.
Import ListNotations.

(* ------------------------------------------------------------------ small facts *)
Lemma path_eqb_eq p : forall q, path_eqb p q = true <-> p = q.
Proof.
  induction p as [|i p IH]; intros [|j q]; cbn; split; intros H; try discriminate; auto.
  - apply andb_prop in H as [H1 H2]. apply Nat.eqb_eq in H1. apply IH in H2. now subst.
  - inversion H; subst. rewrite Nat.eqb_refl. cbn. now apply IH.
Qed.

Lemma binding_eqb_eq a b : binding_eqb a b = true <-> a = b.
Proof.
  destruct a, b; cbn; split; intros H; try discriminate; auto.
  - apply path_eqb_eq in H. now subst.
  - inversion H; subst. now apply path_eqb_eq.
Qed.

Lemma binding_eqb_refl a : binding_eqb a a = true.
Proof. now apply binding_eqb_eq. Qed.

Lemma binding_eqb_sym a b : binding_eqb a b = binding_eqb b a.
Proof.
  destruct (binding_eqb a b) eqn:E.
  - apply binding_eqb_eq in E. subst. symmetry. apply binding_eqb_refl.
  - destruct (binding_eqb b a) eqn:F; [|reflexivity]. apply binding_eqb_eq in F. subst.
    rewrite binding_eqb_refl in E. discriminate.
Qed.

(* ------------------------------------------------------------------ chains *)
Lemma rchain_from_path p : forall t pre acc q s ch,
  rchain_from t pre p acc = Some ((q, s) :: ch) -> q = pre ++ p.
Proof.
  induction p as [|i p IH]; intros t pre acc q s ch H; cbn in H.
  - inversion H; subst. now rewrite app_nil_r.
  - destruct (nth_error (rchildren t) i) as [c|]; [|discriminate].
    apply IH in H. subst. now rewrite <- app_assoc.
Qed.

Lemma rchain_from_nonempty p : forall t pre acc, rchain_from t pre p acc <> Some [].
Proof.
  induction p as [|i p IH]; intros t pre acc; cbn; [discriminate|].
  destruct (nth_error (rchildren t) i); [apply IH | discriminate].
Qed.

Lemma rchain_from_snoc p : forall t pre acc j,
  rchain_from t pre (p ++ [j]) acc =
  match rchain_from t pre p acc with
  | Some ((q, s) :: ch) =>
      match nth_error (rchildren s) j with
      | Some c => Some ((q ++ [j], c) :: (q, s) :: ch)
      | None => None
      end
  | _ => None
  end.
Proof.
  induction p as [|i p IH]; intros t pre acc j; cbn.
  - destruct (nth_error (rchildren t) j); reflexivity.
  - destruct (nth_error (rchildren t) i) as [c|]; [|reflexivity]. apply IH.
Qed.

Lemma rchain_path rt P q s ch : rchain rt P = Some ((q, s) :: ch) -> q = P.
Proof. unfold rchain. intros H. now apply rchain_from_path in H. Qed.

Lemma scope_at_chain rt P s :
  scope_at rt P = Some s -> exists ch, rchain rt P = Some ((P, s) :: ch).
Proof.
  unfold scope_at. destruct (rchain rt P) as [[|[q s'] ch]|] eqn:E; try discriminate.
  intros H. inversion H; subst. pose proof (rchain_path _ _ _ _ _ E). subst. now exists ch.
Qed.

Lemma scope_at_snoc rt env j h :
  scope_at rt (env ++ [j]) = Some h ->
  exists s ch, rchain rt env = Some ((env, s) :: ch)
               /\ rchain rt (env ++ [j]) = Some ((env ++ [j], h) :: (env, s) :: ch).
Proof.
  unfold scope_at, rchain. rewrite rchain_from_snoc.
  destruct (rchain_from rt [] env []) as [[|[q s] ch]|] eqn:E; try discriminate.
  pose proof (rchain_from_path _ _ _ _ _ _ _ E) as Hq. cbn in Hq. subst q.
  destruct (nth_error (rchildren s) j) as [c|]; [|discriminate].
  intros H. inversion H; subst. now exists s, ch.
Qed.

(* ------------------------------------------------------------------ 1. evaluation in the child scope *)
Section Inner.
  Variable bi : list ident.
  Variable inh : path -> ident -> option binding.

  Lemma gnames_cons q s outer x :
    gnames bi inh ((q, s) :: outer) x =
    match entry (revs s) x with
    | Some k => Some (own_binding q k)
    | None =>
        match rk s with
        | KComp => gnames bi inh outer x
        | KModule => if mem x bi then Some BBuiltin else None
        | KClass => inh q x
        | _ => None
        end
    end.
  Proof. reflexivity. Qed.

  Lemma lookup_chain_inner q' h q s ch x :
    entry (revs h) x = None ->
    rk h <> KModule ->
    (rk h = KClass -> inh q' x = None) ->
    (rk h <> KComp -> is_class (rk s) = true -> entry (revs s) x = None /\ inh q x = None) ->
    lookup_chain bi inh ((q', h) :: (q, s) :: ch) x = lookup_chain bi inh ((q, s) :: ch) x.
  Proof.
    intros He Hm Hc Hs.
    assert (Hprop : gnames bi inh ((q, s) :: ch) x = None ->
                    propagated bi inh ((q, s) :: ch) x = propagated bi inh ch x).
    { intros G. cbn [propagated]. destruct (is_class (rk s)); [reflexivity|]. now rewrite G. }
    cbn [lookup_chain]. rewrite (gnames_cons q' h). rewrite He.
    destruct (rk h) eqn:K.
    - congruence.
    - (* function *)
      destruct (is_class (rk s)) eqn:Ks.
      + destruct (Hs ltac:(discriminate) eq_refl) as [E I].
        assert (G : gnames bi inh ((q, s) :: ch) x = None).
        { cbn [gnames]. rewrite E. destruct (rk s); try discriminate. exact I. }
        rewrite G. now apply Hprop.
      + cbn [propagated]. rewrite Ks. reflexivity.
    - (* class *)
      rewrite (Hc eq_refl).
      destruct (is_class (rk s)) eqn:Ks.
      + destruct (Hs ltac:(discriminate) eq_refl) as [E I].
        assert (G : gnames bi inh ((q, s) :: ch) x = None).
        { cbn [gnames]. rewrite E. destruct (rk s); try discriminate. exact I. }
        rewrite G. now apply Hprop.
      + cbn [propagated]. rewrite Ks. reflexivity.
    - (* comprehension *)
      destruct (gnames bi inh ((q, s) :: ch) x) eqn:G; [reflexivity|]. now apply Hprop.
    - (* lambda *)
      destruct (is_class (rk s)) eqn:Ks.
      + destruct (Hs ltac:(discriminate) eq_refl) as [E I].
        assert (G : gnames bi inh ((q, s) :: ch) x = None).
        { cbn [gnames]. rewrite E. destruct (rk s); try discriminate. exact I. }
        rewrite G. now apply Hprop.
      + cbn [propagated]. rewrite Ks. reflexivity.
  Qed.

  Lemma lookup_inner rt env j x :
    header_ok inh rt env j x = true ->
    rope_lookup bi inh rt (env ++ [j]) x = rope_lookup bi inh rt env x.
  Proof.
    unfold header_ok. destruct (scope_at rt (env ++ [j])) as [h|] eqn:Hh; [|discriminate].
    intros H. apply andb_prop in H as [H H3]. apply andb_prop in H as [H H2]. apply andb_prop in H as [H1 H0].
    destruct (scope_at_snoc _ _ _ _ Hh) as (s & ch & E1 & E2).
    unfold rope_lookup. rewrite E1, E2.
    apply lookup_chain_inner.
    - apply entry_none. apply mem_false. now apply negb_true_iff in H0.
    - intros K. rewrite K in H1. discriminate.
    - intros K. rewrite K in H2. cbn in H2. destruct (inh (env ++ [j]) x); [discriminate | reflexivity].
    - intros Kc Ks.
      assert (Hh3 : class_has_at inh rt env x = false).
      { destruct (rk h); cbn in H3; try (now apply negb_true_iff in H3). congruence. }
      unfold class_has_at, scope_at in Hh3. rewrite E1, Ks in Hh3. cbn in Hh3.
      unfold class_has in Hh3. apply orb_false_iff in Hh3 as [A B].
      split.
      + apply entry_none. now apply mem_false.
      + destruct (inh env x); [discriminate | reflexivity].
  Qed.
End Inner.

(* ------------------------------------------------------------------ 2. the PyName of a core token *)
Section Agree.
  Variable p : program.
  Variable nl : N.
  Variable bi : list ident.
  Variable inh : path -> ident -> option binding.
  Variable init call : ident.
  Variable meths : list (path * option ident * (bool * bool)).
  Variable kwlike : N -> bool.
  Hypothesis Hfrag : in_fragment_C15 p = true.

  Local Notation rt := (rope_tree p).
  Local Notation st := (spec_tree nl p).
  Local Notation pn := (rope_pyname_at bi inh rt init call meths kwlike).

  Lemma plain_env t :
    query_ok inh rt (t_env t) (t_name t) = true ->
    plain_at bi inh rt (t_env t) (t_name t) = pn_of rt (spec_binding bi st t) (t_name t).
  Proof.
    intros Q. unfold plain_at, spec_binding. now rewrite (lookup_agrees p nl bi inh _ _ Hfrag Q).
  Qed.

  Lemma plain_hold t :
    query_ok inh rt (t_env t) (t_name t) = true ->
    inner_ok inh rt t = true ->
    plain_at bi inh rt (t_hold t) (t_name t) = pn_of rt (spec_binding bi st t) (t_name t).
  Proof.
    intros Q I. unfold t_hold, inner_ok in *. destruct (t_inner t) as [j|].
    - unfold plain_at. rewrite (lookup_inner bi inh rt _ _ _ I). now apply plain_env.
    - now apply plain_env.
  Qed.

  Lemma defname_present t :
    query_ok inh rt (t_env t) (t_name t) = true ->
    present bi inh rt (t_env t) (t_name t) = true ->
    defname_at bi inh rt (t_env t) (t_name t) = pn_of rt (spec_binding bi st t) (t_name t).
  Proof.
    intros Q P. unfold present in P. unfold defname_at.
    destruct (rchain rt (t_env t)) as [ch|] eqn:E; [|discriminate].
    destruct (gnames bi inh ch (t_name t)) as [b|] eqn:G; [|discriminate].
    destruct ch as [|[q s] outer]; [discriminate|]. rewrite G.
    unfold spec_binding. rewrite <- (lookup_agrees p nl bi inh _ _ Hfrag Q).
    unfold rope_lookup. rewrite E. cbn [lookup_chain]. now rewrite G.
  Qed.

  Theorem pyname_agrees t :
    core t = true ->
    tok_ok bi inh rt meths kwlike t = true ->
    pn t = pn_of rt (spec_binding bi st t) (t_name t).
  Proof.
    intros Hc Hok. unfold tok_ok in Hok. apply andb_prop in Hok as [Q R].
    unfold rope_pyname_at. destruct (t_role t) eqn:Hr; try discriminate.
    - (* plain *)
      apply andb_prop in R as [K I]. apply negb_true_iff in K. rewrite K. now apply plain_hold.
    - (* def name *)
      now apply defname_present.
    - (* class name *)
      destruct (parent_is_class rt (t_env t)); [now apply defname_present | now apply plain_hold].
    - (* parameter *)
      unfold t_hold in *. destruct (t_inner t); [discriminate|].
      destruct (kwlike (t_id t)); [|now apply plain_env].
      destruct (defname_at bi inh rt (removelast (t_env t)) fname) as [| b y i | | |] eqn:D; try discriminate.
      cbn [fun_of_pn].
      destruct (fun_of rt meths b fname) as [F| | |] eqn:Ff; try discriminate.
      apply andb_prop in R as [PF EN]. apply path_eqb_eq in PF. subst F.
      cbn [kw_branch]. unfold param_of.
      unfold entry_at in EN.
      destruct (scope_at rt (t_env t)) as [sf|] eqn:S; [|discriminate].
      destruct (entry (revs sf) (t_name t)) as [k|] eqn:En; [|discriminate].
      destruct k; try discriminate.
      (* the lookup from the function's own scope finds the parameter *)
      unfold spec_binding. rewrite <- (lookup_agrees p nl bi inh _ _ Hfrag Q).
      destruct (scope_at_chain _ _ _ S) as [ch E].
      unfold rope_lookup. rewrite E. cbn [lookup_chain gnames]. rewrite En. cbn [own_binding].
      unfold pn_of, entry_at. rewrite S, En. reflexivity.
  Qed.
End Agree.

(* ------------------------------------------------------------------ 3. same_pyname on the model's PyNames *)
Section Same.
  Variable rt : rscope.
  Definition pn_wf (a : pyname) : Prop :=
    match a with PName b y i => i = is_import (entry_at rt b y) | _ => True end.

  Lemma same_sym a b : same_pyname a b = same_pyname b a.
  Proof.
    destruct a as [|x n i| | |], b as [|y m j| | |]; cbn; try reflexivity.
    now rewrite binding_eqb_sym, N.eqb_sym, (andb_comm i j).
  Qed.

  Lemma same_name_eq x n i y m j :
    pn_wf (PName x n i) -> pn_wf (PName y m j) -> binding_eqb x y && N.eqb n m = true -> i = j.
  Proof.
    cbn. intros Hi Hj H. apply andb_prop in H as [H1 H2].
    apply binding_eqb_eq in H1. apply N.eqb_eq in H2. now subst.
  Qed.

  Lemma same_trans a b c :
    pn_wf a -> pn_wf b -> pn_wf c ->
    same_pyname a b = true -> same_pyname b c = true -> same_pyname a c = true.
  Proof.
    intros Wa Wb Wc.
    destruct a as [|x n i| | |], b as [|y m j| | |], c as [|z l k| | |]; cbn [same_pyname];
      try discriminate; try reflexivity; intros H1 H2; cbn [pn_wf] in *;
      repeat match goal with
             | H : _ || _ = true |- _ => apply orb_prop in H as [H|H]
             | H : _ && _ = true |- _ => let A := fresh "A" in let B := fresh "B" in apply andb_prop in H as [A B]
             end;
      repeat match goal with
             | H : binding_eqb _ _ = true |- _ => apply binding_eqb_eq in H
             | H : N.eqb _ _ = true |- _ => apply N.eqb_eq in H
             end;
      subst; rewrite ?binding_eqb_refl, ?N.eqb_refl; cbn;
      repeat match goal with H : ?e = true |- context[?e] => rewrite H end;
      rewrite ?orb_true_r; auto.
  Qed.
End Same.

Section WF.
  Variable bi : list ident.
  Variable inh : path -> ident -> option binding.
  Variable rt : rscope.
  Variable init call : ident.
  Variable meths : list (path * option ident * (bool * bool)).
  Variable kwlike : N -> bool.

  Lemma pn_of_wf b x : pn_wf rt (pn_of rt b x).
  Proof. destruct b; cbn; auto. Qed.
  Lemma pn_opt_wf o x : pn_wf rt (pn_opt rt o x).
  Proof. destruct o; cbn; auto. apply pn_of_wf. Qed.
  Lemma param_of_wf F x : pn_wf rt (param_of rt F x).
  Proof.
    unfold param_of. destruct (scope_at rt F) as [sf|] eqn:S; cbn; auto.
    destruct (entry (revs sf) x) as [k|] eqn:E; cbn; auto. destruct k; cbn; auto.
    rewrite S, E. reflexivity.
  Qed.
  Lemma defname_wf P x : pn_wf rt (defname_at bi inh rt P x).
  Proof.
    unfold defname_at. destruct (rchain rt P) as [[|[q s] o]|]; cbn; auto.
    destruct (match entry (revs s) x with Some k => Some (own_binding q k) | None => _ end); cbn.
    - apply pn_of_wf.
    - destruct (is_class (rk s)); cbn; auto.
  Qed.
  Lemma kw_branch_wf c x r : kw_branch inh rt init call meths c x = Some r -> pn_wf rt r.
  Proof.
    unfold kw_branch. destruct c as [F|K| |].
    - intros H. inversion H. apply param_of_wf.
    - destruct (init_of inh rt init call meths K); intros H; inversion H; cbn; auto. apply param_of_wf.
    - discriminate.
    - intros H. inversion H. cbn. auto.
  Qed.

  Lemma rope_pyname_wf t : pn_wf rt (rope_pyname_at bi inh rt init call meths kwlike t).
  Proof.
    unfold rope_pyname_at. destruct (t_role t) as [| | |f|c|b|a|].
    - destruct (kwlike (t_id t)); cbn; auto. apply pn_of_wf.
    - apply defname_wf.
    - destruct (parent_is_class rt (t_env t)); [apply defname_wf | apply pn_of_wf].
    - destruct (kwlike (t_id t)); [|apply pn_of_wf].
      destruct (defname_at bi inh rt (removelast (t_env t)) f) eqn:D; try exact I;
        match goal with
        | |- pn_wf _ (match ?k with _ => _ end) =>
            destruct k eqn:KB; [eapply kw_branch_wf; eauto | apply pn_of_wf]
        end.
    - destruct c as [f|]; [|exact I].
      match goal with
      | |- pn_wf _ (match ?k with _ => _ end) =>
          destruct k eqn:KB; [eapply kw_branch_wf; eauto | apply pn_of_wf]
      end.
    - destruct b as [b|]; [|exact I]. unfold attr_at.
      destruct (rope_lookup bi inh rt (t_hold t) b) as [o| |]; try exact I.
      destruct (entry_at rt (BScope o) b) as [k|]; try exact I.
      destruct k; try exact I.
      + destruct (fun_of rt meths (BScope o) b); try exact I. apply pn_opt_wf.
      + destruct (is_self meths o b) as [[|]|]; try exact I. apply pn_opt_wf.
    - apply pn_of_wf.
    - exact I.
  Qed.
End WF.

(* ------------------------------------------------------------------ 4. the statements *)
Section Statements.
  Variable p : program.
  Variable nl : N.
  Variable bi : list ident.
  Variable inh : path -> ident -> option binding.
  Variable init call : ident.
  Variable meths : list (path * option ident * (bool * bool)).
  Variable kwlike : N -> bool.

  Local Notation rt := (rope_tree p).
  Local Notation st := (spec_tree nl p).
  Local Notation pn := (rope_pyname_at bi inh rt init call meths kwlike).
  Local Notation occs := (rope_occurrences bi inh rt init call meths kwlike (toks p)).

  Lemma in_occs o q :
    In o (occs q) <-> In o (toks p) /\ t_name o = t_name q /\ same_pyname (pn q) (pn o) = true.
  Proof.
    unfold rope_occurrences, candidates. rewrite !filter_In, N.eqb_eq. tauto.
  Qed.

  Lemma frag_tok t :
    in_fragment_C02 bi inh init call meths kwlike p = true -> In t (toks p) -> core t = true ->
    in_fragment_C15 p = true /\ tok_ok bi inh rt meths kwlike t = true.
  Proof.
    unfold in_fragment_C02, toks_ok. intros H Ht Hc.
    apply andb_prop in H as [H15 H]. apply andb_prop in H as [H _].
    split; [exact H15|]. rewrite forallb_forall in H. specialize (H t Ht). now rewrite Hc in H.
  Qed.

  Lemma frag_imports a b x n y m :
    in_fragment_C02 bi inh init call meths kwlike p = true ->
    In a (toks p) -> In b (toks p) -> core a = true -> core b = true -> t_name a = t_name b ->
    pn a = PName x n true -> pn b = PName y m true -> x = y /\ n = m.
  Proof.
    unfold in_fragment_C02, toks_ok. intros H Ha Hb Ca Cb Hn Pa Pb.
    apply andb_prop in H as [_ H]. apply andb_prop in H as [_ H].
    unfold imports_ok in H. rewrite forallb_forall in H.
    assert (Fa : In a (filter core (toks p))) by (apply filter_In; auto).
    assert (Fb : In b (filter core (toks p))) by (apply filter_In; auto).
    specialize (H a Fa). rewrite forallb_forall in H. specialize (H b Fb).
    rewrite Hn, N.eqb_refl in H. rewrite Pa, Pb in H.
    apply andb_prop in H as [A B]. apply binding_eqb_eq in A. apply N.eqb_eq in B. auto.
  Qed.

  Lemma pn_of_inv b x y n i : pn_of rt b x = PName y n i -> y = b /\ n = x /\ b <> BNone.
  Proof. destruct b; cbn; intros H; inversion H; subst; repeat split; discriminate. Qed.

  (* reported => same binding *)
  Theorem sound q o :
    in_fragment_C02 bi inh init call meths kwlike p = true ->
    In q (toks p) -> core q = true -> core o = true ->
    In o (occs q) ->
    spec_binding bi st o = spec_binding bi st q.
  Proof.
    intros Hf Hq Cq Co Ho. apply in_occs in Ho as (Hin & Hn & Hs).
    destruct (frag_tok _ Hf Hq Cq) as [H15 Oq]. destruct (frag_tok _ Hf Hin Co) as [_ Oo].
    pose proof (pyname_agrees p nl bi inh init call meths kwlike H15 q Cq Oq) as Aq.
    pose proof (pyname_agrees p nl bi inh init call meths kwlike H15 o Co Oo) as Ao.
    destruct (pn q) as [|x n i| | |] eqn:Pq; try discriminate;
      destruct (pn o) as [|y m j| | |] eqn:Po; try discriminate.
    - symmetry in Aq, Ao. apply pn_of_inv in Aq as (A1 & A2 & _). apply pn_of_inv in Ao as (B1 & B2 & _).
      cbn in Hs. apply orb_prop in Hs as [Hs|Hs].
      + apply andb_prop in Hs as [E _]. apply binding_eqb_eq in E. congruence.
      + apply andb_prop in Hs as [I J]. subst i j.
        destruct (frag_imports q o _ _ _ _ Hf Hq Hin Cq Co (eq_sym Hn) Pq Po) as [E _]. congruence.
    - (* a core token never yields a fresh import *)
      exfalso. symmetry in Ao. destruct (spec_binding bi st o); cbn in Ao; discriminate.
    - exfalso. symmetry in Aq. destruct (spec_binding bi st q); cbn in Aq; discriminate.
    - exfalso. symmetry in Aq. destruct (spec_binding bi st q); cbn in Aq; discriminate.
  Qed.

  (* same binding, and the binding exists => reported *)
  Theorem complete q o :
    in_fragment_C02 bi inh init call meths kwlike p = true ->
    In q (toks p) -> In o (toks p) -> core q = true -> core o = true ->
    t_name o = t_name q ->
    spec_binding bi st o = spec_binding bi st q ->
    spec_binding bi st q <> BNone ->
    In o (occs q).
  Proof.
    intros Hf Hq Ho Cq Co Hn Hb Hne. apply in_occs. split; [exact Ho|]. split; [exact Hn|].
    destruct (frag_tok _ Hf Hq Cq) as [H15 Oq]. destruct (frag_tok _ Hf Ho Co) as [_ Oo].
    pose proof (pyname_agrees p nl bi inh init call meths kwlike H15 q Cq Oq) as Aq.
    pose proof (pyname_agrees p nl bi inh init call meths kwlike H15 o Co Oo) as Ao.
    rewrite Aq, Ao, Hb, Hn.
    destruct (spec_binding bi st q) as [s| |] eqn:B; [| |congruence].
    - cbn [pn_of same_pyname]. change (path_eqb s s) with (binding_eqb (BScope s) (BScope s)).
      now rewrite binding_eqb_refl, N.eqb_refl.
    - cbn [pn_of same_pyname binding_eqb]. now rewrite N.eqb_refl.
  Qed.
End Statements.

(* the answer does not depend on which occurrence is used to ask - for every token list, every tree, every
   token role (no domain restriction: [same_pyname] is an equivalence on the PyNames the model produces) *)
Section Independent.
  Variable bi : list ident.
  Variable inh : path -> ident -> option binding.
  Variable rt : rscope.
  Variable init call : ident.
  Variable meths : list (path * option ident * (bool * bool)).
  Variable kwlike : N -> bool.
  Local Notation pn := (rope_pyname_at bi inh rt init call meths kwlike).
  Local Notation occs := (rope_occurrences bi inh rt init call meths kwlike).

  Theorem query_independent ts q o :
    In o (occs ts q) -> occs ts o = occs ts q.
  Proof.
    unfold rope_occurrences, candidates. intros H. apply filter_In in H as [H Hs].
    apply filter_In in H as [_ Hn]. apply N.eqb_eq in Hn.
    rewrite Hn. apply filter_ext. intros c.
    pose proof (rope_pyname_wf bi inh rt init call meths kwlike q) as Wq.
    pose proof (rope_pyname_wf bi inh rt init call meths kwlike o) as Wo.
    pose proof (rope_pyname_wf bi inh rt init call meths kwlike c) as Wc.
    destruct (same_pyname (pn q) (pn c)) eqn:E.
    - apply (same_trans rt (pn o) (pn q) (pn c)); auto. now rewrite same_sym.
    - destruct (same_pyname (pn o) (pn c)) eqn:F; [|reflexivity].
      rewrite <- E. symmetry. apply (same_trans rt (pn q) (pn o) (pn c)); auto.
  Qed.

  (* a token that has a PyName at all is among its own occurrences *)
  Theorem query_reflexive ts q b x i :
    In q ts -> pn q = PName b x i -> In q (occs ts q).
  Proof.
    intros Hq Hp. unfold rope_occurrences, candidates. rewrite !filter_In, N.eqb_eq.
    repeat split; auto. rewrite Hp. cbn. now rewrite binding_eqb_refl, N.eqb_refl.
  Qed.
End Independent.
