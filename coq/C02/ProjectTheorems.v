(* Non-vacuity of the two-module model: the example project of harness/c02_witness.py (also compared with rope on
   every run of the check). *)
From Coq Require Import List NArith Bool.
From RopeVerif.C15 Require Import Syntax Scoping RopeScopes Fragment.
From RopeVerif.C02 Require Import Occurrences Witnesses Project ProjectProofs.
Import ListNotations.

Definition ex2_ctx (p : program) (kw : list N) : modctx :=
  MC p w2_bi_example (inh_of (fst (rope_inh w2_bi_example (rope_tree p) w2_ids_example)))
     (methods w2_odd_example w2_prop_example p) (kw_of kw).
Definition ex2_lib := ex2_ctx w2_lib_example w2_kwl_lib_example.
Definition ex2_main := ex2_ctx w2_main_example w2_kwl_main_example.
(* a token is named by 2 * id + 1 in lib, 2 * id in the importing module *)
Definition enc2 (mt : bool * tok) : N := (2 * t_id (snd mt) + (if fst mt then 1 else 0))%N.
Definition ex2_occs (i : N) : option (list N) :=
  option_map (fun q => map enc2 (occurrences2 ex2_lib ex2_main w2_init_example w2_call_example w2_libname_example
                                               (all_toks ex2_lib ex2_main) q))
             (find (fun t => N.eqb (enc2 t) i) (all_toks ex2_lib ex2_main)).

(* lib.x (lib's x, 1) is reached through the attribute lib.x (70) and is not the importing module's own x (24, 76);
   lib.f (11) through `from lib import f as g` (12) and lib.f (90); its parameter p (15, 35) through the keyword
   argument g(p=...) (54) but not the parameter p of h (38, 58); the class K (47) through the from-import and its
   uses (20, 100, 118, 130), its attribute a (55) through K.a (122), the parameter v of K.__init__ (73, 91)
   through K(v=2) (104); the module lib itself (2, 66, 86, 126) *)
Lemma example_project_occurrences :
  ex2_occs 1 = Some [1; 70]%N
  /\ ex2_occs 24 = Some [24; 76]%N
  /\ ex2_occs 12 = Some [11; 12; 90]%N
  /\ ex2_occs 54 = Some [15; 35; 54]%N
  /\ ex2_occs 38 = Some [38; 58]%N
  /\ ex2_occs 100 = Some [47; 20; 100; 118; 130]%N
  /\ ex2_occs 122 = Some [55; 122]%N
  /\ ex2_occs 104 = Some [73; 91; 104]%N
  /\ ex2_occs 66 = Some [2; 66; 86; 126]%N.
Proof. vm_compute. repeat split. Qed.
