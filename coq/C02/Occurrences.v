(* MODEL of rope's occurrence finder for one module, over the PyF syntax of coq/C15/Syntax.v and on top of the
   model of rope's scopes and lookup chain (coq/C15/RopeScopes.v), written after
     rope/contrib/findit.py      find_occurrences
     rope/refactor/occurrences.py Finder.find_occurrences, _TextualFinder, PyNameFilter, same_pyname
     rope/base/evaluate.py       ScopeNameFinder.get_primary_and_pyname_at (the chain of ifs), get_enclosing_function,
                                 _is_defined_in_class_body, _is_function_name_in_function_header,
                                 StatementEvaluator._Name / _Attribute
     rope/base/pyscopes.py       _HoldingScopeFinder.get_holding_scope_for_offset, Scope.in_region

   What is modelled
   ----------------
   * [toks p]  every identifier token of the module (the candidates of _TextualFinder are the tokens with the
     searched spelling: at PyF level strings and comments contain no tokens; the textual side - the regular
     expression that skips strings and comments - is exercised by the harness's layout variation and oracle).
     Each token carries
       [t_env]   the scope Python evaluates / binds it in (path in the scope tree),
       [t_inner] [Some j] when rope's get_inner_scope_for_offset puts the token into the child scope j of
                 [t_env] instead: the region of a def / class node covers its whole header, so decorators,
                 parameter defaults, annotations, the return annotation, base classes and the def / class name
                 itself are held by the scope BEING DEFINED; the region of a comprehension covers its first
                 iterable, which Python evaluates in the enclosing scope,
                 (Scope.in_region is region[0] <= offset < region[1] since commit 61b2b10: the first token of a
                 generator expression written without parentheses of its own is inside the comprehension like
                 every other token of it - the traversal below makes no exception for it),
       [t_role]  which branch of get_primary_and_pyname_at the token takes.
   * [rope_pyname_at]  the PyName the chain of ifs returns, identified by the scope whose names dictionary
     owns it (all candidates have the same spelling) plus whether it is an ImportedModule / ImportedName.
   * [same_pyname] with its import clause: in a one-module project no import resolves, so two import
     PyNames have definition location (None, None) and the unknown object - they are "the same".
   * [rope_occurrences q] = the candidates whose PyName passes PyNameFilter for the PyName at the query token.

   Not modelled (the token gets [PUnmodelled] and is left out of the comparison with rope; the oracle of the
   harness still judges it): everything that needs type inference (attribute access through anything but a
   class bound by a class statement or the instance parameter of a plain method, keyword arguments of a
   callee that is not a plain name bound by def / class), class keywords, lambda, dotted import components. *)
From Coq Require Import List NArith Bool PeanoNat.
From RopeVerif.C15 Require Import Syntax Scoping RopeScopes Fragment.
Import ListNotations.

(* ------------------------------------------------------------------ tokens *)
Inductive callee := CName (f : ident) | COther.

Inductive role :=
| RPlain                       (* the word is evaluated as a name in the holding scope (eval_str2) *)
| RDef                         (* the name of a def in its header *)
| RClass                       (* the name of a class in its header *)
| RParam (fname : ident)       (* a parameter in the header of the def called fname *)
| RKw (c : callee)             (* the name of a keyword argument of a call *)
| RAttr (base : option ident)  (* an attribute name; Some b when the object expression is the plain name b *)
| RAliased (alias : ident)     (* a  in  from m import a as alias *)
| ROther.                      (* not modelled *)

Record tok := Tok { t_occ : occ; t_env : path; t_inner : option nat; t_role : role }.
Definition t_name (t : tok) : ident := oname (t_occ t).
Definition t_id (t : tok) : N := oid (t_occ t).
Definition t_hold (t : tok) : path :=
  match t_inner t with Some j => t_env t ++ [j] | None => t_env t end.

Definition mk (env : path) (inner : option nat) (r : role) (o : occ) : tok := Tok o env inner r.

Definition plain_base (e : expr) : option ident := match e with EName o => Some (oname o) | _ => None end.
Definition callee_of (e : expr) : callee := match e with EName o => CName (oname o) | _ => COther end.

(* [k] is the index the next scope created in [env] will get (rope's defineds list = source order inside the
   domain of the C15 theorems); the result is the tokens and the next free index *)
Fixpoint e_toks (env : path) (inner : option nat) (k : nat) (e : expr) {struct e} : list tok * nat :=
  let fix list_toks (k : nat) (es : list expr) {struct es} : list tok * nat :=
    match es with
    | [] => ([], k)
    | x :: r => let '(a, k1) := e_toks env inner k x in
                let '(b, k2) := list_toks k1 r in (a ++ b, k2)
    end in
  match e with
  | EName o => ([mk env inner RPlain o], k)
  | EConst => ([], k)
  | EAttr b o => let '(a, k1) := e_toks env inner k b in (a ++ [mk env inner (RAttr (plain_base b)) o], k1)
  | ESub b i => let '(a, k1) := e_toks env inner k b in
                let '(c, k2) := e_toks env inner k1 i in (a ++ c, k2)
  | ETuple es | EOp es => list_toks k es
  | ECall f args =>
      let '(a, k1) := e_toks env inner k f in
      let c := callee_of f in
      let fix arg_toks (k : nat) (l : list expr) {struct l} : list tok * nat :=
        match l with
        | [] => ([], k)
        | EKw o v :: r => let '(b, k2) := e_toks env inner k v in
                          let '(d, k3) := arg_toks k2 r in (mk env inner (RKw c) o :: b ++ d, k3)
        | x :: r => let '(b, k2) := e_toks env inner k x in
                    let '(d, k3) := arg_toks k2 r in (b ++ d, k3)
        end in
      let '(b, k2) := arg_toks k1 args in (a ++ b, k2)
  | EKw o v => let '(b, k1) := e_toks env inner k v in (mk env inner ROther o :: b, k1)
  | ENamed o v => let '(b, k1) := e_toks env inner k v in (mk env inner RPlain o :: b, k1)
  | ELambda _ _ ps ae body =>
      (* lambda has no scope in rope and is outside every fragment: its tokens are not modelled *)
      let '(a, k1) := list_toks k ae in
      let '(b, k2) := e_toks env inner k1 body in
      (map (fun p => mk env inner ROther (pocc p)) ps
       ++ map (fun t => Tok (t_occ t) (t_env t) (t_inner t) ROther) (a ++ b), k2)
  | EComp _ _ _ elts gens =>
      let c := env ++ [k] in
      let fix in_toks (k' : nat) (es : list expr) {struct es} : list tok * nat :=
        match es with
        | [] => ([], k')
        | x :: r => let '(a, k1) := e_toks c None k' x in
                    let '(b, k2) := in_toks k1 r in (a ++ b, k2)
        end in
      let fix gen_toks (k' : nat) (gs : list comp) {struct gs} : list tok * nat :=
        match gs with
        | [] => ([], k')
        | g :: r => let '(a, k1) := c_toks c k' g in
                    let '(b, k2) := gen_toks k1 r in (a ++ b, k2)
        end in
      let '(te, k1) := in_toks 0%nat elts in
      match gens with
      | [] => (te, S k)
      | Comp t0 i0 ifs0 :: rest =>
          let '(tg, k2) := e_toks c None k1 t0 in
          (* the first iterable: Python evaluates it in the enclosing scope, rope's region puts it inside *)
          let '(ti, _) := e_toks env (Some k) 0%nat i0 in
          let '(tf, k3) := in_toks k2 ifs0 in
          let '(tr, _) := gen_toks k3 rest in
          (te ++ tg ++ ti ++ tf ++ tr, S k)
      end
  end
with c_toks (env : path) (k : nat) (c : comp) {struct c} : list tok * nat :=
  match c with
  | Comp t i ifs =>
      let fix in_toks (k' : nat) (es : list expr) {struct es} : list tok * nat :=
        match es with
        | [] => ([], k')
        | x :: r => let '(a, k1) := e_toks env None k' x in
                    let '(b, k2) := in_toks k1 r in (a ++ b, k2)
        end in
      let '(a, k1) := e_toks env None k t in
      let '(b, k2) := e_toks env None k1 i in
      let '(d, k3) := in_toks k2 ifs in (a ++ b ++ d, k3)
  end.

Fixpoint es_toks (env : path) (inner : option nat) (k : nat) (es : list expr) : list tok * nat :=
  match es with
  | [] => ([], k)
  | x :: r => let '(a, k1) := e_toks env inner k x in
              let '(b, k2) := es_toks env inner k1 r in (a ++ b, k2)
  end.
(* tokens of expressions in a position where rope creates no scopes (the index is not advanced) *)
Definition flat_toks (env : path) (inner : option nat) (k : nat) (es : list expr) : list tok :=
  fst (es_toks env inner k es).

Definition import_toks (env : path) (n : list occ * option occ) : list tok :=
  match n with
  | (os, Some a) => map (mk env None ROther) os ++ [mk env None RPlain a]
  | (o :: r, None) => mk env None RPlain o :: map (mk env None ROther) r
  | ([], None) => []
  end.
Definition from_toks (env : path) (n : occ * option occ) : list tok :=
  match n with
  | (o, Some a) => [mk env None (RAliased (oname a)) o; mk env None RPlain a]
  | (o, None) => [mk env None RPlain o]
  end.

Fixpoint s_toks (cls : bool) (env : path) (k : nat) (s : stmt) {struct s} : list tok * nat :=
  let fix blk (cls : bool) (env : path) (k : nat) (b : list stmt) {struct b} : list tok * nat :=
    match b with
    | [] => ([], k)
    | x :: r => let '(a, k1) := s_toks cls env k x in
                let '(c, k2) := blk cls env k1 r in (a ++ c, k2)
    end in
  match s with
  | SExpr _ es => es_toks env None k es
  | SReturn _ e => (flat_toks env None k (opt_list e), k)
  | SAssign _ ts v => let '(b, k1) := e_toks env None k v in (flat_toks env None k ts ++ b, k1)
  | SAug _ t v => (flat_toks env None k [t; v], k)
  | SAnn _ t a v => (flat_toks env None k (t :: a :: opt_list v), k)
  | SDel _ ts => es_toks env None k ts
  | SPass _ => ([], k)
  | SIf _ t b o | SWhile _ t b o =>
      let '(a, k1) := e_toks env None k t in
      let '(c, k2) := blk cls env k1 b in
      let '(d, k3) := blk cls env k2 o in (a ++ c ++ d, k3)
  | SFor _ t i b o =>
      let '(c, k2) := blk cls env k b in
      let '(d, k3) := blk cls env k2 o in (flat_toks env None k [t; i] ++ c ++ d, k3)
  | SWith _ items b =>
      let '(c, k2) := blk cls env k b in
      (flat_map (fun it => flat_toks env None k (fst it :: opt_list (snd it))) items ++ c, k2)
  | STry _ b hs o f =>
      let fix hs_toks (k : nat) (l : list (handler stmt)) {struct l} : list tok * nat :=
        match l with
        | [] => ([], k)
        | Handler _ ty nm hb :: r =>
            let '(c, k1) := blk cls env k hb in
            let '(d, k2) := hs_toks k1 r in
            (flat_toks env None k (opt_list ty) ++ map (mk env None RPlain) (opt_list nm) ++ c ++ d, k2)
        end in
      let '(a, k1) := blk cls env k b in
      let '(c, k2) := hs_toks k1 hs in
      let '(d, k3) := blk cls env k2 o in
      let '(e, k4) := blk cls env k3 f in (a ++ c ++ d ++ e, k4)
  | SDef _ _ d n ps ae r body =>
      let c := env ++ [k] in
      let '(tb, _) := blk false c (length (flat_map rx_scopes ae)) body in
      (flat_toks env (Some k) 0%nat d
       ++ mk env (Some k) RDef n
       :: map (fun p => mk c None (RParam (oname n)) (pocc p)) ps
       ++ flat_toks env (Some k) 0%nat ae
       ++ flat_toks env (Some k) 0%nat (opt_list r)
       ++ tb,
       (S k + (if cls then match first_arg ps with
                           | Some _ => length (flat_map ci_scopes body)
                           | None => 0
                           end
               else 0))%nat)
  | SClass _ _ d n bs body =>
      let c := env ++ [k] in
      let '(tb, _) := blk true c (length (flat_map rx_scopes bs)) body in
      (flat_toks env (Some k) 0%nat d
       ++ mk env (Some k) RClass n
       :: flat_toks env (Some k) 0%nat bs
       ++ tb,
       S k)
  | SImport _ ns => (flat_map (import_toks env) ns, k)
  | SFrom _ _ m ns =>
      (map (mk env None ROther) m
       ++ match ns with Some l => flat_map (from_toks env) l | None => [] end, k)
  | SGlobal _ ns => (map (mk env None RPlain) ns, k)
  | SNonlocal _ ns => (map (mk env None ROther) ns, k)
  end.

Fixpoint block_toks (cls : bool) (env : path) (k : nat) (b : list stmt) : list tok * nat :=
  match b with
  | [] => ([], k)
  | x :: r => let '(a, k1) := s_toks cls env k x in
              let '(c, k2) := block_toks cls env k1 r in (a ++ c, k2)
  end.

Definition toks (p : program) : list tok := fst (block_toks false [] 0%nat p).

(* the functions written directly in a class body, with their first positional parameter, whether their kind is
   "method" (no decorator that is a plain name listed in [odd] = staticmethod / classmethod: the first
   parameter is the instance), and whether a decorator is the plain name [prop] = property (_ClassVisitor
   then stores an EvaluatedName instead of a DefinedName: the object of the name is not the function) *)
Fixpoint s_methods (odd : list ident) (prop : ident) (cls : bool) (env : path) (k : nat) (s : stmt) {struct s}
  : list (path * option ident * (bool * bool)) * nat :=
  let fix blk (cls : bool) (env : path) (k : nat) (b : list stmt) {struct b} : list (path * option ident * (bool * bool)) * nat :=
    match b with
    | [] => ([], k)
    | x :: r => let '(a, k1) := s_methods odd prop cls env k x in
                let '(c, k2) := blk cls env k1 r in (a ++ c, k2)
    end in
  match s with
  | SExpr _ es => ([], snd (es_toks env None k es))
  | SAssign _ _ v => ([], snd (e_toks env None k v))
  | SDel _ ts => ([], snd (es_toks env None k ts))
  | SIf _ t b o | SWhile _ t b o =>
      let k1 := snd (e_toks env None k t) in
      let '(c, k2) := blk cls env k1 b in
      let '(d, k3) := blk cls env k2 o in (c ++ d, k3)
  | SFor _ _ _ b o =>
      let '(c, k2) := blk cls env k b in
      let '(d, k3) := blk cls env k2 o in (c ++ d, k3)
  | SWith _ _ b => blk cls env k b
  | STry _ b hs o f =>
      let fix hs_m (k : nat) (l : list (handler stmt)) {struct l} : list (path * option ident * (bool * bool)) * nat :=
        match l with
        | [] => ([], k)
        | Handler _ _ _ hb :: r =>
            let '(c, k1) := blk cls env k hb in
            let '(d, k2) := hs_m k1 r in (c ++ d, k2)
        end in
      let '(a, k1) := blk cls env k b in
      let '(c, k2) := hs_m k1 hs in
      let '(d, k3) := blk cls env k2 o in
      let '(e, k4) := blk cls env k3 f in (a ++ c ++ d ++ e, k4)
  | SDef _ _ d _ ps ae _ body =>
      let c := env ++ [k] in
      let '(tb, _) := blk false c (length (flat_map rx_scopes ae)) body in
      ((if cls then
          [(c, first_arg ps,
            (negb (existsb (fun e => match e with EName o => mem (oname o) odd | _ => false end) d),
             existsb (fun e => match e with EName o => N.eqb (oname o) prop | _ => false end) d))]
        else []) ++ tb,
       (S k + (if cls then match first_arg ps with
                           | Some _ => length (flat_map ci_scopes body)
                           | None => 0
                           end
               else 0))%nat)
  | SClass _ _ _ _ bs body =>
      let c := env ++ [k] in
      let '(tb, _) := blk true c (length (flat_map rx_scopes bs)) body in (tb, S k)
  | _ => ([], k)
  end.
Fixpoint block_methods (odd : list ident) (prop : ident) (cls : bool) (env : path) (k : nat) (b : list stmt)
  : list (path * option ident * (bool * bool)) * nat :=
  match b with
  | [] => ([], k)
  | x :: r => let '(a, k1) := s_methods odd prop cls env k x in
              let '(c, k2) := block_methods odd prop cls env k1 r in (a ++ c, k2)
  end.
Definition methods (odd : list ident) (prop : ident) (p : program) : list (path * option ident * (bool * bool)) :=
  fst (block_methods odd prop false [] 0%nat p).

(* the set of token ids the harness computed from the text: tokens followed by "=" and preceded by "(" or ","
   inside parentheses (worder.is_function_keyword_parameter; since commit 9405717 the last name of a tuple
   target [x, y = ...] is not among them, so in valid Python these are keyword arguments and defaulted
   parameters only) *)
Definition kw_of (l : list N) : N -> bool := fun i => existsb (N.eqb i) l.

(* ------------------------------------------------------------------ PyNames *)
Inductive pyname :=
| PNone                            (* None: never an occurrence, and a query on it finds nothing *)
| PName (b : binding) (x : ident) (imp : bool)
                                   (* the PyName the names of scope [b] hold under the spelling [x] (or a
                                      builtin); [imp]: it is an ImportedModule / ImportedName *)
| PFreshImport                     (* an ImportedModule made on the spot by _find_module *)
| PError                           (* the evaluation raises *)
| PUnmodelled.

(* occurrences.same_pyname.  The import clause compares get_definition_location() and get_object(): in a
   project where no import resolves these are (None, None) and the unknown object for every import PyName,
   and a non-import PyName that is not None has a definition location or a known object *)
Definition same_pyname (a b : pyname) : bool :=
  match a, b with
  | PName x n i, PName y m j => (binding_eqb x y && N.eqb n m) || (i && j)
  | PFreshImport, PName _ _ j => j
  | PName _ _ i, PFreshImport => i
  | PFreshImport, PFreshImport => true
  | _, _ => false
  end.

Inductive fobj :=
| FFun (f : path)       (* a PyFunction *)
| FClass (c : path)     (* a PyClass *)
| FNone                 (* no object / the unknown object *)
| FUnk.                 (* needs inference: not modelled *)

Definition last_fun_child (cs : list rscope) (a : ident) : option nat :=
  (fix go (i : nat) (cs : list rscope) (found : option nat) : option nat :=
     match cs with
     | [] => found
     | c :: r =>
         go (S i) r (if skind_eqb (rk c) KFunction && match rname c with Some n => N.eqb n a | None => false end
                     then Some i else found)
     end) 0%nat cs None.

Definition is_import (k : option nkind) : bool := match k with Some NImport => true | _ => false end.

Section Rope.
  Variable bi : list ident.                           (* builtins *)
  Variable inh : path -> ident -> option binding.     (* inherited attributes of the class at a path *)
  Variable rt : rscope.                               (* rope's scope tree *)
  Variable init call : ident.                         (* the identifiers __init__ and __call__ *)
  Variable meths : list (path * option ident * (bool * bool)).        (* functions written directly in a class, with their first parameter *)
  Variable kwlike : N -> bool.                        (* worder.is_function_keyword_parameter: followed by "=", preceded by "(" or ",", inside "(" *)

  Definition entry_at (b : binding) (x : ident) : option nkind :=
    match b with
    | BScope o => match scope_at rt o with Some s => entry (revs s) x | None => None end
    | _ => None
    end.

  (* the PyName a lookup returned, given the scope that owns it *)
  Definition pn_of (b : binding) (x : ident) : pyname :=
    match b with
    | BNone => PNone
    | _ => PName b x (is_import (entry_at b x))
    end.
  Definition pn_opt (o : option binding) (x : ident) : pyname :=
    match o with Some b => pn_of b x | None => PNone end.

  (* eval_str2(holding_scope, word) for a plain word: StatementEvaluator._Name = Scope.lookup *)
  Definition plain_at (hold : path) (x : ident) : pyname := pn_of (rope_lookup bi inh rt hold x) x.

  (* pyclass[x] : get_attributes() = concluded (inherited) attributes updated with the structural ones *)
  Definition class_attr_b (q : path) (x : ident) : option binding :=
    match scope_at rt q with
    | Some s => match entry (revs s) x with Some k => Some (own_binding q k) | None => inh q x end
    | None => None
    end.

  (* the name of a def / of a class written in a class body, in its header:
       parent is a class : _is_defined_in_class_body -> class_scope.pyobject[name]   (None when absent)
       otherwise (def)   : _is_function_name_in_function_header -> holding_scope.parent[name]
                           (Scope.get_name raises NameNotFoundError when absent) *)
  Definition defname_at (P : path) (x : ident) : pyname :=
    match rchain rt P with
    | Some ((q, s) :: outer) =>
        match gnames bi inh ((q, s) :: outer) x with
        | Some b => pn_of b x
        | None => if is_class (rk s) then PNone else PError
        end
    | _ => PError
    end.

  Definition parent_is_class (P : path) : bool :=
    match scope_at rt P with Some s => is_class (rk s) | None => false end.

  Definition is_property (F : path) : bool :=
    match find (fun e => path_eqb (fst (fst e)) F) meths with
    | Some (_, _, (_, pr)) => pr
    | None => false
    end.

  (* pyname.get_object() for the PyName of spelling f owned by scope b, as far as no inference is needed *)
  Definition fun_of (b : binding) (f : ident) : fobj :=
    match b with
    | BScope o =>
        match scope_at rt o with
        | Some so =>
            match entry (revs so) f with
            | Some NDefFun =>
                match last_fun_child (rchildren so) f with
                | Some j => if is_property (o ++ [j]) then FUnk else FFun (o ++ [j])
                | None => FUnk
                end
            | Some NDefClass =>
                match last_class_child (rchildren so) f with Some j => FClass (o ++ [j]) | None => FUnk end
            | Some NImport => FNone          (* nothing resolves: the unknown object *)
            | None => FNone
            | _ => FUnk
            end
        | None => FUnk
        end
    | BBuiltin => FUnk
    | BNone => FNone
    end.
  Definition fun_of_pn (pn : pyname) (f : ident) : fobj :=
    match pn with
    | PName b _ _ => fun_of b f
    | PNone => FNone
    | _ => FUnk
    end.

  (* get_enclosing_function on a class: "__init__" in pyobject -> pyobject["__init__"].get_object();
     elif "__call__" in pyobject -> ... ; else None *)
  Definition init_of (K : path) : fobj :=
    match class_attr_b K init with
    | Some b => match fun_of b init with FFun F => FFun F | _ => FUnk end
    | None =>
        (* a base the model does not resolve (a builtin such as object, an import ...) may provide it *)
        match scope_at rt K with
        | Some s =>
            match rbases s with
            | [] => match class_attr_b K call with Some _ => FUnk | None => FNone end
            | _ => FUnk
            end
        | None => FUnk
        end
    end.

  (* pyfunction.get_parameters().get(x): the parameters are the last entries written into the names of the
     function scope (names.update(get_parameters())) *)
  Definition param_of (F : path) (x : ident) : pyname :=
    match scope_at rt F with
    | Some sf => match entry (revs sf) x with Some NParam => PName (BScope F) x false | _ => PNone end
    | None => PNone
    end.

  (* the branch "function keyword parameter" of get_primary_and_pyname_at for the word x whose enclosing
     parenthesis follows something that evaluates to [callee]; None = the branch falls through *)
  Definition kw_branch (callee : fobj) (x : ident) : option pyname :=
    match callee with
    | FFun F => Some (param_of F x)
    | FClass K =>
        match init_of K with
        | FFun F => Some (param_of F x)
        | FNone => None
        | _ => Some PUnmodelled
        end
    | FNone => None
    | FUnk => Some PUnmodelled
    end.

  Definition is_self (o : path) (b : ident) : option bool :=
    match find (fun e => path_eqb (fst (fst e)) o) meths with
    | Some (_, Some s, (plain, _)) => if N.eqb s b then Some plain else None
    | _ => None
    end.

  (* StatementEvaluator._Attribute on  b.x  with b a plain name *)
  Definition attr_at (hold : path) (b x : ident) : pyname :=
    match rope_lookup bi inh rt hold b with
    | BScope o =>
        match entry_at (BScope o) b with
        | Some NDefClass =>
            match fun_of (BScope o) b with
            | FClass K => pn_opt (class_attr_b K x) x
            | _ => PUnmodelled
            end
        | Some NParam =>
            match is_self o b with
            | Some true => pn_opt (class_attr_b (removelast o) x) x
            | _ => PUnmodelled
            end
        | Some NImport => PNone
        | _ => PUnmodelled
        end
    | BBuiltin => PUnmodelled
    | BNone => PNone
    end.

  Definition rope_pyname_at (t : tok) : pyname :=
    let x := t_name t in
    match t_role t with
    | RPlain => if kwlike (t_id t) then PUnmodelled else plain_at (t_hold t) x
    | RDef => defname_at (t_env t) x
    | RClass => if parent_is_class (t_env t) then defname_at (t_env t) x else plain_at (t_hold t) x
    | RParam f =>
        if kwlike (t_id t) then
          (* get_enclosing_function evaluates the word before the parenthesis: the def name *)
          let P := removelast (t_env t) in
          match defname_at P f with
          | PError => PError
          | pn => match kw_branch (fun_of_pn pn f) x with
                  | Some r => r
                  | None => plain_at (t_hold t) x
                  end
          end
        else plain_at (t_hold t) x
    | RKw (CName f) =>
        match kw_branch (fun_of_pn (plain_at (t_hold t) f) f) x with
        | Some r => r
        | None => plain_at (t_hold t) x
        end
    | RKw COther => PUnmodelled
    | RAttr (Some b) => attr_at (t_hold t) b x
    | RAttr None => PUnmodelled
    | RAliased a => plain_at (t_hold t) a
    | ROther => PUnmodelled
    end.

  (* Finder.find_occurrences with the PyNameFilter of create_finder *)
  Definition candidates (ts : list tok) (x : ident) : list tok := filter (fun t => N.eqb (t_name t) x) ts.
  Definition rope_occurrences (ts : list tok) (q : tok) : list tok :=
    filter (fun o => same_pyname (rope_pyname_at q) (rope_pyname_at o)) (candidates ts (t_name q)).
End Rope.

(* ------------------------------------------------------------------ SPEC: which binding a token denotes *)
(* Python's rule, from coq/C15/Scoping.v: the name of a token is resolved from the scope it is evaluated or
   bound in - header expressions (decorators, defaults, annotations, bases) and the first iterable of a
   comprehension in the ENCLOSING scope, a def / class name in the scope containing the statement, a
   parameter in the function's own scope.  Stated for the tokens whose binding needs no object knowledge. *)
Definition core (t : tok) : bool :=
  match t_role t with RPlain | RDef | RClass | RParam _ => true | _ => false end.

Definition spec_binding (bi : list ident) (st : sscope) (t : tok) : binding :=
  spec_resolve bi st (t_env t) (t_name t).

(* ------------------------------------------------------------------ the domain of the theorems *)
Section Domain.
  Variable bi : list ident.
  Variable inh : path -> ident -> option binding.
  Variable rt : rscope.
  Variable init call : ident.
  Variable meths : list (path * option ident * (bool * bool)).
  Variable kwlike : N -> bool.

  Definition class_has_at (q : path) (x : ident) : bool :=
    match scope_at rt q with
    | Some s => is_class (rk s) && class_has inh q s x
    | None => false
    end.

  (* a token rope evaluates in the child scope j of the scope Python uses: the two evaluations coincide when
     the child does not bind the name itself (nor, for a class, inherits it) and the name is not hidden by
     the class-scope skip of _propagated_lookup *)
  Definition header_ok (env : path) (j : nat) (x : ident) : bool :=
    match scope_at rt (env ++ [j]) with
    | Some h =>
        negb (skind_eqb (rk h) KModule)
        && negb (mem x (keys (revs h)))
        && (if is_class (rk h) then match inh (env ++ [j]) x with None => true | Some _ => false end else true)
        && (if skind_eqb (rk h) KComp then true else negb (class_has_at env x))
    | None => false
    end.

  Definition present (P : path) (x : ident) : bool :=
    match rchain rt P with
    | Some ch => match gnames bi inh ch x with Some _ => true | None => false end
    | None => false
    end.

  Definition inner_ok (t : tok) : bool :=
    match t_inner t with Some j => header_ok (t_env t) j (t_name t) | None => true end.

  Definition tok_ok (t : tok) : bool :=
    query_ok inh rt (t_env t) (t_name t)
    && match t_role t with
       | RPlain => negb (kwlike (t_id t)) && inner_ok t
       | RDef => present (t_env t) (t_name t)
       | RClass => if parent_is_class rt (t_env t) then present (t_env t) (t_name t) else inner_ok t
       | RParam f =>
           match t_inner t with
           | Some _ => false
           | None =>
               if kwlike (t_id t) then
                 match defname_at bi inh rt (removelast (t_env t)) f with
                 | PName b _ _ =>
                     match fun_of rt meths b f with
                     | FFun F => path_eqb F (t_env t)
                                 && match entry_at rt (BScope F) (t_name t) with Some NParam => true | _ => false end
                     | _ => false
                     end
                 | _ => false
                 end
               else true
           end
       | _ => false
       end.

  (* two import PyNames of the same spelling are one binding *)
  Definition imports_ok (ts : list tok) : bool :=
    forallb (fun a =>
      forallb (fun b =>
        if N.eqb (t_name a) (t_name b) then
          match rope_pyname_at bi inh rt init call meths kwlike a,
                rope_pyname_at bi inh rt init call meths kwlike b with
          | PName x n true, PName y m true => binding_eqb x y && N.eqb n m
          | _, _ => true
          end
        else true) ts) ts.

  Definition toks_ok (ts : list tok) : bool :=
    forallb (fun t => if core t then tok_ok t else true) ts && imports_ok (filter core ts).
End Domain.

Definition in_fragment_C02 (bi : list ident) (inh : path -> ident -> option binding) (init call : ident)
           (meths : list (path * option ident * (bool * bool))) (kwlike : N -> bool) (p : program) : bool :=
  in_fragment_C15 p && toks_ok bi inh (rope_tree p) init call meths kwlike (toks p).
