(* MODEL of rope's occurrence finder for a project of TWO modules, [lib] and the module that imports it.
   Additive to Occurrences.v (nothing there changes): here imports of [lib] RESOLVE, so
     - an ImportedModule / ImportedName is transparent (pynames.ImportedName._get_imported_pyname =
       lib's module attribute; ImportedModule.get_object = lib's PyModule),
     - occurrences.same_pyname's import clause (equal definition location and equal object) compares the
       things the two PyNames resolve to,
     - an attribute of the imported module (lib.x), an attribute of an imported class (C.x) and a keyword
       argument of an imported def / class are evaluated in lib's scope tree,
     - find_occurrences collects the candidates of both files.
   Imports of anything else stay unresolved (definition location (None, None), unknown object), as in the
   one-module model.  The definition location is modelled by the identity of the binding it belongs to: two
   different bindings of one spelling written on the same line have the same location for rope (open finding
   imported-name-same-line-homonym); the harness keeps such tokens out of the comparison.
   Not modelled: star imports, __all__, relative imports, packages, imports of [lib] inside [lib]. *)
From Coq Require Import List NArith Bool PeanoNat.
From RopeVerif.C15 Require Import Syntax Scoping RopeScopes Fragment.
From RopeVerif.C02 Require Import Occurrences.
Import ListNotations.

(* ------------------------------------------------------------------ what an import statement binds *)
Inductive itarget :=
| ITModule (path : list ident)                     (* import a.b.c [as x] : the module a.b.c (a for the un-aliased form) *)
| ITName (level : N) (path : list ident) (name : ident).   (* from ..a.b import name [as x] *)

Notation imptable := (list (path * ident * itarget)).

Definition import_binds (env : path) (n : list occ * option occ) : imptable :=
  match n with
  | (os, Some a) => [(env, oname a, ITModule (map oname os))]
  | (o :: _, None) => [(env, oname o, ITModule [oname o])]
  | ([], None) => []
  end.
Definition from_binds (env : path) (level : N) (m : list occ) (n : occ * option occ) : imptable :=
  match n with
  | (o, Some a) => [(env, oname a, ITName level (map oname m) (oname o))]
  | (o, None) => [(env, oname o, ITName level (map oname m) (oname o))]
  end.

(* same walk as [s_methods]: the scope an import statement stands in, in visitor order *)
Fixpoint s_imports (cls : bool) (env : path) (k : nat) (s : stmt) {struct s} : imptable * nat :=
  let fix blk (cls : bool) (env : path) (k : nat) (b : list stmt) {struct b} : imptable * nat :=
    match b with
    | [] => ([], k)
    | x :: r => let '(a, k1) := s_imports cls env k x in
                let '(c, k2) := blk cls env k1 r in (a ++ c, k2)
    end in
  match s with
  | SExpr _ es => ([], snd (es_toks env None k es))
  | SAssign _ _ v => ([], snd (e_toks env None k v))
  | SDel _ ts => ([], snd (es_toks env None k ts))
  | SIf _ t b o | SWhile _ t b o =>
      let k1 := snd (e_toks env None k t) in
      let '(c, k2) := blk cls env k1 b in
      let '(d, k3) := blk cls env k2 o in (c ++ d, k3)
  | SFor _ _ _ b o =>
      let '(c, k2) := blk cls env k b in
      let '(d, k3) := blk cls env k2 o in (c ++ d, k3)
  | SWith _ _ b => blk cls env k b
  | STry _ b hs o f =>
      let fix hs_m (k : nat) (l : list (handler stmt)) {struct l} : imptable * nat :=
        match l with
        | [] => ([], k)
        | Handler _ _ _ hb :: r =>
            let '(c, k1) := blk cls env k hb in
            let '(d, k2) := hs_m k1 r in (c ++ d, k2)
        end in
      let '(a, k1) := blk cls env k b in
      let '(c, k2) := hs_m k1 hs in
      let '(d, k3) := blk cls env k2 o in
      let '(e, k4) := blk cls env k3 f in (a ++ c ++ d ++ e, k4)
  | SDef _ _ _ _ ps ae _ body =>
      let c := env ++ [k] in
      let '(tb, _) := blk false c (length (flat_map rx_scopes ae)) body in
      (tb, (S k + (if cls then match first_arg ps with
                               | Some _ => length (flat_map ci_scopes body)
                               | None => 0
                               end
                   else 0))%nat)
  | SClass _ _ _ _ bs body =>
      let c := env ++ [k] in
      let '(tb, _) := blk true c (length (flat_map rx_scopes bs)) body in (tb, S k)
  | SImport _ ns => (flat_map (import_binds env) ns, k)
  | SFrom _ lv m (Some ns) => (flat_map (from_binds env lv m) ns, k)
  | _ => ([], k)
  end.
Fixpoint block_imports (cls : bool) (env : path) (k : nat) (b : list stmt) : imptable * nat :=
  match b with
  | [] => ([], k)
  | x :: r => let '(a, k1) := s_imports cls env k x in
              let '(c, k2) := block_imports cls env k1 r in (a ++ c, k2)
  end.
Definition imports (p : program) : imptable := fst (block_imports false [] 0%nat p).

(* the names dictionary keeps the LAST import written under a name in a scope *)
Definition import_of (tbl : imptable) (env : path) (x : ident) : option itarget :=
  (fix go (l : imptable) (found : option itarget) : option itarget :=
     match l with
     | [] => found
     | (e, y, t) :: r => go r (if path_eqb e env && N.eqb y x then Some t else found)
     end) tbl None.

(* ------------------------------------------------------------------ PyNames of a two-module project *)
(* [true] = lib, [false] = the importing module *)
Inductive tgt :=
| TgUnknown                                    (* nothing resolves: location (None, None), unknown object *)
| TgModule                                     (* the module lib *)
| TgName (m : bool) (b : binding) (x : ident). (* the PyName owned by scope b of module m under the spelling x *)

Inductive pn2 :=
| Q0                                           (* None *)
| QName (m : bool) (b : binding) (x : ident)   (* not an import *)
| QImp (m : bool) (b : binding) (x : ident) (t : tgt)   (* the import PyName stored at (m, b, x), resolving to t *)
| QFresh (t : tgt)                             (* an ImportedModule made on the spot *)
| QErr
| QUnm.

Definition tgt_eqb (a b : tgt) : bool :=
  match a, b with
  | TgUnknown, TgUnknown | TgModule, TgModule => true
  | TgName m x n, TgName m' y n' => Bool.eqb m m' && binding_eqb x y && N.eqb n n'
  | _, _ => false
  end.

Definition tgt_of (a : pn2) : option tgt :=
  match a with
  | QName m b x => Some (TgName m b x)
  | QImp _ _ _ t | QFresh t => Some t
  | _ => None
  end.
Definition is_imp2 (a : pn2) : bool := match a with QImp _ _ _ _ | QFresh _ => true | _ => false end.

(* same_pyname: identity, or - when one side is an import - what the two resolve to *)
Definition same2 (a b : pn2) : bool :=
  match tgt_of a, tgt_of b with
  | Some ta, Some tb =>
      match a, b with
      | QName m x n, QName m' y n' => Bool.eqb m m' && binding_eqb x y && N.eqb n n'
      | _, _ => (is_imp2 a || is_imp2 b) && tgt_eqb ta tb
      end
  | _, _ => false
  end.

(* one module of the project, with everything the one-module model needs *)
Record modctx := MC {
  mc_prog : program;
  mc_bi : list ident;
  mc_inh : path -> ident -> option binding;
  mc_meths : list (path * option ident * (bool * bool));
  mc_kw : N -> bool
}.
Definition mc_rt (c : modctx) : rscope := rope_tree (mc_prog c).

Section Project.
  Variable lib main : modctx.
  Variable init call : ident.
  Variable libname : ident.                   (* the spelling of the module name lib *)

  Definition ctx_of (m : bool) : modctx := if m then lib else main.

  (* what an import entry of module m resolves to *)
  Definition resolve_lib_name (y : ident) : tgt :=
    (* lib's module attribute y: lib's own module-level PyName; an import there resolves to nothing *)
    match entry (revs (mc_rt lib)) y with
    | Some NImport => TgUnknown
    | Some k => TgName true (own_binding [] k) y
    | None => TgUnknown
    end.
  Definition resolve (m : bool) (b : binding) (x : ident) : tgt :=
    if m then TgUnknown
    else
      match b with
      | BScope env =>
          match import_of (imports (mc_prog main)) env x with
          | Some (ITModule [a]) => if N.eqb a libname then TgModule else TgUnknown
          | Some (ITName 0%N [a] y) => if N.eqb a libname then resolve_lib_name y else TgUnknown
          | _ => TgUnknown
          end
      | _ => TgUnknown
      end.

  (* a PyName of the one-module model, seen in the project *)
  Definition lift (m : bool) (p : pyname) : pn2 :=
    match p with
    | PNone => Q0
    | PName b x false => QName (match b with BBuiltin => false | _ => m end) b x   (* one builtins module *)
    | PName b x true => QImp m b x (resolve m b x)
    | PFreshImport => QFresh TgUnknown
    | PError => QErr
    | PUnmodelled => QUnm
    end.

  Definition pn1 (m : bool) (t : tok) : pyname :=
    let c := ctx_of m in
    rope_pyname_at (mc_bi c) (mc_inh c) (mc_rt c) init call (mc_meths c) (mc_kw c) t.
  Definition plain1 (m : bool) (hold : path) (x : ident) : pyname :=
    let c := ctx_of m in plain_at (mc_bi c) (mc_inh c) (mc_rt c) hold x.

  (* the object a PyName of the project denotes, as a function / class of one of the two trees *)
  Definition fobj_of (q : pn2) (f : ident) : bool * fobj :=
    match q with
    | QName m b x => (m, fun_of (mc_rt (ctx_of m)) (mc_meths (ctx_of m)) b x)
    | QImp _ _ _ (TgName m b x) => (m, fun_of (mc_rt (ctx_of m)) (mc_meths (ctx_of m)) b x)
    | QImp _ _ _ _ => (false, FNone)             (* a module, or nothing: no signature *)
    | Q0 => (false, FNone)
    | _ => (false, FUnk)
    end.

  Definition kw2 (m : bool) (t : tok) (f : ident) : pn2 :=
    let x := t_name t in
    let '(mf, o) := fobj_of (lift m (plain1 m (t_hold t) f)) f in
    let c := ctx_of mf in
    match kw_branch (mc_inh c) (mc_rt c) init call (mc_meths c) o x with
    | Some r => lift mf r
    | None => lift m (plain1 m (t_hold t) x)
    end.

  (* pymodule[x] for lib *)
  Definition lib_attr (x : ident) : pn2 :=
    match entry (revs (mc_rt lib)) x with
    | Some k => lift true (pn_of (mc_rt lib) (own_binding [] k) x)
    | None => Q0
    end.

  Definition attr2 (m : bool) (t : tok) (b : ident) : pn2 :=
    let x := t_name t in
    match lift m (plain1 m (t_hold t) b) with
    | QImp _ _ _ TgModule => lib_attr x
    | QImp _ _ _ (TgName mm bb y) =>
        (* an imported class: its attributes live in lib's tree *)
        let c := ctx_of mm in
        match entry_at (mc_rt c) bb y with
        | Some NDefClass =>
            match fun_of (mc_rt c) (mc_meths c) bb y with
            | FClass K => lift mm (pn_opt (mc_rt c) (class_attr_b (mc_inh c) (mc_rt c) K x) x)
            | _ => QUnm
            end
        | _ => QUnm
        end
    | QImp _ _ _ TgUnknown => Q0
    | _ => lift m (pn1 m t)
    end.

  Definition pyname2_at (m : bool) (t : tok) : pn2 :=
    match t_role t with
    | RKw (CName f) => kw2 m t f
    | RAttr (Some b) => attr2 m t b
    | _ => lift m (pn1 m t)
    end.

  (* the candidates of both files *)
  Definition all_toks : list (bool * tok) :=
    map (fun t => (true, t)) (toks (mc_prog lib)) ++ map (fun t => (false, t)) (toks (mc_prog main)).
  Definition occurrences2 (ts : list (bool * tok)) (q : bool * tok) : list (bool * tok) :=
    filter (fun o => N.eqb (t_name (snd o)) (t_name (snd q))
                     && same2 (pyname2_at (fst q) (snd q)) (pyname2_at (fst o) (snd o))) ts.
End Project.
