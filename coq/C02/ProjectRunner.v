(* Correspondence runner for the two-module model (Project.v).  A case carries both modules (translated with ONE
   interning table), the textual facts of each, and for every identifier token of both files the (module, token id)
   pairs rope.contrib.findit.find_occurrences reports over the whole project.  A pair is encoded as
   2 * id + (1 for lib, 0 for the importing module). *)
From Coq Require Import List NArith Bool PeanoNat.
From RopeVerif.C15 Require Import Syntax Scoping RopeScopes Fragment.
From RopeVerif.C02 Require Import Occurrences Project Runner.
Import ListNotations.

Record case2 := {
  p_lib : program;
  p_main : program;
  p_builtins : list ident;
  p_idents : list ident;
  p_init : ident;
  p_call : ident;
  p_odd : list ident;
  p_prop : ident;
  p_libname : ident;
  p_kw_lib : list N;
  p_kw_main : list N;
  p_skip : list N;               (* encoded tokens outside the model (same-line homonyms of an imported name ...) *)
  p_rope : list (N * list N)     (* encoded query -> encoded answers; [raised] marks an exception *)
}.

Definition enc (mt : bool * tok) : N := (2 * t_id (snd mt) + (if fst mt then 1 else 0))%N.

Section Run2.
  Variable c : case2.
  Let bi := p_builtins c.
  Definition mk_ctx (p : program) (kw : list N) : modctx :=
    MC p bi (inh_of (fst (rope_inh bi (rope_tree p) (p_idents c)))) (methods (p_odd c) (p_prop c) p) (kw_of kw).
  Let lib := mk_ctx (p_lib c) (p_kw_lib c).
  Let main := mk_ctx (p_main c) (p_kw_main c).
  Let pn := fun mt : bool * tok => pyname2_at lib main (p_init c) (p_call c) (p_libname c) (fst mt) (snd mt).
  Let ts := all_toks lib main.

  Definition stable2 : bool :=
    snd (rope_inh bi (rope_tree (p_lib c)) (p_idents c)) && snd (rope_inh bi (rope_tree (p_main c)) (p_idents c)).

  Definition unm (q : pn2) : bool := match q with QUnm => true | _ => false end.
  Definition compared2 (mt : bool * tok) : bool := negb (unm (pn mt)) && negb (memN (enc mt) (p_skip c)).

  (* every PyName is computed once; [want] below is [occurrences2] over the compared tokens *)
  Definition table : list (bool * tok * pn2) := map (fun mt => (mt, pn mt)) ts.
  Definition cmp_table : list (bool * tok * pn2) :=
    filter (fun e => negb (unm (snd e)) && negb (memN (enc (fst e)) (p_skip c))) table.

  Definition check_entry (cmp : list (bool * tok * pn2)) (e : bool * tok * pn2) : N :=
    let '(q, pq) := e in
    match assocN (enc q) (p_rope c) with
    | None => 4
    | Some obs =>
        match pq with
        | QErr => if memN raised obs then 0 else 3
        | _ =>
            if memN raised obs then 3
            else
              let want := map (fun o => enc (fst o))
                              (filter (fun o => N.eqb (t_name (snd (fst o))) (t_name (snd q)) && same2 pq (snd o)) cmp) in
              let got := filter (fun i => existsb (fun o => N.eqb (enc (fst o)) i) cmp) obs in
              if seteqN want got then 0 else 2
        end
    end%N.

  (* 0 agree; 9 cyclic superclasses; 1 token lists differ; otherwise code + 100 * encoded token *)
  Definition run_case2 : N :=
    if negb stable2 then 9%N
    else if negb (seteqN (map enc ts) (map fst (p_rope c))) then 1%N
    else
      let cmp := cmp_table in
      first_bad (check_entry cmp) (fun e => enc (fst e)) cmp.

  (* encoded tokens the model does not speak about *)
  Definition unmodelled2 : list N := map enc (filter (fun t => negb (compared2 t)) ts).
  Definition both_in_fragment : bool := in_fragment_C15 (p_lib c) && in_fragment_C15 (p_main c).
End Run2.

Fixpoint mismatches2_from (i : N) (cs : list case2) : list (N * N) :=
  match cs with
  | [] => []
  | c :: r =>
      let code := run_case2 c in
      if N.eqb code 0 then mismatches2_from (N.succ i) r else (i, code) :: mismatches2_from (N.succ i) r
  end.
Definition mismatches2 (cs : list case2) : list (N * N) := mismatches2_from 0 cs.
Definition all_unmodelled2 (cs : list case2) : list (list N) := map unmodelled2 cs.
Definition fragments2 (cs : list case2) : list N := map (fun c => if both_in_fragment c then 1%N else 0%N) cs.
