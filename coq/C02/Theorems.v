(* The refutations (each witness is the replay input of an open finding, generated into Witnesses.v from
   harness/c02_witness.py) and the non-vacuity examples of coq/Props/C02.v. *)
From Coq Require Import List NArith Bool PeanoNat.
From RopeVerif.C15 Require Import Syntax Scoping RopeScopes Fragment.
From RopeVerif.C02 Require Import Occurrences OccurrencesProofs Witnesses.
Import ListNotations.

Section OnModule.
  Variable p : program.
  Variable nl : N.
  Variable bi ids : list ident.
  Variable init call : ident.
  Variable odd : list ident.
  Variable prop : ident.
  Variable kwl : list N.

  Definition m_inh := inh_of (fst (rope_inh bi (rope_tree p) ids)).
  Definition m_meths := methods odd prop p.
  Definition m_pn := rope_pyname_at bi m_inh (rope_tree p) init call m_meths (kw_of kwl).
  Definition m_occs := rope_occurrences bi m_inh (rope_tree p) init call m_meths (kw_of kwl) (toks p).
  Definition m_spec := spec_binding bi (spec_tree nl p).
  Definition m_frag := in_fragment_C02 bi m_inh init call m_meths (kw_of kwl) p.
  Definition tok_by_id (i : N) : option tok := find (fun t => N.eqb (t_id t) i) (toks p).

  (* exactness fails: a reported occurrence denotes another binding *)
  Definition unsound : Prop :=
    exists q o, In q (toks p) /\ core q = true /\ core o = true /\ In o (m_occs q) /\ m_spec o <> m_spec q.
  Definition unsound_b (iq : N) : bool :=
    match tok_by_id iq with
    | Some q => core q && existsb (fun o => core o && negb (binding_eqb (m_spec o) (m_spec q))) (m_occs q)
    | None => false
    end.
  Lemma unsound_b_true iq : unsound_b iq = true -> unsound.
  Proof.
    unfold unsound_b, tok_by_id. destruct (find _ (toks p)) as [q|] eqn:F; [|discriminate].
    apply find_some in F as [Hq _]. intros H. apply andb_prop in H as [Cq H].
    apply existsb_exists in H as (o & Ho & H). apply andb_prop in H as [Co H].
    exists q, o. repeat split; auto. intros E. rewrite E, binding_eqb_refl in H. discriminate.
  Qed.

  (* exactness fails: a token of the same binding is not reported *)
  Definition incomplete : Prop :=
    exists q o, In q (toks p) /\ In o (toks p) /\ core q = true /\ core o = true /\ t_name o = t_name q
                /\ m_spec o = m_spec q /\ m_spec q <> BNone /\ ~ In o (m_occs q).
  Definition incomplete_b (iq : N) : bool :=
    match tok_by_id iq with
    | Some q =>
        core q && negb (binding_eqb (m_spec q) BNone)
        && existsb (fun o => core o && N.eqb (t_name o) (t_name q) && binding_eqb (m_spec o) (m_spec q)
                             && negb (existsb (fun t => N.eqb (t_id t) (t_id o)) (m_occs q))) (toks p)
    | None => false
    end.
  Lemma incomplete_b_true iq : incomplete_b iq = true -> incomplete.
  Proof.
    unfold incomplete_b, tok_by_id. destruct (find _ (toks p)) as [q|] eqn:F; [|discriminate].
    apply find_some in F as [Hq _]. intros H. apply andb_prop in H as [H He]. apply andb_prop in H as [Cq Hn].
    apply existsb_exists in He as (o & Ho & H).
    apply andb_prop in H as [H N1]. apply andb_prop in H as [H B]. apply andb_prop in H as [Co Nm].
    exists q, o. repeat split; auto.
    - now apply N.eqb_eq.
    - now apply binding_eqb_eq.
    - intros E. rewrite E in Hn. discriminate.
    - intros I. apply negb_true_iff in N1.
      assert (X : existsb (fun t => N.eqb (t_id t) (t_id o)) (m_occs q) = true).
      { apply existsb_exists. exists o. split; [exact I | apply N.eqb_refl]. }
      congruence.
  Qed.

  (* a keyword-argument name is reported as an occurrence of a variable that is assigned by a statement *)
  Definition keyword_as_variable : Prop :=
    exists q o c, In q (toks p) /\ t_role q = RPlain /\ okind_of (t_occ q) = KStore
                  /\ t_role o = RKw c /\ In o (m_occs q).
  Definition keyword_as_variable_b (iq : N) : bool :=
    match tok_by_id iq with
    | Some q =>
        match t_role q, okind_of (t_occ q) with
        | RPlain, KStore => existsb (fun o => match t_role o with RKw _ => true | _ => false end) (m_occs q)
        | _, _ => false
        end
    | None => false
    end.
  Lemma keyword_as_variable_b_true iq : keyword_as_variable_b iq = true -> keyword_as_variable.
  Proof.
    unfold keyword_as_variable_b, tok_by_id. destruct (find _ (toks p)) as [q|] eqn:F; [|discriminate].
    apply find_some in F as [Hq _].
    destruct (t_role q) eqn:R; try discriminate. destruct (okind_of (t_occ q)) eqn:K; try discriminate.
    intros H. apply existsb_exists in H as (o & Ho & H).
    destruct (t_role o) eqn:Ro; try discriminate. exists q, o, c. repeat split; auto.
  Qed.
End OnModule.


(* ------------------------------------------------------------------ refutations *)
Lemma header_default_refuted :
  in_fragment_C15 w_header_expression = true
  /\ m_frag w_header_expression bi_header_expression ids_header_expression init_header_expression
            call_header_expression odd_header_expression prop_header_expression kwl_header_expression = false
  /\ unsound w_header_expression nl_header_expression bi_header_expression ids_header_expression
             init_header_expression call_header_expression odd_header_expression prop_header_expression kwl_header_expression.
Proof.
  split; [vm_compute; reflexivity|]. split; [vm_compute; reflexivity|].
  apply (unsound_b_true _ _ _ _ _ _ _ _ _ 14%N). vm_compute. reflexivity.
Qed.

Lemma header_class_attribute_refuted :
  in_fragment_C15 w_header_class_attribute = true
  /\ m_frag w_header_class_attribute bi_header_class_attribute ids_header_class_attribute
            init_header_class_attribute call_header_class_attribute odd_header_class_attribute prop_header_class_attribute
            kwl_header_class_attribute = false
  /\ unsound w_header_class_attribute nl_header_class_attribute bi_header_class_attribute
             ids_header_class_attribute init_header_class_attribute call_header_class_attribute
             odd_header_class_attribute prop_header_class_attribute kwl_header_class_attribute.
Proof.
  split; [vm_compute; reflexivity|]. split; [vm_compute; reflexivity|].
  apply (unsound_b_true _ _ _ _ _ _ _ _ _ 0%N). vm_compute. reflexivity.
Qed.

Lemma comprehension_first_iterable_refuted :
  in_fragment_C15 w_comprehension_first_iterable = true
  /\ m_frag w_comprehension_first_iterable bi_comprehension_first_iterable ids_comprehension_first_iterable
            init_comprehension_first_iterable call_comprehension_first_iterable
            odd_comprehension_first_iterable prop_comprehension_first_iterable kwl_comprehension_first_iterable = false
  /\ unsound w_comprehension_first_iterable nl_comprehension_first_iterable bi_comprehension_first_iterable
             ids_comprehension_first_iterable init_comprehension_first_iterable
             call_comprehension_first_iterable odd_comprehension_first_iterable prop_comprehension_first_iterable
             kwl_comprehension_first_iterable.
Proof.
  split; [vm_compute; reflexivity|]. split; [vm_compute; reflexivity|].
  apply (unsound_b_true _ _ _ _ _ _ _ _ _ 9%N). vm_compute. reflexivity.
Qed.

Lemma class_name_own_attribute_refuted :
  in_fragment_C15 w_class_name_own_attribute = true
  /\ m_frag w_class_name_own_attribute bi_class_name_own_attribute ids_class_name_own_attribute
            init_class_name_own_attribute call_class_name_own_attribute odd_class_name_own_attribute prop_class_name_own_attribute
            kwl_class_name_own_attribute = false
  /\ unsound w_class_name_own_attribute nl_class_name_own_attribute bi_class_name_own_attribute
             ids_class_name_own_attribute init_class_name_own_attribute call_class_name_own_attribute
             odd_class_name_own_attribute prop_class_name_own_attribute kwl_class_name_own_attribute
  /\ incomplete w_class_name_own_attribute nl_class_name_own_attribute bi_class_name_own_attribute
                ids_class_name_own_attribute init_class_name_own_attribute call_class_name_own_attribute
                odd_class_name_own_attribute prop_class_name_own_attribute kwl_class_name_own_attribute.
Proof.
  split; [vm_compute; reflexivity|]. split; [vm_compute; reflexivity|]. split.
  - apply (unsound_b_true _ _ _ _ _ _ _ _ _ 5%N). vm_compute. reflexivity.
  - apply (incomplete_b_true _ _ _ _ _ _ _ _ _ 18%N). vm_compute. reflexivity.
Qed.

Lemma kwarg_unresolved_callee_refuted :
  in_fragment_C15 w_kwarg_unresolved_callee = true
  /\ keyword_as_variable w_kwarg_unresolved_callee bi_kwarg_unresolved_callee ids_kwarg_unresolved_callee
                         init_kwarg_unresolved_callee call_kwarg_unresolved_callee
                         odd_kwarg_unresolved_callee prop_kwarg_unresolved_callee kwl_kwarg_unresolved_callee.
Proof.
  split; [vm_compute; reflexivity|].
  apply (keyword_as_variable_b_true _ _ _ _ _ _ _ _ 8%N). vm_compute. reflexivity.
Qed.

Lemma unresolved_import_conflation_refuted :
  in_fragment_C15 w_unresolved_import_conflation = true
  /\ m_frag w_unresolved_import_conflation bi_unresolved_import_conflation ids_unresolved_import_conflation
            init_unresolved_import_conflation call_unresolved_import_conflation
            odd_unresolved_import_conflation prop_unresolved_import_conflation kwl_unresolved_import_conflation = false
  /\ unsound w_unresolved_import_conflation nl_unresolved_import_conflation bi_unresolved_import_conflation
             ids_unresolved_import_conflation init_unresolved_import_conflation
             call_unresolved_import_conflation odd_unresolved_import_conflation prop_unresolved_import_conflation
             kwl_unresolved_import_conflation.
Proof.
  split; [vm_compute; reflexivity|]. split; [vm_compute; reflexivity|].
  apply (unsound_b_true _ _ _ _ _ _ _ _ _ 13%N). vm_compute. reflexivity.
Qed.

Lemma param_default_of_rebound_def_refuted :
  in_fragment_C15 w_param_default_of_rebound_def = true
  /\ m_frag w_param_default_of_rebound_def bi_param_default_of_rebound_def ids_param_default_of_rebound_def
            init_param_default_of_rebound_def call_param_default_of_rebound_def
            odd_param_default_of_rebound_def prop_param_default_of_rebound_def kwl_param_default_of_rebound_def = false
  /\ incomplete w_param_default_of_rebound_def nl_param_default_of_rebound_def bi_param_default_of_rebound_def
                ids_param_default_of_rebound_def init_param_default_of_rebound_def
                call_param_default_of_rebound_def odd_param_default_of_rebound_def prop_param_default_of_rebound_def
                kwl_param_default_of_rebound_def.
Proof.
  split; [vm_compute; reflexivity|]. split; [vm_compute; reflexivity|].
  apply (incomplete_b_true _ _ _ _ _ _ _ _ _ 11%N). vm_compute. reflexivity.
Qed.

(* ------------------------------------------------------------------ non-vacuity *)
(* the example module (a global, a function with a defaulted parameter, a class with class and instance
   attributes, keyword arguments of a function and of a class with __init__, a global declaration, a
   comprehension whose variable shadows a global) is inside the domain of the theorems; it has 49 identifier
   tokens of which 41 are core tokens *)
Lemma example_in_fragment :
  m_frag w_example bi_example ids_example init_example call_example odd_example prop_example kwl_example = true
  /\ length (toks w_example) = 49%nat
  /\ length (filter core (toks w_example)) = 41%nat.
Proof. vm_compute. auto. Qed.

Definition ids_of (l : list tok) : list N := map t_id l.
Definition example_occs (i : N) : option (list N) :=
  option_map (fun q => ids_of (m_occs w_example bi_example ids_example init_example call_example odd_example prop_example
                                      kwl_example q)) (tok_by_id w_example i).

(* [limit]: the module-level binding (3) is used by the default value of scale's parameter (14, a header token
   that rope evaluates inside scale) and by print (135), not by the parameters of grow / use nor by
   the comprehension variable (123, 125); [size] under the global declaration in use (97, 99, 108) is the
   module's size (116, 129); [factor]: the parameter (12, 22) with its keyword arguments (71, 106); the
   attribute size of Box (30, 46, 63, 69, 83); the parameter size of __init__ (39, 48) with the keyword
   argument of Box(size=...) (79) *)
Lemma example_occurrences :
  example_occs 3 = Some [3; 14; 135]%N
  /\ example_occs 99 = Some [97; 99; 108; 116; 129]%N
  /\ example_occs 12 = Some [12; 22; 71; 106]%N
  /\ example_occs 30 = Some [30; 46; 63; 69; 83]%N
  /\ example_occs 39 = Some [39; 48; 79]%N
  /\ example_occs 123 = Some [123; 125]%N.
Proof. vm_compute. repeat split. Qed.
