(* The two-module model (Project.v): same2 compares what two PyNames resolve to, which makes it an equivalence on
   the PyNames that denote something; the occurrence set over both files therefore does not depend on the occurrence
   used to ask - whichever module it stands in. *)
From Coq Require Import List NArith Bool PeanoNat.
From RopeVerif.C15 Require Import Syntax Scoping RopeScopes Fragment.
From RopeVerif.C02 Require Import Occurrences OccurrencesProofs Project.
Import ListNotations.

Lemma tgt_eqb_eq a b : tgt_eqb a b = true <-> a = b.
Proof.
  destruct a as [| |m x n], b as [| |m' y n']; cbn; split; intros H; try discriminate; auto.
  - apply andb_prop in H as [H H3]. apply andb_prop in H as [H1 H2].
    apply Bool.eqb_prop in H1. apply binding_eqb_eq in H2. apply N.eqb_eq in H3. now subst.
  - inversion H; subst. now rewrite Bool.eqb_reflx, binding_eqb_refl, N.eqb_refl.
Qed.

(* same_pyname in a project = "resolve to the same thing" *)
Lemma same2_tgt a b :
  same2 a b = match tgt_of a, tgt_of b with Some ta, Some tb => tgt_eqb ta tb | _, _ => false end.
Proof.
  unfold same2. destruct a, b; cbn; try reflexivity.
Qed.

Lemma same2_true a b : same2 a b = true <-> exists t, tgt_of a = Some t /\ tgt_of b = Some t.
Proof.
  rewrite same2_tgt. destruct (tgt_of a) as [ta|], (tgt_of b) as [tb|]; split; try discriminate.
  - intros H. apply tgt_eqb_eq in H. subst. now exists tb.
  - intros (t & A & B). inversion A; inversion B; subst. now apply tgt_eqb_eq.
  - intros (t & A & B). discriminate.
  - intros (t & A & B). discriminate.
  - intros (t & A & B). discriminate.
Qed.

Section Independent2.
  Variable lib main : modctx.
  Variable init call libname : ident.
  Local Notation pn := (fun mt : bool * tok => pyname2_at lib main init call libname (fst mt) (snd mt)).
  Local Notation occs := (occurrences2 lib main init call libname).

  Theorem project_query_independent ts q o :
    In o (occs ts q) -> occs ts o = occs ts q.
  Proof.
    unfold occurrences2. intros H. apply filter_In in H as [_ H]. apply andb_prop in H as [Hn Hs].
    apply N.eqb_eq in Hn. apply same2_true in Hs as (t & Tq & To).
    apply filter_ext. intros c. rewrite Hn. f_equal.
    rewrite !same2_tgt, Tq, To. reflexivity.
  Qed.

  Theorem project_query_reflexive ts q t :
    In q ts -> tgt_of (pn q) = Some t -> In q (occs ts q).
  Proof.
    intros Hq Ht. unfold occurrences2. apply filter_In. split; [exact Hq|].
    rewrite N.eqb_refl. cbn [andb]. apply same2_true. now exists t.
  Qed.
End Independent2.
