(* C07 — specification side: what a name means under Python's import semantics.

   An object is a canonical path: (level, components).  [import a.b] binds [a] to the module (0,[a]);
   [import a.b as c] binds [c] to (0,[a;b]); [from m import n as k] binds [k] to the attribute n of
   the module m, written (0, abs(m) ++ [n]) when the layout resolves (m, level) to an absolute module
   name and (level, m ++ [n]) otherwise; a star import binds every public name of the module.
   Statements execute in order: a later binding of a name overrides an earlier one. *)
From Coq Require Import List NArith Bool.
From RopeVerif.Lib Require Import Text.
From RopeVerif.C07 Require Import Imports.
Import ListNotations.

(* (is it an attribute of a module rather than a module, level, path) *)
Definition obj := (bool * N * dotted)%type.
Definition obj_eqb (a b : obj) : bool :=
  Bool.eqb (fst (fst a)) (fst (fst b)) && N.eqb (snd (fst a)) (snd (fst b)) && dotted_eqb (snd a) (snd b).

Definition canon (lay : layout) (m : dotted) (l : N) (n : text) : obj :=
  match assoc modref_eqb (m, l) (l_abs lay) with
  | Some a => (true, 0%N, a ++ [n])
  | None => (true, l, m ++ [n])
  end.

Definition bind_npair (p : npair) : list (text * obj) :=
  match snd p, fst p with
  | Some a, d => [(a, (false, 0%N, d))]
  | None, h :: _ => [(h, (false, 0%N, [h]))]
  | None, [] => []
  end.

Definition bind_fpair (lay : layout) (m : dotted) (l : N) (p : fpair) : text * obj :=
  (match snd p with Some a => a | None => fst p end, canon lay m l (fst p)).

Definition bindings_info (lay : layout) (i : info) : list (text * obj) :=
  match i with
  | Normal ps => flat_map bind_npair ps
  | From m l ps => map (bind_fpair lay m l) ps
  | FromStar m l =>
      match assoc modref_eqb (m, l) (l_star lay) with
      | Some ns => map (fun n => (n, canon lay m l n)) ns
      | None => []
      end
  | Empty => []
  end.

Definition bindings (lay : layout) (l : list stmt) : list (text * obj) :=
  flat_map (fun s => bindings_info lay (s_info s)) l.

(* executing the bindings in order: the last binding of a name wins *)
Definition env (bs : list (text * obj)) (n : text) : option obj :=
  fold_left (fun acc b => if text_eqb (fst b) n then Some (snd b) else acc) bs None.

(* the object a used dotted primary denotes: the binding of its first name, extended by the attributes *)
Definition resolve (lay : layout) (l : list stmt) (u : dotted) : option obj :=
  match u with
  | [] => None
  | h :: r => match env (bindings lay l) h with
              | Some o => Some (fst o, snd o ++ r)
              | None => None
              end
  end.

(* modules loaded by plain imports: [import a.b.c] and [import a.b.c as q] load a, a.b, a.b.c;
   [plain_loaded] counts only the un-aliased ones (which also bind the first component) *)
Definition loaded_info (i : info) : list dotted :=
  match i with
  | Normal ps => flat_map (fun p => prefixes (fst p)) ps
  | _ => []
  end.
Definition plain_loaded_info (i : info) : list dotted :=
  match i with
  | Normal ps => flat_map (fun p => match snd p with None => prefixes (fst p) | Some _ => [] end) ps
  | _ => []
  end.
Definition loaded (l : list stmt) : list dotted := flat_map (fun s => loaded_info (s_info s)) l.
Definition plain_loaded (l : list stmt) : list dotted := flat_map (fun s => plain_loaded_info (s_info s)) l.

(* ------------------------------------------------------------------ boolean side conditions *)
(* no name is bound to two different objects by the import statements of the module *)
Definition consistent_bs (bs : list (text * obj)) : bool :=
  forallb (fun a => forallb (fun b => negb (text_eqb (fst a) (fst b)) || obj_eqb (snd a) (snd b)) bs) bs.
Definition consistent (lay : layout) (l : list stmt) : bool := consistent_bs (bindings lay l).

(* layout well-formedness for the star table: an un-aliased public name that is from-imported from a
   star-imported module is one of the names the star import of that module binds (the star table lists
   every public name of the module).  Since rope c04424c a star import absorbs a from-import only when
   _covered_by_star holds, so aliased and private names need no condition any more. *)
Definition in_star_table (lay : layout) (m : dotted) (lv : N) (i : info) : bool :=
  match i with
  | From m' lv' ps =>
      if same_mod m lv m' lv' then
        forallb (fun p => match snd p with
                          | Some _ => true
                          | None => starts_underscore (fst p) ||
                                    match assoc modref_eqb (m, lv) (l_star lay) with
                                    | Some ns => mem text_eqb (fst p) ns
                                    | None => false
                                    end
                          end) ps
      else true
  | _ => true
  end.
Definition star_table_complete (lay : layout) (l : list stmt) : bool :=
  forallb (fun s => match s_info s with
                    | FromStar m lv => forallb (fun s' => in_star_table lay m lv (s_info s')) l
                    | _ => true
                    end) l.
