(* C07 — organize_imports keeps loaded every submodule that is used through a dotted path and was
   loaded by an un-aliased plain import. *)
From Coq Require Import List NArith Bool Lia Permutation.
From RopeVerif.Lib Require Import Text.
From RopeVerif.C07 Require Import Imports Spec BasicsProofs SpecProofs RemoveProofs AddProofs SortProofs OrganizeProofs.
Import ListNotations.

Section Loaded.
  Variable lay : layout.
  Notation B := (bindings_info lay).

  (* a selected token that is a single name bound to something else than the module of that name *)
  Definition other_binding (t : dotted) (bs : list (text * obj)) : Prop :=
    exists a o, t = [a] /\ In (a, o) bs /\ o <> (false, 0%N, [a]).

  Definition backedL (sel0 sel1 ld : list dotted) (bs : list (text * obj)) : Prop :=
    forall t, In t sel1 -> In t sel0 \/ In t ld \/ other_binding t bs.
  Definition keptL (names sel : list dotted) (pl ld : list dotted) (bs : list (text * obj)) : Prop :=
    forall u, In u pl -> In u names -> In u ld \/ In u sel \/ other_binding u bs.

  Lemma other_binding_incl t a b : incl a b -> other_binding t a -> other_binding t b.
  Proof. intros Hi (x & o & E & Hin & Hne). exists x, o. auto. Qed.

  Definition ldP (ps : list npair) : list dotted := flat_map (fun p => prefixes (fst p)) ps.
  Definition pldP (ps : list npair) : list dotted :=
    flat_map (fun p => match snd p with None => prefixes (fst p) | Some _ => [] end) ps.

  Lemma npair_tokens p t : In t (prefixes (nprimary p)) ->
    In t (prefixes (fst p)) \/ other_binding t (bind_npair p).
  Proof.
    destruct p as [d [a|]]; unfold nprimary; cbn [fst snd]; [|auto].
    intros [<-|[]]. destruct (dotted_eqb d [a]) eqn:E.
    - apply dotted_eqb_eq in E. subst d. left. cbn. auto.
    - right. exists a, (false, 0%N, d). split; [reflexivity|]. split; [cbn; auto|].
      intros H. inversion H; subst. rewrite dotted_eqb_refl in E. discriminate.
  Qed.

  Lemma filter_npairs_loaded names : forall ps sel ps' sel',
    filter_pairs nprimary names sel ps = (ps', sel') ->
    backedL sel sel' (ldP ps') (flat_map bind_npair ps') /\
    keptL names sel (pldP ps) (ldP ps') (flat_map bind_npair ps').
  Proof.
    induction ps as [|p r IH]; intros sel ps' sel' H; cbn [filter_pairs] in H.
    - inversion H; subst. split; [intros t Ht; auto | intros u []].
    - destruct (select names sel (nprimary p)) as [b sel1] eqn:Es.
      destruct (filter_pairs nprimary names sel1 r) as [r' sel2] eqn:Er. inversion H; subst. clear H.
      destruct (IH _ _ _ Er) as (I1 & I2).
      destruct (select_spec _ _ _ _ _ Es) as [[-> ->]|(-> & -> & Hall)].
      + assert (Tok : forall t, In t (prefixes (nprimary p) ++ sel) ->
                  In t sel \/ In t (ldP (p :: r')) \/ other_binding t (flat_map bind_npair (p :: r'))).
        { intros t Ht. apply in_app_or in Ht as [Ht|Ht]; [|auto]. right.
          destruct (npair_tokens _ _ Ht) as [H|H].
          - left. cbn. apply in_or_app. auto.
          - right. eapply other_binding_incl; [|exact H]. cbn. apply incl_appl, incl_refl. }
        split.
        * intros t Ht. destruct (I1 _ Ht) as [H|[H|H]].
          -- apply Tok. exact H.
          -- right. left. cbn. apply in_or_app. auto.
          -- right. right. eapply other_binding_incl; [|exact H]. cbn. apply incl_appr, incl_refl.
        * intros u Hu Hn. cbn [pldP flat_map] in Hu. apply in_app_or in Hu as [Hu|Hu].
          -- left. cbn. apply in_or_app. left. destruct p as [d [a|]]; cbn in Hu |- *; [destruct Hu | exact Hu].
          -- destruct (I2 _ Hu Hn) as [H|[H|H]].
             ++ left. cbn. apply in_or_app. auto.
             ++ destruct (Tok _ H) as [H'|[H'|H']]; auto.
             ++ right. right. eapply other_binding_incl; [|exact H]. cbn. apply incl_appr, incl_refl.
      + split; [exact I1|].
        intros u Hu Hn. cbn [pldP flat_map] in Hu. apply in_app_or in Hu as [Hu|Hu].
        * right. left. destruct p as [d [a|]]; cbn [snd fst] in Hu; [destruct Hu|].
          apply Hall; [exact Hu | exact Hn].
        * exact (I2 _ Hu Hn).
  Qed.

  Lemma tagged_other a o bs : In (a, o) bs -> fst (fst o) = true -> other_binding [a] bs.
  Proof. intros Hin Ht. exists a, o. split; [reflexivity|]. split; [exact Hin|]. intros ->. discriminate. Qed.

  Lemma filter_info_loaded names sel i res sel1 :
    filter_info lay names sel i = (res, sel1) ->
    let i' := after_info res i in
    backedL sel sel1 (loaded_info i') (B i') /\ keptL names sel (plain_loaded_info i) (loaded_info i') (B i').
  Proof.
    assert (Triv : forall j, plain_loaded_info j = [] ->
              backedL sel sel (loaded_info j) (B j) /\ keptL names sel (plain_loaded_info j) (loaded_info j) (B j)).
    { intros j E. split; [intros t Ht; auto | rewrite E; intros u []]. }
    destruct i as [ps|m l ps|m l|]; cbn [filter_info]; intros H.
    - destruct (filter_pairs nprimary names sel ps) as [ps' sel'] eqn:E. inversion H; subst. cbn [after_info].
      exact (filter_npairs_loaded names _ _ _ _ E).
    - destruct (is_future_mod m); [inversion H; subst; apply Triv; reflexivity|].
      destruct (filter_pairs fprimary names sel ps) as [ps' sel'] eqn:E. inversion H; subst. cbn [after_info].
      split; [|intros u []]. intros t Ht.
      destruct (filter_pairs_sel fprimary names _ _ _ _ E _ Ht) as [H0|(p & Hp & Hpt)]; [auto|]. right. right.
      assert (Et : t = [match snd p with Some a => a | None => fst p end]).
      { destruct p as [n [a|]]; unfold fprimary in Hpt; cbn in Hpt; destruct Hpt as [<-|[]]; reflexivity. }
      subst t. apply (tagged_other _ (canon lay m l (fst p))).
      + cbn [bindings_info]. apply in_map_iff. exists p. split; [reflexivity | exact Hp].
      + unfold canon. destruct (assoc modref_eqb (m, l) (l_abs lay)); reflexivity.
    - destruct (is_future_mod m); [inversion H; subst; apply Triv; reflexivity|].
      destruct (assoc modref_eqb (m, l) (l_star lay)) as [ns|] eqn:El; [|inversion H; subst; apply Triv; reflexivity].
      destruct (star_select names sel ns) as [b sel'] eqn:E. inversion H; subst. cbn [after_info].
      split; [|intros u []]. intros t Ht.
      destruct (star_select_spec _ _ _ _ _ E) as [(-> & n0 & Hn0 & ->)|(-> & -> & _)]; [|auto].
      destruct Ht as [<-|Ht]; [|auto]. right. right. apply (tagged_other _ (canon lay m l n0)).
      + cbn [bindings_info]. rewrite El. apply in_map_iff. exists n0. auto.
      + unfold canon. destruct (assoc modref_eqb (m, l) (l_abs lay)); reflexivity.
    - inversion H; subst. apply Triv. reflexivity.
  Qed.

  Lemma loaded_cons s l : loaded (s :: l) = loaded_info (s_info s) ++ loaded l.
  Proof. reflexivity. Qed.
  Lemma plain_loaded_cons s l : plain_loaded (s :: l) = plain_loaded_info (s_info s) ++ plain_loaded l.
  Proof. reflexivity. Qed.

  Lemma remove_unused_from_loaded names : forall l sel l' sel',
    remove_unused_from lay names sel l = (l', sel') ->
    backedL sel sel' (loaded l') (bindings lay l') /\
    keptL names sel (plain_loaded l) (loaded l') (bindings lay l').
  Proof.
    induction l as [|s r IH]; intros sel l' sel' H; cbn [remove_unused_from] in H.
    - inversion H; subst. split; [intros t Ht; auto | intros u []].
    - destruct (filter_info lay names sel (s_info s)) as [res sel1] eqn:Ef.
      destruct (remove_unused_from lay names sel1 r) as [r' sel2] eqn:Er. inversion H; subst. clear H.
      destruct (filter_info_loaded _ _ _ _ _ Ef) as (F1 & F2). destruct (IH _ _ _ Er) as (I1 & I2).
      assert (Ei : s_info (match res with Some i => set_info s i | None => s end) = after_info res (s_info s)).
      { destruct res; cbn; [apply s_info_set_info | reflexivity]. }
      rewrite loaded_cons, bindings_cons, Ei.
      assert (Lift1 : forall t, In t sel1 -> In t sel \/ In t (loaded_info (after_info res (s_info s)) ++ loaded r') \/
                 other_binding t (B (after_info res (s_info s)) ++ bindings lay r')).
      { intros t Ht. destruct (F1 _ Ht) as [H|[H|H]]; [auto | right; left; apply in_or_app; auto|].
        right. right. eapply other_binding_incl; [|exact H]. apply incl_appl, incl_refl. }
      split.
      + intros t Ht. destruct (I1 _ Ht) as [H|[H|H]].
        * apply Lift1. exact H.
        * right. left. apply in_or_app. auto.
        * right. right. eapply other_binding_incl; [|exact H]. apply incl_appr, incl_refl.
      + intros u Hu Hn. rewrite plain_loaded_cons in Hu. apply in_app_or in Hu as [Hu|Hu].
        * destruct (F2 _ Hu Hn) as [H|[H|H]]; [left; apply in_or_app; auto | auto|].
          right. right. eapply other_binding_incl; [|exact H]. apply incl_appl, incl_refl.
        * destruct (I2 _ Hu Hn) as [H|[H|H]].
          -- left. apply in_or_app. auto.
          -- destruct (Lift1 _ H) as [H'|[H'|H']]; auto.
          -- right. right. eapply other_binding_incl; [|exact H]. apply incl_appr, incl_refl.
  Qed.

  (* a plain import of d binds the first component of d to the module of that name *)
  Lemma plain_loaded_binding l u : In u (plain_loaded l) -> In (hd [] u, (false, 0%N, [hd [] u])) (bindings lay l).
  Proof.
    unfold plain_loaded, bindings. rewrite !in_flat_map. intros (s & Hs & Hu). exists s. split; [exact Hs|].
    destruct (s_info s) as [ps|m l0 ps|m l0|]; cbn in Hu; try destruct Hu. cbn [bindings_info].
    apply in_flat_map in Hu as (p & Hp & Hu). apply in_flat_map. exists p. split; [exact Hp|].
    destruct p as [d [a|]]; cbn [snd fst] in Hu; [destruct Hu|].
    rewrite (prefixes_hd _ _ Hu). destruct d as [|h rr]; [destruct Hu|]. cbn. auto.
  Qed.

  Lemma remove_unused_loaded names l u :
    consistentP (bindings lay l) -> In u names -> In u (plain_loaded l) ->
    In u (loaded (remove_unused lay names l)).
  Proof.
    intros Hc Hn Hu. unfold remove_unused.
    destruct (remove_unused_from lay names [] l) as [l' sel'] eqn:E. cbn [fst].
    destruct (remove_unused_from_loaded _ _ _ _ _ E) as (_ & K).
    destruct (remove_unused_from_spec _ _ _ _ _ _ E) as (Hincl & _).
    destruct (K _ Hu Hn) as [H|[[]|(a & o & -> & Hin & Hne)]]; [exact H|].
    exfalso. apply Hne. apply (Hc a); [apply Hincl; exact Hin|]. exact (plain_loaded_binding _ _ Hu).
  Qed.

  (* ---------------------------------------------------------------- merging keeps what is loaded *)
  Lemma loaded_add split s new s' : True -> True -> adding_visit split s new = Some s' ->
    eqset (loaded_info (s_info s')) (loaded_info (s_info s) ++ loaded_info new) /\ True.
  Proof.
    intros _ _ H. split; [|exact I]. pose proof (adding_visit_inv _ _ _ _ H) as Hi.
    destruct (s_info s) as [ps|m l ps|m l|] eqn:Ei; destruct new as [qs|m' l' qs|m' l'|]; try contradiction.
    - destruct Hi as [[-> ->]|(d1 & d2 & -> & -> & [[P ->]|[P ->]])].
      + rewrite Ei. intros x. rewrite in_app_iff. tauto.
      + rewrite Ei. intros x. rewrite in_app_iff. cbn [loaded_info flat_map fst]. rewrite !app_nil_r.
        split; [tauto|]. intros [Hx|Hx]; [exact Hx | exact (proper_prefix_prefixes _ _ P _ Hx)].
      + rewrite s_info_set_info. intros x. rewrite in_app_iff. cbn [loaded_info flat_map fst]. rewrite !app_nil_r.
        split; [tauto|]. intros [Hx|Hx]; [exact (proper_prefix_prefixes _ _ P _ Hx) | exact Hx].
    - destruct Hi as (<- & <- & [(-> & -> & ->)|(-> & ->)]); [rewrite Ei | rewrite s_info_set_info]; apply eqset_refl.
    - destruct Hi as (<- & <- & _ & ->). rewrite s_info_set_info. apply eqset_refl.
    - destruct Hi as (<- & <- & _ & ->). rewrite Ei. apply eqset_refl.
    - destruct Hi as (<- & <- & ->). rewrite Ei. apply eqset_refl.
  Qed.

  Lemma loaded_singles i : True ->
    Forall (fun _ => True) (singles i) /\
    (Nat.ltb 1 (pair_count i) = true -> eqset (flat_map loaded_info (singles i)) (loaded_info i)).
  Proof.
    intros _. split; [apply Forall_forall; auto|]. intros _.
    destruct i as [ps|m l ps|m l|]; cbn [singles]; try apply eqset_refl.
    - cbn [loaded_info]. induction ps as [|p r IH]; [apply eqset_refl|].
      cbn [map flat_map loaded_info]. rewrite app_nil_r. apply eqset_app; [apply eqset_refl | exact IH].
    - cbn [loaded_info]. induction ps as [|p r IH]; [apply eqset_refl|]. cbn [map flat_map loaded_info]. exact IH.
  Qed.

  Lemma loaded_reparse l : loaded (reparse l) = loaded l.
  Proof.
    unfold reparse. induction l as [|s l IH]; [reflexivity|]. cbn [filter].
    unfold nonempty at 1. destruct (is_empty (s_info s)) eqn:E; cbn [negb].
    - rewrite IH, loaded_cons. destruct (s_info s) as [[|? ?]|? ? [|? ?]| |]; cbn in E; try discriminate; reflexivity.
    - cbn [map]. rewrite !loaded_cons. cbn [s_info]. rewrite IH. reflexivity.
  Qed.

  Lemma loaded_sort alpha l : eqset (loaded (sort_imports lay alpha l)) (loaded l).
  Proof.
    intros x. unfold loaded. rewrite !in_flat_map. split.
    - intros (s & Hs & Hx). apply in_sort_imports in Hs as [Hs _]. eauto.
    - intros (s & Hs & Hx). exists s. split; [|exact Hx]. apply in_sort_imports. split; [exact Hs|].
      destruct (grouped lay s) eqn:G; [reflexivity|]. unfold grouped, group_of in G.
      destruct (s_info s) as [[|p ps]|m l0 ps|m l0|]; cbn in G, Hx; try discriminate; destruct Hx.
  Qed.

  Theorem organize_loaded_preserved pr used exported l out :
    organize lay pr used exported l = Some out -> consistent lay l = true ->
    forall u, In u (names_unused used exported) -> In u (plain_loaded l) -> In u (loaded out).
  Proof.
    unfold organize, organize_gen. intros H Hc u Hn Hu. apply consistent_bs_spec in Hc.
    set (names := names_unused used exported) in *.
    set (l1 := remove_unused lay names l) in *.
    assert (P1 : In u (loaded l1)) by (apply remove_unused_loaded; assumption).
    set (okT := fun _ : info => True).
    assert (O1 : Forall (fun s => okT (s_info s)) l1) by (apply Forall_forall; intros; exact I).
    set (l2 := if p_split pr then force_single l1 else l1) in *.
    assert (P2 : eqset (loaded l2) (loaded l1) /\ Forall (fun s => okT (s_info s)) l2).
    { subst l2. destruct (p_split pr); [|split; [apply eqset_refl | exact O1]].
      apply (force_single_spec loaded_info okT eq_refl I loaded_add loaded_singles l1 O1). }
    destruct P2 as (P2 & O2).
    destruct (remove_duplicates (p_split pr) l2) as [l3|] eqn:E3; [|discriminate]. cbn [opt_bind] in H.
    destruct (remove_duplicates_spec loaded_info okT eq_refl I loaded_add (p_split pr) l2 l3 O2 E3) as (P3 & _).
    assert (P4 : eqset (loaded out) (loaded l3)).
    { inversion H; subst out. rewrite loaded_reparse. eapply eqset_trans; [apply loaded_sort|].
      rewrite loaded_reparse. apply eqset_refl. }
    apply P4, P3, P2. exact P1.
  Qed.
End Loaded.
