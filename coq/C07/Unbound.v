(* C07 — model of the used-name computation (module_imports._GlobalUnboundNameFinder and
   _LocalUnboundNameFinder), definitions only.

   A module body is abstracted to the expressions each statement contains (targets included: the finder
   visits every ast.Name, whatever its context) and to the scopes opened by def / class, each with the
   names its scope table defines (rope: Scope.get_names(); the harness takes them from CPython's symtable).
   As in the code: a Name or a dotted chain rooted at a Name is unbound when its first name is not bound;
   add_unbound records every dotted prefix; inside a def or class *all* children of the node (decorators,
   defaults, annotations, bases, body) are visited with the local finder; a name is bound there when the
   scope's own table has it or an enclosing scope propagates it (functions propagate their table, classes
   nothing, the module the non-import globals). *)
From Coq Require Import List NArith Bool.
From RopeVerif.Lib Require Import Text.
From RopeVerif.C07 Require Import Imports.
Import ListNotations.

Inductive expr :=
| EName (n : text)
| EAttr (e : expr) (a : text)
| ECall (f : expr) (args : list expr)
| EOther (subs : list expr).

Inductive node :=
| NExprs (es : list expr)                                  (* a simple statement *)
| NScope (is_class : bool) (names : list text) (outer : list expr) (kids : list node).
(* outer: decorators, default values, annotations, base classes - evaluated by Python in the enclosing scope *)

Fixpoint chain (e : expr) : option dotted :=
  match e with
  | EName n => Some [n]
  | EAttr e' a => match chain e' with Some d => Some (d ++ [a]) | None => None end
  | _ => None
  end.

(* the expression under a run of attribute accesses *)
Fixpoint attr_base (e : expr) : expr :=
  match e with EAttr e' _ => attr_base e' | _ => e end.

Definition tmem (n : text) (l : list text) : bool := mem text_eqb n l.

Fixpoint visit_expr (bound : text -> bool) (e : expr) {struct e} : list dotted :=
  let many := fix many (l : list expr) : list dotted :=
                match l with [] => [] | x :: r => visit_expr bound x ++ many r end in
  match e with
  | EName n => if bound n then [] else [[n]]
  | EAttr e' a =>
      match chain e with
      | Some d => if bound (hd [] d) then [] else prefixes d
      | None =>
          (* _Attribute: self.visit(the expression under the attribute accesses) *)
          (fix base (x : expr) : list dotted :=
             match x with
             | EAttr x' _ => base x'
             | EName n => if bound n then [] else [[n]]
             | ECall f args => visit_expr bound f ++ many args
             | EOther subs => many subs
             end) e'
      end
  | ECall f args => visit_expr bound f ++ many args
  | EOther subs => many subs
  end.

Fixpoint visit_node (b bp : text -> bool) (n : node) {struct n} : list dotted :=
  match n with
  | NExprs es => flat_map (visit_expr b) es
  | NScope is_class names outer kids =>
      let b' := fun x => tmem x names || bp x in
      let bp' := if is_class then bp else b' in
      (* _visit_child_scope: every child of the node goes to the local finder, the outer parts too *)
      flat_map (visit_expr b') outer ++
      (fix many (l : list node) : list dotted :=
         match l with [] => [] | k :: r => visit_node b' bp' k ++ many r end) kids
  end.

(* the same traversal with Python's scoping: the outer parts belong to the enclosing scope *)
Fixpoint py_visit_node (b bp : text -> bool) (n : node) {struct n} : list dotted :=
  match n with
  | NExprs es => flat_map (visit_expr b) es
  | NScope is_class names outer kids =>
      let b' := fun x => tmem x names || bp x in
      let bp' := if is_class then bp else b' in
      flat_map (visit_expr b) outer ++
      (fix many (l : list node) : list dotted :=
         match l with [] => [] | k :: r => py_visit_node b' bp' k ++ many r end) kids
  end.

(* _GlobalUnboundNameFinder over the module body; gnames = the module's non-import global names *)
Definition unbound_names (gnames : list text) (body : list node) : list dotted :=
  let g := fun x => tmem x gnames in
  flat_map (visit_node g g) body.

(* specification: the global names the module really uses *)
Definition py_unbound_names (gnames : list text) (body : list node) : list dotted :=
  let g := fun x => tmem x gnames in
  flat_map (py_visit_node g g) body.
