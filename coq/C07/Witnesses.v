(* C07 — concrete witnesses: the non-vacuity examples and the inputs on which the faithful model (and
   rope) do not satisfy the full-strength statements.  Names are spelled as code points. *)
From Coq Require Import List NArith Bool.
From RopeVerif.Lib Require Import Text.
From RopeVerif.C07 Require Import Imports Spec.
Import ListNotations.

Definition n_la : text := [108;97]%N.  (* "la" *)
Definition n_lb : text := [108;98]%N.  (* "lb" *)
Definition n_pkg : text := [112;107;103]%N.  (* "pkg" *)
Definition n_s : text := [115]%N.  (* "s" *)
Definition n_t : text := [116]%N.  (* "t" *)
Definition n_x : text := [120]%N.  (* "x" *)
Definition n_y : text := [121]%N.  (* "y" *)
Definition n_z : text := [122]%N.  (* "z" *)
Definition n_f : text := [102]%N.  (* "f" *)
Definition n_q : text := [113]%N.  (* "q" *)
Definition n_a : text := [97]%N.  (* "a" *)
Definition n_b : text := [98]%N.  (* "b" *)
Definition n_os : text := [111;115]%N.  (* "os" *)
Definition n_sys : text := [115;121;115]%N.  (* "sys" *)
Definition n_u : text := [117]%N.  (* "u" *)
Definition n_w : text := [119]%N.  (* "w" *)
Definition n_lc : text := [108;99]%N.  (* "lc" *)

(* a project with modules la (x, y), lb (x, z), lc (w, u) and a package pkg with submodules s (f, x), t (y) *)
Definition w_lay : layout :=
  {| l_star := [(([n_la], 0%N), [n_x; n_y]); (([n_lb], 0%N), [n_x; n_z]); (([n_lc], 0%N), [n_w; n_u]);
                (([n_pkg; n_s], 0%N), [n_f; n_x]); (([n_pkg; n_t], 0%N), [n_y]);
                (([n_s], 1%N), [n_f; n_x])];
     l_abs := [(([n_s], 1%N), [n_pkg; n_s]); (([], 1%N), [n_pkg])];
     l_kind := [(([n_la], 0%N), 3%N); (([n_lb], 0%N), 3%N); (([n_lc], 0%N), 3%N); (([n_pkg], 0%N), 3%N);
                (([n_pkg; n_s], 0%N), 3%N); (([n_pkg; n_t], 0%N), 3%N); (([n_s], 1%N), 3%N);
                (([n_os], 0%N), 1%N); (([n_sys], 0%N), 1%N)] |}.

Definition st (i : info) : stmt := {| s_info := i; s_txt := Some (render i) |}.
Definition w_prefs : prefs := {| p_split := false; p_alpha := false |}.
Definition w_split : prefs := {| p_split := true; p_alpha := false |}.

(* import os, la / from lb import z, x / import pkg.s / import pkg.t / import sys
   body uses la.x, z, pkg.s.f, sys; __all__ = ["x"] *)
Definition ex_stmts : list stmt :=
  [st (Normal [([n_os], None); ([n_la], None)]); st (From [n_lb] 0%N [(n_z, None); (n_x, None)]);
   st (Normal [([n_pkg; n_s], None)]); st (Normal [([n_pkg; n_t], None)]); st (Normal [([n_sys], None)])].
Definition ex_used : list dotted := [[n_la; n_x]; [n_z]; [n_pkg; n_s; n_f]; [n_sys]].
Definition ex_exported : list text := [n_x].

(* from la import x / from lb import x   — body uses x *)
Definition dup_stmts : list stmt := [st (From [n_la] 0%N [(n_x, None)]); st (From [n_lb] 0%N [(n_x, None)])].
Definition dup_used : list dotted := [[n_x]].

(* from la import * / from la import x as q   — body uses q and y *)
Definition absorb_stmts : list stmt := [st (FromStar [n_la] 0%N); st (From [n_la] 0%N [(n_x, Some n_q)])].
Definition absorb_used : list dotted := [[n_q]; [n_y]].

(* import pkg.t / import pkg.s   — body uses pkg.s.f *)
Definition idem_stmts : list stmt := [st (Normal [([n_pkg; n_t], None)]); st (Normal [([n_pkg; n_s], None)])].
Definition idem_used : list dotted := [[n_pkg; n_s; n_f]].

(* import pkg.s as q / import pkg   — body uses pkg.s.f *)
Definition load_stmts : list stmt := [st (Normal [([n_pkg; n_s], Some n_q)]); st (Normal [([n_pkg], None)])].
Definition load_used : list dotted := [[n_pkg; n_s; n_f]].

(* from la import *   — nothing used in the body, __all__ = ["x"] *)
Definition star_stmts : list stmt := [st (FromStar [n_la] 0%N)].
Definition star_exported : list text := [n_x].

(* from la import * / from .s import f (inside pkg)   — body uses y, f *)
Definition rel_stmts : list stmt := [st (FromStar [n_la] 0%N); st (From [n_s] 1%N [(n_f, None)])].
Definition rel_used : list dotted := [[n_y]; [n_f]].

(* ------------------------------------------------------------------ a module text for the layout theorems
   """doc""" / (blank) / x = 1 / (blank) / import os / (blank) / (blank) / print(x, os) *)
From RopeVerif.C07 Require Import Layout.
Definition lay_lines : list text :=
  [[34;34;34;100;111;99;34;34;34;10]%N;
   [10]%N;
   [120;32;61;32;49;10]%N;
   [10]%N;
   [105;109;112;111;114;116;32;111;115;10]%N;
   [10]%N;
   [10]%N;
   [112;114;105;110;116;40;120;44;32;111;115;41;10]%N].
Definition n_os_ : text := [111;115]%N.
Definition lay_imps : list lstmt :=
  [{| ls_stmt := st (Normal [([n_os_], None)]); ls_start := 5; ls_end := 6; ls_blank := 1; ls_new := None |}].

(* from __future__ import x / from la import y — body uses y *)
Definition fut_stmts : list stmt := [st (From [t_future] 0%N [(n_x, None)]); st (From [n_la] 0%N [(n_y, None)])].
Definition fut_used : list dotted := [[n_y]].

(* from pkg import s / import pkg.s: equal keys under sort_imports_alphabetically *)
Definition tie_a : stmt := st (From [n_pkg] 0%N [(n_s, None)]).
Definition tie_b : stmt := st (Normal [([n_pkg; n_s], None)]).

(* import la / from la import x — body uses x and la.x (one object through two routes) *)
Definition routes_stmts : list stmt := [st (Normal [([n_la], None)]); st (From [n_la] 0%N [(n_x, None)])].
Definition routes_used : list dotted := [[n_x]; [n_la; n_x]; [n_la; n_y]].

(* def g(x=x): return x   /   print(g(), la.y) *)
From RopeVerif.C07 Require Import Unbound.
Definition n_g : text := [103%N].
Definition n_print : text := [112;114;105;110;116]%N.
Definition hidden_body : list node :=
  [NScope false [n_x] [EName n_x] [NExprs [EName n_x]];
   NExprs [ECall (EName n_print) [ECall (EName n_g) []; EAttr (EName n_la) n_y]]].

(* the module m imports itself:  import m / import la  — body uses m.g and la.x, resp. also the bare m *)
Definition n_m : text := [109%N].
Definition self_stmts : list stmt := [st (Normal [([n_m], None)]); st (Normal [([n_la], None)])].
Definition self_used : list dotted := [[n_m; n_g]; [n_la; n_x]].
Definition self_used_bare : list dotted := [[n_m]; [n_m; n_g]; [n_la; n_x]].
