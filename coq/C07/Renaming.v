(* C07 — the two actions that rewrite the body: handle_long_imports and froms_to_imports (definitions only).

   rope renames by object identity: occurrences.create_finder looks for the *word* (the last component of
   the long name, resp. the imported name or alias) and keeps the occurrences whose pyname is the pyname of
   the renamed thing; rename_in_module(..., replace_primary=True) (resp. get_primary_range in
   _rename_in_module) then replaces the whole primary up to that word.  The model identifies a pyname
   with the canonical path the primary resolves to under the import statements of the module
   (Spec.resolve); this is exact as long as no module re-exports another module's objects (the harness
   flags the standard-library cases where it is not). *)
From Coq Require Import List NArith Bool.
From RopeVerif.Lib Require Import Text.
From RopeVerif.C07 Require Import Imports Spec.
Import ListNotations.

Definition obj_path (o : option obj) : option (N * dotted) :=
  match o with Some x => Some (snd (fst x), snd x) | None => None end.
Definition path_eqb (a b : option (N * dotted)) : bool :=
  match a, b with
  | Some x, Some y => N.eqb (fst x) (fst y) && dotted_eqb (snd x) (snd y)
  | _, _ => false
  end.

(* the first position i >= from with u[i] = word and u[:i+1] denoting [target]: the primary u[:i+1] is
   replaced by [repl] *)
Fixpoint rename_at (lay : layout) (l : list stmt) (word : text) (target : option (N * dotted)) (repl : dotted)
         (done : dotted) (rest : dotted) : option dotted :=
  match rest with
  | [] => None
  | w :: r =>
      let prim := done ++ [w] in
      if text_eqb w word && path_eqb (obj_path (resolve lay l prim)) target then Some (repl ++ r)
      else rename_at lay l word target repl prim r
  end.

(* ------------------------------------------------------------------ handle_long_imports *)
(* LongImportVisitor._is_long with maxdots = 2, maxlength = 27 *)
Definition is_long (d : dotted) : bool :=
  Nat.ltb 3 (length d) || (Nat.ltb 1 (length d) && Nat.ltb 27 (length (render_dotted d))).

Definition long_names (i : info) : list dotted :=
  match i with
  | Normal ps => flat_map (fun p => match snd p with
                                    | None => if is_long (fst p) then [fst p] else []
                                    | Some _ => []
                                    end) ps
  | _ => []
  end.

(* _rename_in_module(name, last component): every primary ending in the word d[-1] that denotes the
   module d (a.b.c.d itself, or the same module reached through another name) becomes d[-1] *)
Definition rename_long (lay : layout) (l : list stmt) (d : dotted) (u : dotted) : dotted :=
  match rename_at lay l (last d []) (Some (0%N, d)) [last d []] [] u with
  | Some u' => u'
  | None => u
  end.

Definition handle_long_imports (lay : layout) (pr : prefs) (used : list dotted) (exported : list text)
           (l : list stmt) : option (list stmt * list dotted) :=
  let longs := flat_map (fun s => long_names (s_info s)) l in
  let news := map (fun d => From (removelast d) 0%N [(last d [], None)]) longs in
  let l1 := reparse (fold_left (add_import (p_split pr)) news l) in
  let used' := fold_left (fun us d => map (rename_long lay l1 d) us) longs used in
  match organize_gen lay pr false (names_unused used' exported) l1 with
  | Some l2 => Some (l2, used')
  | None => None
  end.

(* ------------------------------------------------------------------ froms_to_imports *)
(* _from_to_normal: every use whose first name is the imported name (alias or name) becomes module.name;
   so does every longer primary ending in that word that denotes the same object as the imported name
   (the object reached through another import: import pkg / from pkg import f / pkg.f) *)
Definition rename_from (lay : layout) (l : list stmt) (m : dotted) (n imported : text) (u : dotted) : dotted :=
  match u with
  | h :: r =>
      if text_eqb h imported then m ++ n :: r
      else match rename_at lay l imported (obj_path (resolve lay l [imported])) (m ++ [n]) [h] r with
           | Some u' => u'
           | None => u
           end
  | [] => []
  end.

(* _is_transformable_to_normal (rope 15d6126): a FromImport that is not a __future__ import; before that
   commit "from __future__ import annotations" became "import __future__" (corpus/C07/C07-froms-future.json) *)
Definition from_renames (i : info) : list (dotted * text * text) :=
  match i with
  | From m _ ps => if is_future_mod m then []
                   else map (fun p => (m, fst p, match snd p with Some a => a | None => fst p end)) ps
  | _ => []
  end.

Definition to_normal (i : info) : info :=
  match i with
  | From m _ _ => if is_future_mod m then i else Normal [(m, None)]
  | FromStar m _ => if is_future_mod m then i else Normal [(m, None)]
  | _ => i
  end.

Definition froms_to_imports (lay : layout) (pr : prefs) (used : list dotted) (exported : list text)
           (l : list stmt) : option (list stmt * list dotted) :=
  (* _clean_up_imports *)
  let l1 := expand_stars lay used exported l in
  let l2 := relatives_to_absolutes lay l1 in
  opt_bind (remove_duplicates (p_split pr) l2) (fun l3 =>
  let l4 := reparse (remove_unused lay (names_unused used exported) l3) in
  let rens := flat_map (fun s => from_renames (s_info s)) l4 in
  let used' := fold_left (fun us r => map (rename_from lay l4 (fst (fst r)) (snd (fst r)) (snd r)) us) rens used in
  let l5 := map (fun s => set_info s (to_normal (s_info s))) l4 in
  opt_bind (remove_duplicates (p_split pr) l5) (fun l6 => Some (reparse l6, used'))).
