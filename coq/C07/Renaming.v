(* C07 — the two actions that rewrite the body: handle_long_imports and froms_to_imports (definitions only).

   rope renames by object identity: occurrences.create_finder looks for the *word* (the last component of
   the long name, resp. the imported name or alias) and keeps the occurrences whose pyname is the pyname of
   the renamed thing; rename_in_module(..., replace_primary=True) (resp. get_primary_range in
   _rename_in_module) then replaces the whole primary up to that word.  The model identifies a pyname
   with the canonical path the primary resolves to under the import statements of the module
   (Spec.resolve); this is exact as long as no module re-exports another module's objects (the harness
   flags the standard-library cases where it is not). *)
From Coq Require Import List NArith Bool.
From RopeVerif.Lib Require Import Text.
From RopeVerif.C07 Require Import Imports Spec.
Import ListNotations.

Definition obj_path (o : option obj) : option (N * dotted) :=
  match o with Some x => Some (snd (fst x), snd x) | None => None end.
Definition path_eqb (a b : option (N * dotted)) : bool :=
  match a, b with
  | Some x, Some y => N.eqb (fst x) (fst y) && dotted_eqb (snd x) (snd y)
  | _, _ => false
  end.

(* the first position i >= from with u[i] = word and u[:i+1] denoting [target]: the primary u[:i+1] is
   replaced by [repl] *)
Fixpoint rename_at (lay : layout) (l : list stmt) (word : text) (target : option (N * dotted)) (repl : dotted)
         (done : dotted) (rest : dotted) : option dotted :=
  match rest with
  | [] => None
  | w :: r =>
      let prim := done ++ [w] in
      if text_eqb w word && path_eqb (obj_path (resolve lay l prim)) target then Some (repl ++ r)
      else rename_at lay l word target repl prim r
  end.

(* ------------------------------------------------------------------ handle_long_imports *)
(* LongImportVisitor._is_long with maxdots = 2, maxlength = 27 *)
Definition is_long (d : dotted) : bool :=
  Nat.ltb 3 (length d) || (Nat.ltb 1 (length d) && Nat.ltb 27 (length (render_dotted d))).

Definition long_names (i : info) : list dotted :=
  match i with
  | Normal ps => flat_map (fun p => match snd p with
                                    | None => if is_long (fst p) then [fst p] else []
                                    | Some _ => []
                                    end) ps
  | _ => []
  end.

(* _rename_in_module(name, last component): every primary ending in the word d[-1] that denotes the
   module d (a.b.c.d itself, or the same module reached through another name) becomes d[-1] *)
Definition rename_long (lay : layout) (l : list stmt) (d : dotted) (u : dotted) : dotted :=
  match rename_at lay l (last d []) (Some (0%N, d)) [last d []] [] u with
  | Some u' => u'
  | None => u
  end.

Definition handle_long_imports (lay : layout) (pr : prefs) (used : list dotted) (exported : list text)
           (l : list stmt) : option (list stmt * list dotted) :=
  let longs := flat_map (fun s => long_names (s_info s)) l in
  let news := map (fun d => From (removelast d) 0%N [(last d [], None)]) longs in
  let l1 := reparse (fold_left (add_import (p_split pr)) news l) in
  let used' := fold_left (fun us d => map (rename_long lay l1 d) us) longs used in
  match organize_gen lay pr false (names_unused used' exported) l1 with
  | Some l2 => Some (l2, used')
  | None => None
  end.

(* ------------------------------------------------------------------ froms_to_imports *)
(* _from_to_normal: every use whose first name is the imported name (alias or name) becomes module.name;
   so does every longer primary ending in that word that denotes the same object as the imported name
   (the object reached through another import: import pkg / from pkg import f / pkg.f) *)
Definition rename_from (lay : layout) (l : list stmt) (m : dotted) (n imported : text) (u : dotted) : dotted :=
  match u with
  | h :: r =>
      if text_eqb h imported then m ++ n :: r
      else match rename_at lay l imported (obj_path (resolve lay l [imported])) (m ++ [n]) [h] r with
           | Some u' => u'
           | None => u
           end
  | [] => []
  end.

(* _is_transformable_to_normal (rope 15d6126): a FromImport that is not a __future__ import; before that
   commit "from __future__ import annotations" became "import __future__" (corpus/C07/C07-froms-future.json) *)
Definition from_renames (i : info) : list (dotted * text * text) :=
  match i with
  | From m _ ps => if is_future_mod m then []
                   else map (fun p => (m, fst p, match snd p with Some a => a | None => fst p end)) ps
  | _ => []
  end.

Definition to_normal (i : info) : info :=
  match i with
  | From m _ _ => if is_future_mod m then i else Normal [(m, None)]
  | FromStar m _ => if is_future_mod m then i else Normal [(m, None)]
  | _ => i
  end.

Definition froms_to_imports (lay : layout) (pr : prefs) (used : list dotted) (exported : list text)
           (l : list stmt) : option (list stmt * list dotted) :=
  (* _clean_up_imports *)
  let l1 := expand_stars lay used exported l in
  let l2 := relatives_to_absolutes lay l1 in
  opt_bind (remove_duplicates (p_split pr) l2) (fun l3 =>
  let l4 := reparse (remove_unused lay (names_unused used exported) l3) in
  let rens := flat_map (fun s => from_renames (s_info s)) l4 in
  let used' := fold_left (fun us r => map (rename_from lay l4 (fst (fst r)) (snd (fst r)) (snd r)) us) rens used in
  let l5 := map (fun s => set_info s (to_normal (s_info s))) l4 in
  opt_bind (remove_duplicates (p_split pr) l5) (fun l6 => Some (reparse l6, used'))).

(* ------------------------------------------------------------------ _remove_self_imports *)
(* SelfImportVisitor: [me] is the absolute name of the module being tidied.  A plain import of [me] is
   dropped and its name (alias or dotted name) is to be fixed; a from-import of [me] is emptied and its
   aliases renamed back; a from-import of the package that imports the module [me] itself loses that pair
   and the imported name is to be fixed. *)
Definition abs_mod (lay : layout) (m : dotted) (lv : N) : option dotted :=
  match assoc modref_eqb (m, lv) (l_abs lay) with
  | Some a => Some a
  | None => if N.eqb lv 0 then Some m else None
  end.

Definition is_me (me : dotted) (o : option dotted) : bool :=
  match o with Some a => dotted_eqb a me | None => false end.

Definition self_info (lay : layout) (me : dotted) (i : info) : info :=
  match i with
  | Normal ps => Normal (filter (fun p => negb (dotted_eqb (fst p) me)) ps)
  | From m lv ps =>
      if is_me me (abs_mod lay m lv) then Empty
      else match abs_mod lay m lv with
           | Some a => From m lv (filter (fun p => negb (dotted_eqb (a ++ [fst p]) me)) ps)
           | None => i
           end
  | FromStar m lv => if is_me me (abs_mod lay m lv) then Empty else i
  | Empty => Empty
  end.

(* to_be_fixed: the spellings under which the module names itself *)
Definition self_fixed (lay : layout) (me : dotted) (i : info) : list dotted :=
  match i with
  | Normal ps => flat_map (fun p => if dotted_eqb (fst p) me then [nprimary p] else []) ps
  | From m lv ps =>
      if is_me me (abs_mod lay m lv) then []
      else match abs_mod lay m lv with
           | Some a => flat_map (fun p => if dotted_eqb (a ++ [fst p]) me then [fprimary p] else []) ps
           | None => []
           end
  | _ => []
  end.

(* to_be_renamed: (alias, name) of from me import name as alias *)
Definition self_renamed (lay : layout) (me : dotted) (i : info) : list (text * text) :=
  match i with
  | From m lv ps =>
      if is_me me (abs_mod lay m lv)
      then flat_map (fun p => match snd p with Some a => [(a, fst p)] | None => [] end) ps
      else []
  | _ => []
  end.

(* _rename_in_module(name, "", till_dot=True): mod.attr -> attr for every primary that reaches the module
   through the word name[-1]; None = an occurrence not followed by a dot (ValueError) *)
Definition fix_self (lay : layout) (l : list stmt) (me : dotted) (name : dotted) (u : dotted) : option dotted :=
  match rename_at lay l (last name []) (Some (0%N, me)) [] [] u with
  | Some [] => None
  | Some r => Some r
  | None => Some u
  end.

Fixpoint map_opt {A B} (f : A -> option B) (l : list A) : option (list B) :=
  match l with
  | [] => Some []
  | x :: r => match f x, map_opt f r with Some y, Some r' => Some (y :: r') | _, _ => None end
  end.

Definition rename_alias (a n : text) (u : dotted) : dotted :=
  match u with h :: r => if text_eqb h a then n :: r else u | [] => [] end.

(* returns the statements and the used primaries after the step; when a bare use of the module's own
   name stops the first renaming, nothing is changed (the case of several names with a later failure is
   left to the harness flag) *)
Definition remove_self_imports (lay : layout) (me : dotted) (used : list dotted) (l : list stmt)
  : list stmt * list dotted :=
  let fixed := flat_map (fun s => self_fixed lay me (s_info s)) l in
  let renamed := flat_map (fun s => self_renamed lay me (s_info s)) l in
  match fold_left (fun acc name => match acc with
                                   | Some us => map_opt (fix_self lay l me name) us
                                   | None => None
                                   end) fixed (Some used) with
  | None => (l, used)
  | Some us =>
      let us' := fold_left (fun us r => map (rename_alias (fst r) (snd r)) us) renamed us in
      (reparse (map (fun s => set_info s (self_info lay me (s_info s))) l), us')
  end.

(* ImportTools.organize_imports with selfs=True *)
Definition organize_self (lay : layout) (pr : prefs) (me : dotted) (used : list dotted) (exported : list text)
           (l : list stmt) : option (list stmt * list dotted) :=
  match stage1_infos lay pr (names_unused used exported) l with
  | Some l3 =>
      let '(l5, us) := remove_self_imports lay me used (reparse l3) in
      Some (reparse (sort_imports lay (p_alpha pr) l5), us)
  | None => None
  end.
