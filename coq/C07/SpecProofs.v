(* C07 — facts about the specification: environments, consistency, and the preservation relation
   between the bindings before and after an action. *)
From Coq Require Import List NArith Bool Lia.
From RopeVerif.Lib Require Import Text.
From RopeVerif.C07 Require Import Imports Spec BasicsProofs.
Import ListNotations.

Lemma obj_eqb_eq a b : obj_eqb a b = true <-> a = b.
Proof.
  destruct a as [[t l] p], b as [[t' l'] p']. unfold obj_eqb. cbn.
  rewrite !andb_true_iff, eqb_true_iff, N.eqb_eq, dotted_eqb_eq.
  split; [intros [[-> ->] ->]; reflexivity | intros E; inversion E; auto].
Qed.

Lemma env_snoc bs b n :
  env (bs ++ [b]) n = if text_eqb (fst b) n then Some (snd b) else env bs n.
Proof. unfold env. rewrite fold_left_app. reflexivity. Qed.

Lemma env_in bs n o : env bs n = Some o -> In (n, o) bs.
Proof.
  induction bs as [|b bs IH] using rev_ind; [discriminate|].
  rewrite env_snoc. destruct (text_eqb (fst b) n) eqn:E.
  - intros H. inversion H; subst. apply text_eqb_eq in E. subst. apply in_or_app. right. left.
    destruct b; reflexivity.
  - intros H. apply in_or_app. left. apply IH. exact H.
Qed.

Lemma env_none bs n : env bs n = None -> forall o, ~ In (n, o) bs.
Proof.
  induction bs as [|b bs IH] using rev_ind; [intros _ o []|].
  rewrite env_snoc. destruct (text_eqb (fst b) n) eqn:E; [discriminate|].
  intros H o Hin. apply in_app_or in Hin as [Hin|[Hb|[]]].
  - exact (IH H o Hin).
  - subst b. cbn in E. rewrite text_eqb_refl in E. discriminate.
Qed.

Lemma in_env bs n o : In (n, o) bs -> exists o', env bs n = Some o'.
Proof.
  intros H. destruct (env bs n) eqn:E; [eauto|]. exfalso. exact (env_none _ _ E o H).
Qed.

Definition consistentP (bs : list (text * obj)) : Prop :=
  forall n o o', In (n, o) bs -> In (n, o') bs -> o = o'.

Lemma consistent_bs_spec bs : consistent_bs bs = true <-> consistentP bs.
Proof.
  unfold consistent_bs, consistentP. rewrite forallb_forall. split.
  - intros H n o o' H1 H2. specialize (H _ H1). rewrite forallb_forall in H. specialize (H _ H2).
    cbn in H. rewrite text_eqb_refl in H. cbn in H. apply obj_eqb_eq in H. exact H.
  - intros H [n o] H1. rewrite forallb_forall. intros [n' o'] H2. cbn.
    destruct (text_eqb n n') eqn:E; [|reflexivity]. cbn. apply text_eqb_eq in E. subst.
    apply obj_eqb_eq. eapply H; eassumption.
Qed.

Lemma consistentP_incl a b : incl b a -> consistentP a -> consistentP b.
Proof. intros Hi H n o o' H1 H2. eapply H; apply Hi; eassumption. Qed.

(* on a consistent list the environment is exactly membership *)
Lemma env_consistent bs n o : consistentP bs -> (env bs n = Some o <-> In (n, o) bs).
Proof.
  intros Hc. split; [apply env_in|]. intros H. destruct (in_env _ _ _ H) as (o' & E).
  rewrite E. f_equal. eapply Hc; [apply env_in; exact E | exact H].
Qed.

(* [after] keeps nothing new and keeps a binding of every needed name *)
Definition pres (needed : text -> Prop) (before after : list (text * obj)) : Prop :=
  incl after before /\
  (forall n o, In (n, o) before -> needed n -> exists o', In (n, o') after).

Lemma pres_refl needed a : pres needed a a.
Proof. split; [apply incl_refl | eauto]. Qed.

Lemma pres_trans needed a b c : pres needed a b -> pres needed b c -> pres needed a c.
Proof.
  intros [I1 K1] [I2 K2]. split; [eapply incl_tran; eassumption|].
  intros n o Hin Hn. destruct (K1 _ _ Hin Hn) as (o' & H'). eapply K2; eassumption.
Qed.

Lemma pres_eqset needed a b : eqset a b -> pres needed a b.
Proof.
  intros H. split; [intros x Hx; apply H; exact Hx|]. intros n o Hin _. exists o. apply H. exact Hin.
Qed.

Lemma pres_env needed before after n :
  consistentP before -> pres needed before after -> needed n -> env after n = env before n.
Proof.
  intros Hc [Hi Hk] Hn. pose proof (consistentP_incl _ _ Hi Hc) as Hc'.
  destruct (env before n) as [o|] eqn:E.
  - apply env_in in E. destruct (Hk _ _ E Hn) as (o' & H').
    assert (o' = o) by (eapply Hc; [apply Hi; exact H' | exact E]). subst.
    apply env_consistent; assumption.
  - destruct (env after n) as [o|] eqn:E'; [|reflexivity]. exfalso.
    apply env_in in E'. exact (env_none _ _ E o (Hi _ E')).
Qed.

Lemma pres_resolve lay needed (before after : list stmt) u :
  consistentP (bindings lay before) -> pres needed (bindings lay before) (bindings lay after) ->
  (forall h r, u = h :: r -> needed h) -> resolve lay after u = resolve lay before u.
Proof.
  intros Hc Hp Hn. destruct u as [|h r]; [reflexivity|]. cbn.
  rewrite (pres_env needed _ _ h Hc Hp (Hn h r eq_refl)). reflexivity.
Qed.

(* ------------------------------------------------------------------ bindings of lists *)
Lemma bindings_app lay a b : bindings lay (a ++ b) = bindings lay a ++ bindings lay b.
Proof. unfold bindings. apply flat_map_app. Qed.

Lemma bindings_cons lay s l : bindings lay (s :: l) = bindings_info lay (s_info s) ++ bindings lay l.
Proof. reflexivity. Qed.

Lemma bindings_empty_info lay i : is_empty i = true -> bindings_info lay i = [].
Proof. destruct i as [[|? ?]| ? ? [|? ?] | |]; cbn; congruence. Qed.

Lemma bindings_reparse lay l : bindings lay (reparse l) = bindings lay l.
Proof.
  unfold reparse. induction l as [|s l IH]; [reflexivity|]. cbn [filter].
  unfold nonempty at 1. destruct (is_empty (s_info s)) eqn:E; cbn [negb].
  - rewrite IH, bindings_cons, (bindings_empty_info _ _ E). reflexivity.
  - cbn [map]. rewrite !bindings_cons. cbn [s_info]. rewrite IH. reflexivity.
Qed.
