(* Correspondence runner for C07.  The harness writes, per case: the action and preferences, the layout
   facts it derived from the project it generated, the top-level import statements of the module (parsed
   with CPython's ast, with their source text), the used primaries and __all__ strings it computed with
   its own scope analysis, and what rope produced (the import statements of the resulting source, or
   None when rope raised; for the renaming actions also the used primaries of the resulting source).
   The comparison with the model is computed here. *)
From Coq Require Import List NArith Bool.
From RopeVerif.Lib Require Import Text.
From RopeVerif.C07 Require Import Imports Spec Renaming.
Import ListNotations.

Record case := {
  c_action : N;            (* 0 organize_imports, 1 expand_star_imports, 2 relatives_to_absolutes,
                              3 froms_to_imports, 4 handle_long_imports *)
  c_split : bool;
  c_alpha : bool;
  c_lay : layout;
  c_stmts : list stmt;
  c_used : list dotted;
  c_exported : list text;
  c_out : option (list info);
  c_out_used : list dotted;
  c_mods : list dotted;    (* absolute names of the modules and packages of the generated world *)
  c_deps : list (dotted * list dotted);
                           (* library modules that import other library modules (facades): loading the
                              module loads those too *)
  c_faithful : bool;       (* harness: for every star-imported module rope's public-name list is the set
                              CPython's star import binds (the module has no restricting __all__) *)
  c_cmp_used : bool;       (* harness: no from-import of a standard module (the standard library re-exports
                              objects, so an object is not identified by its canonical path) *)
  c_pystar : list (modref * list text);
                           (* the names CPython's star import binds, for the star-imported modules where
                              they differ from rope's list (the module defines __all__) *)
  c_true_used : list dotted;
                           (* the primaries CPython's scoping really uses (c_used is what rope's finder, as
                              modelled in Unbound.v, sees: it misses a name used only in a default value or
                              decorator of a function that has a local of the same name) *)
  c_hidden : list dotted;  (* the primaries with an occurrence that CPython uses and rope's finder (and so its
                              renaming) does not see *)
  c_me : dotted;           (* absolute name of the module under test (it may import itself) *)
  c_cmp_self : bool        (* harness: at most one spelling of a self import, or no bare use of them (the
                              partial renaming after a ValueError depends on a set's iteration order) *)
}.

Definition prefs_of (c : case) : prefs := {| p_split := c_split c; p_alpha := c_alpha c |}.

Definition model_on (c : case) (stmts : list stmt) (used : list dotted) : option (list stmt * list dotted) :=
  let lay := c_lay c in
  match c_action c with
  | 0%N => organize_self lay (prefs_of c) (c_me c) used (c_exported c) stmts
  | 1%N => Some (expand_stars lay used (c_exported c) stmts, used)
  | 2%N => Some (relatives_to_absolutes lay stmts, used)
  | 3%N => froms_to_imports lay (prefs_of c) used (c_exported c) stmts
  | _ => handle_long_imports lay (prefs_of c) used (c_exported c) stmts
  end.
Definition run_model (c : case) : option (list stmt * list dotted) := model_on c (c_stmts c) (c_used c).

Definition infos_eqb : list info -> list info -> bool := list_eqb info_eqb.

(* the lists SortingVisitor fills are sorted with Python's stable sort: the comparison is exact (it was
   made modulo the order of equal keys while the visitor filled sets, before rope 2352e54) *)
Definition out_eqb (c : case) (model rope : list info) : bool := infos_eqb model rope.

Definition subset (a b : list dotted) : bool := forallb (fun x => dmem x b) a.
Definition set_eqb (a b : list dotted) : bool := subset a b && subset b a.

(* the theorem's conclusion, evaluated on the model's own output *)
Definition meaning_preserved_b (lay : layout) (before after : list stmt) (us : list dotted) : bool :=
  forallb (fun u => opt_eqb obj_eqb (resolve lay after u) (resolve lay before u)) us.
Definition loaded_preserved_b (before after : list stmt) (us : list dotted) : bool :=
  forallb (fun u => negb (dmem u (plain_loaded before)) || dmem u (loaded after)) us.

(* no statement imports the module itself: organize_self is organize *)
Definition self_free (c : case) : bool :=
  forallb (fun s => match self_fixed (c_lay c) (c_me c) (s_info s), self_info (c_lay c) (c_me c) (s_info s) with
                    | [], i => info_eqb i (s_info s) || is_empty (s_info s)
                    | _, _ => false
                    end) (c_stmts c).

Definition side_organize (c : case) : bool :=
  consistent (c_lay c) (c_stmts c) && star_table_complete (c_lay c) (c_stmts c) && self_free c.

(* every module reached by extending a used primary is loaded by an un-aliased plain import spelled the
   same way (then C07_organize_loaded_preserved keeps it loaded) *)
Definition submods_ok_one (mods : list dotted) (lay : layout) (l : list stmt) (u : dotted) : bool :=
  match u with
  | [] => true
  | h :: _ =>
      match env (bindings lay l) h with
      | None => true
      | Some o =>
          let base := snd o in
          let full := base ++ tl u in
          forallb (fun q => negb (Nat.ltb (length base) (length q)) || negb (dmem q mods)
                            || (negb (fst (fst o)) && dotted_eqb base [h] && dmem q (plain_loaded l)))
                  (prefixes full)
      end
  end.
Definition submods_ok (c : case) : bool :=
  forallb (submods_ok_one (c_mods c) (c_lay c) (c_stmts c)) (c_used c).

(* is the case inside the domain of the meaning theorem of its action (bit 1), and of the stronger
   claim "the module runs identically" (bit 2: also the layout is faithful and no submodule is reached
   through an import that may be dropped)? *)
Definition in_domain (c : case) : bool :=
  match c_action c with
  | 0%N => side_organize c
  | 1%N => consistent (c_lay c) (c_stmts c)
  | 2%N => true
  | _ => false
  end.
Definition in_run_domain (c : case) : bool :=
  in_domain c && c_faithful c && subset (closure (c_true_used c)) (closure (c_used c)) &&
  match c_hidden c with [] => true | _ => false end &&
  match c_action c with
  | 0%N => submods_ok c
  | 1%N => submods_ok c      (* an expanded star import that binds nothing used is dropped *)
  | _ => true
  end.

Definition theorem_names (c : case) : list dotted :=
  match c_action c with
  | 0%N => names_unused (c_used c) (c_exported c)
  | _ => names_expand (c_used c) (c_exported c)
  end.

(* result codes: 0 agree; 1 import statements differ; 2 one side raised and the other did not;
   3 case in the theorem's domain but the model's result does not preserve meaning (cannot happen
   while the theorems are in force; sanity channel); 4 used primaries after renaming differ *)
Definition run_case (c : case) : N :=
  match run_model c, c_out c with
  | None, None => 0%N
  | None, Some _ => 2%N
  | Some _, None => 2%N
  | Some (l, us), Some r =>
      (* renaming by object identity is modelled through canonical paths: comparable when no module
         re-exports foreign objects (harness flag) and no name is bound to two different objects (which
         of them rope's own name lookup picks is not modelled) *)
      if (N.leb 3 (c_action c)) && negb (c_cmp_used c && consistent (c_lay c) (c_stmts c)) then 0%N
      else if N.eqb (c_action c) 0 && negb (c_cmp_self c) then 0%N
      else if negb (out_eqb c (map s_info l) r) then 1%N
      else if (N.leb 3 (c_action c)) && c_cmp_used c && negb (set_eqb us (c_out_used c)) then 4%N
      else if in_domain c && negb (meaning_preserved_b (c_lay c) (c_stmts c) l (theorem_names c)) then 3%N
      else if N.eqb (c_action c) 0 && in_domain c
              && negb (loaded_preserved_b (c_stmts c) l (theorem_names c)) then 3%N
      else 0%N
  end.

Fixpoint mismatches_from (i : N) (cs : list case) : list (N * N) :=
  match cs with
  | [] => []
  | c :: r =>
      let code := run_case c in
      if N.eqb code 0 then mismatches_from (N.succ i) r else (i, code) :: mismatches_from (N.succ i) r
  end.
Definition mismatches (cs : list case) : list (N * N) := mismatches_from 0 cs.

(* (index, 1) for the cases inside the domain of their action's meaning theorem *)
Fixpoint domain_from (i : N) (cs : list case) : list (N * N) :=
  match cs with
  | [] => []
  | c :: r => if in_domain c then (i, if in_run_domain c then 3%N else 1%N) :: domain_from (N.succ i) r
              else domain_from (N.succ i) r
  end.
Definition in_domain_indices (cs : list case) : list (N * N) := domain_from 0 cs.

(* ------------------------------------------------------------------ what the model predicts for the oracle
   A failure of the oracle is attributed to a recorded finding only when the model, evaluated against the
   specification with CPython's star sets, predicts a failure of that kind on this very input:
   bit 1: some used primary or __all__ name denotes something else afterwards, or reaches a submodule
          that is no longer loaded;  bit 2: a second application changes the import statements or the
          used primaries. *)
Definition py_lay (c : case) : layout :=
  {| l_star := c_pystar c ++ l_star (c_lay c); l_abs := l_abs (c_lay c); l_kind := l_kind (c_lay c) |}.

Fixpoint strip (d u : dotted) : option dotted :=
  match d, u with
  | [], r => Some r
  | x :: d', y :: u' => if text_eqb x y then strip d' u' else None
  | _ :: _, [] => None
  end.

Definition abs_of (lay : layout) (m : dotted) (lv : N) : option dotted :=
  match assoc modref_eqb (m, lv) (l_abs lay) with
  | Some a => Some a
  | None => if N.eqb lv 0 then Some m else None
  end.

(* the modules an import statement loads: import a.b.c loads a, a.b, a.b.c; from m import n loads m and,
   when m.n is a module, m.n *)
Definition loads_info (lay : layout) (mods : list dotted) (i : info) : list dotted :=
  match i with
  | Normal ps => flat_map (fun p => prefixes (fst p)) ps
  | From m lv ps =>
      match abs_of lay m lv with
      | Some a => prefixes a ++ flat_map (fun p => if dmem (a ++ [fst p]) mods then [a ++ [fst p]] else []) ps
      | None => []
      end
  | FromStar m lv => match abs_of lay m lv with Some a => prefixes a | None => [] end
  | Empty => []
  end.
Definition loads_direct (lay : layout) (mods : list dotted) (l : list stmt) : list dotted :=
  flat_map (fun s => loads_info lay mods (s_info s)) l.

(* a loaded module loads the modules it imports itself (one level of library imports, applied twice) *)
Definition with_deps (deps : list (dotted * list dotted)) (ms : list dotted) : list dotted :=
  ms ++ flat_map (fun m => match assoc dotted_eqb m deps with
                           | Some ds => flat_map prefixes ds
                           | None => []
                           end) ms.

(* what a primary denotes when the module runs: level and canonical path, and whether every submodule on
   the way is loaded *)
Definition loads (lay : layout) (mods : list dotted) (deps : list (dotted * list dotted)) (l : list stmt) : list dotted :=
  with_deps deps (with_deps deps (loads_direct lay mods l)).

Definition denotes (lay : layout) (mods : list dotted) (deps : list (dotted * list dotted)) (l : list stmt) (u : dotted)
  : option (N * dotted * bool) :=
  match u with
  | [] => None
  | h :: r =>
      match env (bindings lay l) h with
      | None => None
      | Some o =>
          let base := snd o in
          let full := base ++ r in
          Some (snd (fst o), full,
                forallb (fun q => negb (Nat.ltb (length base) (length q)) || negb (dmem q mods)
                                  || dmem q (loads lay mods deps l)) (prefixes full))
      end
  end.

Definition den_eqb (a b : option (N * dotted * bool)) : bool :=
  match a, b with
  | Some x, Some y => N.eqb (fst (fst x)) (fst (fst y)) && dotted_eqb (snd (fst x)) (snd (fst y)) && Bool.eqb (snd x) (snd y)
  | None, None => true
  | _, _ => false
  end.

Definition under (me : option dotted) (d : option (N * dotted * bool)) : bool :=
  match me, d with
  | Some m, Some x => match strip m (snd (fst x)) with Some (_ :: _) => true | _ => false end
  | _, _ => false
  end.

Fixpoint pairwise_same (lay : layout) (mods : list dotted) (deps : list (dotted * list dotted)) (me : option dotted) (before after : list stmt)
         (us us' : list dotted) : bool :=
  match us, us' with
  | u :: r, u' :: r' =>
      (match denotes lay mods deps before u with
       | None => true                                   (* not bound by an import (a builtin, a definition) *)
       | d => under me d                                (* the module's own definition reached through itself *)
              || den_eqb (denotes lay mods deps after u') d
       end) && pairwise_same lay mods deps me before after r r'
  | [], [] => true
  | _, _ => false
  end.

(* from __future__ imports must precede every other statement: no future import after another import *)
Fixpoint future_first (seen_other : bool) (l : list info) : bool :=
  match l with
  | [] => true
  | i :: r => if is_empty i then future_first seen_other r
              else if is_future i then negb seen_other && future_first seen_other r
              else future_first true r
  end.

Definition predicts_semantic (c : case) : bool :=
  match run_model c with
  | None => false
  | Some (l, us) =>
      (future_first false (map s_info (c_stmts c)) && negb (future_first false (map s_info l))) ||
      let ex := map (fun n => [n]) (c_exported c) in
      (* the primaries rope's finder does not see are not renamed *)
      let extra := c_hidden c in
      negb (pairwise_same (py_lay c) (c_mods c) (c_deps c) (if N.eqb (c_action c) 0 then Some (c_me c) else None) (c_stmts c) l (c_used c ++ extra ++ ex) (us ++ extra ++ ex))
  end.

Definition predicts_idempotence (c : case) : bool :=
  match run_model c with
  | None => false
  | Some (l, us) =>
      match model_on c l us with
      | None => true
      | Some (l2, us2) => negb (infos_eqb (map s_info l2) (map s_info l)) || negb (list_eqb dotted_eqb us2 us)
      end
  end.

Fixpoint predictions_from (i : N) (cs : list case) : list (N * N) :=
  match cs with
  | [] => []
  | c :: r =>
      let bits := if (N.leb 3 (c_action c)) && negb (c_cmp_used c && consistent (c_lay c) (c_stmts c))
                  then 3%N      (* the renaming is outside the model: no prediction, attribution by shape only *)
                  else ((if predicts_semantic c then 1 else 0) + (if predicts_idempotence c then 2 else 0))%N in
      if N.eqb bits 0 then predictions_from (N.succ i) r else (i, bits) :: predictions_from (N.succ i) r
  end.
Definition predictions (cs : list case) : list (N * N) := predictions_from 0 cs.

(* ------------------------------------------------------------------ text layout stream *)
From RopeVerif.C07 Require Import Layout.

Record lcase := {
  k_kind : N;              (* 0 organize_imports(selfs=False, sort=False), 1 sort_imports,
                              2 expand_stars, 3 relatives_to_absolutes (all of ImportTools) *)
  k_split : bool; k_alpha : bool; k_pull : bool;
  k_lay : layout;
  k_lines : list text;     (* source.splitlines(True) *)
  k_imps : list lstmt;     (* statements with locations and blank-line counts, recomputed by the harness *)
  k_fil : nat;             (* _first_import_line() *)
  k_sep : nat;             (* separating_lines after parsing *)
  k_used : list dotted; k_exported : list text;
  k_out : option text      (* the text rope returned; None = raised *)
}.

Definition lrun_model (c : lcase) : option text :=
  let pr := {| p_split := k_split c; p_alpha := k_alpha c |} in
  match k_kind c with
  | 0%N => stage1_text (k_lay c) pr (k_pull c) (names_unused (k_used c) (k_exported c))
                       (k_lines c) (k_imps c) (k_fil c) (k_sep c)
  | 1%N => Some (sort_text (k_lay c) (k_alpha c) (k_lines c) (k_imps c) (k_fil c))
  | 2%N => Some (simple_text (k_pull c) (expand_from (k_lay c) (names_expand (k_used c) (k_exported c)) []) (k_lines c) (k_imps c)
                             (k_fil c) (k_sep c))
  | _ => Some (simple_text (k_pull c) (map (fun s => set_info s (rel_abs_info (k_lay c) (s_info s))))
                           (k_lines c) (k_imps c) (k_fil c) (k_sep c))
  end.

(* 0 agree; 5 text differs; 2 one side raised.  6: the theorem's conclusion evaluated on the case
   (non-blank original lines preserved) fails - sanity channel *)
Definition lines_preserved (c : lcase) : bool :=
  match k_kind c with
  | 1%N => list_eqb text_eqb
             (nonblank (originals (emit_top (k_lines c) (moved_in_place (k_imps c) (sort_layout (k_lay c) (k_alpha c) (k_imps c) (k_fil c))) (k_fil c) 2)))
             (nonblank (outside (k_lines c) (k_imps c)))
  | _ => true
  end.

Definition lrun_case (c : lcase) : N :=
  match lrun_model c, k_out c with
  | None, None => 0%N
  | Some m, Some r => if text_eqb m r then (if lines_preserved c then 0%N else 6%N) else 5%N
  | _, _ => 2%N
  end.

Fixpoint lmismatches_from (i : N) (cs : list lcase) : list (N * N) :=
  match cs with
  | [] => []
  | c :: r =>
      let code := lrun_case c in
      if N.eqb code 0 then lmismatches_from (N.succ i) r else (i, code) :: lmismatches_from (N.succ i) r
  end.
Definition lmismatches (cs : list lcase) : list (N * N) := lmismatches_from 0 cs.

(* ------------------------------------------------------------------ used-name stream *)
From RopeVerif.C07 Require Import Unbound.

Record ucase := {
  u_gnames : list text;        (* non-import global names of the module (symtable) *)
  u_body : list node;          (* the module body abstracted by the harness from CPython's ast + symtable *)
  u_rope : list dotted;        (* ModuleImports._get_unbound_names(pymodule) *)
  u_used : list dotted;        (* the used primaries in rope's view that the harness computed on its own (input
                                  of the other streams) *)
  u_true : list dotted         (* the primaries CPython's scoping uses (symtable), the oracle's side *)
}.

(* 0 agree; 7 rope's unbound names differ from the model; 8 the harness's own analysis differs from the model;
   9 the specification py_unbound_names differs from CPython's symtable *)
Definition urun_case (c : ucase) : N :=
  let m := unbound_names (u_gnames c) (u_body c) in
  if negb (set_eqb m (u_rope c)) then 7%N
  else if negb (set_eqb m (closure (u_used c))) then 8%N
  else if negb (set_eqb (py_unbound_names (u_gnames c) (u_body c)) (closure (u_true c))) then 9%N
  else 0%N.

Fixpoint umismatches_from (i : N) (cs : list ucase) : list (N * N) :=
  match cs with
  | [] => []
  | c :: r =>
      let code := urun_case c in
      if N.eqb code 0 then umismatches_from (N.succ i) r else (i, code) :: umismatches_from (N.succ i) r
  end.
Definition umismatches (cs : list ucase) : list (N * N) := umismatches_from 0 cs.
