(* Correspondence runner for C07.  The harness writes, per case: the action and preferences, the layout
   facts it derived from the project it generated, the top-level import statements of the module (parsed
   with CPython's ast, with their source text), the used primaries and __all__ strings it computed with
   its own scope analysis, and what rope produced (the import statements of the resulting source, or
   None when rope raised; for the renaming actions also the used primaries of the resulting source).
   The comparison with the model is computed here. *)
From Coq Require Import List NArith Bool.
From RopeVerif.Lib Require Import Text.
From RopeVerif.C07 Require Import Imports Spec Renaming.
Import ListNotations.

Record case := {
  c_action : N;            (* 0 organize_imports, 1 expand_star_imports, 2 relatives_to_absolutes,
                              3 froms_to_imports, 4 handle_long_imports *)
  c_split : bool;
  c_alpha : bool;
  c_lay : layout;
  c_stmts : list stmt;
  c_used : list dotted;
  c_exported : list text;
  c_out : option (list info);
  c_out_used : list dotted;
  c_mods : list dotted;    (* absolute names of the modules and packages of the generated world *)
  c_faithful : bool;       (* harness: for every star-imported module rope's public-name list is the set
                              CPython's star import binds (the module has no restricting __all__) *)
  c_cmp_used : bool        (* harness: no renamed object is also reached through another path (rope renames
                              by object identity, the model by spelling) *)
}.

Definition prefs_of (c : case) : prefs := {| p_split := c_split c; p_alpha := c_alpha c |}.

Definition run_model (c : case) : option (list stmt * list dotted) :=
  let lay := c_lay c in
  match c_action c with
  | 0%N => option_map (fun l => (l, c_used c)) (organize lay (prefs_of c) (c_used c) (c_exported c) (c_stmts c))
  | 1%N => Some (expand_stars lay (c_used c) (c_exported c) (c_stmts c), c_used c)
  | 2%N => Some (relatives_to_absolutes lay (c_stmts c), c_used c)
  | 3%N => froms_to_imports lay (prefs_of c) (c_used c) (c_exported c) (c_stmts c)
  | _ => handle_long_imports lay (prefs_of c) (c_used c) (c_exported c) (c_stmts c)
  end.

Definition infos_eqb : list info -> list info -> bool := list_eqb info_eqb.

(* the lists SortingVisitor fills are sorted with Python's stable sort: the comparison is exact (it was
   made modulo the order of equal keys while the visitor filled sets, before rope 2352e54) *)
Definition out_eqb (c : case) (model rope : list info) : bool := infos_eqb model rope.

Definition subset (a b : list dotted) : bool := forallb (fun x => dmem x b) a.
Definition set_eqb (a b : list dotted) : bool := subset a b && subset b a.

(* the theorem's conclusion, evaluated on the model's own output *)
Definition meaning_preserved_b (lay : layout) (before after : list stmt) (us : list dotted) : bool :=
  forallb (fun u => opt_eqb obj_eqb (resolve lay after u) (resolve lay before u)) us.
Definition loaded_preserved_b (before after : list stmt) (us : list dotted) : bool :=
  forallb (fun u => negb (dmem u (plain_loaded before)) || dmem u (loaded after)) us.

Definition side_organize (c : case) : bool :=
  consistent (c_lay c) (c_stmts c) && star_table_complete (c_lay c) (c_stmts c).

(* every module reached by extending a used primary is loaded by an un-aliased plain import spelled the
   same way (then C07_organize_loaded_preserved keeps it loaded) *)
Definition submods_ok_one (mods : list dotted) (lay : layout) (l : list stmt) (u : dotted) : bool :=
  match u with
  | [] => true
  | h :: _ =>
      match env (bindings lay l) h with
      | None => true
      | Some o =>
          let base := snd o in
          let full := base ++ tl u in
          forallb (fun q => negb (Nat.ltb (length base) (length q)) || negb (dmem q mods)
                            || (negb (fst (fst o)) && dotted_eqb base [h] && dmem q (plain_loaded l)))
                  (prefixes full)
      end
  end.
Definition submods_ok (c : case) : bool :=
  forallb (submods_ok_one (c_mods c) (c_lay c) (c_stmts c)) (c_used c).

(* is the case inside the domain of the meaning theorem of its action (bit 1), and of the stronger
   claim "the module runs identically" (bit 2: also the layout is faithful and no submodule is reached
   through an import that may be dropped)? *)
Definition in_domain (c : case) : bool :=
  match c_action c with
  | 0%N => side_organize c
  | 1%N => consistent (c_lay c) (c_stmts c)
  | 2%N => true
  | _ => false
  end.
Definition in_run_domain (c : case) : bool :=
  in_domain c && c_faithful c &&
  match c_action c with
  | 0%N => submods_ok c
  | 1%N => submods_ok c      (* an expanded star import that binds nothing used is dropped *)
  | _ => true
  end.

Definition theorem_names (c : case) : list dotted :=
  match c_action c with
  | 0%N => names_unused (c_used c) (c_exported c)
  | _ => names_expand (c_used c) (c_exported c)
  end.

(* result codes: 0 agree; 1 import statements differ; 2 one side raised and the other did not;
   3 case in the theorem's domain but the model's result does not preserve meaning (cannot happen
   while the theorems are in force; sanity channel); 4 used primaries after renaming differ *)
Definition run_case (c : case) : N :=
  match run_model c, c_out c with
  | None, None => 0%N
  | None, Some _ => 2%N
  | Some _, None => 2%N
  | Some (l, us), Some r =>
      (* renaming by object identity is modelled through canonical paths: comparable when no module
         re-exports foreign objects (harness flag) and no name is bound to two different objects (which
         of them rope's own name lookup picks is not modelled) *)
      if (N.leb 3 (c_action c)) && negb (c_cmp_used c && consistent (c_lay c) (c_stmts c)) then 0%N
      else if negb (out_eqb c (map s_info l) r) then 1%N
      else if (N.leb 3 (c_action c)) && c_cmp_used c && negb (set_eqb us (c_out_used c)) then 4%N
      else if in_domain c && negb (meaning_preserved_b (c_lay c) (c_stmts c) l (theorem_names c)) then 3%N
      else if N.eqb (c_action c) 0 && in_domain c
              && negb (loaded_preserved_b (c_stmts c) l (theorem_names c)) then 3%N
      else 0%N
  end.

Fixpoint mismatches_from (i : N) (cs : list case) : list (N * N) :=
  match cs with
  | [] => []
  | c :: r =>
      let code := run_case c in
      if N.eqb code 0 then mismatches_from (N.succ i) r else (i, code) :: mismatches_from (N.succ i) r
  end.
Definition mismatches (cs : list case) : list (N * N) := mismatches_from 0 cs.

(* (index, 1) for the cases inside the domain of their action's meaning theorem *)
Fixpoint domain_from (i : N) (cs : list case) : list (N * N) :=
  match cs with
  | [] => []
  | c :: r => if in_domain c then (i, if in_run_domain c then 3%N else 1%N) :: domain_from (N.succ i) r
              else domain_from (N.succ i) r
  end.
Definition in_domain_indices (cs : list case) : list (N * N) := domain_from 0 cs.

(* ------------------------------------------------------------------ text layout stream *)
From RopeVerif.C07 Require Import Layout.

Record lcase := {
  k_kind : N;              (* 0 organize_imports(selfs=False, sort=False), 1 sort_imports,
                              2 expand_stars, 3 relatives_to_absolutes (all of ImportTools) *)
  k_split : bool; k_alpha : bool; k_pull : bool;
  k_lay : layout;
  k_lines : list text;     (* source.splitlines(True) *)
  k_imps : list lstmt;     (* statements with locations and blank-line counts, recomputed by the harness *)
  k_fil : nat;             (* _first_import_line() *)
  k_sep : nat;             (* separating_lines after parsing *)
  k_used : list dotted; k_exported : list text;
  k_out : option text      (* the text rope returned; None = raised *)
}.

Definition lrun_model (c : lcase) : option text :=
  let pr := {| p_split := k_split c; p_alpha := k_alpha c |} in
  match k_kind c with
  | 0%N => stage1_text (k_lay c) pr (k_pull c) (names_unused (k_used c) (k_exported c))
                       (k_lines c) (k_imps c) (k_fil c) (k_sep c)
  | 1%N => Some (sort_text (k_lay c) (k_alpha c) (k_lines c) (k_imps c) (k_fil c))
  | 2%N => Some (simple_text (k_pull c) (expand_from (k_lay c) (names_expand (k_used c) (k_exported c)) []) (k_lines c) (k_imps c)
                             (k_fil c) (k_sep c))
  | _ => Some (simple_text (k_pull c) (map (fun s => set_info s (rel_abs_info (k_lay c) (s_info s))))
                           (k_lines c) (k_imps c) (k_fil c) (k_sep c))
  end.

(* 0 agree; 5 text differs; 2 one side raised.  6: the theorem's conclusion evaluated on the case
   (non-blank original lines preserved) fails - sanity channel *)
Definition lines_preserved (c : lcase) : bool :=
  match k_kind c with
  | 1%N => list_eqb text_eqb
             (nonblank (originals (emit_top (k_lines c) (moved_in_place (k_imps c) (sort_layout (k_lay c) (k_alpha c) (k_imps c) (k_fil c))) (k_fil c) 2)))
             (nonblank (outside (k_lines c) (k_imps c)))
  | _ => true
  end.

Definition lrun_case (c : lcase) : N :=
  match lrun_model c, k_out c with
  | None, None => 0%N
  | Some m, Some r => if text_eqb m r then (if lines_preserved c then 0%N else 6%N) else 5%N
  | _, _ => 2%N
  end.

Fixpoint lmismatches_from (i : N) (cs : list lcase) : list (N * N) :=
  match cs with
  | [] => []
  | c :: r =>
      let code := lrun_case c in
      if N.eqb code 0 then lmismatches_from (N.succ i) r else (i, code) :: lmismatches_from (N.succ i) r
  end.
Definition lmismatches (cs : list lcase) : list (N * N) := lmismatches_from 0 cs.
