(* C07 — sort_imports: a permutation of the statements, ordered by (group, key). *)
From Coq Require Import List NArith Bool Lia Permutation Sorted RelationClasses.
From RopeVerif.Lib Require Import Text.
From RopeVerif.C07 Require Import Imports BasicsProofs.
Import ListNotations.

(* ------------------------------------------------------------------ the order on texts *)
Lemma text_cmp_refl a : text_cmp a a = Eq.
Proof. induction a as [|x a IH]; cbn; [reflexivity|]. rewrite N.compare_refl. exact IH. Qed.

Lemma text_cmp_antisym : forall a b, text_cmp b a = CompOpp (text_cmp a b).
Proof.
  induction a as [|x a IH]; intros [|y b]; cbn; try reflexivity.
  rewrite (N.compare_antisym x y). destruct (N.compare x y); cbn; auto.
Qed.

Lemma text_leb_total a b : text_leb a b = true \/ text_leb b a = true.
Proof.
  unfold text_leb. rewrite (text_cmp_antisym a b). destruct (text_cmp a b); cbn; auto.
Qed.

Lemma text_leb_trans : forall a b c, text_leb a b = true -> text_leb b c = true -> text_leb a c = true.
Proof.
  unfold text_leb. induction a as [|x a IH]; intros [|y b] [|z c]; cbn; try congruence; try discriminate.
  destruct (N.compare_spec x y) as [->|Hxy|Hxy]; try discriminate.
  - destruct (N.compare_spec y z) as [->|Hyz|Hyz]; try discriminate; [|reflexivity].
    apply IH.
  - intros _. destruct (N.compare_spec y z) as [->|Hyz|Hyz]; try discriminate; intros _.
    + destruct (N.compare_spec x z); try lia; reflexivity.
    + destruct (N.compare_spec x z); try lia; reflexivity.
Qed.

Lemma key_leb_total a b : key_leb a b = true \/ key_leb b a = true.
Proof.
  unfold key_leb. destruct a as [[|] ta], b as [[|] tb]; cbn; auto using text_leb_total.
Qed.

Lemma key_leb_trans a b c : key_leb a b = true -> key_leb b c = true -> key_leb a c = true.
Proof.
  unfold key_leb. destruct a as [[|] ta], b as [[|] tb], c as [[|] tc]; cbn; try congruence; try discriminate;
    apply text_leb_trans.
Qed.

(* ------------------------------------------------------------------ stable insertion sort *)
Section Sort.
  Variable key : stmt -> bool * text.
  Definition kle (a b : stmt) : Prop := key_leb (key a) (key b) = true.

  Lemma insert_stable_perm s l : Permutation (insert_stable key s l) (s :: l).
  Proof.
    induction l as [|x r IH]; cbn; [reflexivity|].
    destruct (key_leb (key s) (key x)); [reflexivity|].
    rewrite IH. apply perm_swap.
  Qed.

  Lemma sort_stable_perm l : Permutation (sort_stable key l) l.
  Proof.
    induction l as [|s r IH]; cbn; [reflexivity|]. rewrite insert_stable_perm. constructor. exact IH.
  Qed.

  Lemma insert_stable_hdrel a s l : HdRel kle a l -> kle a s -> HdRel kle a (insert_stable key s l).
  Proof.
    intros H Hs. destruct l as [|x r]; cbn; [constructor; exact Hs|].
    destruct (key_leb (key s) (key x)); constructor; [exact Hs|]. inversion H; assumption.
  Qed.

  Lemma insert_stable_sorted s l : Sorted kle l -> Sorted kle (insert_stable key s l).
  Proof.
    induction l as [|x r IH]; intros H; cbn; [repeat constructor|].
    destruct (key_leb (key s) (key x)) eqn:E.
    - constructor; [exact H | constructor; exact E].
    - inversion H as [|? ? Hr Hx]; subst. constructor; [apply IH; exact Hr|].
      apply insert_stable_hdrel; [exact Hx|]. unfold kle. destruct (key_leb_total (key s) (key x)); congruence.
  Qed.

  Lemma sort_stable_sorted l : Sorted kle (sort_stable key l).
  Proof. induction l as [|s r IH]; cbn; [constructor | apply insert_stable_sorted; exact IH]. Qed.

  Lemma kle_trans : Transitive kle.
  Proof. intros a b c. apply key_leb_trans. Qed.

  Lemma sort_stable_strongly l : StronglySorted kle (sort_stable key l).
  Proof. apply Sorted_StronglySorted; [exact kle_trans | apply sort_stable_sorted]. Qed.
End Sort.

(* ------------------------------------------------------------------ groups *)
Lemma group_of_range lay i g : group_of lay i = Some g -> (g = 0 \/ g = 1 \/ g = 2 \/ g = 3)%N.
Proof.
  assert (H : forall r, let k := kind_of lay r in
     ((if N.eqb k 3 then 3 else if is_future i then 0 else if N.eqb k 1 then 1 else 2) = 0 \/
      (if N.eqb k 3 then 3 else if is_future i then 0 else if N.eqb k 1 then 1 else 2) = 1 \/
      (if N.eqb k 3 then 3 else if is_future i then 0 else if N.eqb k 1 then 1 else 2) = 2 \/
      (if N.eqb k 3 then 3 else if is_future i then 0 else if N.eqb k 1 then 1 else 2) = 3)%N).
  { intros r k. destruct (N.eqb k 3); [auto|]. destruct (is_future i); [auto|]. destruct (N.eqb k 1); auto. }
  unfold group_of. destruct i as [[|p ps]|m l ps|m l|]; try discriminate; intros E; inversion E; apply H.
Qed.

Definition grouped (lay : layout) (s : stmt) : bool :=
  match group_of lay (s_info s) with Some _ => true | None => false end.

Lemma in_sort_imports lay alpha l s : In s (sort_imports lay alpha l) <-> In s l /\ grouped lay s = true.
Proof.
  unfold sort_imports. rewrite !in_app_iff.
  set (key := if alpha then key_alpha else key_default).
  assert (G : forall g, In s (sort_stable key (filter (in_group lay g) l)) <-> In s l /\ in_group lay g s = true).
  { intros g. split.
    - intros H. apply (Permutation_in _ (sort_stable_perm key _)) in H. apply filter_In in H. exact H.
    - intros H. apply (Permutation_in _ (Permutation_sym (sort_stable_perm key _))). apply filter_In. exact H. }
  rewrite !G. unfold in_group, grouped. destruct (group_of lay (s_info s)) as [g|] eqn:E.
  - destruct (group_of_range _ _ _ E) as [-> | [-> | [-> | ->]]]; cbn; tauto.
  - split; [intros [H|[H|[H|H]]]; destruct H; discriminate | intros [_ H]; discriminate].
Qed.

(* the order of the result: first by group, then by the sorting key *)
Definition gk_le (lay : layout) (key : stmt -> bool * text) (a b : stmt) : Prop :=
  match group_of lay (s_info a), group_of lay (s_info b) with
  | Some g, Some h => (g < h)%N \/ (g = h /\ key_leb (key a) (key b) = true)
  | _, _ => False
  end.

Lemma StronglySorted_app {A} (R : A -> A -> Prop) a b :
  StronglySorted R a -> StronglySorted R b -> (forall x y, In x a -> In y b -> R x y) ->
  StronglySorted R (a ++ b).
Proof.
  induction a as [|x a IH]; intros Ha Hb Hab; cbn; [exact Hb|].
  inversion Ha as [|? ? Ha' Hx]; subst. constructor.
  - apply IH; [exact Ha' | exact Hb | intros; apply Hab; [right|]; assumption].
  - apply Forall_app. split; [exact Hx|]. apply Forall_forall. intros y Hy. apply Hab; [left; reflexivity | exact Hy].
Qed.

Lemma group_block lay key g l :
  let blk := sort_stable key (filter (in_group lay g) l) in
  StronglySorted (gk_le lay key) blk /\ forall s, In s blk -> group_of lay (s_info s) = Some g.
Proof.
  intros blk.
  assert (Hg : forall s, In s blk -> group_of lay (s_info s) = Some g).
  { intros s H. apply (Permutation_in _ (sort_stable_perm key _)) in H. apply filter_In in H as [_ H].
    unfold in_group in H. destruct (group_of lay (s_info s)); [|discriminate]. apply N.eqb_eq in H. congruence. }
  split; [|exact Hg].
  pose proof (sort_stable_strongly key (filter (in_group lay g) l)) as Hs. fold blk in Hs.
  revert Hg. induction Hs as [|x r Hr IH Hx]; intros Hg; constructor.
  - apply IH. intros s H. apply Hg. right. exact H.
  - apply Forall_forall. intros y Hy. unfold gk_le. rewrite (Hg x (or_introl eq_refl)), (Hg y (or_intror Hy)).
    right. split; [reflexivity|]. rewrite Forall_forall in Hx. exact (Hx y Hy).
Qed.

Lemma sort_imports_sorted lay (alpha : bool) l :
  StronglySorted (gk_le lay (if alpha then key_alpha else key_default)) (sort_imports lay alpha l).
Proof.
  unfold sort_imports. set (key := if alpha then key_alpha else key_default).
  destruct (group_block lay key 0%N l) as (S0 & G0). destruct (group_block lay key 1%N l) as (S1 & G1).
  destruct (group_block lay key 2%N l) as (S2 & G2). destruct (group_block lay key 3%N l) as (S3 & G3).
  cbn zeta in *.
  assert (Lt : forall a b g h, group_of lay (s_info a) = Some g -> group_of lay (s_info b) = Some h -> (g < h)%N ->
                               gk_le lay key a b).
  { intros a b g h Ha Hb Hl. unfold gk_le. rewrite Ha, Hb. left. exact Hl. }
  repeat apply StronglySorted_app; try assumption.
  - intros x y Hx Hy. apply (Lt _ _ _ _ (G2 _ Hx) (G3 _ Hy)). lia.
  - intros x y Hx Hy. apply in_app_or in Hy as [Hy|Hy];
      [apply (Lt _ _ _ _ (G1 _ Hx) (G2 _ Hy)) | apply (Lt _ _ _ _ (G1 _ Hx) (G3 _ Hy))]; lia.
  - intros x y Hx Hy. apply in_app_or in Hy as [Hy|Hy]; [|apply in_app_or in Hy as [Hy|Hy]];
      [apply (Lt _ _ _ _ (G0 _ Hx) (G1 _ Hy)) | apply (Lt _ _ _ _ (G0 _ Hx) (G2 _ Hy))
       | apply (Lt _ _ _ _ (G0 _ Hx) (G3 _ Hy))]; lia.
Qed.

Lemma filter_split_perm {A} (p q : A -> bool) l : (forall x, p x && q x = false) ->
  Permutation (filter p l ++ filter q l) (filter (fun x => p x || q x) l).
Proof.
  intros D. induction l as [|x r IH]; [reflexivity|]. cbn [filter]. specialize (D x).
  destruct (p x), (q x); cbn in D |- *; try discriminate.
  - constructor. exact IH.
  - rewrite <- IH. symmetry. apply Permutation_middle.
  - exact IH.
Qed.

Lemma in_group_disjoint lay g h s : g <> h -> in_group lay g s && in_group lay h s = false.
Proof.
  intros Hn. unfold in_group. destruct (group_of lay (s_info s)) as [k|]; [|reflexivity].
  destruct (N.eqb_spec g k), (N.eqb_spec h k); cbn; congruence.
Qed.

Lemma filter_perm_groups lay l :
  Permutation (filter (in_group lay 0%N) l ++ filter (in_group lay 1%N) l ++ filter (in_group lay 2%N) l
               ++ filter (in_group lay 3%N) l) (filter (grouped lay) l).
Proof.
  rewrite (filter_ext (grouped lay)
             (fun s => in_group lay 0%N s || (in_group lay 1%N s || (in_group lay 2%N s || in_group lay 3%N s)))).
  - rewrite <- (filter_split_perm (in_group lay 0%N)).
    + apply Permutation_app_head. rewrite <- (filter_split_perm (in_group lay 1%N)).
      * apply Permutation_app_head. apply filter_split_perm. intros x. apply in_group_disjoint. discriminate.
      * intros x. rewrite andb_orb_distrib_r, !in_group_disjoint by discriminate. reflexivity.
    + intros x. rewrite !andb_orb_distrib_r, !in_group_disjoint by discriminate. reflexivity.
  - intros s. unfold grouped, in_group. destruct (group_of lay (s_info s)) as [g|] eqn:E; [|reflexivity].
    destruct (group_of_range _ _ _ E) as [-> | [-> | [-> | ->]]]; reflexivity.
Qed.

Lemma sort_imports_perm lay (alpha : bool) l : Permutation (sort_imports lay alpha l) (filter (grouped lay) l).
Proof.
  unfold sort_imports. rewrite <- filter_perm_groups.
  repeat apply Permutation_app; apply sort_stable_perm.
Qed.

(* ------------------------------------------------------------------ sorting again changes nothing *)
Lemma sort_stable_sorted_id key l : Sorted (kle key) l -> sort_stable key l = l.
Proof.
  induction l as [|s r IH]; intros H; [reflexivity|]. inversion H as [|? ? Hr Hs]; subst.
  cbn [sort_stable]. rewrite (IH Hr). destruct r as [|x r']; [reflexivity|]. cbn [insert_stable].
  inversion Hs as [|? ? Hx]; subst. unfold kle in Hx. rewrite Hx. reflexivity.
Qed.

Lemma filter_all {A} (p : A -> bool) l : (forall x, In x l -> p x = true) -> filter p l = l.
Proof.
  induction l as [|x r IH]; intros H; [reflexivity|]. cbn. rewrite (H x (or_introl eq_refl)).
  f_equal. apply IH. intros y Hy. apply H. right. exact Hy.
Qed.

Lemma filter_none {A} (p : A -> bool) l : (forall x, In x l -> p x = false) -> filter p l = [].
Proof.
  induction l as [|x r IH]; intros H; [reflexivity|]. cbn. rewrite (H x (or_introl eq_refl)).
  apply IH. intros y Hy. apply H. right. exact Hy.
Qed.

Lemma sort_imports_idempotent lay (alpha : bool) l :
  sort_imports lay alpha (sort_imports lay alpha l) = sort_imports lay alpha l.
Proof.
  unfold sort_imports at 1. set (key := if alpha then key_alpha else key_default).
  assert (Blk : forall g, let blk := sort_stable key (filter (in_group lay g) l) in
             Sorted (kle key) blk /\ forall s, In s blk -> group_of lay (s_info s) = Some g).
  { intros g blk. split; [apply sort_stable_sorted|]. apply (group_block lay key g l). }
  assert (Sel : forall g, sort_stable key (filter (in_group lay g) (sort_imports lay alpha l)) =
                          sort_stable key (filter (in_group lay g) l)).
  { intros g. unfold sort_imports. fold key. rewrite !filter_app.
    assert (In_g : forall h, filter (in_group lay g) (sort_stable key (filter (in_group lay h) l)) =
                             if N.eqb g h then sort_stable key (filter (in_group lay h) l) else []).
    { intros h. destruct (Blk h) as (_ & Hg). destruct (N.eqb_spec g h) as [->|Hne].
      - apply filter_all. intros s Hs. unfold in_group. rewrite (Hg s Hs). apply N.eqb_refl.
      - apply filter_none. intros s Hs. unfold in_group. rewrite (Hg s Hs). apply N.eqb_neq. exact Hne. }
    rewrite !In_g.
    assert (Cases : (g = 0 \/ g = 1 \/ g = 2 \/ g = 3 \/ (g <> 0 /\ g <> 1 /\ g <> 2 /\ g <> 3))%N) by lia.
    destruct Cases as [-> | [-> | [-> | [-> | (H0 & H1 & H2 & H3)]]]]; cbn [N.eqb Pos.eqb app]; rewrite ?app_nil_r.
    - apply sort_stable_sorted_id. apply (Blk 0%N).
    - apply sort_stable_sorted_id. apply (Blk 1%N).
    - apply sort_stable_sorted_id. apply (Blk 2%N).
    - apply sort_stable_sorted_id. apply (Blk 3%N).
    - apply N.eqb_neq in H0, H1, H2, H3. rewrite H0, H1, H2, H3. cbn.
      symmetry. rewrite filter_none; [reflexivity|]. intros s Hs. unfold in_group.
      destruct (group_of lay (s_info s)) as [k|] eqn:Ek; [|reflexivity].
      destruct (group_of_range _ _ _ Ek) as [-> | [-> | [-> | ->]]]; assumption. }
  rewrite !Sel. reflexivity.
Qed.

Lemma sorted_groups lay (alpha : bool) l :
  StronglySorted (gk_le lay (if alpha then key_alpha else key_default)) (sort_imports lay alpha l) /\
  Permutation (sort_imports lay alpha l) (filter (grouped lay) l).
Proof. split; [apply sort_imports_sorted | apply sort_imports_perm]. Qed.
