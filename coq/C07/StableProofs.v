(* C07 — unused-import removal is stable under reordering when no name is bound twice: the positive side
   of the recorded non-idempotence (a statement made redundant by the new order is removed by the second
   run, which needs two statements binding one name). *)
From Coq Require Import List NArith Bool Lia Permutation.
From RopeVerif.Lib Require Import Text.
From RopeVerif.C07 Require Import Imports Spec BasicsProofs SpecProofs RemoveProofs.
Import ListNotations.

Fixpoint nodup_text (l : list text) : bool :=
  match l with
  | [] => true
  | x :: r => negb (mem text_eqb x r) && nodup_text r
  end.

Lemma nodup_text_spec l : nodup_text l = true -> NoDup l.
Proof.
  induction l as [|x r IH]; cbn; [constructor|]. intros H. apply andb_true_iff in H as [H1 H2].
  constructor; [|apply IH; exact H2]. intros Hin. apply (mem_In text_eqb text_eqb_eq) in Hin. rewrite Hin in H1. discriminate.
Qed.

(* no name is bound twice by the import statements of the block *)
Definition distinct_heads (lay : layout) (l : list stmt) : bool := nodup_text (map fst (bindings lay l)).

Definition pair_wanted (names : list dotted) (p : dotted) : bool := existsb (fun t => dmem t names) (prefixes p).

(* every imported name is used (what a block looks like after remove_unused_imports) *)
Definition info_wanted (lay : layout) (names : list dotted) (i : info) : bool :=
  match i with
  | Normal ps => forallb (fun p => pair_wanted names (nprimary p)) ps
  | From m l ps => is_future_mod m || forallb (fun p => pair_wanted names (fprimary p)) ps
  | FromStar m l =>
      is_future_mod m ||
      match assoc modref_eqb (m, l) (l_star lay) with
      | Some ns => existsb (fun n => dmem [n] names) ns
      | None => true
      end
  | Empty => true
  end.

Section Stable.
  Variable lay : layout.
  Variable names : list dotted.

  Definition headp (p : dotted) : text := hd [] p.

  Lemma can_add_fresh sel P : pair_wanted names P = true ->
    (forall t, In t sel -> hd [] t <> headp P) -> can_add names sel P = true.
  Proof.
    unfold pair_wanted, can_add. rewrite !existsb_exists. intros (t & Ht & Hn) Hf. exists t. split; [exact Ht|].
    rewrite Hn. cbn. destruct (dmem t sel) eqn:D; [|reflexivity]. exfalso. apply dmem_In in D.
    apply (Hf t D). unfold headp. apply prefixes_hd. exact Ht.
  Qed.

  Lemma can_add_wanted sel P : can_add names sel P = true -> pair_wanted names P = true.
  Proof.
    unfold pair_wanted, can_add. rewrite !existsb_exists. intros (t & Ht & H). exists t. split; [exact Ht|].
    apply andb_true_iff in H as [H _]. exact H.
  Qed.

  (* ---------------------------------------------------------------- all pairs stay *)
  Lemma filter_pairs_all {A} (prim : A -> dotted) : forall ps sel,
    forallb (fun p => pair_wanted names (prim p)) ps = true ->
    NoDup (map (fun p => headp (prim p)) ps) ->
    (forall t, In t sel -> forall p, In p ps -> hd [] t <> headp (prim p)) ->
    exists sel', filter_pairs prim names sel ps = (ps, sel') /\
                 forall t, In t sel' -> In t sel \/ exists p, In p ps /\ hd [] t = headp (prim p).
  Proof.
    induction ps as [|p r IH]; intros sel Hw Hn Hf; cbn [filter_pairs].
    - exists sel. split; [reflexivity | auto].
    - cbn in Hw. apply andb_true_iff in Hw as [Hp Hr]. inversion Hn as [|? ? Hnot Hn']; subst.
      unfold select. rewrite (can_add_fresh sel (prim p) Hp) by (intros t Ht; apply (Hf t Ht p); left; reflexivity).
      destruct (IH (prefixes (prim p) ++ sel) Hr Hn') as (sel' & E & Hs).
      + intros t Ht q Hq. apply in_app_or in Ht as [Ht|Ht].
        * rewrite (prefixes_hd _ _ Ht). intros E. apply Hnot. apply in_map_iff. exists q. split; [symmetry; exact E | exact Hq].
        * apply (Hf t Ht q). right. exact Hq.
      + exists sel'. rewrite E. split; [reflexivity|]. intros t Ht. destruct (Hs t Ht) as [H|(q & Hq & Eq)].
        * apply in_app_or in H as [H|H]; [|auto]. right. exists p. split; [left; reflexivity | apply prefixes_hd; exact H].
        * right. exists q. split; [right; exact Hq | exact Eq].
  Qed.

  Lemma wanted_nonempty P : pair_wanted names P = true -> P <> [].
  Proof. intros H ->. discriminate. Qed.

  Lemma heads_normal ps : forallb (fun p => pair_wanted names (nprimary p)) ps = true ->
    map fst (bindings_info lay (Normal ps)) = map (fun p => headp (nprimary p)) ps.
  Proof.
    cbn [bindings_info]. induction ps as [|[d [a|]] r IH]; cbn; [reflexivity| |]; intros H;
      apply andb_true_iff in H as [Hp Hr].
    - f_equal. exact (IH Hr).
    - destruct d as [|h rr]; [discriminate|]. cbn. f_equal. exact (IH Hr).
  Qed.

  Lemma heads_from m l ps :
    map fst (bindings_info lay (From m l ps)) = map (fun p => headp (fprimary p)) ps.
  Proof. cbn [bindings_info]. rewrite map_map. apply map_ext. intros [n [a|]]; reflexivity. Qed.

  Lemma star_select_true : forall ns sel,
    (exists n, In n ns /\ can_add names sel [n] = true) ->
    exists n0, In n0 ns /\ star_select names sel ns = (true, [n0] :: sel).
  Proof.
    induction ns as [|n r IH]; intros sel (x & Hx & Hc); [destruct Hx|]. cbn [star_select].
    destruct (can_add names sel [n]) eqn:E; [exists n; split; [left; reflexivity | reflexivity]|].
    destruct Hx as [->|Hx]; [congruence|]. destruct (IH sel (ex_intro _ x (conj Hx Hc))) as (n0 & H0 & E0).
    exists n0. split; [right; exact H0 | exact E0].
  Qed.

  Lemma star_select_wanted : forall ns sel sel', star_select names sel ns = (true, sel') ->
    existsb (fun n => dmem [n] names) ns = true.
  Proof.
    induction ns as [|n r IH]; intros sel sel' H; cbn [star_select] in H; [discriminate|].
    cbn [existsb]. destruct (can_add names sel [n]) eqn:E.
    - apply can_add_wanted in E. unfold pair_wanted in E. cbn in E. rewrite orb_false_r in E. rewrite E. reflexivity.
    - rewrite (IH _ _ H). apply orb_true_r.
  Qed.

  Definition fresh (sel : list dotted) (heads : list text) : Prop :=
    forall t, In t sel -> ~ In (hd [] t) heads.

  Lemma filter_info_all sel i : info_wanted lay names i = true ->
    NoDup (map fst (bindings_info lay i)) -> fresh sel (map fst (bindings_info lay i)) ->
    exists res sel', filter_info lay names sel i = (res, sel') /\ after_info res i = i /\
      forall t, In t sel' -> In t sel \/ In (hd [] t) (map fst (bindings_info lay i)).
  Proof.
    intros Hw Hn Hf. destruct i as [ps|m l ps|m l|]; cbn [filter_info info_wanted] in *.
    - rewrite (heads_normal ps Hw) in Hn, Hf |- *.
      destruct (filter_pairs_all nprimary ps sel Hw Hn) as (sel' & E & Hs).
      { intros t Ht p Hp Eq. apply (Hf t Ht). rewrite Eq. apply in_map_iff. exists p. auto. }
      rewrite E. exists (Some (Normal ps)), sel'. split; [reflexivity|]. split; [reflexivity|].
      intros t Ht. destruct (Hs t Ht) as [H|(p & Hp & Eq)]; [auto|]. right. rewrite Eq. apply in_map_iff. exists p. auto.
    - destruct (is_future_mod m) eqn:Ef.
      + exists (Some (From m l ps)), sel. split; [reflexivity|]. split; [reflexivity | auto].
      + cbn [orb] in Hw. rewrite heads_from in Hn, Hf |- *.
        destruct (filter_pairs_all fprimary ps sel Hw Hn) as (sel' & E & Hs).
        { intros t Ht p Hp Eq. apply (Hf t Ht). rewrite Eq. apply in_map_iff. exists p. auto. }
        rewrite E. exists (Some (From m l ps)), sel'. split; [reflexivity|]. split; [reflexivity|].
        intros t Ht. destruct (Hs t Ht) as [H|(p & Hp & Eq)]; [auto|]. right. rewrite Eq. apply in_map_iff. exists p. auto.
    - destruct (is_future_mod m) eqn:Ef.
      + exists (Some (FromStar m l)), sel. split; [reflexivity|]. split; [reflexivity | auto].
      + cbn [orb] in Hw. cbn [bindings_info] in Hn, Hf |- *.
        destruct (assoc modref_eqb (m, l) (l_star lay)) as [ns|] eqn:El.
        * rewrite map_map in Hf |- *. cbn [fst] in Hf |- *. rewrite map_id in Hf |- *.
          apply existsb_exists in Hw as (n & Hin & Hd).
          destruct (star_select_true ns sel) as (n0 & H0 & E).
          { exists n. split; [exact Hin|]. apply can_add_fresh.
            - unfold pair_wanted. cbn. rewrite Hd. reflexivity.
            - intros t Ht Eq. apply (Hf t Ht). rewrite Eq. exact Hin. }
          rewrite E. exists (Some (FromStar m l)), ([n0] :: sel). split; [reflexivity|]. split; [reflexivity|].
          intros t [<-|Ht]; [right; exact H0 | auto].
        * exists None, sel. split; [reflexivity|]. split; [reflexivity | auto].
    - exists None, sel. split; [reflexivity|]. split; [reflexivity | auto].
  Qed.

  Lemma NoDup_app_inv {A} (a b : list A) : NoDup (a ++ b) -> NoDup a /\ NoDup b /\ forall x, In x a -> ~ In x b.
  Proof.
    induction a as [|x r IH]; cbn; intros H; [split; [constructor | split; [exact H | intros x []]]|].
    inversion H as [|? ? Hx Hr]; subst. destruct (IH Hr) as (I1 & I2 & I3). split; [|split; [exact I2|]].
    - constructor; [|exact I1]. intros Hin. apply Hx. apply in_or_app. left. exact Hin.
    - intros y [<-|Hy] Hb; [apply Hx; apply in_or_app; right; exact Hb | exact (I3 y Hy Hb)].
  Qed.

  Lemma remove_unused_from_all : forall l sel,
    Forall (fun s => info_wanted lay names (s_info s) = true) l ->
    NoDup (map fst (bindings lay l)) -> fresh sel (map fst (bindings lay l)) ->
    exists sel', remove_unused_from lay names sel l = (l, sel').
  Proof.
    induction l as [|s r IH]; intros sel Hw Hn Hf; cbn [remove_unused_from]; [eauto|].
    inversion Hw as [|? ? Hs Hr]; subst. rewrite bindings_cons, map_app in Hn, Hf.
    destruct (NoDup_app_inv _ _ Hn) as (N1 & N2 & N3).
    destruct (filter_info_all sel (s_info s) Hs N1) as (res & sel1 & E & Ea & Hsel).
    { intros t Ht Hin. apply (Hf t Ht). apply in_or_app. left. exact Hin. }
    rewrite E. destruct (IH sel1 Hr N2) as (sel' & E').
    { intros t Ht Hin. destruct (Hsel t Ht) as [H|H].
      - apply (Hf t H). apply in_or_app. right. exact Hin.
      - exact (N3 _ H Hin). }
    rewrite E'. exists sel'. f_equal. f_equal.
    destruct res as [i|]; [|reflexivity]. cbn [after_info] in Ea. subst i. apply set_info_same.
  Qed.

  (* ---------------------------------------------------------------- what removal leaves is wanted *)
  Lemma filter_pairs_wanted {A} (prim : A -> dotted) : forall ps sel ps' sel',
    filter_pairs prim names sel ps = (ps', sel') -> forallb (fun p => pair_wanted names (prim p)) ps' = true.
  Proof.
    induction ps as [|p r IH]; intros sel ps' sel' H; cbn [filter_pairs] in H.
    - injection H as <- <-. reflexivity.
    - unfold select in H. destruct (can_add names sel (prim p)) eqn:E;
        destruct (filter_pairs prim names _ r) as [r' sel2] eqn:Er; injection H as <- <-.
      + cbn. rewrite (can_add_wanted _ _ E). exact (IH _ _ _ Er).
      + exact (IH _ _ _ Er).
  Qed.

  Lemma filter_info_wanted sel i res sel1 : filter_info lay names sel i = (res, sel1) ->
    info_wanted lay names i = true \/ res <> None -> info_wanted lay names (after_info res i) = true.
  Proof.
    destruct i as [ps|m l ps|m l|]; cbn [filter_info]; intros H Hor.
    - destruct (filter_pairs nprimary names sel ps) as [ps' sel'] eqn:E. injection H as <- <-. cbn.
      exact (filter_pairs_wanted _ _ _ _ _ E).
    - destruct (is_future_mod m) eqn:Ef.
      + injection H as <- <-. cbn. rewrite Ef. reflexivity.
      + destruct (filter_pairs fprimary names sel ps) as [ps' sel'] eqn:E. injection H as <- <-. cbn. rewrite Ef.
        exact (filter_pairs_wanted _ _ _ _ _ E).
    - destruct (is_future_mod m) eqn:Ef.
      + injection H as <- <-. cbn. rewrite Ef. reflexivity.
      + destruct (assoc modref_eqb (m, l) (l_star lay)) as [ns|] eqn:El.
        * destruct (star_select names sel ns) as [[|] sel'] eqn:E; injection H as <- <-; cbn; rewrite Ef.
          -- rewrite El. exact (star_select_wanted _ _ _ E).
          -- reflexivity.
        * injection H as <- <-. cbn. rewrite Ef, El. reflexivity.
    - injection H as <- <-. reflexivity.
  Qed.

  Lemma remove_unused_from_wanted : forall l sel,
    Forall (fun s => info_wanted lay names (s_info s) = true) (fst (remove_unused_from lay names sel l)).
  Proof.
    induction l as [|s r IH]; intros sel; cbn [remove_unused_from]; [constructor|].
    destruct (filter_info lay names sel (s_info s)) as [res sel1] eqn:E. specialize (IH sel1).
    destruct (remove_unused_from lay names sel1 r) as [r' sel2]. cbn [fst] in *. constructor; [|exact IH].
    assert (Hw : info_wanted lay names (after_info res (s_info s)) = true).
    { destruct res as [i|] eqn:Er.
      - apply (filter_info_wanted _ _ _ _ E). right. discriminate.
      - (* dispatch returned None: an EmptyImport, or a star import of a module that is not found *)
        cbn [after_info]. destruct (s_info s) as [ps|m l ps|m l|]; cbn [filter_info] in E.
        + destruct (filter_pairs nprimary names sel ps). discriminate.
        + destruct (is_future_mod m); [discriminate|]. destruct (filter_pairs fprimary names sel ps). discriminate.
        + cbn. destruct (is_future_mod m); [reflexivity|]. cbn.
          destruct (assoc modref_eqb (m, l) (l_star lay)); [|reflexivity]. destruct (star_select names sel l0). discriminate.
        + reflexivity. }
    destruct res as [i|]; cbn [after_info] in Hw; [rewrite s_info_set_info; exact Hw | exact Hw].
  Qed.

  (* the block left by the removal of unused imports, in any order in which no name is bound twice, is
     left alone by a further removal *)
  Theorem removal_stable_under_reordering l0 l :
    Permutation l (remove_unused lay names l0) -> distinct_heads lay l = true ->
    remove_unused lay names l = l.
  Proof.
    intros Hp Hd. unfold remove_unused at 1.
    assert (Hw : Forall (fun s => info_wanted lay names (s_info s) = true) l).
    { eapply Permutation_Forall; [apply Permutation_sym; exact Hp|]. apply remove_unused_from_wanted. }
    destruct (remove_unused_from_all l [] Hw (nodup_text_spec _ Hd)) as (sel' & E); [intros t []|].
    rewrite E. reflexivity.
  Qed.
End Stable.
