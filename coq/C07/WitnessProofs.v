(* C07 — computed facts about the witnesses: non-vacuity of the theorems' hypotheses and the refutations
   of the full-strength statements on the faithful model (each witness is replayed on rope by the harness). *)
From Coq Require Import List NArith Bool.
From RopeVerif.Lib Require Import Text.
From RopeVerif.C07 Require Import Imports Spec Renaming Witnesses.
Import ListNotations.

(* the hypotheses of the organize theorem hold on a block where something is removed, merged and sorted *)
Lemma ex_organize_nonvacuous :
  exists out, organize w_lay w_prefs ex_used ex_exported ex_stmts = Some out /\
              consistent w_lay ex_stmts = true /\ star_table_complete w_lay ex_stmts = true /\
              map s_info out <> map s_info ex_stmts /\
              resolve w_lay out [n_pkg; n_s; n_f] = Some (false, 0%N, [n_pkg; n_s; n_f]) /\
              resolve w_lay out [n_x] = Some (true, 0%N, [n_lb; n_x]).
Proof. eexists. split; [vm_compute; reflexivity|]. repeat split; try (vm_compute; congruence). Qed.

(* from a import x; from b import x — organize keeps the first, Python binds the last *)
Lemma duplicate_binding_refuted :
  exists lay pr used exported l out u,
    organize lay pr used exported l = Some out /\ star_table_complete lay l = true /\ In u (names_unused used exported) /\
    resolve lay out u <> resolve lay l u.
Proof.
  exists w_lay, w_prefs, dup_used, [], dup_stmts. eexists. exists [n_x].
  split; [vm_compute; reflexivity|]. split; [reflexivity|]. split; [left; reflexivity|]. vm_compute. congruence.
Qed.

(* from a import *; from a import x as q: before rope c04424c the star import absorbed the aliased
   from-import (q became unbound); with _covered_by_star both statements stay and q keeps its meaning *)
Lemma star_absorbs_fixed :
  exists out, organize w_lay w_prefs absorb_used [] absorb_stmts = Some out /\
              map s_info out = map s_info absorb_stmts /\
              resolve w_lay out [n_q] = Some (true, 0%N, [n_la; n_x]).
Proof. eexists. split; [vm_compute; reflexivity|]. split; vm_compute; reflexivity. Qed.

(* import pkg.t; import pkg.s with only pkg.s.f used: the second application removes import pkg.t *)
Lemma idempotent_refuted :
  exists lay pr used exported l out out2,
    consistent lay l = true /\ star_table_complete lay l = true /\
    organize lay pr used exported l = Some out /\ organize lay pr used exported out = Some out2 /\
    map s_info out2 <> map s_info out.
Proof.
  exists w_lay, w_prefs, idem_used, [], idem_stmts. eexists. eexists.
  split; [reflexivity|]. split; [reflexivity|]. split; [vm_compute; reflexivity|]. split; [vm_compute; reflexivity|].
  vm_compute. congruence.
Qed.

(* import pkg.s as q; import pkg with pkg.s.f used: the only statement loading pkg.s is removed *)
Lemma loaded_by_aliased_refuted :
  exists lay pr used exported l out u,
    consistent lay l = true /\ star_table_complete lay l = true /\ organize lay pr used exported l = Some out /\
    In u (names_unused used exported) /\ In u (loaded l) /\ ~ In u (loaded out).
Proof.
  exists w_lay, w_prefs, load_used, [], load_stmts. eexists. exists [n_pkg; n_s].
  split; [reflexivity|]. split; [reflexivity|]. split; [vm_compute; reflexivity|].
  split; [vm_compute; tauto|]. split; [vm_compute; tauto|]. vm_compute. intros [H|[]]. discriminate.
Qed.

(* from a import * with x only in __all__: before rope e222b99 expand_star_imports dropped the import;
   now the exported name is selected *)
Lemma expand_stars_export_fixed :
  map s_info (expand_stars w_lay [] star_exported star_stmts) = [From [n_la] 0%N [(n_x, None)]] /\
  resolve w_lay (expand_stars w_lay [] star_exported star_stmts) [n_x] = resolve w_lay star_stmts [n_x].
Proof. split; vm_compute; reflexivity. Qed.

From RopeVerif.C07 Require Import ExpandProofs SortProofs.

Lemma ex_loaded_nonvacuous :
  exists out, organize w_lay w_prefs ex_used ex_exported ex_stmts = Some out /\
              consistent w_lay ex_stmts = true /\ In [n_pkg; n_s] (names_unused ex_used ex_exported) /\
              In [n_pkg; n_s] (plain_loaded ex_stmts) /\ In [n_pkg; n_t] (plain_loaded ex_stmts) /\
              ~ In [n_pkg; n_t] (loaded out).
Proof.
  eexists. split; [vm_compute; reflexivity|]. split; [reflexivity|].
  split; [vm_compute; tauto|]. split; [vm_compute; tauto|]. split; [vm_compute; tauto|].
  vm_compute. intros H. repeat (destruct H as [H|H]; [discriminate|]). exact H.
Qed.

Lemma ex_expand_nonvacuous :
  consistent w_lay rel_stmts = true /\ In [n_y] (names_expand rel_used []) /\
  map s_info (expand_stars w_lay rel_used [] rel_stmts) <> map s_info rel_stmts /\
  resolve w_lay (expand_stars w_lay rel_used [] rel_stmts) [n_y] = Some (true, 0%N, [n_la; n_y]).
Proof. split; [reflexivity|]. split; [vm_compute; tauto|]. split; vm_compute; congruence. Qed.

Lemma ex_rel_abs_nonvacuous :
  abs_coherent w_lay = true /\
  map s_info (relatives_to_absolutes w_lay rel_stmts) <> map s_info rel_stmts /\
  resolve w_lay (relatives_to_absolutes w_lay rel_stmts) [n_f] = Some (true, 0%N, [n_pkg; n_s; n_f]).
Proof. split; [reflexivity|]. split; vm_compute; congruence. Qed.

(* sorting really reorders: the standard-library import moves in front of the project imports *)
Lemma ex_sort_nonvacuous :
  map s_info (sort_imports w_lay false ex_stmts) <> map s_info ex_stmts /\
  length (sort_imports w_lay false ex_stmts) = length ex_stmts.
Proof. split; vm_compute; congruence. Qed.

Lemma ex_remove_unused_nonvacuous :
  map s_info (remove_unused w_lay (names_unused ex_used ex_exported) ex_stmts) <> map s_info ex_stmts.
Proof. vm_compute. congruence. Qed.

From RopeVerif.C07 Require Import Layout.

(* pulling the import to the top really moves it and drops blank lines, and nothing else *)
Lemma ex_layout_nonvacuous :
  out_text (emit_top lay_lines lay_imps 2 2) <> concat lay_lines /\
  originals (emit_top lay_lines lay_imps 2 2) <> outside lay_lines lay_imps /\
  length (nonblank (outside lay_lines lay_imps)) = 3 /\
  originals (emit_inplace lay_lines lay_imps) = outside lay_lines lay_imps.
Proof. repeat split; vm_compute; congruence. Qed.

(* froms_to_imports leaves the __future__ import alone (rope 15d6126) and converts the other one *)
Lemma froms_future_fixed :
  option_map (fun r => (map s_info (fst r), snd r)) (froms_to_imports w_lay w_prefs fut_used [] fut_stmts)
  = Some ([From [t_future] 0%N [(n_x, None)]; Normal [([n_la], None)]], [[n_la; n_y]]).
Proof. vm_compute. reflexivity. Qed.

(* statements with equal alphabetical keys keep their source order (rope 2352e54) *)
Lemma alphabetical_ties_stable :
  key_alpha tie_a = key_alpha tie_b /\
  sort_imports w_lay true [tie_a; tie_b] = [tie_a; tie_b] /\
  sort_imports w_lay true [tie_b; tie_a] = [tie_b; tie_a].
Proof. repeat split; vm_compute; reflexivity. Qed.

(* froms_to_imports renames by object: x becomes la.x, the primary la.x (the same object) is replaced as
   a whole and stays la.x (it would be la.la.x if only the word were qualified), la.y is untouched *)
Lemma froms_two_routes :
  option_map (fun r => (map s_info (fst r), snd r)) (froms_to_imports w_lay w_prefs routes_used [] routes_stmts)
  = Some ([Normal [([n_la], None)]], [[n_la; n_x]; [n_la; n_x]; [n_la; n_y]]).
Proof. vm_compute. reflexivity. Qed.

From RopeVerif.C07 Require Import Unbound.

(* the finder visits the default value x=x with the inner scope's table: the use of the global x is missed,
   although Python evaluates the default value in the enclosing scope; la.y and its prefix are found *)
Lemma used_names_refuted :
  exists gnames body u, In u (py_unbound_names gnames body) /\ ~ In u (unbound_names gnames body).
Proof.
  exists [n_g], hidden_body, [n_x]. split; [vm_compute; tauto|].
  vm_compute. intros H. repeat (destruct H as [H|H]; [discriminate|]). exact H.
Qed.

Lemma used_names_example :
  unbound_names [n_g] hidden_body = [[n_print]; [n_la]; [n_la; n_y]] /\
  py_unbound_names [n_g] hidden_body = [[n_x]; [n_print]; [n_la]; [n_la; n_y]].
Proof. split; vm_compute; reflexivity. Qed.

From RopeVerif.C07 Require Import StableProofs SortProofs.

(* the hypothesis of the stability theorem holds on the sorted result of a removal that removed something,
   and fails exactly on the witness of C07_idempotent_refuted (import pkg.t / import pkg.s both bind pkg) *)
Lemma ex_stable_nonvacuous :
  let l := sort_imports w_lay false (remove_unused w_lay (names_unused ex_used ex_exported) ex_stmts) in
  distinct_heads w_lay l = true /\ map s_info l <> map s_info ex_stmts /\
  distinct_heads w_lay idem_stmts = false.
Proof. repeat split; vm_compute; congruence. Qed.

(* _remove_self_imports: the self import goes and m.g becomes g; with a bare use of m nothing is touched *)
Lemma self_import_example :
  option_map (fun r => (map s_info (fst r), snd r)) (organize_self w_lay w_prefs [n_m] self_used [] self_stmts)
  = Some ([Normal [([n_la], None)]], [[n_g]; [n_la; n_x]]) /\
  option_map (fun r => (map s_info (fst r), snd r)) (organize_self w_lay w_prefs [n_m] self_used_bare [] self_stmts)
  = Some ([Normal [([n_m], None)]; Normal [([n_la], None)]], self_used_bare).
Proof. split; vm_compute; reflexivity. Qed.
