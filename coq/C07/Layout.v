(* C07 — text layout of ModuleImports.get_changed_source (definitions only).

   The module text is the list of its lines (source.splitlines(True)); every import statement carries
   its old location (start line, exclusive end line, both 1-based as in ImportStatement), the number of
   blank lines before it, and possibly a new position given by sort_imports.  Two emitters, as in the
   code: _rewrite_imports (in place) and the pull-to-top path (_remove_imports, _first_non_blank_line,
   the blank-line forwarding loop, sorting by location).  The pieces of the result are tagged: [false]
   for a line of the original text, [true] for material generated for import statements. *)
From Coq Require Import List NArith Bool Arith.
From RopeVerif.Lib Require Import Text.
From RopeVerif.C07 Require Import Imports.
Import ListNotations.

Record lstmt := {
  ls_stmt : stmt;
  ls_start : nat;            (* start_line *)
  ls_end : nat;              (* end_line (exclusive) *)
  ls_blank : nat;            (* blank_lines *)
  ls_new : option nat        (* new_start *)
}.

Definition ls_set_stmt (s : lstmt) (st : stmt) : lstmt :=
  {| ls_stmt := st; ls_start := ls_start s; ls_end := ls_end s; ls_blank := ls_blank s; ls_new := ls_new s |}.
Definition ls_set_blank (s : lstmt) (b : nat) : lstmt :=
  {| ls_stmt := ls_stmt s; ls_start := ls_start s; ls_end := ls_end s; ls_blank := b; ls_new := ls_new s |}.
Definition ls_nonempty (s : lstmt) : bool := nonempty (ls_stmt s).

(* str.isspace for the characters that occur: line.strip() == "" *)
Definition is_space (c : N) : bool :=
  (N.leb 9 c && N.leb c 13) || (N.leb 28 c && N.leb c 32) || N.eqb c 133 || N.eqb c 160.
Definition is_blank (t : text) : bool := forallb is_space t.

(* Python l[a:b] for 0 <= a, b *)
Definition slice {A} (l : list A) (a b : nat) : list A := firstn (b - a) (skipn a l).

(* _count_blank_lines over consecutive items *)
Fixpoint count_blank (l : list text) : nat :=
  match l with
  | [] => 0
  | x :: r => if is_blank x then S (count_blank r) else 0
  end.

Definition nl : text := [10%N].
Definition newlines (n : nat) : text := repeat 10%N n.

(* ------------------------------------------------------------------ _rewrite_imports *)
Fixpoint rewrite_go (lines : list text) (last : nat) (imps : list lstmt) : list (bool * text) :=
  match imps with
  | [] => map (pair false) (skipn last lines)
  | s :: r =>
      map (pair false) (slice lines last (ls_start s - 1))
      ++ (if ls_nonempty s then [(true, stmt_text (ls_stmt s) ++ nl)] else [])
      ++ rewrite_go lines (ls_end s - 1) r
  end.
Definition emit_inplace (lines : list text) (imps : list lstmt) : list (bool * text) := rewrite_go lines 0 imps.

(* ------------------------------------------------------------------ _remove_imports *)
(* blank lines directly before the statement (counted backwards down to last_index), except for a
   statement that starts at the first import line *)
Fixpoint remove_go (lines : list text) (fil : nat) (last : nat) (imps : list lstmt) : list text :=
  match imps with
  | [] => skipn last lines
  | s :: r =>
      let blank := if Nat.eqb (ls_start s) fil then 0
                   else count_blank (rev (slice lines last (ls_start s - 1))) in
      slice lines last (ls_start s - 1 - blank) ++ remove_go lines fil (ls_end s - 1) r
  end.

(* the loop forwarding a removed import's blank-line count to the following statement *)
Fixpoint propagate_blank (prev : option lstmt) (l : list lstmt) : list lstmt :=
  match l with
  | [] => []
  | s :: r =>
      let s' := match prev with
                | Some p => if ls_nonempty p then s else ls_set_blank s (Nat.max (ls_blank p) (ls_blank s))
                | None => s
                end in
      s' :: propagate_blank (Some s') r
  end.

Definition location (s : lstmt) : nat := match ls_new s with Some n => n | None => ls_start s end.

Fixpoint insert_loc (s : lstmt) (l : list lstmt) : list lstmt :=
  match l with
  | [] => [s]
  | x :: r => if Nat.leb (location s) (location x) then s :: x :: r else x :: insert_loc s r
  end.
Fixpoint sort_loc (l : list lstmt) : list lstmt :=
  match l with
  | [] => []
  | s :: r => insert_loc s (sort_loc r)
  end.

Fixpoint render_rest (l : list lstmt) : list (bool * text) :=
  match l with
  | [] => []
  | s :: r => (true, newlines (ls_blank s)) :: (true, stmt_text (ls_stmt s) ++ nl) :: render_rest r
  end.
Definition render_imports (l : list lstmt) : list (bool * text) :=
  match l with
  | [] => []
  | s :: r => (true, stmt_text (ls_stmt s) ++ nl) :: render_rest r
  end.

(* get_changed_source when pull_imports_to_top or after sort_imports; fil = _first_import_line(),
   sep = separating_lines *)
Definition emit_top (lines : list text) (imps : list lstmt) (fil sep : nat) : list (bool * text) :=
  let imps1 := propagate_blank None imps in
  let keep := filter ls_nonempty imps1 in
  let ar := remove_go lines fil 0 imps in
  let fnb := count_blank ar in
  let fi := fil - 1 in
  let sorted := sort_loc keep in
  map (pair false) (slice ar fnb fi)
  ++ render_imports sorted
  ++ (match sorted with
      | [] => []
      | _ :: _ => if Nat.ltb fnb (length ar) then [(true, newlines sep)] else []
      end)
  ++ map (pair false) (skipn (fi + count_blank (skipn fi ar)) ar).

Definition out_text (o : list (bool * text)) : text := concat (map snd o).

(* the lines before, between and after the import statements *)
Fixpoint outside_from (lines : list text) (last : nat) (imps : list lstmt) : list text :=
  match imps with
  | [] => skipn last lines
  | s :: r => slice lines last (ls_start s - 1) ++ outside_from lines (ls_end s - 1) r
  end.
Definition outside (lines : list text) (imps : list lstmt) : list text := outside_from lines 0 imps.

Definition originals (o : list (bool * text)) : list text := map snd (filter (fun p => negb (fst p)) o).
Definition nonblank (l : list text) : list text := filter (fun t => negb (is_blank t)) l.

(* ------------------------------------------------------------------ the actions with their layout *)
(* the statements after an info-level stage keep their places; statements added by add_import sit at
   the end_line of the last parsed import (ModuleImports._get_new_import_lineno) with no blank lines *)
Fixpoint attach (old : list lstmt) (new : list stmt) (lineno : nat) : list lstmt :=
  match new with
  | [] => []
  | st :: r =>
      match old with
      | o :: old' => ls_set_stmt o st :: attach old' r lineno
      | [] => {| ls_stmt := st; ls_start := lineno; ls_end := lineno; ls_blank := 0; ls_new := None |}
              :: attach [] r lineno
      end
  end.

Definition new_import_lineno (imps : list lstmt) : nat := match rev imps with s :: _ => ls_end s | [] => 1 end.

(* organize_imports(selfs=False, sort=False): the first stage and its emission *)
Definition stage1 (lay : layout) (pr : prefs) (names : list dotted) (l : list stmt) : option (list stmt) :=
  let l1 := remove_unused lay names l in
  let l2 := if p_split pr then force_single l1 else l1 in
  remove_duplicates (p_split pr) l2.

Definition emit (pull : bool) (lines : list text) (imps : list lstmt) (fil sep : nat) : list (bool * text) :=
  if pull then emit_top lines imps fil sep else emit_inplace lines imps.

Definition stage1_text (lay : layout) (pr : prefs) (pull : bool) (names : list dotted)
           (lines : list text) (imps : list lstmt) (fil sep : nat) : option text :=
  match stage1 lay pr names (map ls_stmt imps) with
  | Some sts => Some (out_text (emit pull lines (attach imps sts (new_import_lineno imps)) fil sep))
  | None => None
  end.

(* ImportTools.sort_imports: _move_imports numbers the statements group by group from the first import
   line; the first statement of a group gets 0 (future) or 1 blank lines, the others none;
   separating_lines becomes 2 *)
Fixpoint move_group (g : list lstmt) (index : nat) (blank : nat) : list lstmt * nat :=
  match g with
  | [] => ([], index)
  | s :: r =>
      let '(r', idx) := move_group r (S index) 0 in
      ({| ls_stmt := ls_stmt s; ls_start := ls_start s; ls_end := ls_end s; ls_blank := blank;
          ls_new := Some index |} :: r', idx)
  end.

Fixpoint insert_key (key : stmt -> bool * text) (s : lstmt) (l : list lstmt) : list lstmt :=
  match l with
  | [] => [s]
  | x :: r => if key_leb (key (ls_stmt s)) (key (ls_stmt x)) then s :: x :: r else x :: insert_key key s r
  end.
Fixpoint sort_key (key : stmt -> bool * text) (l : list lstmt) : list lstmt :=
  match l with
  | [] => []
  | s :: r => insert_key key s (sort_key key r)
  end.

Definition sort_layout (lay : layout) (alpha : bool) (imps : list lstmt) (fil : nat) : list lstmt :=
  let key := if alpha then key_alpha else key_default in
  let grp g := sort_key key (filter (fun s => in_group lay g (ls_stmt s)) imps) in
  let '(g0, i0) := move_group (grp 0%N) fil 0 in
  let '(g1, i1) := move_group (grp 1%N) i0 1 in
  let '(g2, i2) := move_group (grp 2%N) i1 1 in
  let '(g3, _) := move_group (grp 3%N) i2 1 in
  g0 ++ g1 ++ g2 ++ g3.

(* the moved statements are the same objects as those of self.imports: removal walks self.imports in
   the original order, the emission order is by new position *)
Definition moved_in_place (imps moved : list lstmt) : list lstmt :=
  map (fun s => match find (fun m => Nat.eqb (ls_start m) (ls_start s) && Nat.eqb (ls_end m) (ls_end s)) moved with
                | Some m => m
                | None => s
                end) imps.

Definition sort_text (lay : layout) (alpha : bool) (lines : list text) (imps : list lstmt) (fil : nat) : text :=
  out_text (emit_top lines (moved_in_place imps (sort_layout lay alpha imps fil)) fil 2).

Definition simple_text (pull : bool) (f : list stmt -> list stmt) (lines : list text) (imps : list lstmt)
           (fil sep : nat) : text :=
  out_text (emit pull lines (attach imps (f (map ls_stmt imps)) (new_import_lineno imps)) fil sep).
