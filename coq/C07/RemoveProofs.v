(* C07 — remove_unused_imports (RemovingVisitor / FilteringVisitor / _OneTimeSelector):
   the bindings that remain are a subset of the old ones, and every binding whose name is in the
   selector's name set keeps a binding of that name. *)
From Coq Require Import List NArith Bool Lia.
From RopeVerif.Lib Require Import Text.
From RopeVerif.C07 Require Import Imports Spec BasicsProofs SpecProofs.
Import ListNotations.

Lemma map_as_flat_map {A B} (f : A -> B) l : map f l = flat_map (fun x => [f x]) l.
Proof. induction l; cbn; congruence. Qed.

Lemma incl_flat_map {A B} (f : A -> list B) a b : incl a b -> incl (flat_map f a) (flat_map f b).
Proof. intros H x Hx. apply in_flat_map in Hx as (y & Hy & Hx). apply in_flat_map. exists y. split; [apply H; exact Hy | exact Hx]. Qed.

Lemma select_spec names sel p b sel1 :
  select names sel p = (b, sel1) ->
  (b = true /\ sel1 = prefixes p ++ sel) \/
  (b = false /\ sel1 = sel /\ forall t, In t (prefixes p) -> In t names -> In t sel).
Proof.
  unfold select. destruct (can_add names sel p) eqn:E; intros H; injection H as <- <-; [left; auto|].
  right. repeat split. intros t Ht Hn. unfold can_add in E.
  destruct (dmem t sel) eqn:D; [apply dmem_In; exact D|]. exfalso.
  assert (existsb (fun t => dmem t names && negb (dmem t sel)) (prefixes p) = true); [|congruence].
  apply existsb_exists. exists t. split; [exact Ht|]. rewrite D. cbn. rewrite andb_true_r. apply dmem_In. exact Hn.
Qed.

(* sel1 only gained tokens that are backed by a binding in bs *)
Definition backed (sel0 sel1 : list dotted) (bs : list (text * obj)) : Prop :=
  forall t, In t sel1 -> In t sel0 \/ exists o, In (hd [] t, o) bs.

Definition kept (names sel : list dotted) (before after : list (text * obj)) : Prop :=
  forall n o, In (n, o) before -> In [n] names -> (exists o', In (n, o') after) \/ In [n] sel.

Section Pairs.
  Context {A : Type} (prim : A -> dotted) (bnd : A -> list (text * obj)).
  Hypothesis Hb : forall p, (prim p = [] /\ bnd p = []) \/
                            (prim p <> [] /\ exists o, bnd p = [(hd [] (prim p), o)]).

  Lemma bnd_name p n o : In (n, o) (bnd p) -> prim p <> [] /\ n = hd [] (prim p).
  Proof.
    destruct (Hb p) as [[_ E]|[Hn (o' & E)]]; rewrite E; cbn; [tauto|].
    intros [H|[]]. inversion H. auto.
  Qed.

  Lemma bnd_token p t : In t (prefixes (prim p)) -> exists o, In (hd [] t, o) (bnd p).
  Proof.
    intros Ht. destruct (Hb p) as [[E _]|[Hn (o' & E)]].
    - rewrite E in Ht. destruct Ht.
    - exists o'. rewrite E, (prefixes_hd _ _ Ht). left. reflexivity.
  Qed.

  Lemma filter_pairs_spec names : forall ps sel ps' sel',
    filter_pairs prim names sel ps = (ps', sel') ->
    incl ps' ps /\ incl sel sel' /\
    backed sel sel' (flat_map bnd ps') /\
    kept names sel (flat_map bnd ps) (flat_map bnd ps').
  Proof.
    induction ps as [|p r IH]; intros sel ps' sel' H; cbn in H.
    - inversion H; subst. repeat split; try apply incl_refl.
      + intros t Ht. left. exact Ht.
      + intros n o [].
    - destruct (select names sel (prim p)) as [b sel1] eqn:Es.
      destruct (filter_pairs prim names sel1 r) as [r' sel2] eqn:Er.
      inversion H; subst. clear H.
      destruct (IH _ _ _ Er) as (I1 & I2 & I3 & I4).
      destruct (select_spec _ _ _ _ _ Es) as [[-> ->]|(-> & -> & Hall)].
      + repeat split.
        * intros x [<-|Hx]; [left; reflexivity | right; apply I1; exact Hx].
        * intros x Hx. apply I2. apply in_or_app. right. exact Hx.
        * intros t Ht. destruct (I3 _ Ht) as [Ht1|(o & Ho)].
          -- apply in_app_or in Ht1 as [Ht1|Ht1]; [|left; exact Ht1]. right.
             destruct (bnd_token _ _ Ht1) as (o & Ho). exists o. cbn. apply in_or_app. left. exact Ho.
          -- right. exists o. cbn. apply in_or_app. right. exact Ho.
        * intros n o Hin Hn. cbn in Hin. apply in_app_or in Hin as [Hin|Hin].
          -- left. exists o. cbn. apply in_or_app. left. exact Hin.
          -- destruct (I4 _ _ Hin Hn) as [(o' & Ho')|Hs].
             ++ left. exists o'. cbn. apply in_or_app. right. exact Ho'.
             ++ apply in_app_or in Hs as [Hs|Hs]; [|right; exact Hs]. left.
                destruct (bnd_token _ _ Hs) as (o' & Ho'). cbn in Ho'. exists o'. cbn. apply in_or_app. left. exact Ho'.
      + repeat split.
        * intros x Hx. right. apply I1. exact Hx.
        * exact I2.
        * exact I3.
        * intros n o Hin Hn. cbn in Hin. apply in_app_or in Hin as [Hin|Hin].
          -- right. destruct (bnd_name _ _ _ Hin) as (Hne & ->). apply Hall; [|exact Hn].
             destruct (prim p) as [|x rr]; [congruence|]. apply prefixes_first.
          -- exact (I4 _ _ Hin Hn).
  Qed.
End Pairs.

Lemma bind_npair_shape p :
  (nprimary p = [] /\ bind_npair p = []) \/
  (nprimary p <> [] /\ exists o, bind_npair p = [(hd [] (nprimary p), o)]).
Proof.
  destruct p as [d [a|]]; unfold nprimary, bind_npair; cbn.
  - right. split; [discriminate | eauto].
  - destruct d as [|h r]; [left; auto | right; split; [discriminate | eauto]].
Qed.

Lemma bind_fpair_shape lay m l p :
  (fprimary p = [] /\ [bind_fpair lay m l p] = []) \/
  (fprimary p <> [] /\ exists o, [bind_fpair lay m l p] = [(hd [] (fprimary p), o)]).
Proof.
  right. destruct p as [n [a|]]; unfold fprimary, bind_fpair; cbn; (split; [discriminate | eauto]).
Qed.

Lemma star_select_spec names : forall ns sel b sel',
  star_select names sel ns = (b, sel') ->
  (b = true /\ exists n0, In n0 ns /\ sel' = [n0] :: sel) \/
  (b = false /\ sel' = sel /\ forall n, In n ns -> In [n] names -> In [n] sel).
Proof.
  induction ns as [|n r IH]; intros sel b sel' H; cbn [star_select] in H.
  - inversion H; subst. right. repeat split. intros n [].
  - destruct (can_add names sel [n]) eqn:E.
    + inversion H; subst. left. split; [reflexivity|]. exists n. split; [left; reflexivity | reflexivity].
    + destruct (IH _ _ _ H) as [(-> & n0 & Hn0 & ->)|(-> & -> & Hall)].
      * left. split; [reflexivity|]. exists n0. split; [right; exact Hn0 | reflexivity].
      * right. repeat split. intros n' [<-|Hn'] Hnm; [|apply Hall; assumption].
        unfold can_add in E. cbn in E. rewrite orb_false_r in E.
        destruct (dmem [n] sel) eqn:D; [apply dmem_In; exact D|].
        apply dmem_In in Hnm. rewrite Hnm in E. discriminate.
Qed.

Definition after_info (res : option info) (i : info) : info := match res with Some x => x | None => i end.

Lemma filter_info_spec lay names sel i res sel1 :
  filter_info lay names sel i = (res, sel1) ->
  let i' := after_info res i in
  incl (bindings_info lay i') (bindings_info lay i) /\ incl sel sel1 /\
  backed sel sel1 (bindings_info lay i') /\
  kept names sel (bindings_info lay i) (bindings_info lay i').
Proof.
  assert (Triv : forall j, incl (bindings_info lay j) (bindings_info lay j) /\ incl sel sel /\
            backed sel sel (bindings_info lay j) /\ kept names sel (bindings_info lay j) (bindings_info lay j)).
  { intros j. repeat split; try apply incl_refl.
    - intros t Ht. left. exact Ht.
    - intros n o Hin _. left. eauto. }
  destruct i as [ps|m l ps|m l|]; cbn [filter_info]; intros H.
  - destruct (filter_pairs nprimary names sel ps) as [ps' sel'] eqn:E. inversion H; subst. cbn [after_info].
    destruct (filter_pairs_spec nprimary bind_npair bind_npair_shape names _ _ _ _ E) as (I1 & I2 & I3 & I4).
    cbn [bindings_info]. repeat split; try assumption. apply incl_flat_map. exact I1.
  - destruct (is_future_mod m).
    + inversion H; subst. cbn [after_info]. apply Triv.
    + destruct (filter_pairs fprimary names sel ps) as [ps' sel'] eqn:E. inversion H; subst. cbn [after_info].
      destruct (filter_pairs_spec fprimary (fun p => [bind_fpair lay m l p]) (bind_fpair_shape lay m l) names _ _ _ _ E)
        as (I1 & I2 & I3 & I4).
      cbn [bindings_info]. rewrite !map_as_flat_map. repeat split; try assumption. apply incl_flat_map. exact I1.
  - destruct (is_future_mod m).
    + inversion H; subst. cbn [after_info]. apply Triv.
    + destruct (assoc modref_eqb (m, l) (l_star lay)) as [ns|] eqn:El.
      * destruct (star_select names sel ns) as [b sel'] eqn:E. inversion H; subst. cbn [after_info].
        destruct (star_select_spec _ _ _ _ _ E) as [(-> & n0 & Hn0 & ->)|(-> & -> & Hall)].
        -- cbn [bindings_info]. rewrite El. repeat split; try apply incl_refl.
           ++ intros x Hx. right. exact Hx.
           ++ intros t [<-|Ht]; [|left; exact Ht]. right. cbn. exists (canon lay m l n0).
              apply in_map_iff. exists n0. auto.
           ++ intros n o Hin _. left. eauto.
        -- cbn [bindings_info]. rewrite El. repeat split; try apply incl_refl.
           ++ intros x [].
           ++ intros t Ht. left. exact Ht.
           ++ intros n o Hin Hn. right. apply in_map_iff in Hin as (n' & E' & Hn'). inversion E'; subst.
              apply Hall; assumption.
      * inversion H; subst. cbn [after_info]. apply Triv.
  - inversion H; subst. cbn [after_info]. apply Triv.
Qed.

Lemma remove_unused_from_spec lay names : forall l sel l' sel',
  remove_unused_from lay names sel l = (l', sel') ->
  incl (bindings lay l') (bindings lay l) /\ incl sel sel' /\
  backed sel sel' (bindings lay l') /\
  kept names sel (bindings lay l) (bindings lay l').
Proof.
  induction l as [|s r IH]; intros sel l' sel' H; cbn in H.
  - inversion H; subst. repeat split; try apply incl_refl.
    + intros t Ht. left. exact Ht.
    + intros n o [].
  - destruct (filter_info lay names sel (s_info s)) as [res sel1] eqn:Ef.
    destruct (remove_unused_from lay names sel1 r) as [r' sel2] eqn:Er.
    inversion H; subst. clear H.
    destruct (filter_info_spec _ _ _ _ _ _ Ef) as (F1 & F2 & F3 & F4).
    destruct (IH _ _ _ Er) as (I1 & I2 & I3 & I4).
    assert (Ei : s_info (match res with Some i => set_info s i | None => s end) = after_info res (s_info s)).
    { destruct res; cbn; [apply s_info_set_info | reflexivity]. }
    rewrite !bindings_cons, Ei. repeat split.
    + apply incl_app; [apply incl_appl; exact F1 | apply incl_appr; exact I1].
    + eapply incl_tran; eassumption.
    + intros t Ht. destruct (I3 _ Ht) as [Ht1|(o & Ho)].
      * destruct (F3 _ Ht1) as [Ht0|(o & Ho)]; [left; exact Ht0|]. right. exists o. apply in_or_app. left. exact Ho.
      * right. exists o. apply in_or_app. right. exact Ho.
    + intros n o Hin Hn. apply in_app_or in Hin as [Hin|Hin].
      * destruct (F4 _ _ Hin Hn) as [(o' & Ho')|Hs]; [|right; exact Hs]. left. exists o'. apply in_or_app. left. exact Ho'.
      * destruct (I4 _ _ Hin Hn) as [(o' & Ho')|Hs].
        -- left. exists o'. apply in_or_app. right. exact Ho'.
        -- destruct (F3 _ Hs) as [Hs0|(o' & Ho')]; [right; exact Hs0|]. left. exists o'. cbn in Ho'.
           apply in_or_app. left. exact Ho'.
Qed.

(* the first stage of organize_imports preserves the meaning-relevant bindings *)
Lemma remove_unused_pres lay names l :
  pres (fun n => In [n] names) (bindings lay l) (bindings lay (remove_unused lay names l)).
Proof.
  unfold remove_unused. destruct (remove_unused_from lay names [] l) as [l' sel'] eqn:E. cbn [fst].
  destruct (remove_unused_from_spec _ _ _ _ _ _ E) as (I1 & _ & _ & I4).
  split; [exact I1|]. intros n o Hin Hn. destruct (I4 _ _ Hin Hn) as [H|[]]. exact H.
Qed.

(* every token the selector gained is a prefix of the primary of a pair that was kept *)
Lemma filter_pairs_sel {A} (prim : A -> dotted) names : forall ps sel ps' sel',
  filter_pairs prim names sel ps = (ps', sel') ->
  forall t, In t sel' -> In t sel \/ exists p, In p ps' /\ In t (prefixes (prim p)).
Proof.
  induction ps as [|p r IH]; intros sel ps' sel' H t Ht; cbn [filter_pairs] in H.
  - inversion H; subst. auto.
  - destruct (select names sel (prim p)) as [b sel1] eqn:Es.
    destruct (filter_pairs prim names sel1 r) as [r' sel2] eqn:Er. inversion H; subst. clear H.
    destruct (IH _ _ _ Er _ Ht) as [H1|(q & Hq & Hqt)].
    + destruct (select_spec _ _ _ _ _ Es) as [[-> ->]|(-> & -> & _)]; [|auto].
      apply in_app_or in H1 as [H1|H1]; [|auto]. right. exists p. split; [left; reflexivity | exact H1].
    + right. exists q. split; [|exact Hqt]. destruct b; [right|]; exact Hq.
Qed.
