(* C07 — remove_unused_imports is idempotent: run again from the same selector state it changes nothing. *)
From Coq Require Import List NArith Bool Lia.
From RopeVerif.Lib Require Import Text.
From RopeVerif.C07 Require Import Imports BasicsProofs RemoveProofs.
Import ListNotations.

Lemma filter_pairs_idem {A} (prim : A -> dotted) names : forall ps sel ps' sel',
  filter_pairs prim names sel ps = (ps', sel') -> filter_pairs prim names sel ps' = (ps', sel').
Proof.
  induction ps as [|p r IH]; intros sel ps' sel' H; cbn [filter_pairs] in H.
  - injection H as <- <-. reflexivity.
  - destruct (select names sel (prim p)) as [b sel1] eqn:Es.
    destruct (filter_pairs prim names sel1 r) as [r' sel2] eqn:Er. injection H as <- <-.
    specialize (IH _ _ _ Er). destruct (select_spec _ _ _ _ _ Es) as [[-> ->]|(-> & -> & _)].
    + cbn [filter_pairs]. rewrite Es, IH. reflexivity.
    + exact IH.
Qed.

Lemma filter_info_idem lay names sel i res sel1 :
  filter_info lay names sel i = (res, sel1) ->
  exists res', filter_info lay names sel (after_info res i) = (res', sel1) /\
               after_info res' (after_info res i) = after_info res i.
Proof.
  destruct i as [ps|m l ps|m l|]; cbn [filter_info]; intros H.
  - destruct (filter_pairs nprimary names sel ps) as [ps' sel'] eqn:E. injection H as <- <-. cbn [after_info filter_info].
    rewrite (filter_pairs_idem _ _ _ _ _ _ E). eauto.
  - destruct (is_future_mod m) eqn:Ef.
    + injection H as <- <-. cbn [after_info filter_info]. rewrite Ef. eauto.
    + destruct (filter_pairs fprimary names sel ps) as [ps' sel'] eqn:E. injection H as <- <-. cbn [after_info filter_info].
      rewrite Ef, (filter_pairs_idem _ _ _ _ _ _ E). eauto.
  - destruct (is_future_mod m) eqn:Ef.
    + injection H as <- <-. cbn [after_info filter_info]. rewrite Ef. eauto.
    + destruct (assoc modref_eqb (m, l) (l_star lay)) as [ns|] eqn:El.
      * destruct (star_select names sel ns) as [b sel'] eqn:E. injection H as <- <-. cbn [after_info].
        destruct b; cbn [filter_info].
        -- rewrite Ef, El, E. eauto.
        -- destruct (star_select_spec _ _ _ _ _ E) as [(Hb & _)|(_ & -> & _)]; [discriminate|].
           rewrite Ef. cbn [filter_pairs]. eauto.
      * injection H as <- <-. cbn [after_info filter_info]. rewrite Ef, El. eauto.
  - injection H as <- <-. cbn [after_info filter_info]. eauto.
Qed.

Lemma remove_unused_from_idem lay names : forall l sel l' sel',
  remove_unused_from lay names sel l = (l', sel') -> remove_unused_from lay names sel l' = (l', sel').
Proof.
  induction l as [|s r IH]; intros sel l' sel' H; cbn [remove_unused_from] in H.
  - injection H as <- <-. reflexivity.
  - destruct (filter_info lay names sel (s_info s)) as [res sel1] eqn:Ef.
    destruct (remove_unused_from lay names sel1 r) as [r' sel2] eqn:Er. injection H as <- <-.
    destruct (filter_info_idem _ _ _ _ _ _ Ef) as (res' & E' & Ea).
    set (s' := match res with Some i => set_info s i | None => s end).
    assert (Ei : s_info s' = after_info res (s_info s)).
    { subst s'. destruct res; cbn; [apply s_info_set_info | reflexivity]. }
    cbn [remove_unused_from]. rewrite Ei, E', (IH _ _ _ Er). f_equal. f_equal.
    destruct res' as [j|]; [|reflexivity]. cbn [after_info] in Ea. subst j. rewrite <- Ei. apply set_info_same.
Qed.

Theorem remove_unused_idempotent lay names l :
  remove_unused lay names (remove_unused lay names l) = remove_unused lay names l.
Proof.
  unfold remove_unused. destruct (remove_unused_from lay names [] l) as [l' sel'] eqn:E. cbn [fst].
  rewrite (remove_unused_from_idem _ _ _ _ _ _ E). reflexivity.
Qed.
