(* C07 — basic facts about the helper functions of the model (decidable equalities, membership). *)
From Coq Require Import List NArith Bool Lia Permutation.
From RopeVerif.Lib Require Import Text.
From RopeVerif.C07 Require Import Imports.
Import ListNotations.

Lemma list_eqb_eq {A} (eqb : A -> A -> bool) :
  (forall x y, eqb x y = true <-> x = y) -> forall a b, list_eqb eqb a b = true <-> a = b.
Proof.
  intros H a. induction a as [|x a IH]; intros [|y b]; cbn; split; try congruence; try discriminate.
  - intros E. apply andb_true_iff in E as [E1 E2]. apply H in E1. apply IH in E2. congruence.
  - intros E. inversion E; subst. apply andb_true_iff. split; [apply H; reflexivity | apply IH; reflexivity].
Qed.

Lemma opt_eqb_eq {A} (eqb : A -> A -> bool) :
  (forall x y, eqb x y = true <-> x = y) -> forall a b, opt_eqb eqb a b = true <-> a = b.
Proof.
  intros H [x|] [y|]; cbn; split; try congruence; try discriminate.
  - intros E. apply H in E. congruence.
  - intros E. inversion E. apply H. reflexivity.
Qed.

Lemma dotted_eqb_eq a b : dotted_eqb a b = true <-> a = b.
Proof. apply list_eqb_eq. apply text_eqb_eq. Qed.

Lemma dotted_eqb_refl a : dotted_eqb a a = true.
Proof. apply dotted_eqb_eq. reflexivity. Qed.

Lemma npair_eqb_eq a b : npair_eqb a b = true <-> a = b.
Proof.
  destruct a as [d x], b as [e y]. unfold npair_eqb. cbn. rewrite andb_true_iff, dotted_eqb_eq.
  rewrite (opt_eqb_eq text_eqb text_eqb_eq). split; [intros [-> ->]; reflexivity | intros E; inversion E; auto].
Qed.

Lemma fpair_eqb_eq a b : fpair_eqb a b = true <-> a = b.
Proof.
  destruct a as [d x], b as [e y]. unfold fpair_eqb. cbn. rewrite andb_true_iff, text_eqb_eq.
  rewrite (opt_eqb_eq text_eqb text_eqb_eq). split; [intros [-> ->]; reflexivity | intros E; inversion E; auto].
Qed.

Lemma info_eqb_eq a b : info_eqb a b = true <-> a = b.
Proof.
  destruct a, b; cbn; try (split; [discriminate | congruence]).
  - rewrite (list_eqb_eq npair_eqb npair_eqb_eq). split; congruence.
  - rewrite !andb_true_iff, dotted_eqb_eq, N.eqb_eq, (list_eqb_eq fpair_eqb fpair_eqb_eq).
    split; [intros [[-> ->] ->]; reflexivity | intros E; inversion E; auto].
  - rewrite !andb_true_iff, dotted_eqb_eq, N.eqb_eq.
    split; [intros [-> ->]; reflexivity | intros E; inversion E; auto].
  - split; reflexivity.
Qed.

Lemma modref_eqb_eq a b : modref_eqb a b = true <-> a = b.
Proof.
  destruct a as [m l], b as [m' l']. unfold modref_eqb. cbn. rewrite andb_true_iff, dotted_eqb_eq, N.eqb_eq.
  split; [intros [-> ->]; reflexivity | intros E; inversion E; auto].
Qed.

Lemma same_mod_eq m l m' l' : same_mod m l m' l' = true <-> m = m' /\ l = l'.
Proof. unfold same_mod. rewrite andb_true_iff, dotted_eqb_eq, N.eqb_eq. tauto. Qed.

Lemma mem_In {A} (eqb : A -> A -> bool) :
  (forall x y, eqb x y = true <-> x = y) -> forall x l, mem eqb x l = true <-> In x l.
Proof.
  intros H x l. unfold mem. rewrite existsb_exists. split.
  - intros (y & Hy & E). apply H in E. subst. exact Hy.
  - intros Hx. exists x. split; [exact Hx | apply H; reflexivity].
Qed.

Lemma dmem_In d l : dmem d l = true <-> In d l.
Proof. apply mem_In. apply dotted_eqb_eq. Qed.

Lemma dmem_false d l : dmem d l = false <-> ~ In d l.
Proof. rewrite <- dmem_In. destruct (dmem d l); split; congruence. Qed.

(* the statement's info after _set_import_info is always the new info *)
Lemma s_info_set_info s i : s_info (set_info s i) = i.
Proof.
  unfold set_info. destruct (info_eqb i (s_info s)) eqn:E; [|reflexivity].
  apply info_eqb_eq in E. congruence.
Qed.

Lemma s_info_empty_stmt s : s_info (empty_stmt s) = Empty.
Proof. apply s_info_set_info. Qed.

Lemma set_info_same s : set_info s (s_info s) = s.
Proof. unfold set_info. replace (info_eqb (s_info s) (s_info s)) with true; [reflexivity|]. symmetry. apply info_eqb_eq. reflexivity. Qed.

(* ------------------------------------------------------------------ prefixes *)
Lemma prefixes_nonnil d t : In t (prefixes d) -> t <> [].
Proof.
  destruct d as [|x r]; cbn; [tauto|]. intros [<-|H]; [discriminate|].
  apply in_map_iff in H as (y & <- & _). discriminate.
Qed.

Lemma prefixes_hd d t : In t (prefixes d) -> hd [] t = hd [] d.
Proof.
  destruct d as [|x r]; cbn; [tauto|]. intros [<-|H]; [reflexivity|].
  apply in_map_iff in H as (y & <- & _). reflexivity.
Qed.

Lemma prefixes_first x r : In [x] (prefixes (x :: r)).
Proof. cbn. left. reflexivity. Qed.

Lemma prefixes_trans d t u : In t (prefixes d) -> In u (prefixes t) -> In u (prefixes d).
Proof.
  revert t u. induction d as [|x r IH]; cbn; [tauto|]. intros t u [<-|H] Hu.
  - cbn in Hu. destruct Hu as [<-|[]]. left. reflexivity.
  - apply in_map_iff in H as (y & <- & Hy). cbn in Hu. destruct Hu as [<-|Hu]; [left; reflexivity|].
    apply in_map_iff in Hu as (z & <- & Hz). right. apply in_map. eapply IH; eassumption.
Qed.

Lemma prefixes_self d : d <> [] -> In d (prefixes d).
Proof.
  induction d as [|x r IH]; [congruence|]. intros _. cbn. destruct r as [|y r'].
  - left. reflexivity.
  - right. apply in_map. apply IH. discriminate.
Qed.

(* the selector's name set is closed under prefixes *)
Lemma closure_prefix_closed used u t : In u (closure used) -> In t (prefixes u) -> In t (closure used).
Proof.
  unfold closure. rewrite !in_flat_map. intros (d & Hd & Hu) Ht. exists d. split; [exact Hd|].
  eapply prefixes_trans; eassumption.
Qed.

Lemma names_unused_prefix_closed used exported u t :
  In u (names_unused used exported) -> In t (prefixes u) -> In t (names_unused used exported).
Proof.
  unfold names_unused. rewrite !in_app_iff. intros [H|[H|H]] Ht.
  - left. eapply closure_prefix_closed; eassumption.
  - right. left. apply in_map_iff in H as (n & <- & Hn). cbn in Ht. destruct Ht as [<-|[]].
    apply in_map_iff. exists n. split; [reflexivity | exact Hn].
  - right. right. cbn in H. destruct H as [<-|[]]. cbn in Ht. destruct Ht as [<-|[]]. left. reflexivity.
Qed.

Lemma names_expand_prefix_closed used exported u t :
  In u (names_expand used exported) -> In t (prefixes u) -> In t (names_expand used exported).
Proof.
  unfold names_expand. rewrite !in_app_iff. intros [H|H] Ht.
  - left. eapply closure_prefix_closed; eassumption.
  - right. apply in_map_iff in H as (n & <- & Hn). cbn in Ht. destruct Ht as [<-|[]].
    apply in_map_iff. exists n. split; [reflexivity | exact Hn].
Qed.

(* ------------------------------------------------------------------ set equality of lists *)
Definition eqset {A} (a b : list A) : Prop := forall x, In x a <-> In x b.

Lemma eqset_refl {A} (a : list A) : eqset a a.
Proof. intros x. tauto. Qed.
Lemma eqset_sym {A} (a b : list A) : eqset a b -> eqset b a.
Proof. intros H x. symmetry. apply H. Qed.
Lemma eqset_trans {A} (a b c : list A) : eqset a b -> eqset b c -> eqset a c.
Proof. intros H1 H2 x. rewrite (H1 x). apply H2. Qed.
Lemma eqset_app {A} (a b c d : list A) : eqset a c -> eqset b d -> eqset (a ++ b) (c ++ d).
Proof. intros H1 H2 x. rewrite !in_app_iff, (H1 x), (H2 x). tauto. Qed.
