(* C07 — model of rope's import tidying (rope/refactor/importutils).

   Definitions only.  The model works on the ordered list of top-level import statements of one module
   (what _GlobalImportFinder collects), the dotted primaries used in the module (what
   _GlobalUnboundNameFinder collects, before prefix closure), the strings of __all__, and a layout
   giving, for the modules mentioned in the imports, the facts rope obtains from the project
   (public names for star imports, absolute module names, sorting group).

   Every action is a function on this record that follows the visitor code, quirks included:
   the stateful _OneTimeSelector (first import wins), FilteringVisitor, AddingVisitor (merging),
   remove_duplicates (whose inner loop has no break: a second accepting statement raises
   NotImplementedError, modelled as [None]), force_single_imports, ExpandStarsVisitor (which does not
   assign the filtered result for non-star imports), RelativeToAbsoluteVisitor, SortingVisitor +
   sort_imports, LongImportVisitor, froms_to_imports, and ImportStatement._set_import_info
   (a statement keeps its original text while the new info renders to the same class and text). *)
From Coq Require Import List NArith Bool.
From RopeVerif.Lib Require Import Text.
Import ListNotations.

Notation dotted := (list text).

(* ------------------------------------------------------------------ generic helpers *)
Fixpoint list_eqb {A} (eqb : A -> A -> bool) (a b : list A) : bool :=
  match a, b with
  | [], [] => true
  | x :: a', y :: b' => eqb x y && list_eqb eqb a' b'
  | _, _ => false
  end.

Definition opt_eqb {A} (eqb : A -> A -> bool) (a b : option A) : bool :=
  match a, b with Some x, Some y => eqb x y | None, None => true | _, _ => false end.

Definition dotted_eqb : dotted -> dotted -> bool := list_eqb text_eqb.

Definition mem {A} (eqb : A -> A -> bool) (x : A) (l : list A) : bool := existsb (eqb x) l.

Fixpoint text_cmp (a b : text) : comparison :=
  match a, b with
  | [], [] => Eq
  | [], _ :: _ => Lt
  | _ :: _, [] => Gt
  | x :: a', y :: b' => match N.compare x y with Eq => text_cmp a' b' | c => c end
  end.
Definition text_leb (a b : text) : bool := match text_cmp a b with Gt => false | _ => true end.

Fixpoint join (sep : text) (l : list text) : text :=
  match l with
  | [] => []
  | x :: r => match r with [] => x | _ :: _ => x ++ sep ++ join sep r end
  end.

Fixpoint assoc {K V} (eqb : K -> K -> bool) (k : K) (l : list (K * V)) : option V :=
  match l with
  | [] => None
  | (k', v) :: r => if eqb k k' then Some v else assoc eqb k r
  end.

(* ------------------------------------------------------------------ import infos *)
Definition npair := (dotted * option text)%type.     (* import a.b [as c] *)
Definition fpair := (text * option text)%type.       (* from m import n [as k] *)

Inductive info :=
| Normal (ps : list npair)
| From (m : dotted) (lvl : N) (ps : list fpair)      (* module name "" is [] *)
| FromStar (m : dotted) (lvl : N)
| Empty.

Definition npair_eqb (a b : npair) : bool := dotted_eqb (fst a) (fst b) && opt_eqb text_eqb (snd a) (snd b).
Definition fpair_eqb (a b : fpair) : bool := text_eqb (fst a) (fst b) && opt_eqb text_eqb (snd a) (snd b).

(* ImportInfo.__eq__: same class and same rendered statement; on parsed infos this is structural *)
Definition info_eqb (a b : info) : bool :=
  match a, b with
  | Normal p, Normal q => list_eqb npair_eqb p q
  | From m l p, From m' l' q => dotted_eqb m m' && N.eqb l l' && list_eqb fpair_eqb p q
  | FromStar m l, FromStar m' l' => dotted_eqb m m' && N.eqb l l'
  | Empty, Empty => true
  | _, _ => false
  end.

Definition is_empty (i : info) : bool :=
  match i with Normal [] => true | From _ _ [] => true | Empty => true | _ => false end.

(* "__future__" *)
Definition t_future : text := [95;95;102;117;116;117;114;101;95;95]%N.
Definition t_all : text := [95;95;97;108;108;95;95]%N.                 (* "__all__" *)
Definition t_import : text := [105;109;112;111;114;116;32]%N.          (* "import " *)
Definition t_from : text := [102;114;111;109;32]%N.                    (* "from " *)
Definition t_simport : text := [32;105;109;112;111;114;116;32]%N.      (* " import " *)
Definition t_as : text := [32;97;115;32]%N.                            (* " as " *)
Definition t_comma : text := [44;32]%N.                                (* ", " *)
Definition t_dot : text := [46]%N.
Definition t_star : text := [42]%N.

Definition is_future_mod (m : dotted) : bool := dotted_eqb m [t_future].

(* _is_future(info): a FromImport whose module_name is "__future__" (the level is not looked at) *)
Definition is_future (i : info) : bool :=
  match i with From m _ _ => is_future_mod m | FromStar m _ => is_future_mod m | _ => false end.

(* ------------------------------------------------------------------ rendering (get_import_statement) *)
Definition render_dotted (d : dotted) : text := join t_dot d.
Definition render_alias (n : text) (a : option text) : text :=
  match a with Some al => n ++ t_as ++ al | None => n end.
Definition dots (lvl : N) : text := N.iter lvl (cons 46%N) [].

Definition render (i : info) : text :=
  match i with
  | Normal ps => t_import ++ join t_comma (map (fun p => render_alias (render_dotted (fst p)) (snd p)) ps)
  | From m l ps => t_from ++ dots l ++ render_dotted m ++ t_simport
                   ++ join t_comma (map (fun p => render_alias (fst p) (snd p)) ps)
  | FromStar m l => t_from ++ dots l ++ render_dotted m ++ t_simport ++ t_star
  | Empty => []
  end.

(* ------------------------------------------------------------------ statements *)
(* s_txt = Some t: the statement is unchanged and is emitted as its original text t (main_statement) *)
Record stmt := { s_info : info; s_txt : option text }.

Definition mk (i : info) : stmt := {| s_info := i; s_txt := None |}.

(* ImportStatement._set_import_info (readonly is never set: no import filter) *)
Definition set_info (s : stmt) (new : info) : stmt :=
  if info_eqb new (s_info s) then s else mk new.

Definition empty_stmt (s : stmt) : stmt := set_info s Empty.

Definition stmt_text (s : stmt) : text :=
  match s_txt s with Some t => t | None => render (s_info s) end.

Definition nonempty (s : stmt) : bool := negb (is_empty (s_info s)).

(* get_changed_source followed by libutils.get_string_module + ModuleImports.imports: the empty
   statements are gone, every statement is unchanged again and its text is what was written *)
Definition reparse (l : list stmt) : list stmt :=
  map (fun s => {| s_info := s_info s; s_txt := Some (stmt_text s) |}) (filter nonempty l).

(* ------------------------------------------------------------------ layout (what rope asks the project) *)
Definition modref := (dotted * N)%type.              (* module name as written, level *)
Definition modref_eqb (a b : modref) : bool := dotted_eqb (fst a) (fst b) && N.eqb (snd a) (snd b).

Record layout := {
  l_star : list (modref * list text);   (* module found: its public names in rope's iteration order *)
  l_abs : list (modref * dotted);       (* module found by get_imported_resource: libutils.modname of it *)
  l_kind : list (modref * N)            (* 3 = resource inside the project, 1 = first component is a
                                           standard module, otherwise (or absent) third party *)
}.

(* ------------------------------------------------------------------ _OneTimeSelector *)
Fixpoint prefixes (d : dotted) : list dotted :=
  match d with
  | [] => []
  | x :: r => [x] :: map (cons x) (prefixes r)
  end.

Definition dmem (d : dotted) (l : list dotted) : bool := mem dotted_eqb d l.

Definition can_add (names sel : list dotted) (p : dotted) : bool :=
  existsb (fun t => dmem t names && negb (dmem t sel)) (prefixes p).

Definition select (names sel : list dotted) (p : dotted) : bool * list dotted :=
  if can_add names sel p then (true, prefixes p ++ sel) else (false, sel).

(* names the selector is built from: prefix closure of the used primaries (add_unbound),
   plus the strings of __all__ and "__all__" itself for remove_unused_imports *)
Definition closure (used : list dotted) : list dotted := flat_map prefixes used.
Definition names_unused (used : list dotted) (exported : list text) : list dotted :=
  closure used ++ map (fun n => [n]) exported ++ [[t_all]].
(* expand_stars (rope e222b99): the unbound names and the strings of __all__; before that commit only the
   unbound names (a star-imported name listed only in __all__ was dropped: corpus/C07/C07-expand-stars-exports.json) *)
Definition names_expand (used : list dotted) (exported : list text) : list dotted :=
  closure used ++ map (fun n => [n]) exported.

(* ------------------------------------------------------------------ FilteringVisitor *)
Definition nprimary (p : npair) : dotted := match snd p with Some a => [a] | None => fst p end.
Definition fprimary (p : fpair) : dotted := match snd p with Some a => [a] | None => [fst p] end.

Fixpoint filter_pairs {A} (prim : A -> dotted) (names sel : list dotted) (ps : list A)
  : list A * list dotted :=
  match ps with
  | [] => ([], sel)
  | p :: r =>
      let '(b, sel1) := select names sel (prim p) in
      let '(r', sel2) := filter_pairs prim names sel1 r in
      (if b then p :: r' else r', sel2)
  end.

(* the star branch: the first selectable public name keeps the star import and is the only one marked *)
Fixpoint star_select (names sel : list dotted) (ns : list text) : bool * list dotted :=
  match ns with
  | [] => (false, sel)
  | n :: r =>
      if can_add names sel [n] then (true, [n] :: sel) else star_select names sel r
  end.

(* result None: dispatch returned None (EmptyImport, or ModuleNotFoundError swallowed by dispatch) *)
Definition filter_info (lay : layout) (names sel : list dotted) (i : info) : option info * list dotted :=
  match i with
  | Normal ps => let '(ps', sel') := filter_pairs nprimary names sel ps in (Some (Normal ps'), sel')
  | From m l ps =>
      if is_future_mod m then (Some i, sel)
      else let '(ps', sel') := filter_pairs fprimary names sel ps in (Some (From m l ps'), sel')
  | FromStar m l =>
      if is_future_mod m then (Some i, sel)
      else match assoc modref_eqb (m, l) (l_star lay) with
           | None => (None, sel)
           | Some ns =>
               let '(b, sel') := star_select names sel ns in
               (Some (if b then FromStar m l else From m l []), sel')
           end
  | Empty => (None, sel)
  end.

(* RemovingVisitor over all statements, in order, sharing the selector *)
Fixpoint remove_unused_from (lay : layout) (names sel : list dotted) (l : list stmt)
  : list stmt * list dotted :=
  match l with
  | [] => ([], sel)
  | s :: r =>
      let '(res, sel1) := filter_info lay names sel (s_info s) in
      let s' := match res with Some i => set_info s i | None => s end in
      let '(r', sel2) := remove_unused_from lay names sel1 r in
      (s' :: r', sel2)
  end.

Definition remove_unused (lay : layout) (names : list dotted) (l : list stmt) : list stmt :=
  fst (remove_unused_from lay names [] l).

(* ------------------------------------------------------------------ AddingVisitor *)
(* d1 = d2 + "." + something: d2 is a proper component-wise prefix of d1 *)
Fixpoint proper_prefix (d2 d1 : dotted) : bool :=
  match d2, d1 with
  | [], _ :: _ => true
  | x :: r2, y :: r1 => text_eqb x y && proper_prefix r2 r1
  | _, _ => false
  end.

Definition merge_pairs (ps qs : list fpair) : list fpair :=
  fold_left (fun acc q => if mem fpair_eqb q acc then acc else acc ++ [q]) qs ps.

Definition same_mod (m : dotted) (l : N) (m' : dotted) (l' : N) : bool := dotted_eqb m m' && N.eqb l l'.

(* actions._covered_by_star (rope c04424c): "from module import *" binds everything the info binds —
   no alias and no name starting with an underscore.  Before that commit a star import absorbed every
   from-import of its module (the alias / private name was lost: corpus/C07/C07-star-absorbs.json). *)
Definition starts_underscore (n : text) : bool := match n with c :: _ => N.eqb c 95 | [] => false end.
Definition covered_pairs (ps : list fpair) : bool :=
  forallb (fun p => match snd p with None => negb (starts_underscore (fst p)) | Some _ => false end) ps.

(* visiting the existing statement [s] with the import [new] to add.
   Some s' = the visitor returned True (new is absorbed, s possibly replaced); None = not absorbed *)
Definition adding_visit (split : bool) (s : stmt) (new : info) : option stmt :=
  match s_info s, new with
  | Normal ps, Normal qs =>
      match ps, qs with
      | [(d1, None)], [(d2, None)] =>
          if proper_prefix d2 d1 then Some s
          else if proper_prefix d1 d2 then Some (set_info s new)
          else if list_eqb npair_eqb ps qs then Some s else None
      | _, _ => if list_eqb npair_eqb ps qs then Some s else None
      end
  | From m l ps, From m' l' qs =>
      if same_mod m l m' l' then
        if split then (if list_eqb fpair_eqb qs ps then Some s else None)
        else Some (set_info s (From m l (merge_pairs ps qs)))
      else None
  | From m l ps, FromStar m' l' =>
      if same_mod m l m' l' then (if covered_pairs ps then Some (set_info s new) else None) else None
  | FromStar m l, From m' l' qs => if same_mod m l m' l' then (if covered_pairs qs then Some s else None) else None
  | FromStar m l, FromStar m' l' => if same_mod m l m' l' then Some s else None
  | _, _ => None
  end.

(* ModuleImports.add_import: the first statement that absorbs it, else appended after the last import *)
Fixpoint add_import (split : bool) (l : list stmt) (new : info) : list stmt :=
  match l with
  | [] => [mk new]
  | s :: r =>
      match adding_visit split s new with
      | Some s' => s' :: r
      | None => s :: add_import split r new
      end
  end.

(* ------------------------------------------------------------------ force_single_imports *)
Definition singles (i : info) : list info :=
  match i with
  | Normal ps => map (fun p => Normal [p]) ps
  | From m l ps => map (fun p => From m l [p]) ps
  | _ => []
  end.

Definition pair_count (i : info) : nat :=
  match i with Normal ps => length ps | From _ _ ps => length ps | FromStar _ _ => 1 | Empty => 0 end.

Fixpoint set_nth (k : nat) (f : stmt -> stmt) (l : list stmt) : list stmt :=
  match l, k with
  | [], _ => []
  | s :: r, O => f s :: r
  | s :: r, S k' => s :: set_nth k' f r
  end.

(* for k in range(n) over the statements that existed at the start (self.imports[:]) *)
Fixpoint force_single_go (n : nat) (k : nat) (l : list stmt) : list stmt :=
  match n with
  | O => l
  | S n' =>
      let l' :=
        match nth_error l k with
        | Some s =>
            if is_empty (s_info s) then l
            else if Nat.ltb 1 (pair_count (s_info s)) then
              set_nth k empty_stmt (fold_left (add_import true) (singles (s_info s)) l)
            else l
        | None => l
        end in
      force_single_go n' (S k) l'
  end.

Definition force_single (l : list stmt) : list stmt := force_single_go (length l) 0 l.

(* ------------------------------------------------------------------ remove_duplicates *)
(* inner loop: the statement's info [new] visits every earlier statement; each earlier statement
   may be modified; count how many accepted *)
Fixpoint dedupe_visit (split : bool) (added : list stmt) (new : info) : list stmt * nat :=
  match added with
  | [] => ([], O)
  | a :: r =>
      let '(r', c) := dedupe_visit split r new in
      match adding_visit split a new with
      | Some a' => (a' :: r', S c)
      | None => (a :: r', c)
      end
  end.

(* None: a second empty_import() on the same statement compares EmptyImport with EmptyImport and
   raises NotImplementedError *)
Fixpoint dedupe_go (split : bool) (added : list stmt) (todo : list stmt) : option (list stmt) :=
  match todo with
  | [] => Some added
  | s :: r =>
      let '(added', c) := dedupe_visit split added (s_info s) in
      match c with
      | O => dedupe_go split (added' ++ [s]) r
      | S O => dedupe_go split (added' ++ [empty_stmt s]) r
      | S (S _) => None
      end
  end.

Definition remove_duplicates (split : bool) (l : list stmt) : option (list stmt) := dedupe_go split [] l.

(* ------------------------------------------------------------------ sort_imports *)
Definition kind_of (lay : layout) (r : modref) : N :=
  match assoc modref_eqb r (l_kind lay) with Some k => k | None => 2%N end.

(* SortingVisitor._check_imported_resource: 0 future, 1 standard, 2 third party, 3 in project *)
Definition group_of (lay : layout) (i : info) : option N :=
  let cls (r : modref) :=
    let k := kind_of lay r in
    if N.eqb k 3 then 3%N else if is_future i then 0%N else if N.eqb k 1 then 1%N else 2%N in
  match i with
  | Normal [] => None
  | Normal (p :: _) => Some (cls (fst p, 0%N))
  | From m l _ => Some (cls (m, l))
  | FromStar m l => Some (cls (m, l))
  | Empty => None
  end.

Definition starts_with_from (t : text) : bool :=
  match t with
  | 102%N :: 114%N :: 111%N :: 109%N :: 32%N :: _ => true
  | _ => false
  end.

(* _key_imports: (statement.startswith("from "), statement) *)
Definition key_default (s : stmt) : bool * text := let t := stmt_text s in (starts_with_from t, t).

(* _get_import_name *)
Definition key_alpha (s : stmt) : bool * text :=
  (false,
   match s_info s with
   | Normal (p :: _) => render_dotted (fst p)
   | From m _ (p :: _) => render_dotted m ++ t_dot ++ fst p
   | FromStar m _ => render_dotted m ++ t_dot ++ t_star
   | _ => []
   end).

Definition key_leb (a b : bool * text) : bool :=
  match fst a, fst b with
  | false, true => true
  | true, false => false
  | _, _ => text_leb (snd a) (snd b)
  end.

(* stable insertion sort = Python's sorted() over the lists SortingVisitor fills in source order (rope
   2352e54; before that commit the visitor filled sets and statements with equal keys came out in a
   run-dependent order: corpus/C07/C07-alphabetical-ties.json) *)
Fixpoint insert_stable (key : stmt -> bool * text) (s : stmt) (l : list stmt) : list stmt :=
  match l with
  | [] => [s]
  | x :: r => if key_leb (key s) (key x) then s :: x :: r else x :: insert_stable key s r
  end.
Fixpoint sort_stable (key : stmt -> bool * text) (l : list stmt) : list stmt :=
  match l with
  | [] => []
  | s :: r => insert_stable key s (sort_stable key r)
  end.

Definition in_group (lay : layout) (g : N) (s : stmt) : bool :=
  match group_of lay (s_info s) with Some g' => N.eqb g g' | None => false end.

Definition sort_imports (lay : layout) (alpha : bool) (l : list stmt) : list stmt :=
  let key := if alpha then key_alpha else key_default in
  let grp g := sort_stable key (filter (in_group lay g) l) in
  grp 0%N ++ grp 1%N ++ grp 2%N ++ grp 3%N.

(* ------------------------------------------------------------------ actions *)
Record prefs := { p_split : bool; p_alpha : bool }.
(* pull_imports_to_top changes positions in the text only: the order of the statements is the same *)

Definition opt_bind {A B} (o : option A) (f : A -> option B) : option B :=
  match o with Some x => f x | None => None end.

(* ImportTools.organize_imports(unused=True, duplicates=True, selfs, sort); self imports are outside
   the model (the correspondence keeps them out of the domain) *)
Definition organize_gen (lay : layout) (pr : prefs) (sort : bool) (names : list dotted) (l : list stmt)
  : option (list stmt) :=
  let l1 := remove_unused lay names l in
  let l2 := if p_split pr then force_single l1 else l1 in
  opt_bind (remove_duplicates (p_split pr) l2) (fun l3 =>
  let l4 := reparse l3 in
  Some (if sort then reparse (sort_imports lay (p_alpha pr) l4) else l4)).

(* the first stage alone (unused, split_imports, duplicates) *)
Definition stage1_infos (lay : layout) (pr : prefs) (names : list dotted) (l : list stmt) : option (list stmt) :=
  let l1 := remove_unused lay names l in
  let l2 := if p_split pr then force_single l1 else l1 in
  remove_duplicates (p_split pr) l2.

Definition organize (lay : layout) (pr : prefs) (used : list dotted) (exported : list text) (l : list stmt)
  : option (list stmt) :=
  organize_gen lay pr true (names_unused used exported) l.

(* ModuleImports.expand_stars with ExpandStarsVisitor *)
Definition expand_info (lay : layout) (names sel : list dotted) (i : info) : option info * list dotted :=
  match i with
  | FromStar m l =>
      match assoc modref_eqb (m, l) (l_star lay) with
      | None => (None, sel)
      | Some ns =>
          let full := From m l (map (fun n => (n, None)) ns) in
          if is_future_mod m then (Some full, sel)
          else let '(ps', sel') := filter_pairs fprimary names sel (map (fun n => (n, None)) ns) in
               (Some (From m l ps'), sel')
      end
  | Empty => (None, sel)
  | _ => (None, snd (filter_info lay names sel i))   (* result of filtering.dispatch is dropped *)
  end.

Fixpoint expand_from (lay : layout) (names sel : list dotted) (l : list stmt) : list stmt :=
  match l with
  | [] => []
  | s :: r =>
      let '(res, sel1) := expand_info lay names sel (s_info s) in
      (match res with Some i => set_info s i | None => s end) :: expand_from lay names sel1 r
  end.

Definition expand_stars (lay : layout) (used : list dotted) (exported : list text) (l : list stmt) : list stmt :=
  reparse (expand_from lay (names_expand used exported) [] l).

(* RelativeToAbsoluteVisitor.visitFromImport (plain imports that resolve to themselves are untouched;
   the implicit-relative plain import of Python 2 is outside the model) *)
Definition rel_abs_info (lay : layout) (i : info) : info :=
  match i with
  | From m l ps =>
      match assoc modref_eqb (m, l) (l_abs lay) with
      | Some a => if dotted_eqb a m then i else From a 0%N ps
      | None => i
      end
  | FromStar m l =>
      match assoc modref_eqb (m, l) (l_abs lay) with
      | Some a => if dotted_eqb a m then i else FromStar a 0%N
      | None => i
      end
  | _ => i
  end.

Definition relatives_to_absolutes (lay : layout) (l : list stmt) : list stmt :=
  reparse (map (fun s => set_info s (rel_abs_info lay (s_info s))) l).
