(* C07 — organize_imports preserves what every used or exported name means. *)
From Coq Require Import List NArith Bool Lia Permutation.
From RopeVerif.Lib Require Import Text.
From RopeVerif.C07 Require Import Imports Spec BasicsProofs SpecProofs RemoveProofs AddProofs SortProofs.
Import ListNotations.

Section Org.
  Variable lay : layout.
  Notation B := (bindings_info lay).

  (* the modules that have a star import in the original block *)
  Definition stars (l : list stmt) : list modref :=
    flat_map (fun s => match s_info s with FromStar m lv => [(m, lv)] | _ => [] end) l.

  (* a pair of a from-import that _covered_by_star accepts (no alias, no leading underscore) is bound by
     the star import of the module as well *)
  Definition okpair (m : dotted) (l : N) (p : fpair) : Prop :=
    snd p = None -> starts_underscore (fst p) = false -> In (bind_fpair lay m l p) (B (FromStar m l)).

  Definition okB (S : list modref) (i : info) : Prop :=
    match i with
    | From m l qs => In (m, l) S -> forall p, In p qs -> okpair m l p
    | FromStar m l => In (m, l) S
    | _ => True
    end.

  Lemma covered_pairs_spec ps : covered_pairs ps = true <->
    forall p, In p ps -> snd p = None /\ starts_underscore (fst p) = false.
  Proof.
    unfold covered_pairs. rewrite forallb_forall. split; intros H p Hp; specialize (H p Hp).
    - destruct (snd p); [discriminate|]. split; [reflexivity|]. destruct (starts_underscore (fst p)); [discriminate | reflexivity].
    - destruct H as [-> ->]. reflexivity.
  Qed.

  Lemma okB_absorb S m l qs : okB S (From m l qs) -> In (m, l) S -> covered_pairs qs = true ->
    incl (B (From m l qs)) (B (FromStar m l)).
  Proof.
    intros H Hin Hc x Hx. cbn [bindings_info] in Hx. apply in_map_iff in Hx as (p & <- & Hp).
    destruct (proj1 (covered_pairs_spec qs) Hc p Hp) as [H1 H2]. exact (H Hin p Hp H1 H2).
  Qed.

  Lemma okB_from_incl S m l ps qs : incl ps qs -> okB S (From m l qs) -> okB S (From m l ps).
  Proof. intros Hi H Hin p Hp. apply (H Hin). apply Hi. exact Hp. Qed.

  Lemma bind_npair_prefix d1 d2 : proper_prefix d2 d1 = true ->
    incl (bind_npair (d2, None)) (bind_npair (d1, None)).
  Proof.
    intros H. destruct (proper_prefix_hd _ _ H) as [->|(h & r2 & r1 & -> & ->)]; [intros x []|].
    cbn. apply incl_refl.
  Qed.

  Lemma bind_npair_prefix' d1 d2 : proper_prefix d2 d1 = true -> d2 <> [] ->
    incl (bind_npair (d1, None)) (bind_npair (d2, None)).
  Proof.
    intros H Hn. destruct (proper_prefix_hd _ _ H) as [->|(h & r2 & r1 & -> & ->)]; [congruence|].
    cbn. apply incl_refl.
  Qed.

  Lemma okB_add S split s new s' : okB S (s_info s) -> okB S new -> adding_visit split s new = Some s' ->
    eqset (B (s_info s')) (B (s_info s) ++ B new) /\ okB S (s_info s').
  Proof.
    intros Hs Hn H. pose proof (adding_visit_inv _ _ _ _ H) as Hi.
    destruct (s_info s) as [ps|m l ps|m l|] eqn:Ei; destruct new as [qs|m' l' qs|m' l'|]; try contradiction.
    - (* Normal / Normal *)
      destruct Hi as [[-> ->]|(d1 & d2 & -> & -> & [[P ->]|[P ->]])].
      + rewrite Ei. split; [|exact I]. intros x. rewrite in_app_iff. tauto.
      + rewrite Ei. split; [|exact I]. intros x. rewrite in_app_iff. cbn [bindings_info flat_map]. rewrite !app_nil_r.
        split; [tauto|]. intros [Hx|Hx]; [exact Hx | exact (bind_npair_prefix _ _ P _ Hx)].
      + rewrite s_info_set_info. split; [|exact I]. intros x. rewrite in_app_iff. cbn [bindings_info flat_map].
        rewrite !app_nil_r. split; [tauto|]. intros [Hx|Hx]; [|exact Hx]. exact (bind_npair_prefix _ _ P _ Hx).
    - (* From / From *)
      destruct Hi as (<- & <- & [(-> & -> & ->)|(-> & ->)]).
      + rewrite Ei. split; [|exact Hs]. intros x. rewrite in_app_iff. tauto.
      + rewrite s_info_set_info. split.
        * intros x. rewrite in_app_iff. cbn [bindings_info]. rewrite !in_map_iff. split.
          -- intros (p & <- & Hp). apply merge_pairs_in in Hp as [Hp|Hp]; [left|right]; exists p; auto.
          -- intros [(p & <- & Hp)|(p & <- & Hp)]; exists p; (split; [reflexivity|]); apply merge_pairs_in; auto.
        * intros Hin p Hp. apply merge_pairs_in in Hp as [Hp|Hp]; [apply (Hs Hin) | apply (Hn Hin)]; exact Hp.
    - (* From / FromStar *)
      destruct Hi as (<- & <- & Hc & ->). rewrite s_info_set_info. split; [|exact Hn].
      intros x. rewrite in_app_iff. split; [tauto|]. intros [Hx|Hx]; [|exact Hx].
      rewrite <- Ei in Hs. rewrite Ei in Hs. exact (okB_absorb S _ _ _ Hs Hn Hc _ Hx).
    - (* FromStar / From *)
      destruct Hi as (<- & <- & Hc & ->). rewrite Ei. split; [|exact Hs].
      intros x. rewrite in_app_iff. split; [tauto|]. intros [Hx|Hx]; [exact Hx|]. exact (okB_absorb S _ _ _ Hn Hs Hc _ Hx).
    - destruct Hi as (<- & <- & ->). rewrite Ei. split; [|exact Hs]. intros x. rewrite in_app_iff. tauto.
  Qed.

  Lemma okB_singles S i : okB S i ->
    Forall (okB S) (singles i) /\ (Nat.ltb 1 (pair_count i) = true -> eqset (flat_map B (singles i)) (B i)).
  Proof.
    intros H. destruct i as [ps|m l ps|m l|]; cbn [singles].
    - split; [apply Forall_forall; intros q Hq; apply in_map_iff in Hq as (p & <- & _); exact I|].
      intros _. cbn [bindings_info]. clear H. induction ps as [|p r IH]; [apply eqset_refl|].
      cbn [map flat_map bindings_info]. rewrite app_nil_r. apply eqset_app; [apply eqset_refl | exact IH].
    - split.
      + apply Forall_forall. intros q Hq. apply in_map_iff in Hq as (p & <- & Hp).
        eapply okB_from_incl; [|exact H]. intros x [<-|[]]. exact Hp.
      + intros _. cbn [bindings_info]. clear H. induction ps as [|p r IH]; [apply eqset_refl|].
        cbn [map flat_map bindings_info]. intros x. cbn [In app]. rewrite (IH x). reflexivity.
    - split; [constructor | discriminate].
    - split; [constructor | discriminate].
  Qed.

  (* ---------------------------------------------------------------- from the boolean side condition *)
  Lemma stars_in l m lv : In (m, lv) (stars l) <-> exists s, In s l /\ s_info s = FromStar m lv.
  Proof.
    unfold stars. rewrite in_flat_map. split.
    - intros (s & Hs & H). exists s. split; [exact Hs|]. destruct (s_info s); cbn in H; try tauto.
      destruct H as [E|[]]. inversion E. reflexivity.
    - intros (s & Hs & E). exists s. split; [exact Hs|]. rewrite E. left. reflexivity.
  Qed.

  Lemma star_table_okl l : star_table_complete lay l = true -> Forall (fun s => okB (stars l) (s_info s)) l.
  Proof.
    intros H. unfold star_table_complete in H. rewrite forallb_forall in H. apply Forall_forall. intros s Hs.
    destruct (s_info s) as [ps|m lv ps|m lv|] eqn:Ei; cbn; try exact I.
    - intros Hin p Hp Hal Hun. apply stars_in in Hin as (t & Ht & Et). specialize (H _ Ht). rewrite Et in H.
      rewrite forallb_forall in H. specialize (H _ Hs). rewrite Ei in H. cbn [in_star_table] in H.
      replace (same_mod m lv m lv) with true in H by (symmetry; apply same_mod_eq; auto).
      rewrite forallb_forall in H. specialize (H _ Hp). rewrite Hal, Hun in H. cbn [orb] in H.
      cbn [bindings_info]. destruct (assoc modref_eqb (m, lv) (l_star lay)) as [ns|]; [|discriminate].
      apply (mem_In text_eqb text_eqb_eq) in H. destruct p as [n al]. cbn in Hal. subst al.
      unfold bind_fpair. cbn. apply in_map_iff. exists n. auto.
    - apply stars_in. eauto.
  Qed.

  (* ---------------------------------------------------------------- remove_unused keeps the invariant *)
  Lemma filter_pairs_incl {A} (prim : A -> dotted) names : forall ps sel, incl (fst (filter_pairs prim names sel ps)) ps.
  Proof.
    induction ps as [|p r IH]; intros sel; cbn; [apply incl_refl|].
    destruct (select names sel (prim p)) as [b sel1]. specialize (IH sel1).
    destruct (filter_pairs prim names sel1 r) as [r' sel2]. cbn in IH |- *.
    destruct b; [apply incl_cons; [left; reflexivity | apply incl_tl; exact IH] | apply incl_tl; exact IH].
  Qed.

  Lemma filter_info_ok S names sel i : okB S i -> okB S (after_info (fst (filter_info lay names sel i)) i).
  Proof.
    intros H. destruct i as [ps|m l ps|m l|]; cbn [filter_info].
    - destruct (filter_pairs nprimary names sel ps). exact I.
    - destruct (is_future_mod m); [exact H|].
      pose proof (filter_pairs_incl fprimary names ps sel) as Hi.
      destruct (filter_pairs fprimary names sel ps) as [ps' sel']. cbn [fst after_info] in *.
      eapply okB_from_incl; eassumption.
    - destruct (is_future_mod m); [exact H|].
      destruct (assoc modref_eqb (m, l) (l_star lay)); [|exact H].
      destruct (star_select names sel l0) as [[|] sel']; cbn [fst after_info]; [exact H|].
      intros _ p [].
    - exact H.
  Qed.

  Lemma remove_unused_from_ok S names : forall l sel,
    Forall (fun s => okB S (s_info s)) l ->
    Forall (fun s => okB S (s_info s)) (fst (remove_unused_from lay names sel l)).
  Proof.
    induction l as [|s r IH]; intros sel H; cbn [remove_unused_from]; [constructor|].
    inversion H as [|? ? Hs Hr]; subst.
    pose proof (filter_info_ok S names sel _ Hs) as Hf.
    destruct (filter_info lay names sel (s_info s)) as [res sel1]. specialize (IH sel1 Hr).
    destruct (remove_unused_from lay names sel1 r) as [r' sel2]. cbn [fst] in *. constructor; [|exact IH].
    destruct res; cbn [after_info] in Hf; [rewrite s_info_set_info; exact Hf | exact Hf].
  Qed.

  (* ---------------------------------------------------------------- sorting keeps the bindings *)
  Lemma ungrouped_no_bindings s : grouped lay s = false -> B (s_info s) = [].
  Proof.
    unfold grouped, group_of. destruct (s_info s) as [[|p ps]|m l ps|m l|]; cbn; congruence.
  Qed.

  Lemma bindings_sort alpha l : eqset (bindings lay (sort_imports lay alpha l)) (bindings lay l).
  Proof.
    intros x. unfold bindings. rewrite !in_flat_map. split.
    - intros (s & Hs & Hx). apply in_sort_imports in Hs as [Hs _]. eauto.
    - intros (s & Hs & Hx). exists s. split; [|exact Hx]. apply in_sort_imports. split; [exact Hs|].
      destruct (grouped lay s) eqn:G; [reflexivity|]. rewrite (ungrouped_no_bindings _ G) in Hx. destruct Hx.
  Qed.

  (* ---------------------------------------------------------------- the theorem *)
  Lemma organize_gen_pres pr sort names l out :
    organize_gen lay pr sort names l = Some out -> star_table_complete lay l = true ->
    pres (fun n => In [n] names) (bindings lay l) (bindings lay out).
  Proof.
    unfold organize_gen. intros H Hs.
    set (S := stars l). pose proof (star_table_okl _ Hs) as Hok. fold S in Hok.
    set (l1 := remove_unused lay names l) in *.
    assert (P1 : pres (fun n => In [n] names) (bindings lay l) (bindings lay l1)) by apply remove_unused_pres.
    assert (O1 : Forall (fun s => okB S (s_info s)) l1) by (apply remove_unused_from_ok; exact Hok).
    set (l2 := if p_split pr then force_single l1 else l1) in *.
    assert (P2 : eqset (bindings lay l2) (bindings lay l1) /\ Forall (fun s => okB S (s_info s)) l2).
    { subst l2. destruct (p_split pr); [|split; [apply eqset_refl | exact O1]].
      apply (force_single_spec B (okB S) eq_refl I (okB_add S) (okB_singles S) l1 O1). }
    destruct P2 as (P2 & O2).
    destruct (remove_duplicates (p_split pr) l2) as [l3|] eqn:E3; [|discriminate]. cbn [opt_bind] in H.
    destruct (remove_duplicates_spec B (okB S) eq_refl I (okB_add S) (p_split pr) l2 l3 O2 E3) as (P3 & O3).
    assert (P4 : eqset (bindings lay out) (bindings lay l3)).
    { inversion H; subst out. destruct sort.
      - rewrite bindings_reparse. eapply eqset_trans; [apply bindings_sort|]. rewrite bindings_reparse. apply eqset_refl.
      - rewrite bindings_reparse. apply eqset_refl. }
    eapply pres_trans; [exact P1|]. apply pres_eqset.
    eapply eqset_trans; [apply eqset_sym; exact P2|]. eapply eqset_trans; [apply eqset_sym; exact P3|].
    apply eqset_sym. exact P4.
  Qed.

  Theorem organize_meaning_preserved pr used exported l out :
    organize lay pr used exported l = Some out ->
    consistent lay l = true -> star_table_complete lay l = true ->
    forall u, In u (names_unused used exported) -> resolve lay out u = resolve lay l u.
  Proof.
    unfold organize. intros H Hc Hs u Hu.
    apply (pres_resolve lay (fun n => In [n] (names_unused used exported))).
    - apply consistent_bs_spec. exact Hc.
    - eapply organize_gen_pres; eassumption.
    - intros h r ->. eapply names_unused_prefix_closed; [exact Hu | apply prefixes_first].
  Qed.
End Org.
