(* C07 — the emitters of get_changed_source only drop blank lines: every non-blank line outside the import
   statements is kept, in order (in place: every line). *)
From Coq Require Import List NArith Bool Arith Lia.
From RopeVerif.Lib Require Import Text.
From RopeVerif.C07 Require Import Imports Layout.
Import ListNotations.

Lemma originals_app a b : originals (a ++ b) = originals a ++ originals b.
Proof. unfold originals. rewrite filter_app, map_app. reflexivity. Qed.

Lemma originals_false l : originals (map (pair false) l) = l.
Proof. unfold originals. induction l as [|x r IH]; cbn; [reflexivity|]. f_equal. exact IH. Qed.

Lemma nonblank_app a b : nonblank (a ++ b) = nonblank a ++ nonblank b.
Proof. unfold nonblank. apply filter_app. Qed.

(* ------------------------------------------------------------------ in place *)
Lemma rewrite_go_originals lines : forall imps last,
  originals (rewrite_go lines last imps) = outside_from lines last imps.
Proof.
  induction imps as [|s r IH]; intros last; cbn [rewrite_go outside_from].
  - apply originals_false.
  - rewrite !originals_app, originals_false, IH. destruct (ls_nonempty s); reflexivity.
Qed.

Theorem only_imports_change_in_place lines imps :
  originals (emit_inplace lines imps) = outside lines imps.
Proof. apply rewrite_go_originals. Qed.

(* ------------------------------------------------------------------ blank-line counting *)
Lemma in_firstn {A} (x : A) n l : In x (firstn n l) -> In x l.
Proof. intros H. rewrite <- (firstn_skipn n l). apply in_or_app. left. exact H. Qed.

Lemma skipn_skipn' {A} : forall a b (l : list A), skipn a (skipn b l) = skipn (b + a) l.
Proof.
  intros a b. revert a. induction b as [|b IH]; intros a l; [reflexivity|].
  destruct l as [|x r]; cbn; [destruct a; reflexivity | apply IH].
Qed.

Lemma count_blank_prefix : forall l, Forall (fun t => is_blank t = true) (firstn (count_blank l) l).
Proof.
  induction l as [|x r IH]; cbn; [constructor|]. destruct (is_blank x) eqn:E; cbn; [|constructor].
  constructor; assumption.
Qed.

Lemma nonblank_all_blank l : Forall (fun t => is_blank t = true) l -> nonblank l = [].
Proof.
  induction 1 as [|x r Hx _ IH]; [reflexivity|]. unfold nonblank in *. cbn. rewrite Hx. cbn. exact IH.
Qed.

Lemma nonblank_skip_count l : nonblank (skipn (count_blank l) l) = nonblank l.
Proof.
  induction l as [|x r IH]; [reflexivity|]. cbn [count_blank]. destruct (is_blank x) eqn:E.
  - cbn [skipn]. rewrite IH. unfold nonblank. cbn. rewrite E. reflexivity.
  - reflexivity.
Qed.

Lemma count_blank_skip : forall l k, k <= count_blank l -> count_blank (skipn k l) = count_blank l - k.
Proof.
  induction l as [|x r IH]; intros k H; cbn in H |- *.
  - destruct k; cbn; lia.
  - destruct k as [|k]; [cbn; lia|]. destruct (is_blank x) eqn:E; [|lia]. cbn [skipn]. rewrite IH by lia. lia.
Qed.

Lemma count_blank_le l : count_blank l <= length l.
Proof. induction l as [|x r IH]; cbn; [lia|]. destruct (is_blank x); cbn; lia. Qed.

(* the lines from position j on are blank when j is not before the trailing blank lines *)
Lemma trailing_blank S j : length S - count_blank (rev S) <= j ->
  Forall (fun t => is_blank t = true) (skipn j S).
Proof.
  intros H. destruct (Nat.le_gt_cases (length S) j) as [Hj|Hj].
  - rewrite skipn_all2 by exact Hj. constructor.
  - assert (E : rev (skipn j S) = firstn (length S - j) (rev S)).
    { rewrite firstn_rev. f_equal. f_equal. lia. }
    assert (Hp : Forall (fun t => is_blank t = true) (firstn (length S - j) (rev S))).
    { pose proof (count_blank_prefix (rev S)) as P.
      replace (length S - j) with (Nat.min (length S - j) (count_blank (rev S))) by lia.
      rewrite <- firstn_firstn. apply Forall_forall. intros x Hx. rewrite Forall_forall in P. apply P.
      eapply in_firstn. exact Hx. }
    rewrite <- E in Hp. apply Forall_rev in Hp. rewrite rev_involutive in Hp. exact Hp.
Qed.

Lemma nonblank_firstn_trailing S m : length S - count_blank (rev S) <= m -> nonblank (firstn m S) = nonblank S.
Proof.
  intros H. rewrite <- (firstn_skipn m S) at 2. rewrite nonblank_app, (nonblank_all_blank _ (trailing_blank S m H)).
  rewrite app_nil_r. reflexivity.
Qed.

Lemma slice_trailing (l : list text) a b :
  nonblank (slice l a (b - count_blank (rev (slice l a b)))) = nonblank (slice l a b).
Proof.
  unfold slice. set (X := skipn a l). set (S := firstn (b - a) X).
  replace (firstn (b - count_blank (rev S) - a) X) with (firstn (b - a - count_blank (rev S)) S).
  - apply nonblank_firstn_trailing. assert (length S <= b - a) by (subst S; apply firstn_le_length). lia.
  - subst S. rewrite firstn_firstn. f_equal. lia.
Qed.

(* ------------------------------------------------------------------ _remove_imports *)
Lemma remove_go_nonblank lines fil : forall imps last,
  nonblank (remove_go lines fil last imps) = nonblank (outside_from lines last imps).
Proof.
  induction imps as [|s r IH]; intros last; cbn [remove_go outside_from]; [reflexivity|].
  rewrite !nonblank_app, IH. f_equal. destruct (Nat.eqb (ls_start s) fil).
  - rewrite Nat.sub_0_r. reflexivity.
  - apply slice_trailing.
Qed.

(* ------------------------------------------------------------------ the slices around the import block *)
Lemma around_block (ar : list text) fi :
  nonblank (slice ar (count_blank ar) fi ++ skipn (fi + count_blank (skipn fi ar)) ar) = nonblank ar.
Proof.
  set (n := count_blank ar). destruct (Nat.le_gt_cases fi n) as [H|H].
  - unfold slice. replace (fi - n) with 0 by lia. cbn [firstn app].
    rewrite (count_blank_skip ar fi H). fold n. replace (fi + (n - fi)) with n by lia. apply nonblank_skip_count.
  - unfold slice. set (Y := skipn n ar).
    assert (E1 : skipn fi ar = skipn (fi - n) Y).
    { subst Y. rewrite skipn_skipn'. f_equal. lia. }
    assert (E2 : skipn (fi + count_blank (skipn fi ar)) ar = skipn (count_blank (skipn (fi - n) Y)) (skipn (fi - n) Y)).
    { rewrite <- E1, skipn_skipn'. reflexivity. }
    rewrite E2, nonblank_app, nonblank_skip_count, <- nonblank_app, firstn_skipn.
    subst Y n. apply nonblank_skip_count.
Qed.

Lemma originals_render_rest l : originals (render_rest l) = [].
Proof. induction l as [|s r IH]; cbn; [reflexivity | exact IH]. Qed.

Lemma originals_render l : originals (render_imports l) = [].
Proof. destruct l as [|s r]; cbn; [reflexivity | apply originals_render_rest]. Qed.

Theorem only_imports_change_pulled lines imps fil sep :
  nonblank (originals (emit_top lines imps fil sep)) = nonblank (outside lines imps).
Proof.
  unfold emit_top, outside. rewrite !originals_app, !originals_false, originals_render.
  set (sorted := sort_loc (filter ls_nonempty (propagate_blank None imps))).
  assert (Es : originals (match sorted with
                          | [] => []
                          | _ :: _ => if Nat.ltb (count_blank (remove_go lines fil 0 imps)) (length (remove_go lines fil 0 imps))
                                      then [(true, newlines sep)] else []
                          end) = []).
  { destruct sorted; [reflexivity|]. destruct (Nat.ltb _ _); reflexivity. }
  rewrite Es. cbn [app]. rewrite around_block. apply remove_go_nonblank.
Qed.
