(* C07 — expand_star_imports and relatives_to_absolutes preserve what the used names mean. *)
From Coq Require Import List NArith Bool Lia.
From RopeVerif.Lib Require Import Text.
From RopeVerif.C07 Require Import Imports Spec BasicsProofs SpecProofs RemoveProofs.
Import ListNotations.

Section Expand.
  Variable lay : layout.
  Notation B := (bindings_info lay).

  Lemma star_as_from m l ns :
    B (From m l (map (fun n => (n, None)) ns)) = map (fun n => (n, canon lay m l n)) ns.
  Proof. cbn [bindings_info]. rewrite map_map. reflexivity. Qed.

  Lemma expand_info_spec names sel i res sel1 :
    expand_info lay names sel i = (res, sel1) ->
    let i' := after_info res i in
    incl (B i') (B i) /\ backed sel sel1 (B i') /\ kept names sel (B i) (B i').
  Proof.
    intros H. unfold expand_info in H.
    destruct (filter_info lay names sel i) as [r0 s0] eqn:E.
    destruct (filter_info_spec _ _ _ _ _ _ E) as (F1 & _ & F3 & _).
    assert (Same : incl (B i) (B i) /\ backed sel s0 (B i) /\ kept names sel (B i) (B i)).
    { split; [apply incl_refl|]. split.
      - intros t Ht. destruct (F3 _ Ht) as [H0|(o & Ho)]; [auto|]. right. exists o. apply F1. exact Ho.
      - intros n o Hin _. left. eauto. }
    assert (Triv : incl (B i) (B i) /\ backed sel sel (B i) /\ kept names sel (B i) (B i)).
    { split; [apply incl_refl|]. split; [intros t Ht; auto | intros n o Hin _; left; eauto]. }
    clear E F1 F3. destruct i as [ps|m l ps|m l|]; cbn [snd] in H.
    - injection H as <- <-. exact Same.
    - injection H as <- <-. exact Same.
    - destruct (assoc modref_eqb (m, l) (l_star lay)) as [ns|] eqn:El.
      + destruct (is_future_mod m).
        * inversion H; subst. cbn [after_info]. rewrite star_as_from. cbn [bindings_info]. rewrite El.
          split; [apply incl_refl|]. split; [intros t Ht; auto | intros n o Hin _; left; eauto].
        * destruct (filter_pairs fprimary names sel (map (fun n => (n, None)) ns)) as [ps' sel'] eqn:E.
          inversion H; subst. cbn [after_info].
          destruct (filter_pairs_spec fprimary (fun p => [bind_fpair lay m l p]) (bind_fpair_shape lay m l) names _ _ _ _ E)
            as (I1 & _ & I3 & I4).
          rewrite <- !map_as_flat_map in I3, I4.
          assert (Es : B (FromStar m l) = map (bind_fpair lay m l) (map (fun n => (n, None)) ns)).
          { cbn [bindings_info]. rewrite El, map_map. reflexivity. }
          rewrite Es. cbn [bindings_info]. split; [|split; assumption].
          intros x Hx. apply in_map_iff in Hx as (p & <- & Hp). apply in_map. apply I1. exact Hp.
      + inversion H; subst. cbn [after_info]. exact Triv.
    - inversion H; subst. cbn [after_info]. exact Triv.
  Qed.

  Lemma expand_from_spec names : forall l sel,
    incl (bindings lay (expand_from lay names sel l)) (bindings lay l) /\
    kept names sel (bindings lay l) (bindings lay (expand_from lay names sel l)).
  Proof.
    induction l as [|s r IH]; intros sel; cbn [expand_from].
    - split; [apply incl_refl | intros n o []].
    - destruct (expand_info lay names sel (s_info s)) as [res sel1] eqn:Ef.
      destruct (expand_info_spec _ _ _ _ _ Ef) as (F1 & F3 & F4). destruct (IH sel1) as (I1 & I4).
      assert (Ei : s_info (match res with Some i => set_info s i | None => s end) = after_info res (s_info s)).
      { destruct res; cbn; [apply s_info_set_info | reflexivity]. }
      rewrite !bindings_cons, Ei. split.
      + apply incl_app; [apply incl_appl; exact F1 | apply incl_appr; exact I1].
      + intros n o Hin Hn. apply in_app_or in Hin as [Hin|Hin].
        * destruct (F4 _ _ Hin Hn) as [(o' & Ho')|Hs]; [|right; exact Hs]. left. exists o'. apply in_or_app. left. exact Ho'.
        * destruct (I4 _ _ Hin Hn) as [(o' & Ho')|Hs].
          -- left. exists o'. apply in_or_app. right. exact Ho'.
          -- destruct (F3 _ Hs) as [Hs0|(o' & Ho')]; [right; exact Hs0|]. left. exists o'. cbn in Ho'.
             apply in_or_app. left. exact Ho'.
  Qed.

  Theorem expand_stars_meaning_preserved used exported l :
    consistent lay l = true ->
    forall u, In u (names_expand used exported) ->
              resolve lay (expand_stars lay used exported l) u = resolve lay l u.
  Proof.
    intros Hc u Hu. apply (pres_resolve lay (fun n => In [n] (names_expand used exported))).
    - apply consistent_bs_spec. exact Hc.
    - unfold expand_stars. rewrite bindings_reparse.
      destruct (expand_from_spec (names_expand used exported) l []) as (I1 & I4).
      split; [exact I1|]. intros n o Hin Hn. destruct (I4 _ _ Hin Hn) as [H|[]]. exact H.
    - intros h r ->. eapply names_expand_prefix_closed; [exact Hu | apply prefixes_first].
  Qed.

  (* ---------------------------------------------------------------- relatives_to_absolutes *)
  (* the layout describes one project: the absolute name of a module is itself resolved to that name (or
     not listed), and the star table has the same row for a module under both of its names *)
  Definition abs_coherent : bool :=
    forallb (fun e =>
      match assoc modref_eqb (snd e, 0%N) (l_abs lay) with
      | None => true
      | Some a' => dotted_eqb a' (snd e)
      end &&
      opt_eqb (list_eqb text_eqb) (assoc modref_eqb (snd e, 0%N) (l_star lay)) (assoc modref_eqb (fst e) (l_star lay)))
    (l_abs lay).

  Lemma assoc_in {V} k (l : list (modref * V)) v : assoc modref_eqb k l = Some v -> In (k, v) l.
  Proof.
    induction l as [|[k' v'] r IH]; cbn; [discriminate|]. destruct (modref_eqb k k') eqn:E.
    - intros H. inversion H; subst. apply modref_eqb_eq in E. subst. left. reflexivity.
    - intros H. right. apply IH. exact H.
  Qed.

  Lemma rel_abs_bindings i : abs_coherent = true -> B (rel_abs_info lay i) = B i.
  Proof.
    intros Hc. unfold abs_coherent in Hc. rewrite forallb_forall in Hc.
    assert (Hcanon : forall m l a n, assoc modref_eqb (m, l) (l_abs lay) = Some a -> canon lay a 0%N n = canon lay m l n).
    { intros m l a n E. unfold canon. rewrite E. specialize (Hc _ (assoc_in _ _ _ E)). cbn [fst snd] in Hc.
      apply andb_true_iff in Hc as [H1 _]. destruct (assoc modref_eqb (a, 0%N) (l_abs lay)) as [a'|]; [|reflexivity].
      apply dotted_eqb_eq in H1. subst. reflexivity. }
    destruct i as [ps|m l ps|m l|]; cbn [rel_abs_info]; try reflexivity.
    - destruct (assoc modref_eqb (m, l) (l_abs lay)) as [a|] eqn:E; [|reflexivity].
      destruct (dotted_eqb a m); [reflexivity|]. cbn [bindings_info]. apply map_ext. intros p.
      unfold bind_fpair. rewrite (Hcanon _ _ _ _ E). reflexivity.
    - destruct (assoc modref_eqb (m, l) (l_abs lay)) as [a|] eqn:E; [|reflexivity].
      destruct (dotted_eqb a m); [reflexivity|]. cbn [bindings_info].
      specialize (Hc _ (assoc_in _ _ _ E)) as Hc'. cbn [fst snd] in Hc'. apply andb_true_iff in Hc' as [_ H2].
      apply (opt_eqb_eq _ (list_eqb_eq text_eqb text_eqb_eq)) in H2. rewrite H2.
      destruct (assoc modref_eqb (m, l) (l_star lay)); [|reflexivity]. apply map_ext. intros n.
      rewrite (Hcanon _ _ _ _ E). reflexivity.
  Qed.

  Theorem relatives_to_absolutes_meaning_preserved l :
    abs_coherent = true -> forall u, resolve lay (relatives_to_absolutes lay l) u = resolve lay l u.
  Proof.
    intros Hc u. unfold resolve, relatives_to_absolutes. rewrite bindings_reparse.
    replace (bindings lay (map (fun s => set_info s (rel_abs_info lay (s_info s))) l)) with (bindings lay l); [reflexivity|].
    unfold bindings. induction l as [|s r IH]; [reflexivity|]. cbn [map flat_map].
    rewrite s_info_set_info, (rel_abs_bindings _ Hc), IH. reflexivity.
  Qed.
End Expand.
