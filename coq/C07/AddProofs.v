(* C07 — AddingVisitor, add_import, force_single_imports and remove_duplicates, generically in a
   measure [f : info -> list X] (the bindings of a statement, or the modules it loads) that an accepted
   addition merges:  f(existing') = f(existing) + f(new)  as sets. *)
From Coq Require Import List NArith Bool Lia.
From RopeVerif.Lib Require Import Text.
From RopeVerif.C07 Require Import Imports BasicsProofs.
Import ListNotations.

Ltac split5 := split; [|split; [|split; [|split]]].

Section Generic.
  Context {X : Type} (f : info -> list X) (ok : info -> Prop).
  Hypothesis f_empty : f Empty = [].
  Hypothesis ok_empty : ok Empty.
  Hypothesis H_add : forall split s new s', ok (s_info s) -> ok new -> adding_visit split s new = Some s' ->
      eqset (f (s_info s')) (f (s_info s) ++ f new) /\ ok (s_info s').
  Hypothesis H_singles : forall i, ok i ->
      Forall ok (singles i) /\ (Nat.ltb 1 (pair_count i) = true -> eqset (flat_map f (singles i)) (f i)).

  Definition F (l : list stmt) : list X := flat_map (fun s => f (s_info s)) l.
  Definition okl (l : list stmt) : Prop := Forall (fun s => ok (s_info s)) l.

  Lemma F_app a b : F (a ++ b) = F a ++ F b.
  Proof. apply flat_map_app. Qed.

  Lemma okl_app a b : okl (a ++ b) <-> okl a /\ okl b.
  Proof. apply Forall_app. Qed.

  Lemma add_import_spec split new : ok new -> forall l, okl l ->
    eqset (F (add_import split l new)) (F l ++ f new) /\ okl (add_import split l new).
  Proof.
    intros Hn. induction l as [|s r IH]; intros Hl.
    - cbn. split; [rewrite app_nil_r; apply eqset_refl | repeat constructor; exact Hn].
    - inversion Hl as [|? ? Hs Hr]; subst. cbn [add_import].
      destruct (adding_visit split s new) as [s'|] eqn:E.
      + destruct (H_add _ _ _ _ Hs Hn E) as (Hf & Hok). split; [|constructor; assumption].
        cbn [F flat_map]. intros x. rewrite !in_app_iff, (Hf x), in_app_iff. fold (F r). tauto.
      + destruct (IH Hr) as (Hf & Hok). split; [|constructor; assumption].
        cbn [F flat_map]. fold (F (add_import split r new)) (F r). intros x.
        rewrite !in_app_iff, (Hf x), in_app_iff. tauto.
  Qed.

  (* a statement that does not absorb [new] stays where it is; everything else behaves as if it were absent *)
  Lemma add_import_skip split s new post : ok new -> adding_visit split s new = None ->
    forall pre, okl pre -> okl post ->
    exists pre' post', add_import split (pre ++ s :: post) new = pre' ++ s :: post'
      /\ length pre' = length pre /\ eqset (F (pre' ++ post')) (F (pre ++ post) ++ f new)
      /\ okl pre' /\ okl post'.
  Proof.
    intros Hn Hs. induction pre as [|a p IH]; intros Hp Hpost.
    - cbn [app add_import]. rewrite Hs. exists [], (add_import split post new).
      destruct (add_import_spec split new Hn post Hpost) as (Hf & Hok).
      split5; try assumption; try reflexivity.
    - inversion Hp as [|? ? Ha Hp']; subst. cbn [app add_import].
      destruct (adding_visit split a new) as [a'|] eqn:E.
      + destruct (H_add _ _ _ _ Ha Hn E) as (Hf & Hok). exists (a' :: p), post.
        split5; try assumption; try reflexivity; [|constructor; assumption].
        cbn [app F flat_map]. fold (F (p ++ post)). intros x. rewrite !in_app_iff, (Hf x), in_app_iff. tauto.
      + destruct (IH Hp' Hpost) as (pre' & post' & E1 & E2 & E3 & E4 & E5).
        exists (a :: pre'), post'. rewrite E1. split5; try assumption; try reflexivity; [cbn; congruence | | constructor; assumption].
        cbn [app F flat_map]. fold (F (pre' ++ post')) (F (p ++ post)). intros x.
        rewrite !in_app_iff, (E3 x), in_app_iff. tauto.
  Qed.

  Lemma fold_add_skip split s post : forall news pre,
    Forall ok news -> Forall (fun q => adding_visit split s q = None) news -> okl pre -> okl post ->
    exists pre' post', fold_left (add_import split) news (pre ++ s :: post) = pre' ++ s :: post'
      /\ length pre' = length pre /\ eqset (F (pre' ++ post')) (F (pre ++ post) ++ flat_map f news)
      /\ okl pre' /\ okl post'.
  Proof.
    intros news. revert post. induction news as [|q r IH]; intros post pre Hok Hrej Hp Hpost.
    - exists pre, post. cbn. rewrite app_nil_r. split5; try assumption; try reflexivity; apply eqset_refl.
    - inversion Hok as [|? ? Hq Hr]; subst. inversion Hrej as [|? ? Hq' Hr']; subst. cbn [fold_left].
      destruct (add_import_skip split s q post Hq Hq' pre Hp Hpost) as (pre1 & post1 & E1 & E2 & E3 & E4 & E5).
      rewrite E1. destruct (IH post1 pre1 Hr Hr' E4 E5) as (pre2 & post2 & G1 & G2 & G3 & G4 & G5).
      exists pre2, post2. split5; try assumption; [congruence|].
      cbn [flat_map]. intros x. rewrite (G3 x), !in_app_iff, (E3 x), !in_app_iff. tauto.
  Qed.

  Lemma singles_rejected s : Nat.ltb 1 (pair_count (s_info s)) = true ->
    Forall (fun q => adding_visit true s q = None) (singles (s_info s)).
  Proof.
    intros Hc. apply Forall_forall. intros q Hq. unfold adding_visit.
    destruct (s_info s) as [ps|m l ps|m l|]; cbn [singles] in Hq; try destruct Hq.
    - apply in_map_iff in Hq as (p & <- & _). cbn in Hc.
      destruct ps as [|p1 [|p2 r]]; cbn in Hc; try discriminate.
      destruct p1 as [d1 [a1|]], p as [d [a|]]; cbn; rewrite ?andb_false_r; reflexivity.
    - apply in_map_iff in Hq as (p & <- & _). cbn in Hc.
      destruct ps as [|p1 [|p2 r]]; cbn in Hc; try discriminate.
      replace (same_mod m l m l) with true by (symmetry; apply same_mod_eq; auto).
      cbn. rewrite andb_false_r. reflexivity.
  Qed.

  Lemma set_nth_middle g pre s post : set_nth (length pre) g (pre ++ s :: post) = pre ++ g s :: post.
  Proof. induction pre as [|a p IH]; cbn; [reflexivity | rewrite IH; reflexivity]. Qed.

  Lemma nth_error_split {A} (l : list A) k x : nth_error l k = Some x ->
    exists pre post, l = pre ++ x :: post /\ length pre = k.
  Proof.
    revert k. induction l as [|a l IH]; intros [|k] H; cbn in H; try discriminate.
    - inversion H; subst. exists [], l. auto.
    - destruct (IH _ H) as (pre & post & -> & <-). exists (a :: pre), post. auto.
  Qed.

  Lemma force_single_go_spec : forall n k l, okl l ->
    eqset (F (force_single_go n k l)) (F l) /\ okl (force_single_go n k l).
  Proof.
    induction n as [|n IH]; intros k l Hl; cbn [force_single_go]; [split; [apply eqset_refl | exact Hl]|].
    assert (Hstep : forall l', eqset (F l') (F l) /\ okl l' ->
              eqset (F (force_single_go n (S k) l')) (F l) /\ okl (force_single_go n (S k) l')).
    { intros l' (H1 & H2). destruct (IH (S k) l' H2) as (G1 & G2). split; [|exact G2].
      eapply eqset_trans; eassumption. }
    apply Hstep. destruct (nth_error l k) as [s|] eqn:En; [|split; [apply eqset_refl | exact Hl]].
    destruct (is_empty (s_info s)); [split; [apply eqset_refl | exact Hl]|].
    destruct (Nat.ltb 1 (pair_count (s_info s))) eqn:Ec; [|split; [apply eqset_refl | exact Hl]].
    destruct (nth_error_split _ _ _ En) as (pre & post & -> & <-).
    apply okl_app in Hl as (Hpre & Hsp). inversion Hsp as [|? ? Hs Hpost]; subst.
    destruct (H_singles _ Hs) as (Hso & Hse). specialize (Hse Ec).
    destruct (fold_add_skip true s post (singles (s_info s)) pre Hso (singles_rejected s Ec) Hpre Hpost)
      as (pre' & post' & E1 & E2 & E3 & E4 & E5).
    rewrite E1, <- E2, set_nth_middle. split.
    - rewrite !F_app. cbn [F flat_map]. rewrite s_info_empty_stmt, f_empty. cbn [app].
      fold (F post') (F post). intros x. rewrite !F_app in E3. rewrite (E3 x), !in_app_iff, (Hse x). tauto.
    - apply okl_app. split; [exact E4|]. constructor; [rewrite s_info_empty_stmt; exact ok_empty | exact E5].
  Qed.

  Lemma force_single_spec l : okl l -> eqset (F (force_single l)) (F l) /\ okl (force_single l).
  Proof. apply force_single_go_spec. Qed.

  (* ------------------------------------------------------------------ remove_duplicates *)
  Lemma dedupe_visit_spec split new : ok new -> forall added added' c, okl added ->
    dedupe_visit split added new = (added', c) ->
    okl added' /\ (c = O -> added' = added) /\ (c <> O -> eqset (F added') (F added ++ f new)).
  Proof.
    intros Hn. induction added as [|a r IH]; intros added' c Hl H; cbn [dedupe_visit] in H.
    - inversion H; subst. split; [constructor | split; congruence].
    - inversion Hl as [|? ? Ha Hr]; subst.
      destruct (dedupe_visit split r new) as [r' c'] eqn:Er.
      destruct (IH _ _ Hr eq_refl) as (I1 & I2 & I3).
      destruct (adding_visit split a new) as [a'|] eqn:E; inversion H; subst; clear H.
      + destruct (H_add _ _ _ _ Ha Hn E) as (Hf & Hok). split; [constructor; assumption | split; [discriminate|]].
        intros _. cbn [F flat_map]. fold (F r') (F r). intros x. rewrite !in_app_iff, (Hf x), in_app_iff.
        destruct c' as [|c'].
        * rewrite (I2 eq_refl). tauto.
        * assert (Hne : S c' <> O) by discriminate. rewrite (I3 Hne x), in_app_iff. tauto.
      + split; [constructor; assumption | split; [intros ->; rewrite (I2 eq_refl); reflexivity|]].
        intros Hc. cbn [F flat_map]. fold (F r') (F r). intros x. rewrite !in_app_iff, (I3 Hc x), in_app_iff. tauto.
  Qed.

  Lemma dedupe_go_spec split : forall todo added l', okl added -> okl todo ->
    dedupe_go split added todo = Some l' -> eqset (F l') (F added ++ F todo) /\ okl l'.
  Proof.
    induction todo as [|s r IH]; intros added l' Ha Ht H; cbn [dedupe_go] in H.
    - inversion H; subst. cbn. rewrite app_nil_r. split; [apply eqset_refl | exact Ha].
    - inversion Ht as [|? ? Hs Hr]; subst.
      destruct (dedupe_visit split added (s_info s)) as [added' c] eqn:Ev.
      destruct (dedupe_visit_spec split _ Hs _ _ _ Ha Ev) as (V1 & V2 & V3).
      destruct c as [|[|c]]; [| |discriminate].
      + rewrite (V2 eq_refl) in H. assert (Hok : okl (added ++ [s])) by (apply okl_app; split; [exact Ha | repeat constructor; exact Hs]).
        destruct (IH _ _ Hok Hr H) as (G1 & G2). split; [|exact G2].
        intros x. rewrite (G1 x), F_app. cbn [F flat_map]. rewrite app_nil_r, !in_app_iff. fold (F r). tauto.
      + assert (Hok : okl (added' ++ [empty_stmt s])).
        { apply okl_app. split; [exact V1|]. repeat constructor. rewrite s_info_empty_stmt. exact ok_empty. }
        destruct (IH _ _ Hok Hr H) as (G1 & G2). split; [|exact G2].
        assert (Hne : 1 <> O) by discriminate.
        intros x. rewrite (G1 x), F_app. cbn [F flat_map]. rewrite s_info_empty_stmt, f_empty. cbn [app].
        rewrite app_nil_r, !in_app_iff, (V3 Hne x), in_app_iff. fold (F r). tauto.
  Qed.

  Lemma remove_duplicates_spec split l l' : okl l -> remove_duplicates split l = Some l' ->
    eqset (F l') (F l) /\ okl l'.
  Proof. intros Hl H. apply (dedupe_go_spec split l [] l' (Forall_nil _) Hl H). Qed.
End Generic.

(* ------------------------------------------------------------------ what an accepted visit did *)
Lemma adding_visit_inv split s new s' : adding_visit split s new = Some s' ->
  match s_info s, new with
  | Normal ps, Normal qs =>
      (s' = s /\ ps = qs) \/
      (exists d1 d2, ps = [(d1, None)] /\ qs = [(d2, None)] /\
         ((proper_prefix d2 d1 = true /\ s' = s) \/ (proper_prefix d1 d2 = true /\ s' = set_info s new)))
  | From m l ps, From m' l' qs =>
      m = m' /\ l = l' /\ ((split = true /\ qs = ps /\ s' = s) \/
                           (split = false /\ s' = set_info s (From m l (merge_pairs ps qs))))
  | From m l ps, FromStar m' l' => m = m' /\ l = l' /\ covered_pairs ps = true /\ s' = set_info s new
  | FromStar m l, From m' l' qs => m = m' /\ l = l' /\ covered_pairs qs = true /\ s' = s
  | FromStar m l, FromStar m' l' => m = m' /\ l = l' /\ s' = s
  | _, _ => False
  end.
Proof.
  unfold adding_visit. destruct (s_info s) as [ps|m l ps|m l|] eqn:Ei; destruct new as [qs|m' l' qs|m' l'|];
    try discriminate.
  - assert (Gen : (if list_eqb npair_eqb ps qs then Some s else None) = Some s' ->
                  (s' = s /\ ps = qs) \/
                  (exists d1 d2, ps = [(d1, None)] /\ qs = [(d2, None)] /\
                     ((proper_prefix d2 d1 = true /\ s' = s) \/ (proper_prefix d1 d2 = true /\ s' = set_info s (Normal qs))))).
    { destruct (list_eqb npair_eqb ps qs) eqn:E; [|discriminate]. intros H. inversion H; subst.
      left. split; [reflexivity|]. apply (list_eqb_eq npair_eqb npair_eqb_eq). exact E. }
    destruct ps as [|[d1 [a1|]] [|p2 r]]; try exact Gen;
    destruct qs as [|[d2 [a2|]] [|q2 r2]]; try exact Gen.
    destruct (proper_prefix d2 d1) eqn:P1.
    { intros H. inversion H; subst. right. exists d1, d2. auto. }
    destruct (proper_prefix d1 d2) eqn:P2.
    { intros H. inversion H; subst. right. exists d1, d2. auto. }
    exact Gen.
  - destruct (same_mod m l m' l') eqn:E; [|discriminate]. apply same_mod_eq in E as [<- <-].
    destruct split.
    + destruct (list_eqb fpair_eqb qs ps) eqn:E; [|discriminate]. intros H. inversion H; subst.
      apply (list_eqb_eq fpair_eqb fpair_eqb_eq) in E. split; [reflexivity | split; [reflexivity | left; auto]].
    + intros H. inversion H; subst. split; [reflexivity | split; [reflexivity | right; auto]].
  - destruct (same_mod m l m' l') eqn:E; [|discriminate]. apply same_mod_eq in E as [<- <-].
    destruct (covered_pairs ps) eqn:Ec; [|discriminate]. intros H. inversion H; subst. auto.
  - destruct (same_mod m l m' l') eqn:E; [|discriminate]. apply same_mod_eq in E as [<- <-].
    destruct (covered_pairs qs) eqn:Ec; [|discriminate]. intros H. inversion H; subst. auto.
  - destruct (same_mod m l m' l') eqn:E; [|discriminate]. apply same_mod_eq in E as [<- <-].
    intros H. inversion H; subst. auto.
Qed.

Lemma merge_pairs_in : forall qs ps x, In x (merge_pairs ps qs) <-> In x ps \/ In x qs.
Proof.
  unfold merge_pairs. induction qs as [|q r IH]; intros ps x; cbn [fold_left].
  - cbn. tauto.
  - rewrite IH. destruct (mem fpair_eqb q ps) eqn:E.
    + apply (mem_In fpair_eqb fpair_eqb_eq) in E. cbn. split; [tauto|]. intros [H|[<-|H]]; tauto.
    + rewrite in_app_iff. cbn. tauto.
Qed.

Lemma proper_prefix_prefixes : forall d2 d1, proper_prefix d2 d1 = true -> incl (prefixes d2) (prefixes d1).
Proof.
  induction d2 as [|x r IH]; intros d1 H; [intros t []|].
  destruct d1 as [|y r1]; cbn in H; [discriminate|]. apply andb_true_iff in H as [E H].
  apply text_eqb_eq in E. subst y. intros t Ht. cbn in Ht |- *. destruct Ht as [<-|Ht]; [left; reflexivity|].
  right. apply in_map_iff in Ht as (u & <- & Hu). apply in_map. exact (IH _ H _ Hu).
Qed.

Lemma proper_prefix_hd d2 d1 : proper_prefix d2 d1 = true -> d2 = [] \/ exists h r2 r1, d2 = h :: r2 /\ d1 = h :: r1.
Proof.
  destruct d2 as [|x r]; [auto|]. destruct d1 as [|y r1]; cbn; [discriminate|].
  intros H. apply andb_true_iff in H as [E _]. apply text_eqb_eq in E. subst. right. eauto.
Qed.
