(* C07 — expand_star_imports and relatives_to_absolutes are idempotent (the whole action, statement
   texts included). *)
From Coq Require Import List NArith Bool Lia.
From RopeVerif.Lib Require Import Text.
From RopeVerif.C07 Require Import Imports Spec BasicsProofs RemoveProofs ExpandProofs.
Import ListNotations.

(* a block as ModuleImports sees it right after parsing: no empty statement, every statement unchanged *)
Definition parsed (l : list stmt) : Prop :=
  Forall (fun s => nonempty s = true /\ exists t, s_txt s = Some t) l.

Lemma reparse_parsed l : parsed (reparse l).
Proof.
  unfold parsed, reparse. apply Forall_forall. intros s Hs. apply in_map_iff in Hs as (s0 & <- & H0).
  apply filter_In in H0 as [_ Hn]. split; [exact Hn | cbn; eauto].
Qed.

Lemma reparse_id l : parsed l -> reparse l = l.
Proof.
  unfold parsed, reparse. induction l as [|s r IH]; intros H; [reflexivity|].
  inversion H as [|? ? (Hn & t & Ht) Hr]; subst. cbn [filter]. rewrite Hn. cbn [map]. rewrite (IH Hr).
  f_equal. destruct s as [i tx]. cbn in *. subst tx. unfold stmt_text. cbn. reflexivity.
Qed.

Section Idem2.
  Variable lay : layout.

  (* ---------------------------------------------------------------- relatives_to_absolutes *)
  Lemma rel_abs_info_idem i : abs_coherent lay = true -> rel_abs_info lay (rel_abs_info lay i) = rel_abs_info lay i.
  Proof.
    intros Hc. unfold abs_coherent in Hc. rewrite forallb_forall in Hc.
    assert (Hs : forall m l a, assoc modref_eqb (m, l) (l_abs lay) = Some a ->
               match assoc modref_eqb (a, 0%N) (l_abs lay) with Some a' => a' = a | None => True end).
    { intros m l a E. specialize (Hc _ (assoc_in _ _ _ E)). cbn [fst snd] in Hc.
      apply andb_true_iff in Hc as [H1 _]. destruct (assoc modref_eqb (a, 0%N) (l_abs lay)); [|exact I].
      apply dotted_eqb_eq in H1. exact H1. }
    destruct i as [ps|m l ps|m l|]; cbn [rel_abs_info]; try reflexivity.
    - destruct (assoc modref_eqb (m, l) (l_abs lay)) as [a|] eqn:E; [|cbn [rel_abs_info]; rewrite E; reflexivity].
      destruct (dotted_eqb a m) eqn:Ea; [cbn [rel_abs_info]; rewrite E, Ea; reflexivity|].
      cbn [rel_abs_info]. specialize (Hs _ _ _ E). destruct (assoc modref_eqb (a, 0%N) (l_abs lay)) as [a'|]; [|reflexivity].
      subst a'. rewrite dotted_eqb_refl. reflexivity.
    - destruct (assoc modref_eqb (m, l) (l_abs lay)) as [a|] eqn:E; [|cbn [rel_abs_info]; rewrite E; reflexivity].
      destruct (dotted_eqb a m) eqn:Ea; [cbn [rel_abs_info]; rewrite E, Ea; reflexivity|].
      cbn [rel_abs_info]. specialize (Hs _ _ _ E). destruct (assoc modref_eqb (a, 0%N) (l_abs lay)) as [a'|]; [|reflexivity].
      subst a'. rewrite dotted_eqb_refl. reflexivity.
  Qed.

  Theorem relatives_to_absolutes_idempotent l : abs_coherent lay = true ->
    relatives_to_absolutes lay (relatives_to_absolutes lay l) = relatives_to_absolutes lay l.
  Proof.
    intros Hc. unfold relatives_to_absolutes at 1.
    set (r := relatives_to_absolutes lay l).
    assert (Hp : parsed r) by apply reparse_parsed.
    assert (Hi : Forall (fun s => rel_abs_info lay (s_info s) = s_info s) r).
    { subst r. unfold relatives_to_absolutes, reparse. apply Forall_forall. intros s Hs.
      apply in_map_iff in Hs as (s0 & <- & H0). apply filter_In in H0 as [H0 _].
      apply in_map_iff in H0 as (s1 & <- & _). cbn [s_info]. rewrite s_info_set_info. apply rel_abs_info_idem. exact Hc. }
    replace (map (fun s => set_info s (rel_abs_info lay (s_info s))) r) with r; [apply reparse_id; exact Hp|].
    clear Hp. induction r as [|s r' IH]; [reflexivity|]. inversion Hi as [|? ? H1 H2]; subst.
    cbn [map]. rewrite H1, set_info_same, <- (IH H2). reflexivity.
  Qed.

  (* ---------------------------------------------------------------- expand_star_imports *)
  (* a star import that rope can resolve *)
  Definition resolvable_star (i : info) : bool :=
    match i with
    | FromStar m l => match assoc modref_eqb (m, l) (l_star lay) with Some _ => true | None => false end
    | _ => false
    end.

  Lemma expand_from_no_star names : forall l sel,
    Forall (fun s => resolvable_star (s_info s) = false) l -> expand_from lay names sel l = l.
  Proof.
    induction l as [|s r IH]; intros sel H; [reflexivity|]. inversion H as [|? ? Hs Hr]; subst.
    cbn [expand_from]. destruct (expand_info lay names sel (s_info s)) as [res sel1] eqn:E.
    rewrite (IH sel1 Hr). f_equal. unfold expand_info in E. unfold resolvable_star in Hs.
    destruct (s_info s) as [ps|m l ps|m l|]; try (injection E as <- <-; reflexivity).
    destruct (assoc modref_eqb (m, l) (l_star lay)); [discriminate|]. injection E as <- <-. reflexivity.
  Qed.

  Lemma expand_from_result_no_star names : forall l sel,
    Forall (fun s => resolvable_star (s_info s) = false) (expand_from lay names sel l).
  Proof.
    induction l as [|s r IH]; intros sel; cbn [expand_from]; [constructor|].
    destruct (expand_info lay names sel (s_info s)) as [res sel1] eqn:E. constructor; [|apply IH].
    unfold expand_info in E. destruct (s_info s) as [ps|m l ps|m l|] eqn:Ei.
    - injection E as <- <-. rewrite Ei. reflexivity.
    - injection E as <- <-. rewrite Ei. reflexivity.
    - destruct (assoc modref_eqb (m, l) (l_star lay)) as [ns|] eqn:El.
      + destruct (is_future_mod m).
        * injection E as <- <-. rewrite s_info_set_info. reflexivity.
        * destruct (filter_pairs fprimary names sel (map (fun n => (n, None)) ns)). injection E as <- <-.
          rewrite s_info_set_info. reflexivity.
      + injection E as <- <-. rewrite Ei. cbn. rewrite El. reflexivity.
    - injection E as <- <-. rewrite Ei. reflexivity.
  Qed.

  Theorem expand_stars_idempotent used exported l :
    expand_stars lay used exported (expand_stars lay used exported l) = expand_stars lay used exported l.
  Proof.
    unfold expand_stars at 1. set (r := expand_stars lay used exported l).
    assert (Hn : Forall (fun s => resolvable_star (s_info s) = false) r).
    { subst r. unfold expand_stars, reparse. apply Forall_forall. intros s Hs.
      apply in_map_iff in Hs as (s0 & <- & H0). apply filter_In in H0 as [H0 _]. cbn [s_info].
      pose proof (expand_from_result_no_star (names_expand used exported) l []) as Hf. rewrite Forall_forall in Hf. exact (Hf _ H0). }
    rewrite (expand_from_no_star _ _ _ Hn). apply reparse_id. apply reparse_parsed.
  Qed.
End Idem2.
