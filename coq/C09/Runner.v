(* Correspondence runner for C09.  One case = one refactoring request served by a real rope project:
   the disk tree (the folder that contains the project root AND the sibling out-of-project folder)
   before Project.do, the change tree rope computed (abstracted by the harness; resource paths as rope
   spells them, segments interned, "" = 0, "." = 1, ".." = 2), what get_changed_resources() reported, the
   audited trace of mutating file-system primitives and the tree after Project.do, and the same after
   History.undo().  File contents are interned by the harness (the model only compares them).
   The model (C10's history_do / history_undo on [realize root change], and C09's traced run) is
   evaluated here by vm_compute; the comparison happens here. *)
From stdpp Require Import gmap list.
From Coq Require Import NArith.
From RopeVerif.Lib Require Import Text.
From RopeVerif.C10 Require Import FsModel Change.
From RopeVerif.C09 Require Import Footprint.

Definition event_eqb (a b : event) : bool :=
  match a, b with
  | EvRead p, EvRead p' => text_eqb p p'
  | EvWrite p, EvWrite p' => text_eqb p p'
  | EvCreate f p, EvCreate f' p' => Bool.eqb f f' && text_eqb p p'
  | EvRemove p, EvRemove p' => text_eqb p p'
  | EvMove p q, EvMove p' q' => text_eqb p p' && text_eqb q q'
  | _, _ => false
  end.

(* the audit hook sees open(p, "w") for FileSystemCommands.create_file and for write alike *)
Definition norm_ev (e : event) : event :=
  match e with EvCreate false p => EvWrite p | _ => e end.

Definition audited (tr : list event) : list event := map norm_ev (List.filter mutating tr).

Fixpoint events_eqb (a b : list event) : bool :=
  match a, b with
  | [], [] => true
  | x :: a', y :: b' => event_eqb x y && events_eqb a' b'
  | _, _ => false
  end.

Definition mem (p : path) (l : list path) : bool := existsb (text_eqb p) l.
Definition set_eqb (a b : list path) : bool := forallb (fun p => mem p b) a && forallb (fun p => mem p a) b.

Definition tree_eqb (m : fs) (t : list (path * node)) : bool :=
  Nat.eqb (length (map_to_list m)) (length t)
  && forallb (fun kv => match m !! fst kv with Some n => node_eqb n (snd kv) | None => false end) t.

Definition opt_node_eqb (a b : option node) : bool :=
  match a, b with Some x, Some y => node_eqb x y | None, None => true | _, _ => false end.

(* keys at which two observed trees differ *)
Definition changed_keys (t t' : list (path * node)) : list path :=
  let m : fs := list_to_map t in
  let m' : fs := list_to_map t' in
  List.filter (fun p => negb (opt_node_eqb (m !! p) (m' !! p))) (map fst t ++ map fst t').

(* Python exception class of a failed Project.do / History.undo as a code:
   1 OSError  2 RopeError  3 ResourceNotFoundError  4 HistoryError  5 InterruptedTaskError
   6 NotImplementedError  0 none / not representable *)
Definition pycode (c : pycls) : N :=
  match c with
  | PyOSError => 1 | PyRopeError => 2 | PyResourceNotFoundError => 3 | PyHistoryError => 4
  | PyInterruptedTaskError => 5 | PyNotImplementedError => 6 | PyNoClass => 0
  end%N.

Record case := {
  c_root : path;                        (* project root inside the disk tree, e.g. [proj] *)
  c_tree : list (path * node);          (* disk tree before Project.do *)
  c_change : change;                    (* what get_changes returned *)
  c_links : list (path * path);         (* symbolic links on disk before the call: (link, target), disk paths *)
  c_stp : option nat;                   (* Project.do ran under a TaskHandle whose observer calls stop() during its
                                           n-th notification (None: no task handle) *)
  o_announced : list path;              (* get_changed_resources(), rope paths *)
  o_compute_writes : nat;               (* audited writing events while the change was computed *)
  o_raised : bool;                      (* Project.do raised *)
  o_cls : N;                            (* ... its class code *)
  o_trace : list event;                 (* audited mutating primitives of Project.do, real paths *)
  o_tree : list (path * node);          (* disk tree after Project.do *)
  o_undone : bool;                      (* History.undo() was called afterwards *)
  o_uraised : bool;
  o_ucls : N;
  o_utrace : list event;
  o_utree : list (path * node)
}.

Definition fuel : nat := 12.

Definition bit (b : bool) (w : N) : N := if b then w else 0%N.

Definition below_all (root : path) (ps : list path) : bool := forallb (is_prefix root) ps.

(* report word:
     1 do: raised flag / exception class differ      2 tree after do differs
     4 do: trace of mutating primitives differs      8 get_changed_resources() <> resources of the tree
     16 undo: raised flag / class / tree differ      32 undo: trace differs
     64 writes were audited while computing
   facts (not mismatches):
     128 all_in_root (domain of C09_confined)        256 every key whose node differs between the OBSERVED
     trees before/after do lies in the footprint     512 every path of the OBSERVED do/undo traces is below the root
     1024 every changed key (do and undo) is below the root     2048 model artefact (fuel / unmodelled)
     4096 initial tree well-formed                   8192 the model's do raised
     16384 observed trace = expected_events of the change (mutating part), when do returned *)
Definition report1 (c : case) : N :=
  let m0 : fs := list_to_map (c_tree c) in
  let rc := realize_l (c_root c) (c_links c) (c_change c) in
  let s0 := Hist m0 [] [] 100 in
  let k0 := Sched None (c_stp c) false false in
  let '(r, tr) := trun repaired fuel true (notify k0) Do rc m0 in
  let mtr := audited tr in
  let hd := history_do repaired fuel rc s0 k0 in
  let '(raised, s1, cls, art) :=
    match hd with
    | HOk s1 _ => (false, s1, 0%N, false)
    | HErr s1 _ x => (true, s1, pycode (raised_class x),
                      match raised_class x with PyNoClass => true | _ => false end)
    end in
  let do_bad := negb (Bool.eqb raised (o_raised c) && N.eqb cls (o_cls c)) in
  let tree_bad := negb (tree_eqb (h_fs s1) (o_tree c)) in
  let trace_bad := negb (events_eqb mtr (o_trace c)) in
  let ann_bad := negb (set_eqb (resources (c_change c)) (o_announced c)) in
  let '(undo_bad, utrace_bad) :=
    if o_undone c then
      match last_change (h_undo s1) with
      | None => (true, true)
      | Some c1 =>
          let '(ru, utr) := trun repaired fuel true (notify quiet) Undo c1 (h_fs s1) in
          match history_undo repaired fuel s1 quiet with
          | HOk s2 _ => (negb (negb (o_uraised c) && tree_eqb (h_fs s2) (o_utree c)),
                         negb (events_eqb (audited utr) (o_utrace c)))
          | HErr s2 _ x => (negb (o_uraised c && N.eqb (pycode (raised_class x)) (o_ucls c)
                                  && tree_eqb (h_fs s2) (o_utree c)),
                            negb (events_eqb (audited utr) (o_utrace c)))
          end
      end
    else (false, false) in
  let ch_do := changed_keys (c_tree c) (o_tree c) in
  let ch_undo := if o_undone c then changed_keys (o_tree c) (o_utree c) else [] in
  let obs_paths := flat_map ev_paths (o_trace c) ++ flat_map ev_paths (o_utrace c) in
  (bit do_bad 1 + bit tree_bad 2 + bit trace_bad 4 + bit ann_bad 8 + bit undo_bad 16 + bit utrace_bad 32
   + bit (negb (Nat.eqb (o_compute_writes c) 0)) 64
   + bit (all_in_root (c_change c) && no_link_edits (c_root c) (c_links c) (c_change c)) 128
   + bit (forallb (footprint rc) (ch_do ++ ch_undo)) 256
   + bit (below_all (c_root c) obs_paths) 512
   + bit (below_all (c_root c) (ch_do ++ ch_undo)) 1024
   + bit art 2048
   + bit (wf_fsb m0) 4096
   + bit raised 8192
   + bit (if o_raised c then false
          else events_eqb (audited (expected_events rc)) (o_trace c)) 16384)%N.

(* C09_move_lands_at_destination evaluated on the OBSERVED trees: every MoveResource leaf (source <> destination,
   destination not below the source) left nothing at its source and a node of the source's kind at its destination *)
Fixpoint moves (c : change) : list (path * path) :=
  match c with
  | MV p q _ => [(p, q)]
  | CS _ cs => (fix go (l : list change) := match l with [] => [] | c :: r => moves c ++ go r end) cs
  | _ => []
  end.

Definition kind_eqb (a b : option node) : bool :=
  match a, b with
  | Some (File _), Some (File _) | Some Dir, Some Dir => true
  | _, _ => false
  end.

Definition landed1 (c : case) : bool :=
  let m : fs := list_to_map (c_tree c) in
  let m' : fs := list_to_map (o_tree c) in
  forallb (fun pq => text_eqb (fst pq) (snd pq) || is_prefix (fst pq) (snd pq)
                     || (kind_eqb (m !! fst pq) (m' !! snd pq)
                         && match m' !! fst pq with None => true | Some _ => false end))
          (moves (realize (c_root c) (c_change c))).

Definition report (cs : list case) : list N := map report1 cs.
Definition landed (cs : list case) : list N := map (fun c => if landed1 c then 1%N else 0%N) cs.
