(* Proofs about the ignore-pattern model: everything below an ignored resource is ignored; the double slash
   reaches any depth. *)
From Coq Require Import List NArith Bool.
Import ListNotations.
From RopeVerif.Lib Require Import Text.
From RopeVerif.C09 Require Import Ignore.

Fixpoint skip (rest : list elem) (segs : list text) : bool :=
  pmatch_here rest segs || match segs with [] => false | _ :: segs' => skip rest segs' end.

Lemma pmatch_here_gap rest segs : pmatch_here (Gap :: rest) segs = skip rest segs.
Proof.
  cbn [pmatch_here]. induction segs as [|s segs IH]; cbn [skip]; [reflexivity|]. rewrite <- IH. reflexivity.
Qed.

Lemma pmatch_here_below pat : forall segs more,
  pmatch_here pat segs = true -> pmatch_here pat (segs ++ more) = true.
Proof.
  induction pat as [|[g|] rest IH]; intros segs more H.
  - reflexivity.
  - destruct segs as [|s segs]; [discriminate|]. cbn [pmatch_here app] in *.
    apply andb_true_iff in H. destruct H as [H1 H2]. rewrite H1. cbn. apply IH; exact H2.
  - rewrite pmatch_here_gap in *. induction segs as [|s segs IHs]; cbn [skip app] in *.
    + rewrite orb_false_r in H. destruct more as [|m more]; cbn [skip].
      * rewrite H. reflexivity.
      * pose proof (IH [] (m :: more) H) as H'. cbn [app] in H'. rewrite H'. reflexivity.
    + apply orb_true_iff in H. destruct H as [H|H].
      * pose proof (IH (s :: segs) more H) as H'. cbn [app] in H'. rewrite H'. reflexivity.
      * rewrite (IHs H). apply orb_true_r.
Qed.

Lemma pmatch_below pat segs more : pmatch pat segs = true -> pmatch pat (segs ++ more) = true.
Proof.
  induction segs as [|s segs IH]; cbn [pmatch app]; intros H.
  - rewrite orb_false_r in H. destruct more as [|m more]; cbn [pmatch].
    + rewrite H. reflexivity.
    + pose proof (pmatch_here_below pat [] (m :: more) H) as H'. cbn [app] in H'. rewrite H'. reflexivity.
  - apply orb_true_iff in H. destruct H as [H|H].
    + pose proof (pmatch_here_below pat (s :: segs) more H) as H'. cbn [app] in H'. rewrite H'. reflexivity.
    + rewrite (IH H). apply orb_true_r.
Qed.

(* what lies below an ignored resource is ignored *)
Theorem ignored_below pats segs more :
  ignored_by pats segs = true -> ignored_by pats (segs ++ more) = true.
Proof.
  unfold ignored_by. intros H. apply existsb_exists in H. destruct H as [p [Hp H]].
  apply existsb_exists. exists p. split; [exact Hp|]. apply pmatch_below; exact H.
Qed.

(* the double slash reaches any depth: d//g matches d/m1/.../mk/f for every k >= 0 *)
Theorem gap_any_depth d g s0 f mids :
  gmatch d s0 = true -> gmatch g f = true ->
  pmatch_here [Seg d; Gap; Seg g] (s0 :: mids ++ [f]) = true.
Proof.
  intros Hd Hg.
  assert (E : forall l, pmatch_here [Seg d; Gap; Seg g] (s0 :: l) = gmatch d s0 && pmatch_here [Gap; Seg g] l)
    by reflexivity.
  rewrite E, Hd, pmatch_here_gap. cbn [andb].
  assert (E1 : pmatch_here [Seg g] [f] = true) by (cbn [pmatch_here]; rewrite Hg; reflexivity).
  induction mids as [|m mids IH]; cbn [skip app].
  - rewrite E1. reflexivity.
  - rewrite IH. apply orb_true_r.
Qed.

(* "gen//STAR.py" with STAR the asterisk; g = 103 e = 101 n = 110 ... *)
Definition w_pat : text := [103; 101; 110; 47; 47; 42; 46; 112; 121]%N.
Definition w_gen : text := [103; 101; 110]%N.
Definition w_deep : text := [100; 101; 101; 112]%N.
Definition w_g2py : text := [103; 50; 46; 112; 121]%N.
Definition w_readme : text := [114; 46; 116; 120; 116]%N.

Lemma ignore_example :
  parse_pat w_pat = [Seg w_gen; Gap; Seg [42; 46; 112; 121]%N] /\
  ignored_by [w_pat] [w_gen; w_g2py] = true /\ ignored_by [w_pat] [w_gen; w_deep; w_deep; w_g2py] = true /\
  ignored_by [w_pat] [w_gen; w_readme] = false /\ ignored_by [w_pat] [w_deep; w_g2py] = false.
Proof. repeat split; vm_compute; reflexivity. Qed.
