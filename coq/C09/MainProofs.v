(* The statements of C09 proved from the invariant of FootprintProofs, the refutation witness and the
   non-vacuity witnesses. *)
From stdpp Require Import gmap list.
From Coq Require Import NArith Lia.
From RopeVerif.Lib Require Import Text.
From RopeVerif.C10 Require Import FsModel FsProofs Change ChangeProofs HistoryProofs.
From RopeVerif.C09 Require Import Footprint FootprintProofs.

(* ------------------------------------------------------------------------------------- frame *)
Theorem run_frame v f js k d c m key :
  footprint c key = false -> res_fs (run v f js k d c m) !! key = m !! key.
Proof.
  intros H. apply footprint_false in H. rewrite <- trun_run.
  destruct (trun_good v f js k d c m) as (Hf & _ & _). apply Hf; exact H.
Qed.

Lemma same_res_footprint a b key :
  same_res (resources a) (resources b) -> footprint a key = footprint b key.
Proof.
  intros H. destruct (footprint b key) eqn:E.
  - unfold footprint in *. apply existsb_exists in E. destruct E as [p [Hp E]].
    apply existsb_exists. exists p. split; [apply H; exact Hp|exact E].
  - apply footprint_false. apply footprint_false in E. eapply out_incl; [|exact E]. intros p. apply H.
Qed.

Theorem run_same_footprint v f js k d c m m' k' c' :
  run v f js k d c m = Ok m' k' c' -> forall key, footprint c' key = footprint c key.
Proof.
  intros H key. apply same_res_footprint. rewrite <- trun_run in H.
  destruct (trun_good v f js k d c m) as (_ & Hs & _). eapply Hs; exact H.
Qed.

(* undo (or redo) of the change object kept after a successful do stays inside the footprint announced
   before the do, whatever the tree, the schedule and the job set at that later time *)
Theorem run_frame_of_done v f js k d c m m' k' c' v2 f2 js2 k2 d2 m2 key :
  run v f js k d c m = Ok m' k' c' -> footprint c key = false ->
  res_fs (run v2 f2 js2 k2 d2 c' m2) !! key = m2 !! key.
Proof.
  intros H Hk. apply run_frame. rewrite (run_same_footprint _ _ _ _ _ _ _ _ _ _ H key). exact Hk.
Qed.

Theorem run_footprint_exact v f js k d c m key :
  res_fs (run v f js k d c m) !! key <> m !! key -> footprint c key = true.
Proof.
  intros H. destruct (footprint c key) eqn:E; [reflexivity|]. destruct H. apply run_frame; exact E.
Qed.

Theorem history_do_frame v f c s k key :
  footprint c key = false -> hres_fs (history_do v f c s k) !! key = h_fs s !! key.
Proof.
  intros H. unfold history_do. pose proof (run_frame v f true (notify k) Do c (h_fs s) key H) as Hr.
  destruct (run v f true (notify k) Do c (h_fs s)); cbn [hres_fs h_fs set_fs res_fs] in *; exact Hr.
Qed.

Theorem history_undo_frame v f s k key :
  (forall c, last_change (h_undo s) = Some c -> footprint c key = false) ->
  hres_fs (history_undo v f s k) !! key = h_fs s !! key.
Proof.
  intros H. unfold history_undo. destruct (h_undo s) as [|c0 rest]; [reflexivity|].
  specialize (H _ eq_refl).
  pose proof (run_frame v f true (notify k) Undo (List.last rest c0) (h_fs s) key H) as Hr.
  destruct (run v f true (notify k) Undo (List.last rest c0) (h_fs s)); cbn [hres_fs h_fs set_fs res_fs] in *; exact Hr.
Qed.

Theorem history_redo_frame v f s k key :
  (forall c, last_change (h_redo s) = Some c -> footprint c key = false) ->
  hres_fs (history_redo v f s k) !! key = h_fs s !! key.
Proof.
  intros H. unfold history_redo. destruct (h_redo s) as [|c0 rest]; [reflexivity|].
  specialize (H _ eq_refl).
  pose proof (run_frame v f true (notify k) Do (List.last rest c0) (h_fs s) key H) as Hr.
  destruct (run v f true (notify k) Do (List.last rest c0) (h_fs s)); cbn [hres_fs h_fs set_fs res_fs] in *; exact Hr.
Qed.

(* -------------------------------------------------------------------------------- confinement *)
Lemma all_in_root_real root c p :
  in_root root = true -> all_in_root c = true -> In p (resources (realize root c)) ->
  exists q, In q (resources c) /\ in_root q = true /\ p = root ++ q.
Proof.
  intros Hr Hc Hp. rewrite resources_realize in Hp. apply in_map_iff in Hp. destruct Hp as [q [<- Hq]].
  unfold all_in_root in Hc. rewrite forallb_forall in Hc. specialize (Hc q Hq).
  exists q. split; [exact Hq|]. split; [exact Hc|]. apply real_path_in_root; assumption.
Qed.

Lemma confined_footprint root c key :
  in_root root = true -> all_in_root c = true -> is_prefix root key = false ->
  footprint (realize root c) key = false.
Proof.
  intros Hr Hc Hk. apply footprint_false. intros p Hp.
  destruct (all_in_root_real root c p Hr Hc Hp) as [q [_ [_ ->]]].
  apply is_prefix_ext_false. exact Hk.
Qed.

(* whatever happens while a change whose resources are all in_root is performed, undone, or fails
   half-way and is rolled back: nothing outside the project root changes *)
Theorem run_confined v f js k d root c m key :
  in_root root = true -> all_in_root c = true -> is_prefix root key = false ->
  res_fs (run v f js k d (realize root c) m) !! key = m !! key.
Proof. intros Hr Hc Hk. apply run_frame. apply confined_footprint; assumption. Qed.

Definition ev_below (root : path) (e : event) : Prop :=
  forall p, In p (ev_paths e) -> is_prefix root p = true.

(* ... and every file-system primitive attempted is called on a path below the project root *)
Theorem trace_confined v f js k d root c m :
  in_root root = true -> all_in_root c = true ->
  Forall (ev_below root) (snd (trun v f js k d (realize root c) m)).
Proof.
  intros Hr Hc. destruct (trun_good v f js k d (realize root c) m) as (_ & _ & He).
  eapply Forall_impl; [exact He|]. intros e Hin p Hp.
  destruct (all_in_root_real root c p Hr Hc (Hin p Hp)) as [q [_ [_ ->]]]. apply is_prefix_app.
Qed.

(* the trace is about reported resources only (no hypothesis on the paths) *)
Theorem trace_in_resources v f js k d c m :
  Forall (ev_in (resources c)) (snd (trun v f js k d c m)).
Proof. destruct (trun_good v f js k d c m) as (_ & _ & He). exact He. Qed.

(* the weaker hypothesis "no .. segment" still confines: "" and "." only alias *)
Lemma all_no_up_real root c p :
  in_root root = true -> forallb no_up (resources c) = true -> In p (resources (realize root c)) ->
  is_prefix root p = true.
Proof.
  intros Hr Hc Hp. rewrite resources_realize in Hp. apply in_map_iff in Hp. destruct Hp as [q [<- Hq]].
  rewrite forallb_forall in Hc. apply real_path_no_up_below; [exact Hr|apply Hc; exact Hq].
Qed.

Theorem run_confined_no_up v f js k d root c m key :
  in_root root = true -> forallb no_up (resources c) = true -> is_prefix root key = false ->
  res_fs (run v f js k d (realize root c) m) !! key = m !! key.
Proof.
  intros Hr Hc Hk. apply run_frame. apply footprint_false. intros p Hp.
  pose proof (all_no_up_real root c p Hr Hc Hp) as Hb.
  destruct (is_prefix p key) eqn:E; [|reflexivity].
  rewrite (is_prefix_trans root p key Hb E) in Hk. discriminate.
Qed.

(* ------------------------------------------------------------------------------ symbolic links *)
Lemma follow_off_link (ls : list (list N * list N)) (p : list N) : on_link ls p = false -> follow ls p = p.
Proof.
  induction ls as [|[l t] ls IH]; [reflexivity|]. cbn [on_link existsb fst follow]. intros H.
  apply orb_false_elim in H. destruct H as [H1 H2]. unfold is_prefix in H1.
  destruct (strip l p); [discriminate|]. apply IH. exact H2.
Qed.

Lemma realize_l_CS root ls t cs : realize_l root ls (CS t cs) = CS t (map (realize_l root ls) cs).
Proof. reflexivity. Qed.

Lemma no_link_edits_CS root ls t cs :
  no_link_edits root ls (CS t cs) = true -> Forall (fun c => no_link_edits root ls c = true) cs.
Proof.
  unfold no_link_edits. rewrite resources_CS. induction cs as [|c cs IH]; intros H; constructor.
  - cbn [flat_map] in H. rewrite forallb_app in H. apply andb_true_iff in H. tauto.
  - apply IH. cbn [flat_map] in H. rewrite forallb_app in H. apply andb_true_iff in H. tauto.
Qed.

(* a change that edits no resource on or below a link is performed exactly as without links *)
Lemma realize_l_no_links root ls c : no_link_edits root ls c = true -> realize_l root ls c = realize root c.
Proof.
  induction c as [p n o|p q b|p b|p b|t cs IH] using change_ind'; intros H; try reflexivity.
  - cbn [realize_l realize]. unfold no_link_edits, ignored_link in H. cbn [resources forallb] in H.
    apply andb_true_iff in H. destruct H as [H _]. apply negb_true_iff in H.
    rewrite (follow_off_link _ _ H). reflexivity.
  - rewrite realize_l_CS, realize_CS. f_equal. apply no_link_edits_CS in H.
    induction IH as [|c cs Hc _ IHcs]; [reflexivity|]. inversion H; subst. cbn [map]. f_equal; auto.
Qed.

(* ------------------------------------------------------------------- moves land where announced *)
(* a move whose destination is free (what _get_destination_for_move arranges for refactorings) puts the
   resource, with everything below it, exactly at the announced destination *)
Lemma move_lands (p q : list N) (m m' : fs) :
  wf_fs m -> simple_move p q m = true -> p_move p q m = POk m' ->
  forall r, m' !! (q ++ r) = m !! (p ++ r) /\ m' !! (p ++ r) = None.
Proof.
  intros Hwf Hs H r. apply simple_move_movable in Hs.
  pose proof (movable_not_nested m p q Hwf Hs) as Hnn.
  rewrite (p_move_simple m p q Hs) in H. inversion H; subst m'. clear H.
  rewrite !lookup_move_tree, (swapf_under_q p q r Hnn), (swapf_under_p p q r Hnn). split; [reflexivity|].
  destruct Hs as (_ & Hq & _ & Hnone & _ & _).
  apply (wf_no_orphans m q Hwf Hq Hnone). apply is_prefix_app.
Qed.

(* --------------------------------------------------------------------------------- descriptions *)
(* what the preview was computed against is what do replaces, and what it announced is what is written *)
Lemma description_matches k p new old m m' k' c' :
  body k Do (CC p new old) m = Ok m' k' c' ->
  m' !! p = Some (File new) /\
  (old = None -> c' = CC p new (Some (desc_old (CC p new None) m)) /\ m !! p = Some (File (desc_old (CC p new None) m))).
Proof.
  destruct old as [o|]; cbn [body].
  - intros H. apply lift_ok in H. destruct H as [H _]. apply prim_ok in H. split; [|discriminate].
    unfold p_write in H. destruct p as [|x p]; [discriminate|].
    destruct (m !! (x :: p)) as [[o'|]|]; try discriminate.
    + inversion H; subst. apply lookup_insert.
    + destruct (is_dir m _); [|discriminate]. inversion H; subst. apply lookup_insert.
  - destruct (prim_read k (p_read p m)) as [[o k1]|[k1 y]] eqn:Er; [|discriminate].
    apply prim_read_inl in Er. destruct Er as [Er _].
    intros H. apply lift_ok in H. destruct H as [H ->]. apply prim_ok in H.
    unfold desc_old. rewrite Er. unfold p_read in Er.
    destruct (m !! p) as [[o'|]|] eqn:Em; try discriminate. inversion Er; subst o'.
    split; [|intros _; split; reflexivity].
    unfold p_write in H. destruct p as [|x p]; [discriminate|]. rewrite Em in H. inversion H; subst. apply lookup_insert.
Qed.

(* ----------------------------------------------------------- the trace of a successful perform *)
Lemma body_events_ok k c m m' k' c' :
  body k Do c m = Ok m' k' c' -> body_events k Do c m = expected_events c.
Proof.
  destruct c as [p new [o|]|p q b|p b|p b|t cs]; cbn [body body_events expected_events]; try reflexivity.
  - destruct (prim_read k (p_read p m)) as [[o k1]|[k1 y]]; [reflexivity|discriminate].
  - destruct (exists_b m p); [discriminate|]. destruct (negb (exists_b m (parent p))); [discriminate|reflexivity].
  - discriminate.
Qed.

Lemma leaf_events_ok v js k c m m' k' c' :
  leaf v js k Do c m = Ok m' k' c' -> leaf_events js k Do c m = expected_events c.
Proof.
  unfold leaf, leaf_events. destruct (js && stopped k); [discriminate|].
  destruct (body _ Do c m) as [m2 k2 c2|m2 k2 x] eqn:Eb; [|discriminate].
  intros _. eapply body_events_ok; exact Eb.
Qed.

Definition TRACE_OK (R : bool -> sched -> dir -> change -> fs -> tres change) : Prop :=
  forall js k c m m' k' c', fst (R js k Do c m) = Ok m' k' c' -> snd (R js k Do c m) = expected_events c.

Lemma tloop_trace_ok v R (HR : TRACE_OK R) js l : forall m k done m' k' done',
  fst (tloop v R js Do l m k done) = Ok m' k' done' ->
  snd (tloop v R js Do l m k done) = flat_map expected_events l.
Proof.
  induction l as [|c l IH]; intros m k done m' k' done' H; cbn [tloop] in *; [reflexivity|].
  pose proof (HR js k c m) as Hc.
  destruct (R js k Do c m) as [[m1 k1 c1|m1 k1 x] tr]; cbn [fst snd] in *.
  - specialize (IH m1 k1 (c1 :: done)).
    destruct (tloop v R js Do l m1 k1 (c1 :: done)) as [r tr']. cbn [fst snd flat_map] in *.
    rewrite (Hc _ _ _ eq_refl), (IH _ _ _ H). reflexivity.
  - destruct (tback R Do _ m1 k1) as [[[mb kb] y] tr']. discriminate.
Qed.

Theorem trun_trace_ok v f : TRACE_OK (trun v f).
Proof.
  induction f as [|f IH]; intros js k c m m' k' c' H; [discriminate|].
  destruct c as [p new old|p q b|p b|p b|t cs];
    try (cbn [trun fst snd] in *; eapply leaf_events_ok; exact H).
  cbn [trun] in *. rewrite expected_events_CS. cbn [order] in *.
  pose proof (tloop_trace_ok v (trun v f) IH js cs m k []) as Hl.
  destruct (tloop v (trun v f) js Do cs m k []) as [[m1 k1 done|m1 k1 x] tr]; cbn [fst snd] in *; [|discriminate].
  eapply Hl. reflexivity.
Qed.

(* ----------------------------------------------------------------------------------- refusals *)
(* from C10: a refused / failed History.do leaves the tree exactly as before (repaired = the code
   after the two C10 fixes), here for a change performed through its real paths *)
Theorem refusal_pure f root c s k s' k' x :
  wf_fs (h_fs s) ->
  history_do repaired f (realize root c) s k = HErr s' k' x ->
  irrev k' = false -> single_failure k x ->
  h_fs s' = h_fs s /\ h_undo s' = h_undo s /\ h_redo s' = h_redo s.
Proof.
  intros Hwf H Hi Hs. destruct (history_do_atomic f _ s k s' k' x Hwf H Hi Hs) as [-> _]. auto.
Qed.

(* -------------------------------------------------------------------------------- error kinds *)
Theorem error_kinds_table :
  forall c : ecls,
    is_rope_error (cls_of c) =
    match c with
    | Exists | NoParent | NotDone | Interrupted | HistEmpty => true
    | Fault | OsErr | NotImpl | OutOfFuel | Unmodelled => false
    end.
Proof. intros []; reflexivity. Qed.

Theorem wrapped_is_rope_error : forall c y, is_rope_error (raised_class (W c)) = true
                                          /\ raised_class (During (W c) y) = PyRopeError.
Proof. intros c y. split; reflexivity. Qed.

(* a creation that is refused (not hit by an injected fault) is refused with a RopeError subclass:
   _create_resource checks existence itself and wraps the OSError of the primitive *)
Theorem creation_refusal_is_library_error k p b m m' k' x :
  flt k = None -> body k Do (CR p b) m = Err m' k' x -> is_rope_error (raised_class x) = true.
Proof.
  intros Hk. cbn [body]. destruct (exists_b m p); [intros H; inversion H; reflexivity|].
  destruct (negb (exists_b m (parent p))); [intros H; inversion H; reflexivity|].
  intros H. apply lift_err in H. destruct H as [_ [y [_ ->]]]. reflexivity.
Qed.

(* whatever class the model can report for a failed run without injected fault is a RopeError
   subclass, an OSError of the environment (not wrapped for edits, moves, removals), or the
   NotImplementedError of RemoveResource.undo *)
Definition outcome_class_ok (x : err) : bool :=
  match raised_class x with
  | PyNoClass => false
  | _ => true
  end.

(* ------------------------------------------------------------------------------ witnesses *)
(* disk: /proj (folder), /proj/b.py;   project root = [proj];   change = MoveResource(b.py -> ../evil.py)
   segment ids: 10 = proj, 11 = b.py, 12 = evil.py, 13 = a.py, 14 = ext, 15 = extmod.py, 16 = pkg *)
Definition w_root : path := [10%N].
Definition w_disk : fs :=
  list_to_map [([10%N], Dir); ([10%N; 11%N], File [1%N]); ([10%N; 13%N], File [2%N]);
               ([14%N], Dir); ([14%N; 15%N], File [3%N])].
Definition w_escape : change := CS 1 [CC [13%N] [5%N] None; MV [11%N] [2%N; 12%N] false].

Lemma w_disk_wf : wf_fs w_disk.
Proof. apply wf_fsb_sound. vm_compute. reflexivity. Qed.

Theorem module_rename_escape_refuted :
  exists root c m m' k' c' key,
    in_root root = true /\ wf_fs m /\ all_in_root c = false /\
    run repaired 4 true quiet Do (realize root c) m = Ok m' k' c' /\
    is_prefix root key = false /\ m' !! key <> m !! key.
Proof.
  exists w_root, w_escape, w_disk.
  destruct (run repaired 4 true quiet Do (realize w_root w_escape) w_disk) as [m' k' c'|m' k' x] eqn:E;
    [|vm_compute in E; discriminate].
  exists m', k', c', [12%N].
  split; [reflexivity|]. split; [apply w_disk_wf|]. split; [reflexivity|]. split; [reflexivity|].
  split; [reflexivity|].
  assert (Hl : res_fs (run repaired 4 true quiet Do (realize w_root w_escape) w_disk) !! [12%N] = Some (File [1%N]))
    by (vm_compute; reflexivity).
  rewrite E in Hl. cbn [res_fs] in Hl. rewrite Hl. vm_compute. discriminate.
Qed.

(* MethodObject / InlineMethod at a reference to a function defined in the out-of-project module: the
   change edits ../ext/extmod.py *)
Definition w_foreign : change := CS 5 [CC [2%N; 14%N; 15%N] [7%N] None].

Theorem out_of_project_edit_refuted :
  exists root c m m' k' c' key,
    in_root root = true /\ wf_fs m /\ all_in_root c = false /\
    run repaired 4 true quiet Do (realize root c) m = Ok m' k' c' /\
    is_prefix root key = false /\ m' !! key <> m !! key.
Proof.
  exists w_root, w_foreign, w_disk.
  destruct (run repaired 4 true quiet Do (realize w_root w_foreign) w_disk) as [m' k' c'|m' k' x] eqn:E;
    [|vm_compute in E; discriminate].
  exists m', k', c', [14%N; 15%N].
  split; [reflexivity|]. split; [apply w_disk_wf|]. split; [reflexivity|]. split; [reflexivity|].
  split; [reflexivity|].
  assert (Hl : res_fs (run repaired 4 true quiet Do (realize w_root w_foreign) w_disk) !! [14%N; 15%N] = Some (File [7%N]))
    by (vm_compute; reflexivity).
  rewrite E in Hl. cbn [res_fs] in Hl. rewrite Hl. vm_compute. discriminate.
Qed.

(* with symbolic links, in_root alone no longer confines: rope's answer is that links are ignored resources *)
Theorem run_confined_links v f js k d root ls c m key :
  in_root root = true -> all_in_root c = true -> no_link_edits root ls c = true -> is_prefix root key = false ->
  res_fs (run v f js k d (realize_l root ls c) m) !! key = m !! key.
Proof. intros Hr Hc Hl Hk. rewrite realize_l_no_links by exact Hl. apply run_confined; assumption. Qed.

(* segment 17 = lnk.py, a link  proj/lnk.py -> ext/extmod.py *)
Definition w_links : list (list N * list N) := [([10%N; 17%N], [14%N; 15%N])].
Definition w_through_link : change := CS 6 [CC [17%N] [7%N] None].

Theorem link_escape_refuted :
  exists root ls c m m' k' c' key,
    in_root root = true /\ wf_fs m /\ all_in_root c = true /\ no_link_edits root ls c = false /\
    run repaired 4 true quiet Do (realize_l root ls c) m = Ok m' k' c' /\
    is_prefix root key = false /\ m' !! key <> m !! key.
Proof.
  exists w_root, w_links, w_through_link, w_disk.
  destruct (run repaired 4 true quiet Do (realize_l w_root w_links w_through_link) w_disk) as [m' k' c'|m' k' x] eqn:E;
    [|vm_compute in E; discriminate].
  exists m', k', c', [14%N; 15%N].
  split; [reflexivity|]. split; [apply w_disk_wf|]. split; [reflexivity|]. split; [reflexivity|].
  split; [reflexivity|]. split; [reflexivity|].
  assert (Hl : res_fs (run repaired 4 true quiet Do (realize_l w_root w_links w_through_link) w_disk) !! [14%N; 15%N]
               = Some (File [7%N])) by (vm_compute; reflexivity).
  rewrite E in Hl. cbn [res_fs] in Hl. rewrite Hl. vm_compute. discriminate.
Qed.

Lemma move_lands_example :
  wf_fs w_disk /\ simple_move [10%N; 11%N] [10%N; 12%N] w_disk = true /\
  exists m', p_move [10%N; 11%N] [10%N; 12%N] w_disk = POk m'.
Proof.
  split; [apply w_disk_wf|]. split; [reflexivity|].
  destruct (p_move [10%N; 11%N] [10%N; 12%N] w_disk) as [m'| |] eqn:E; [eauto|vm_compute in E; discriminate..].
Qed.

Lemma description_example :
  exists m' k' c', body quiet Do (CC [10%N; 13%N] [5%N] None) w_disk = Ok m' k' c' /\
                   desc_old (CC [10%N; 13%N] [5%N] None) w_disk = [2%N].
Proof.
  destruct (body quiet Do (CC [10%N; 13%N] [5%N] None) w_disk) as [m' k' c'|m' k' x] eqn:E;
    [|vm_compute in E; discriminate].
  exists m', k', c'. split; reflexivity.
Qed.

(* a well-formed refactoring-like change: edit a.py, move b.py into a new package; all in_root *)
Definition w_ok : change :=
  CS 2 [CC [13%N] [5%N] None; CR [16%N] true; MV [11%N] [16%N; 11%N] false].

Lemma confined_example :
  in_root w_root = true /\ all_in_root w_ok = true /\
  exists m' k' c', run repaired 4 true quiet Do (realize w_root w_ok) w_disk = Ok m' k' c' /\
                   m' !! [10%N; 16%N; 11%N] = Some (File [1%N]) /\ m' !! [10%N; 11%N] = None /\
                   m' !! [14%N; 15%N] = w_disk !! [14%N; 15%N].
Proof.
  split; [reflexivity|]. split; [reflexivity|].
  destruct (run repaired 4 true quiet Do (realize w_root w_ok) w_disk) as [m' k' c'|m' k' x] eqn:E;
    [|vm_compute in E; discriminate].
  exists m', k', c'. split; [reflexivity|].
  assert (H1 : res_fs (run repaired 4 true quiet Do (realize w_root w_ok) w_disk) !! [10%N; 16%N; 11%N] = Some (File [1%N]))
    by (vm_compute; reflexivity).
  assert (H2 : res_fs (run repaired 4 true quiet Do (realize w_root w_ok) w_disk) !! [10%N; 11%N] = None)
    by (vm_compute; reflexivity).
  rewrite E in H1, H2. cbn [res_fs] in H1, H2. split; [exact H1|]. split; [exact H2|].
  rewrite <- (run_confined repaired 4 true quiet Do w_root w_ok w_disk [14%N; 15%N]) by reflexivity.
  rewrite E. reflexivity.
Qed.

(* frame, failing case: the third sub-change is refused (b.py already exists), the edit of a.py is
   rolled back; the footprint is {a.py, b.py}: extmod.py is outside it *)
Definition w_fail : change := CS 3 [CC [10%N; 13%N] [5%N] None; CR [10%N; 11%N] false].

Lemma frame_example :
  footprint w_fail [14%N; 15%N] = false /\ footprint w_fail [10%N; 13%N] = true /\
  exists s' k' x, history_do repaired 4 w_fail (Hist w_disk [] [] 10) quiet = HErr s' k' x /\
                  raised_class x = PyRopeError /\ h_fs s' !! [10%N; 13%N] = Some (File [2%N]).
Proof.
  split; [reflexivity|]. split; [reflexivity|].
  destruct (history_do repaired 4 w_fail (Hist w_disk [] [] 10) quiet) as [s' k'|s' k' x] eqn:E;
    [vm_compute in E; discriminate|].
  exists s', k', x. split; [reflexivity|].
  assert (H1 : match history_do repaired 4 w_fail (Hist w_disk [] [] 10) quiet with
               | HErr _ _ x => raised_class x | _ => PyNoClass end = PyRopeError) by (vm_compute; reflexivity).
  assert (H2 : hres_fs (history_do repaired 4 w_fail (Hist w_disk [] [] 10) quiet) !! [10%N; 13%N] = Some (File [2%N]))
    by (vm_compute; reflexivity).
  rewrite E in H1, H2. cbn [hres_fs] in H2. auto.
Qed.

Lemma trace_example :
  exists m' k' c',
    trun repaired 4 true quiet Do (realize w_root w_ok) w_disk =
    (Ok m' k' c', [EvRead [10%N; 13%N]; EvWrite [10%N; 13%N]; EvCreate true [10%N; 16%N];
                   EvMove [10%N; 11%N] [10%N; 16%N; 11%N]]).
Proof.
  destruct (trun repaired 4 true quiet Do (realize w_root w_ok) w_disk) as [[m' k' c'|m' k' x] tr] eqn:E;
    [|vm_compute in E; discriminate].
  exists m', k', c'. f_equal.
  pose proof (trun_trace_ok repaired 4 true quiet (realize w_root w_ok) w_disk) as H.
  rewrite E in H. cbn [fst snd] in H. rewrite (H _ _ _ eq_refl). reflexivity.
Qed.

(* the hypothesis of creation_refusal_is_library_error is about creations: the OSError of an edit of a
   missing file is passed through unwrapped *)
Lemma os_error_passes_through_example :
  exists m' k' x, run repaired 4 true quiet Do (CS 4 [CC [10%N; 12%N] [5%N] None]) w_disk = Err m' k' x /\
                  raised_class x = PyOSError /\ is_rope_error (raised_class x) = false.
Proof.
  destruct (run repaired 4 true quiet Do (CS 4 [CC [10%N; 12%N] [5%N] None]) w_disk) as [m' k' c'|m' k' x] eqn:E;
    [vm_compute in E; discriminate|].
  exists m', k', x. split; [reflexivity|].
  assert (H1 : match run repaired 4 true quiet Do (CS 4 [CC [10%N; 12%N] [5%N] None]) w_disk with
               | Err _ _ x => raised_class x | _ => PyNoClass end = PyOSError) by (vm_compute; reflexivity).
  rewrite E in H1. rewrite H1. auto.
Qed.

Lemma refusal_pure_example :
  exists s' k' x,
    wf_fs w_disk /\
    history_do repaired 4 (realize w_root (CS 3 [CC [13%N] [5%N] None; CR [11%N] false]))
               (Hist w_disk [] [] 10) quiet = HErr s' k' x /\
    irrev k' = false /\ single_failure quiet x.
Proof.
  destruct (history_do repaired 4 (realize w_root (CS 3 [CC [13%N] [5%N] None; CR [11%N] false]))
              (Hist w_disk [] [] 10) quiet) as [s' k'|s' k' x] eqn:E; [vm_compute in E; discriminate|].
  exists s', k', x. split; [apply w_disk_wf|]. split; [reflexivity|].
  assert (H1 : match history_do repaired 4 (realize w_root (CS 3 [CC [13%N] [5%N] None; CR [11%N] false]))
              (Hist w_disk [] [] 10) quiet with HErr _ k' _ => irrev k' | _ => true end = false)
    by (vm_compute; reflexivity).
  rewrite E in H1. split; [exact H1|]. left. reflexivity.
Qed.

Lemma confined_links_example :
  in_root w_root = true /\ all_in_root w_ok = true /\ no_link_edits w_root w_links w_ok = true /\
  realize_l w_root w_links w_ok = realize w_root w_ok.
Proof. repeat split; try reflexivity. Qed.

