(* The pattern part of Project.is_ignored (rope.base.resources._ResourceMatcher), definitions only.

   A pattern such as "skip", "ign_STAR.py" or "gen//STAR.py" (STAR = the asterisk) is translated by rope into a
   regular expression: the dot is escaped, the asterisk becomes "any run of characters other than /", the question
   mark "one character other than /", the double slash becomes "/ followed by any number of whole segments", and the
   result is anchored so that it may start at any segment boundary and the path may continue below the matched part.
   Read as a statement about path SEGMENTS: the pattern is a sequence of segment globs; the double slash between two
   of them stands for any number of whole segments.  That reading is the model (patterns over letters, digits,
   "_", ".", asterisk, "?", "/": the generator's alphabet; other regex-special characters are outside the model).
   A path here is a list of segments, a segment a list of code points. *)
From Coq Require Import List NArith Bool.
Import ListNotations.
From RopeVerif.Lib Require Import Text.

Definition ch_star : N := 42.     (* asterisk *)
Definition ch_qm : N := 63.       (* "?" *)
Definition ch_slash : N := 47.    (* "/" *)

(* one segment against one segment glob: asterisk = any run of characters, "?" = one character *)
Fixpoint gmatch (g : text) (s : text) {struct g} : bool :=
  match g with
  | [] => match s with [] => true | _ => false end
  | c :: g' =>
      if N.eqb c ch_star then
        (fix any (s : text) : bool :=
           gmatch g' s || match s with [] => false | _ :: s' => any s' end) s
      else match s with
           | [] => false
           | x :: s' => (N.eqb c ch_qm || N.eqb c x) && gmatch g' s'
           end
  end.

Inductive elem := Seg (g : text) | Gap.

(* split the pattern text at "/"; an empty piece between two slashes is the "//" wildcard *)
Fixpoint split_slash (acc : text) (t : text) : list text :=
  match t with
  | [] => [rev acc]
  | c :: r => if N.eqb c ch_slash then rev acc :: split_slash [] r else split_slash (c :: acc) r
  end.

Definition parse_pat (t : text) : list elem :=
  map (fun piece => match piece with [] => Gap | _ => Seg piece end) (split_slash [] t).

(* the pattern matches a prefix of the segment list (the path may continue below) *)
Fixpoint pmatch_here (pat : list elem) (segs : list text) {struct pat} : bool :=
  match pat with
  | [] => true
  | Seg g :: rest =>
      match segs with
      | [] => false
      | s :: segs' => gmatch g s && pmatch_here rest segs'
      end
  | Gap :: rest =>
      (fix skip (segs : list text) : bool :=
         pmatch_here rest segs || match segs with [] => false | _ :: segs' => skip segs' end) segs
  end.

(* ... starting at any segment boundary *)
Fixpoint pmatch (pat : list elem) (segs : list text) : bool :=
  pmatch_here pat segs || match segs with [] => false | _ :: segs' => pmatch pat segs' end.

(* _ResourceMatcher.does_match without the symbolic-link clause (that one is Footprint.ignored_link) *)
Definition ignored_by (pats : list text) (segs : list text) : bool :=
  existsb (fun p => pmatch (parse_pat p) segs) pats.

(* correspondence: (patterns, path, what rope's matcher answered) *)
Definition ign_report (cs : list (list text * list text * bool)) : list N :=
  map (fun c => let '(pats, segs, obs) := c in if Bool.eqb (ignored_by pats segs) obs then 0%N else 1%N) cs.
