(* C09 -- what performing a change may touch.  Definitions only (proofs: FootprintProofs.v).

   The change algebra and its execution are those of C10 (RopeVerif.C10.Change.run): ChangeContents /
   MoveResource / CreateResource / RemoveResource / nested ChangeSet with the [done] list and rollback.
   This file adds what rope.base.change / rope.base.project say about WHERE a change acts:

   resources c      Change.get_changed_resources: the resources of the leaves (MoveResource reports both
                    ends); a list here, a set in rope.
   footprint c key  key is one of the reported paths or lies below one ("descendant of a reported folder").
   segments         a resource path "a/b" is the list of its '/'-separated segments; three spellings are
                    special for the operating system and are interned as fixed numbers:
                        0 = ""   (from "a//b", a leading or a trailing '/')      1 = "."      2 = ".."
   joined root p    Project._get_resource_path: os.path.join(address, *name.split("/")) -- no normalisation.
   resolve          what the operating system does with the joined string (POSIX, no symbolic links:
                    rope treats links as ignored resources): "" and "." are skipped, ".." pops.
   real_path root p resolve (joined root p): the node of the disk tree a primitive called on the
                    resource really acts on.  The disk tree (FsModel.fs) is rooted at a folder ABOVE the
                    project root, so that a sibling out-of-project folder is part of it.
   in_root p        no special segment: then real_path root p = root ++ p (proved).
   realize root c   the change with every resource replaced by its real path: performing c in the
                    project rooted at [root] is Change.run on [realize root c] over the disk tree.

   [trun] is C10's [run] instrumented with the trace of file-system primitives ATTEMPTED (the audit hook
   of the harness sees a call before the operating system refuses it); FootprintProofs.trun_run proves
   that its first component IS [run]. *)
From stdpp Require Import gmap list.
From Coq Require Import NArith Lia.
From RopeVerif.Lib Require Import Text.
From RopeVerif.C10 Require Import FsModel Change.

(* ------------------------------------------------------------------------------------ segments *)
Definition seg_empty : N := 0.
Definition seg_dot : N := 1.
Definition seg_up : N := 2.

Definition skipped (s : N) : bool := N.eqb s 0 || N.eqb s 1.
Definition special (s : N) : bool := skipped s || N.eqb s 2.

Definition in_root (p : path) : bool := forallb (fun s => negb (special s)) p.
Definition no_up (p : path) : bool := forallb (fun s => negb (N.eqb s 2)) p.

Definition joined (root p : path) : path := root ++ p.

(* [acc]: the resolved prefix, innermost folder first *)
Fixpoint resolve_acc (acc : list N) (p : path) : path :=
  match p with
  | [] => rev acc
  | s :: r =>
      if skipped s then resolve_acc acc r
      else if N.eqb s 2 then resolve_acc (tl acc) r
      else resolve_acc (s :: acc) r
  end.

Definition resolve (p : path) : path := resolve_acc [] p.
Definition real_path (root p : path) : path := resolve (joined root p).

(* ----------------------------------------------------------------------------------- footprint *)
Fixpoint resources (c : change) : list path :=
  match c with
  | CC p _ _ => [p]
  | MV p q _ => [p; q]
  | CR p _ => [p]
  | RM p _ => [p]
  | CS _ cs => (fix go (l : list change) : list path :=
                  match l with [] => [] | c :: r => resources c ++ go r end) cs
  end.

Definition footprint (c : change) (key : path) : bool :=
  existsb (fun p => is_prefix p key) (resources c).

Definition all_in_root (c : change) : bool := forallb in_root (resources c).

Fixpoint realize (root : path) (c : change) : change :=
  match c with
  | CC p n o => CC (real_path root p) n o
  | MV p q b => MV (real_path root p) (real_path root q) b
  | CR p b => CR (real_path root p) b
  | RM p b => RM (real_path root p) b
  | CS t cs => CS t ((fix go (l : list change) : list change :=
                        match l with [] => [] | c :: r => realize root c :: go r end) cs)
  end.

(* ------------------------------------------------------------------------------ symbolic links *)
(* [(l, t)]: the disk path l is a symbolic link to the disk path t.  Link nodes are not part of the tree
   ([fs] has files and folders only); what the model knows about them: open(p, "wb") on a path on or below
   a link acts on the target ([follow]); rope's is_ignored says True for a link
   (_ResourceMatcher.does_match: os.path.islink).  Moving / removing / creating a link itself is outside the
   model (the harness does not send such cases). *)
Notation links := (list (path * path)) (only parsing).

Fixpoint follow (ls : links) (p : path) : path :=
  match ls with
  | [] => p
  | (l, t) :: r => match strip l p with Some rest => t ++ rest | None => follow r p end
  end.

Definition on_link (ls : links) (p : path) : bool := existsb (fun lt => is_prefix (fst lt) p) ls.

(* the link part of Project.is_ignored (the pattern part is not modelled) *)
Definition ignored_link (root : path) (ls : links) (p : path) : bool := on_link ls (real_path root p).

Definition no_link_edits (root : path) (ls : links) (c : change) : bool :=
  forallb (fun p => negb (ignored_link root ls p)) (resources c).

Fixpoint realize_l (root : path) (ls : links) (c : change) : change :=
  match c with
  | CC p n o => CC (follow ls (real_path root p)) n o
  | MV p q b => MV (real_path root p) (real_path root q) b
  | CR p b => CR (real_path root p) b
  | RM p b => RM (real_path root p) b
  | CS t cs => CS t ((fix go (l : list change) : list change :=
                        match l with [] => [] | c :: r => realize_l root ls c :: go r end) cs)
  end.

(* ------------------------------------------------------------------------------- descriptions *)
(* ChangeContents.get_description diffs [desc_old] against new_contents: the recorded old contents, else
   what the file holds now, else "" *)
Definition desc_old (c : change) (m : fs) : content :=
  match c with
  | CC p _ (Some o) => o
  | CC p _ None => match p_read p m with Some o => o | None => [] end
  | _ => []
  end.

(* -------------------------------------------------------------------------------------- traces *)
Inductive event :=
| EvRead (p : path)                  (* FileSystemCommands.read:   open(p, "rb") *)
| EvWrite (p : path)                 (* FileSystemCommands.write:  open(p, "wb") *)
| EvCreate (isdir : bool) (p : path) (* create_file: open(p, "w") / create_folder: os.mkdir(p) *)
| EvRemove (p : path)                (* remove: os.remove(p) / shutil.rmtree(p) *)
| EvMove (p q : path).               (* move: shutil.move(p, q) *)

Definition ev_paths (e : event) : list path :=
  match e with
  | EvRead p | EvWrite p | EvCreate _ p | EvRemove p => [p]
  | EvMove p q => [p; q]
  end.

Definition mutating (e : event) : bool := match e with EvRead _ => false | _ => true end.

(* the primitives the undecorated do/undo body of a leaf attempts, in order (cf. Change.body) *)
Definition body_events (k : sched) (d : dir) (c : change) (m : fs) : list event :=
  match c, d with
  | CC p _ None, Do =>
      match prim_read k (p_read p m) with
      | inr _ => [EvRead p]
      | inl _ => [EvRead p; EvWrite p]
      end
  | CC p _ (Some _), Do => [EvWrite p]
  | CC _ _ None, Undo => []
  | CC p _ (Some _), Undo => [EvWrite p]
  | MV p q _, Do => [EvMove p q]
  | MV p q _, Undo => [EvMove q p]
  | CR p isdir, Do =>
      if exists_b m p then [] else if negb (exists_b m (parent p)) then [] else [EvCreate isdir p]
  | CR p _, Undo => [EvRemove p]
  | RM p _, Do => [EvRemove p]
  | RM _ _, Undo => []
  | CS _ _, _ => []
  end.

Definition leaf_events (js : bool) (k : sched) (d : dir) (c : change) (m : fs) : list event :=
  if js && stopped k then [] else body_events (if js then notify k else k) d c m.

Definition tres (A : Type) : Type := (res A * list event)%type.

Section traced.
Variable v : variant.
Variable R : bool -> sched -> dir -> change -> fs -> tres change.   (* the run of a child *)

Fixpoint tback (d : dir) (l : list change) (m : fs) (k : sched) : fs * sched * option err * list event :=
  match l with
  | [] => (m, k, None, [])
  | c :: rest =>
      match R false k (opp d) c m with
      | (Ok m2 k2 _, tr) => let '(mb, kb, y, tr') := tback d rest m2 k2 in (mb, kb, y, tr ++ tr')
      | (Err m2 k2 y, tr) => (m2, k2, Some y, tr)
      end
  end.

Fixpoint tloop (js : bool) (d : dir) (l : list change) (m : fs) (k : sched) (done : list change)
  : tres (list change) :=
  match l with
  | [] => (Ok m k done, [])
  | c :: rest =>
      match R js k d c m with
      | (Ok m' k' c', tr) =>
          let '(r, tr') := tloop js d rest m' k' (c' :: done) in (r, tr ++ tr')
      | (Err m' k' x, tr) =>
          let '(mb, kb, y, tr') := tback d (if rb_rev v then done else rev done) m' k' in
          (Err mb kb (match y with None => x | Some y => During y x end), tr ++ tr')
      end
  end.
End traced.

Fixpoint trun (v : variant) (fuel : nat) (js : bool) (k : sched) (d : dir) (c : change) (m : fs)
  : tres change :=
  match fuel with
  | O => (Err m k (E OutOfFuel), [])
  | S f =>
      match c with
      | CS t cs =>
          match tloop v (trun v f) js d (order d cs) m k [] with
          | (Ok m' k' done, tr) => (Ok m' k' (CS t (match d with Do => rev done | Undo => done end)), tr)
          | (Err m' k' x, tr) => (Err m' k' x, tr)
          end
      | _ => (leaf v js k d c m, leaf_events js k d c m)
      end
  end.

Definition res_fs {A} (r : res A) : fs := match r with Ok m _ _ => m | Err m _ _ => m end.

Definition hres_fs (r : hres) : fs := match r with HOk s _ => h_fs s | HErr s _ _ => h_fs s end.

(* History.undo() / redo() without argument: the change concerned is the last one of the list *)
Definition last_change (l : list change) : option change :=
  match l with [] => None | c0 :: rest => Some (List.last rest c0) end.

(* "exactly the primitives of the leaf changes": what a successful ChangeSet.do attempts *)
Fixpoint expected_events (c : change) : list event :=
  match c with
  | CC p _ None => [EvRead p; EvWrite p]
  | CC p _ (Some _) => [EvWrite p]
  | MV p q _ => [EvMove p q]
  | CR p b => [EvCreate b p]
  | RM p _ => [EvRemove p]
  | CS _ cs => (fix go (l : list change) : list event :=
                  match l with [] => [] | c :: r => expected_events c ++ go r end) cs
  end.

(* --------------------------------------------------------------------------------- error kinds *)
(* the Python class of the exception an error class of the model stands for *)
Inductive pycls :=
| PyOSError | PyRopeError | PyResourceNotFoundError | PyHistoryError | PyInterruptedTaskError
| PyNotImplementedError | PyNoClass.

Definition cls_of (c : ecls) : pycls :=
  match c with
  | Fault => PyOSError               (* injected by a fault-injecting fscommands; not raised by rope *)
  | OsErr => PyOSError
  | Exists => PyRopeError
  | NoParent => PyResourceNotFoundError
  | NotDone => PyHistoryError
  | Interrupted => PyInterruptedTaskError
  | NotImpl => PyNotImplementedError
  | HistEmpty => PyHistoryError
  | OutOfFuel | Unmodelled => PyNoClass
  end.

(* rope/base/exceptions.py: the classes deriving from RopeError *)
Definition is_rope_error (c : pycls) : bool :=
  match c with
  | PyRopeError | PyResourceNotFoundError | PyHistoryError | PyInterruptedTaskError => true
  | PyOSError | PyNotImplementedError | PyNoClass => false
  end.

(* the class of the exception that propagates out of the call *)
Fixpoint raised_class (x : err) : pycls :=
  match x with
  | E c => cls_of c
  | W _ => PyRopeError
  | During y _ => raised_class y
  end.

(* errors that come from the environment or from the harness, not from a refusal by the library *)
Definition environmental (c : ecls) : bool :=
  match c with Fault | OsErr => true | _ => false end.
