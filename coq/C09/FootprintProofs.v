(* Proofs about Footprint.v: path resolution, the traced run is C10's run, frame / same-resources /
   trace invariant of a run (any variant, any fault and stop schedule, success or failure). *)
From stdpp Require Import gmap list.
From Coq Require Import NArith Lia.
From RopeVerif.Lib Require Import Text.
From RopeVerif.C10 Require Import FsModel FsProofs Change ChangeProofs.
From RopeVerif.C09 Require Import Footprint.

(* ------------------------------------------------------------------------------ path resolution *)
Lemma special_false s : special s = false -> skipped s = false /\ N.eqb s 2 = false.
Proof. unfold special. apply orb_false_elim. Qed.

Lemma in_root_cons s p : in_root (s :: p) = true -> special s = false /\ in_root p = true.
Proof.
  unfold in_root. cbn [forallb]. intros H. apply andb_true_iff in H. destruct H as [H1 H2].
  split; [apply negb_true_iff; exact H1|exact H2].
Qed.

Lemma in_root_app p q : in_root (p ++ q) = in_root p && in_root q.
Proof. unfold in_root. apply forallb_app. Qed.

Lemma in_root_no_up p : in_root p = true -> no_up p = true.
Proof.
  induction p as [|s p IH]; [reflexivity|]. intros H. apply in_root_cons in H. destruct H as [H1 H2].
  apply special_false in H1. destruct H1 as [_ H1]. unfold no_up. cbn [forallb]. rewrite H1. cbn.
  apply IH; exact H2.
Qed.

Lemma resolve_acc_in_root p : forall acc, in_root p = true -> resolve_acc acc p = rev acc ++ p.
Proof.
  induction p as [|s p IH]; intros acc H; cbn [resolve_acc].
  - rewrite app_nil_r. reflexivity.
  - apply in_root_cons in H. destruct H as [H1 H2]. apply special_false in H1. destruct H1 as [Ha Hb].
    rewrite Ha, Hb. rewrite IH by exact H2. cbn [rev]. rewrite <- app_assoc. reflexivity.
Qed.

Lemma resolve_in_root p : in_root p = true -> resolve p = p.
Proof. intros H. unfold resolve. rewrite resolve_acc_in_root by exact H. reflexivity. Qed.

(* the join lemma: below a clean root, a path without special segments is itself *)
Lemma real_path_in_root root p :
  in_root root = true -> in_root p = true -> real_path root p = root ++ p.
Proof.
  intros Hr Hp. unfold real_path, joined. apply resolve_in_root. rewrite in_root_app, Hr, Hp. reflexivity.
Qed.

Lemma resolve_acc_app a : forall acc b, resolve_acc acc (a ++ b) = resolve_acc (rev (resolve_acc acc a)) b.
Proof.
  induction a as [|s a IH]; intros acc b; cbn [resolve_acc app].
  - rewrite rev_involutive. reflexivity.
  - destruct (skipped s); [apply IH|]. destruct (N.eqb s 2); apply IH.
Qed.

Lemma resolve_acc_no_up p : forall acc,
  no_up p = true -> resolve_acc acc p = rev acc ++ List.filter (fun s => negb (skipped s)) p.
Proof.
  induction p as [|s p IH]; intros acc H; cbn [resolve_acc List.filter].
  - rewrite app_nil_r. reflexivity.
  - unfold no_up in H. cbn [forallb] in H. apply andb_true_iff in H. destruct H as [H1 H2].
    apply negb_true_iff in H1. destruct (skipped s); cbn [negb].
    + apply IH; exact H2.
    + rewrite H1. rewrite IH by exact H2. cbn [rev]. rewrite <- app_assoc. reflexivity.
Qed.

(* ".." is the only way out: without it the real path stays below the (clean) root *)
Lemma real_path_no_up_below root p :
  in_root root = true -> no_up p = true -> is_prefix root (real_path root p) = true.
Proof.
  intros Hr Hp. unfold real_path, joined, resolve. rewrite resolve_acc_app.
  rewrite (resolve_acc_in_root root [] Hr). cbn [rev app].
  rewrite resolve_acc_no_up by exact Hp. rewrite rev_involutive. apply is_prefix_app.
Qed.

(* --------------------------------------------------------------------- unfolding nested fixes *)
Lemma resources_CS t cs : resources (CS t cs) = flat_map resources cs.
Proof.
  cbn [resources]. induction cs as [|c cs IH]; [reflexivity|]. cbn [flat_map]. rewrite <- IH. reflexivity.
Qed.

Lemma realize_CS root t cs : realize root (CS t cs) = CS t (map (realize root) cs).
Proof.
  reflexivity.
Qed.

Lemma expected_events_CS t cs : expected_events (CS t cs) = flat_map expected_events cs.
Proof.
  cbn [expected_events]. induction cs as [|c cs IH]; [reflexivity|]. cbn [flat_map]. rewrite <- IH. reflexivity.
Qed.

(* a hand-written induction principle for change trees *)
Lemma change_ind' (P : change -> Prop) :
  (forall p n o, P (CC p n o)) -> (forall p q b, P (MV p q b)) -> (forall p b, P (CR p b)) ->
  (forall p b, P (RM p b)) -> (forall t cs, Forall P cs -> P (CS t cs)) -> forall c, P c.
Proof.
  intros H1 H2 H3 H4 H5. fix IH 1. intros [p n o|p q b|p b|p b|t cs];
    [apply H1|apply H2|apply H3|apply H4|].
  apply H5. induction cs as [|c cs IHcs]; constructor; [apply IH|exact IHcs].
Qed.

Lemma resources_realize root c : resources (realize root c) = map (real_path root) (resources c).
Proof.
  induction c as [p n o|p q b|p b|p b|t cs IH] using change_ind'; try reflexivity.
  rewrite realize_CS, !resources_CS. induction IH as [|c cs Hc _ IHcs]; [reflexivity|].
  cbn [map flat_map]. rewrite map_app, Hc, IHcs. reflexivity.
Qed.

(* -------------------------------------------------------------------------------- out / footprint *)
(* [out ps key]: key is none of the paths ps and lies below none of them *)
Definition out (ps : list path) (key : path) : Prop := forall p, In p ps -> is_prefix p key = false.

Lemma footprint_false c key : footprint c key = false <-> out (resources c) key.
Proof.
  unfold footprint, out. split.
  - intros H p Hp. destruct (is_prefix p key) eqn:E; [|reflexivity].
    assert (existsb (fun p => is_prefix p key) (resources c) = true) by (apply existsb_exists; eauto).
    congruence.
  - intros H. destruct (existsb _ _) eqn:E; [|reflexivity].
    apply existsb_exists in E. destruct E as [p [Hp E]]. rewrite (H p Hp) in E. discriminate.
Qed.

Lemma out_app a b key : out (a ++ b) key <-> out a key /\ out b key.
Proof.
  unfold out. split.
  - intros H. split; intros p Hp; apply H; apply in_or_app; auto.
  - intros [Ha Hb] p Hp. apply in_app_or in Hp. destruct Hp; auto.
Qed.

Lemma out_incl a b key : (forall p, In p a -> In p b) -> out b key -> out a key.
Proof. intros H Hb p Hp. apply Hb, H, Hp. Qed.

Lemma out_neq ps key p : out ps key -> In p ps -> key <> p.
Proof. intros H Hp ->. specialize (H p Hp). rewrite is_prefix_refl in H. discriminate. Qed.

(* ------------------------------------------------------------------- frame of the primitives *)
Lemma p_write_frame (p c : list N) (m m' : fs) (key : list N) : p_write p c m = POk m' -> key <> p -> m' !! key = m !! key.
Proof.
  unfold p_write. destruct p as [|x p]; [discriminate|].
  destruct (m !! (x :: p)) as [[o|]|]; try discriminate.
  - intros H Hne; inversion H; subst. apply lookup_insert_ne; congruence.
  - destruct (is_dir m _); [|discriminate]. intros H Hne; inversion H; subst. apply lookup_insert_ne; congruence.
Qed.

Lemma p_create_frame (b : bool) (p : list N) (m m' : fs) (key : list N) : p_create b p m = POk m' -> key <> p -> m' !! key = m !! key.
Proof.
  unfold p_create. destruct p as [|x p]; [discriminate|].
  destruct (m !! (x :: p)) as [[o|]|]; try discriminate.
  - destruct b; [discriminate|]. intros H Hne; inversion H; subst. apply lookup_insert_ne; congruence.
  - destruct (is_dir m _); [|discriminate]. intros H Hne; inversion H; subst. apply lookup_insert_ne; congruence.
Qed.

Lemma p_remove_frame (p : list N) (m m' : fs) (key : list N) :
  p_remove p m = POk m' -> is_prefix p key = false -> m' !! key = m !! key.
Proof.
  unfold p_remove. destruct p as [|x p]; [discriminate|].
  destruct (m !! (x :: p)) as [[o|]|]; try discriminate; intros H Hk; inversion H; subst.
  - apply lookup_delete_ne. intros E. rewrite <- E, is_prefix_refl in Hk. discriminate.
  - rewrite remove_tree_lookup, Hk. reflexivity.
Qed.

Lemma is_prefix_ext_false (q r key : list N) : is_prefix q key = false -> is_prefix (q ++ r) key = false.
Proof.
  intros H. destruct (is_prefix (q ++ r) key) eqn:E; [|reflexivity].
  rewrite (is_prefix_trans q (q ++ r) key (is_prefix_app q r) E) in H. discriminate.
Qed.

Lemma p_move_frame (p q : list N) (m m' : fs) (key : list N) :
  p_move p q m = POk m' -> is_prefix p key = false -> is_prefix q key = false -> m' !! key = m !! key.
Proof.
  unfold p_move. destruct p as [|x p]; [discriminate|].
  destruct (m !! (x :: p)) as [n|] eqn:En; [|discriminate].
  set (q' := if is_dir m q then q ++ [List.last (x :: p) 0%N] else q).
  intros H Hp Hq.
  assert (Hq' : is_prefix q' key = false).
  { unfold q'. destruct (is_dir m q); [apply is_prefix_ext_false|]; exact Hq. }
  destruct (text_eqb (x :: p) q); [inversion H; subst; reflexivity|].
  destruct (is_dir m q && exists_b m q'); [discriminate|].
  destruct (is_prefix (x :: p) q'); [discriminate|].
  destruct (m !! q') as [[o|]|] eqn:Eq'; try discriminate.
  - destruct n; [|discriminate]. inversion H; subst.
    rewrite lookup_insert_ne, lookup_delete_ne; [reflexivity| |].
    + intros E. rewrite E, is_prefix_refl in Hp. discriminate.
    + intros E. rewrite E, is_prefix_refl in Hq'. discriminate.
  - destruct (is_dir m (parent q')).
    + inversion H; subst. apply move_lookup_other; assumption.
    + destruct n; discriminate.
Qed.

(* ------------------------------------------------------------------------- frame of one leaf *)
Lemma prim_ok k r m' k' : prim k r = inl (m', k') -> r = POk m'.
Proof. intros H. apply prim_inl in H. tauto. Qed.

Lemma body_frame k d c m key : out (resources c) key -> res_fs (body k d c m) !! key = m !! key.
Proof.
  intros Ho.
  destruct (body k d c m) as [m1 k1 c1|m1 k1 x] eqn:Eb; cbn [res_fs];
    [|apply body_err in Eb; destruct Eb as [-> _]; reflexivity].
  destruct c as [p new [o|]|p q f|p f|p f|t cs], d; cbn [body resources] in *; try discriminate.
  - apply lift_ok in Eb. destruct Eb as [Eb _]. apply prim_ok in Eb.
    eapply p_write_frame; [exact Eb|]. eapply out_neq; [exact Ho|left; reflexivity].
  - apply lift_ok in Eb. destruct Eb as [Eb _]. apply prim_ok in Eb.
    eapply p_write_frame; [exact Eb|]. eapply out_neq; [exact Ho|left; reflexivity].
  - destruct (prim_read k (p_read p m)) as [[o k']|[k' y]]; [|discriminate].
    apply lift_ok in Eb. destruct Eb as [Eb _]. apply prim_ok in Eb.
    eapply p_write_frame; [exact Eb|]. eapply out_neq; [exact Ho|left; reflexivity].
  - apply lift_ok in Eb. destruct Eb as [Eb _]. apply prim_ok in Eb.
    eapply p_move_frame; [exact Eb| |]; apply Ho; cbn; auto.
  - apply lift_ok in Eb. destruct Eb as [Eb _]. apply prim_ok in Eb.
    eapply p_move_frame; [exact Eb| |]; apply Ho; cbn; auto.
  - destruct (exists_b m p); [discriminate|]. destruct (negb (exists_b m (parent p))); [discriminate|].
    apply lift_ok in Eb. destruct Eb as [Eb _]. apply prim_ok in Eb.
    eapply p_create_frame; [exact Eb|]. eapply out_neq; [exact Ho|left; reflexivity].
  - apply lift_ok in Eb. destruct Eb as [Eb _]. apply prim_ok in Eb.
    eapply p_remove_frame; [exact Eb|]. apply Ho; cbn; auto.
  - apply lift_ok in Eb. destruct Eb as [Eb _]. apply prim_ok in Eb.
    eapply p_remove_frame; [exact Eb|]. apply Ho; cbn; auto.
Qed.

Lemma leaf_fs v js k d c m :
  res_fs (leaf v js k d c m) = m \/
  res_fs (leaf v js k d c m) = res_fs (body (if js then notify k else k) d c m).
Proof.
  unfold leaf. destruct (js && stopped k); [left; reflexivity|]. right.
  destruct (body _ d c m) as [m1 k1 c1|m1 k1 x]; cbn [res_fs]; [|reflexivity].
  destruct (js && fin_chk v && stopped _); reflexivity.
Qed.

Lemma leaf_frame v js k d c m key : out (resources c) key -> res_fs (leaf v js k d c m) !! key = m !! key.
Proof.
  intros Ho. destruct (leaf_fs v js k d c m) as [->| ->]; [reflexivity|]. apply body_frame; exact Ho.
Qed.

(* the change a leaf returns names the same resources *)
Lemma body_same k d c m m1 k1 c1 : body k d c m = Ok m1 k1 c1 -> resources c1 = resources c.
Proof.
  destruct c as [p new [o|]|p q f|p f|p f|t cs], d; cbn [body]; intros H; try discriminate;
    try (apply lift_ok in H; destruct H as [_ ->]; reflexivity).
  - destruct (prim_read k (p_read p m)) as [[o k']|[k' y]]; [|discriminate].
    apply lift_ok in H; destruct H as [_ ->]; reflexivity.
  - destruct (exists_b m p); [discriminate|]. destruct (negb (exists_b m (parent p))); [discriminate|].
    apply lift_ok in H; destruct H as [_ ->]; reflexivity.
Qed.

Lemma leaf_same v js k d c m m1 k1 c1 : leaf v js k d c m = Ok m1 k1 c1 -> resources c1 = resources c.
Proof.
  unfold leaf. destruct (js && stopped k); [discriminate|].
  destruct (body _ d c m) as [m2 k2 c2|m2 k2 x] eqn:Eb; [|discriminate].
  destruct (js && fin_chk v && stopped _); [discriminate|].
  intros H; inversion H; subst. eapply body_same; exact Eb.
Qed.

Definition ev_in (ps : list path) (e : event) : Prop := forall p, In p (ev_paths e) -> In p ps.

Lemma body_events_in k d c m : Forall (ev_in (resources c)) (body_events k d c m).
Proof.
  destruct c as [p new [o|]|p q f|p f|p f|t cs], d; cbn [body_events resources];
    repeat match goal with
           | |- context[match ?x with _ => _ end] => destruct x
           | |- context[if ?x then _ else _] => destruct x
           end;
    repeat (apply Forall_cons_2; [intros r Hr; cbn in Hr; cbn; tauto|]); apply Forall_nil_2.
Qed.

Lemma leaf_events_in js k d c m : Forall (ev_in (resources c)) (leaf_events js k d c m).
Proof. unfold leaf_events. destruct (js && stopped k); [constructor|apply body_events_in]. Qed.

(* ------------------------------------------------------------------ the traced run is the run *)
Section fst_trun.
Variables (v : variant) (f : nat) (R : bool -> sched -> dir -> change -> fs -> tres change).
Hypothesis HR : forall js k d c m, fst (R js k d c m) = run v f js k d c m.

Lemma tback_back d l : forall m k, fst (tback R d l m k) = back v f d l m k.
Proof.
  induction l as [|c l IH]; intros m k; cbn [tback back]; [reflexivity|].
  rewrite <- HR. destruct (R false k (opp d) c m) as [[m2 k2 c2|m2 k2 y] tr]; cbn [fst]; [|reflexivity].
  rewrite <- IH. destruct (tback R d l m2 k2) as [[[mb kb] y] tr']. reflexivity.
Qed.

Lemma tloop_loop js d l : forall m k done, fst (tloop v R js d l m k done) = loop v f js d l m k done.
Proof.
  induction l as [|c l IH]; intros m k done; cbn [tloop loop]; [reflexivity|].
  rewrite <- HR. destruct (R js k d c m) as [[m' k' c'|m' k' x] tr]; cbn [fst].
  - rewrite <- IH. destruct (tloop v R js d l m' k' (c' :: done)) as [r tr']. reflexivity.
  - rewrite <- tback_back. destruct (tback R d _ m' k') as [[[mb kb] y] tr']. reflexivity.
Qed.
End fst_trun.

Theorem trun_run v f : forall js k d c m, fst (trun v f js k d c m) = run v f js k d c m.
Proof.
  induction f as [|f IH]; intros js k d c m; [reflexivity|].
  destruct c as [p new old|p q b|p b|p b|t cs]; try reflexivity.
  rewrite run_CS. cbn [trun]. rewrite <- (tloop_loop v f (trun v f) IH).
  destruct (tloop v (trun v f) js d (order d cs) m k []) as [[m' k' done|m' k' x] tr]; reflexivity.
Qed.

(* --------------------------------------------------------------------------- the invariant *)
Definition lres (l : list change) : list path := flat_map resources l.

Definition same_res (a b : list path) : Prop := forall p, In p a <-> In p b.

Definition GOOD (R : bool -> sched -> dir -> change -> fs -> tres change) : Prop :=
  forall js k d c m,
    (forall key, out (resources c) key -> res_fs (fst (R js k d c m)) !! key = m !! key) /\
    (forall m' k' c', fst (R js k d c m) = Ok m' k' c' -> same_res (resources c') (resources c)) /\
    Forall (ev_in (resources c)) (snd (R js k d c m)).

Lemma Forall_ev_incl a b l : (forall p, In p a -> In p b) -> Forall (ev_in a) l -> Forall (ev_in b) l.
Proof. intros H Hl. eapply Forall_impl; [exact Hl|]. intros e He p Hp. apply H, He, Hp. Qed.

Lemma in_lres_cons c l p : In p (lres (c :: l)) <-> In p (resources c) \/ In p (lres l).
Proof. unfold lres. cbn [flat_map]. rewrite in_app_iff. reflexivity. Qed.

Lemma in_lres_rev l p : In p (lres (rev l)) <-> In p (lres l).
Proof.
  unfold lres. rewrite !in_flat_map. split; intros [c [Hc Hp]]; exists c; split; auto.
  - apply in_rev. exact Hc.
  - apply in_rev in Hc. exact Hc.
Qed.

Section good.
Variables (v : variant) (R : bool -> sched -> dir -> change -> fs -> tres change).
Hypothesis HR : GOOD R.

Lemma tback_good d l : forall m k,
  (forall key, out (lres l) key -> fst (fst (fst (tback R d l m k))) !! key = m !! key) /\
  Forall (ev_in (lres l)) (snd (tback R d l m k)).
Proof.
  induction l as [|c l IH]; intros m k; cbn [tback].
  - split; [reflexivity|constructor].
  - destruct (HR false k (opp d) c m) as (Hf & _ & He).
    destruct (R false k (opp d) c m) as [[m2 k2 c2|m2 k2 y] tr]; cbn [fst snd res_fs] in *.
    + destruct (IH m2 k2) as [IHf IHe].
      destruct (tback R d l m2 k2) as [[[mb kb] y] tr']. cbn [fst snd] in *. split.
      * intros key Ho. change (lres (c :: l)) with (resources c ++ lres l) in Ho.
        apply out_app in Ho. destruct Ho as [Hc Hl]. rewrite (IHf key Hl). apply Hf; exact Hc.
      * apply Forall_app. split.
        -- eapply Forall_ev_incl; [|exact He]. intros p Hp. apply in_lres_cons. auto.
        -- eapply Forall_ev_incl; [|exact IHe]. intros p Hp. apply in_lres_cons. auto.
    + split.
      * intros key Ho. change (lres (c :: l)) with (resources c ++ lres l) in Ho.
        apply out_app in Ho. apply Hf; tauto.
      * eapply Forall_ev_incl; [|exact He]. intros p Hp. apply in_lres_cons. auto.
Qed.

Lemma tloop_good js d l : forall m k done,
  (forall key, out (lres l) key -> out (lres done) key ->
               res_fs (fst (tloop v R js d l m k done)) !! key = m !! key) /\
  (forall m' k' done', fst (tloop v R js d l m k done) = Ok m' k' done' ->
     forall p, In p (lres done') <-> In p (lres done) \/ In p (lres l)) /\
  Forall (ev_in (lres l ++ lres done)) (snd (tloop v R js d l m k done)).
Proof.
  induction l as [|c l IH]; intros m k done; cbn [tloop].
  - cbn [fst snd res_fs]. split; [reflexivity|]. split; [|constructor].
    intros m' k' done' H p. inversion H; subst. cbn. tauto.
  - destruct (HR js k d c m) as (Hf & Hs & He).
    destruct (R js k d c m) as [[m' k' c'|m' k' x] tr]; cbn [fst snd res_fs] in *.
    + destruct (IH m' k' (c' :: done)) as (IHf & IHs & IHe).
      destruct (tloop v R js d l m' k' (c' :: done)) as [r tr']. cbn [fst snd] in *.
      pose proof (Hs _ _ _ eq_refl) as Hsame.
      split; [|split].
      * intros key Hl Hd. change (lres (c :: l)) with (resources c ++ lres l) in Hl.
        apply out_app in Hl. destruct Hl as [Hc Hl]. rewrite IHf.
        -- apply Hf; exact Hc.
        -- exact Hl.
        -- change (lres (c' :: done)) with (resources c' ++ lres done). apply out_app. split; [|exact Hd].
           eapply out_incl; [|exact Hc]. intros p. apply Hsame.
      * intros m'' k'' done' H p. rewrite (IHs _ _ _ H p), !in_lres_cons, (Hsame p). tauto.
      * apply Forall_app. split.
        -- eapply Forall_ev_incl; [|exact He]. intros p Hp. apply in_or_app. left. apply in_lres_cons. auto.
        -- eapply Forall_ev_incl; [|exact IHe]. intros p Hp. apply in_app_or in Hp.
           apply in_or_app. rewrite in_lres_cons. rewrite in_lres_cons, (Hsame p) in Hp. tauto.
    + set (bl := if rb_rev v then done else rev done).
      assert (Hbl : forall p, In p (lres bl) <-> In p (lres done)).
      { intros p. unfold bl. destruct (rb_rev v); [reflexivity|apply in_lres_rev]. }
      destruct (tback_good d bl m' k') as [Bf Be].
      destruct (tback R d bl m' k') as [[[mb kb] y] tr']. cbn [fst snd res_fs] in *.
      split; [|split].
      * intros key Hl Hd. change (lres (c :: l)) with (resources c ++ lres l) in Hl.
        apply out_app in Hl. destruct Hl as [Hc Hl]. rewrite Bf.
        -- apply Hf; exact Hc.
        -- eapply out_incl; [|exact Hd]. intros p. apply Hbl.
      * intros m'' k'' done' H. discriminate.
      * apply Forall_app. split.
        -- eapply Forall_ev_incl; [|exact He]. intros p Hp. apply in_or_app. left. apply in_lres_cons. auto.
        -- eapply Forall_ev_incl; [|exact Be]. intros p Hp. apply in_or_app. right. apply Hbl. exact Hp.
Qed.
End good.

Theorem trun_good v f : GOOD (trun v f).
Proof.
  induction f as [|f IH]; intros js k d c m.
  - cbn [trun fst snd res_fs]. split; [reflexivity|]. split; [discriminate|constructor].
  - destruct c as [p new old|p q b|p b|p b|t cs].
    1-4: cbn [trun fst snd]; (split; [intros key Ho; apply leaf_frame; exact Ho|]);
         (split; [intros m' k' c' H p'; rewrite (leaf_same _ _ _ _ _ _ _ _ _ H); reflexivity|]);
         apply leaf_events_in.
    cbn [trun]. destruct (tloop_good v (trun v f) IH js d (order d cs) m k []) as (Lf & Ls & Le).
    assert (Ho : forall p, In p (lres (order d cs)) <-> In p (resources (CS t cs))).
    { intros p. rewrite resources_CS. destruct d; cbn [order]; [reflexivity|apply in_lres_rev]. }
    destruct (tloop v (trun v f) js d (order d cs) m k []) as [[m' k' done|m' k' x] tr];
      cbn [fst snd res_fs] in *.
    + split; [|split].
      * intros key Hk. apply Lf; [|intros p []]. eapply out_incl; [|exact Hk]. intros p. apply Ho.
      * intros m'' k'' c' H p. inversion H; subst. rewrite resources_CS.
        specialize (Ls _ _ _ eq_refl p). cbn in Ls.
        transitivity (In p (lres done)).
        -- destruct d; [apply in_lres_rev|reflexivity].
        -- rewrite Ls, Ho, resources_CS. tauto.
      * eapply Forall_ev_incl; [|exact Le]. intros p Hp. rewrite app_nil_r in Hp. apply Ho. exact Hp.
    + split; [|split].
      * intros key Hk. apply Lf; [|intros p []]. eapply out_incl; [|exact Hk]. intros p. apply Ho.
      * discriminate.
      * eapply Forall_ev_incl; [|exact Le]. intros p Hp. rewrite app_nil_r in Hp. apply Ho. exact Hp.
Qed.
