(* Model of history persistence: rope/base/change.py ChangeToData / DataToChange, History.write /
   _load_history (rope/base/history.py), and ScopeInfo.__getstate__/__setstate__
   (rope/base/oi/memorydb.py). Definitions only. *)
From Coq Require Import List NArith ZArith Bool.
From RopeVerif.Lib Require Import Text.
From RopeVerif.C12 Require Import Serializer.
Import ListNotations.

Inductive rkind := RFile | RFolder.
Definition is_folder (k : rkind) : bool := match k with RFolder => true | RFile => false end.
Definition kind_of (b : bool) : rkind := if b then RFolder else RFile.

(* Change objects as they sit in the undo/redo lists. The resource of each leaf has a path and a class
   (File or Folder); ChangeSet.time is a float, kept as an opaque bit pattern. CreateFile/CreateFolder
   are CreateResource with the corresponding resource class (ChangeToData collapses them). *)
Inductive change :=
| CContents (p : text) (new : text) (old : option text)
| CMove (p : text) (k : rkind) (q : text)
| CCreate (p : text) (k : rkind)
| CRemove (p : text) (k : rkind)
| CSet (descr : text) (cs : list change) (time : option N).

(* the tuples/lists ChangeToData produces and pickle stores *)
Inductive data :=
| DStr (s : text) | DBool (b : bool) | DNone | DFloat (bits : N)
| DTuple (l : list data) | DList (l : list data).

Definition t_ChangeSet : text := [67;104;97;110;103;101;83;101;116]%N.
Definition t_ChangeContents : text := [67;104;97;110;103;101;67;111;110;116;101;110;116;115]%N.
Definition t_MoveResource : text := [77;111;118;101;82;101;115;111;117;114;99;101]%N.
Definition t_CreateResource : text := [67;114;101;97;116;101;82;101;115;111;117;114;99;101]%N.
Definition t_RemoveResource : text := [82;101;109;111;118;101;82;101;115;111;117;114;99;101]%N.

Definition d_opt_str (o : option text) : data := match o with Some s => DStr s | None => DNone end.
Definition d_opt_time (o : option N) : data := match o with Some b => DFloat b | None => DNone end.

Section Persist.
  (* keep_kind = true: convertMoveResource stores the folder-ness of the moved resource and
     makeMoveResource restores it (the repaired code); false: the path pair only, reloaded as a File. *)
  Variable keep_kind : bool.

  Fixpoint to_data (c : change) : data :=
    match c with
    | CContents p n o => DTuple [DStr t_ChangeContents; DTuple [DStr p; DStr n; d_opt_str o]]
    | CMove p k q =>
        DTuple [DStr t_MoveResource;
                DTuple (if keep_kind then [DStr p; DStr q; DBool (is_folder k)] else [DStr p; DStr q])]
    | CCreate p k => DTuple [DStr t_CreateResource; DTuple [DStr p; DBool (is_folder k)]]
    | CRemove p k => DTuple [DStr t_RemoveResource; DTuple [DStr p; DBool (is_folder k)]]
    | CSet d cs t => DTuple [DStr t_ChangeSet; DTuple [DStr d; DList (map to_data cs); d_opt_time t]]
    end.

  (* DataToChange.__call__: method "make" + data[0] applied to the unpacked data[1]; None = raises *)
  Fixpoint of_data (d : data) : option change :=
    match d with
    | DTuple [DStr tag; DTuple args] =>
        if text_eqb tag t_ChangeContents then
          match args with
          | [DStr p; DStr n; DStr o] => Some (CContents p n (Some o))
          | [DStr p; DStr n; DNone] => Some (CContents p n None)
          | _ => None
          end
        else if text_eqb tag t_MoveResource then
          match args with
          | [DStr p; DStr q] => Some (CMove p RFile q)
          | [DStr p; DStr q; DBool b] => if keep_kind then Some (CMove p (kind_of b) q) else None
          | _ => None
          end
        else if text_eqb tag t_CreateResource then
          match args with [DStr p; DBool b] => Some (CCreate p (kind_of b)) | _ => None end
        else if text_eqb tag t_RemoveResource then
          match args with [DStr p; DBool b] => Some (CRemove p (kind_of b)) | _ => None end
        else if text_eqb tag t_ChangeSet then
          match args with
          | [DStr descr; DList ds; t] =>
              let fix go (ds : list data) : option (list change) :=
                match ds with
                | [] => Some []
                | x :: xs =>
                    match of_data x, go xs with
                    | Some c, Some cs => Some (c :: cs)
                    | _, _ => None
                    end
                end in
              match go ds, t with
              | Some cs, DFloat b => Some (CSet descr cs (Some b))
              | Some cs, DNone => Some (CSet descr cs None)
              | _, _ => None
              end
          | _ => None
          end
        else None
    | _ => None
    end.

  (* what a reloaded change is: the same change with every move's resource class forgotten (when the
     kind is not stored) *)
  Fixpoint reloaded (c : change) : change :=
    match c with
    | CMove p k q => CMove p (if keep_kind then k else RFile) q
    | CSet d cs t => CSet d (map reloaded cs) t
    | _ => c
    end.

  Fixpoint no_folder_move (c : change) : bool :=
    match c with
    | CMove _ k _ => negb (is_folder k)
    | CSet _ cs _ => forallb no_folder_move cs
    | _ => true
    end.

  (* History state that is persisted, and the close / open pair *)
  Record hist := { undo_list : list change; redo_list : list change }.

  Definition trim (limit : nat) (l : list change) : list change := skipn (length l - limit) l.

  (* History.write: _remove_extra_items, then [undo data, redo data] *)
  Definition close (limit : nat) (h : hist) : data :=
    DList [DList (map to_data (trim limit (undo_list h))); DList (map to_data (redo_list h))].

  Fixpoint of_data_list (ds : list data) : option (list change) :=
    match ds with
    | [] => Some []
    | x :: xs =>
        match of_data x, of_data_list xs with
        | Some c, Some cs => Some (c :: cs)
        | _, _ => None
        end
    end.

  (* History._load_history on the unpickled value *)
  Definition reopen (d : data) : option hist :=
    match d with
    | DList (DList u :: DList r :: _) =>
        match of_data_list u, of_data_list r with
        | Some ul, Some rl => Some {| undo_list := ul; redo_list := rl |}
        | _, _ => None
        end
    | _ => None
    end.
End Persist.

(* ScopeInfo.__getstate__ / __setstate__ on (call_info, per_name): version-2 encoding plus the
   "$": "ScopeInfo" marker, which json_to_python never looks at. *)
Section ScopeInfoState.
  Variable isdig : N -> bool.
  Definition s_ScopeInfo : text := [83;99;111;112;101;73;110;102;111]%N.
  Record state := { st_data : jsval; st_refs : list jsval; st_marker : text }.
  Definition getstate (call_info per_name : pyval) : option state :=
    match python_to_json isdig 2 (PTuple [call_info; per_name]) with
    | Some (d, r) => Some {| st_data := d; st_refs := r; st_marker := s_ScopeInfo |}
    | None => None
    end.
  Definition setstate (s : state) : option (pyval * pyval) :=
    if text_eqb (st_marker s) s_ScopeInfo then
      match json_to_python isdig 2 (st_data s) (st_refs s) with
      | Some (PTuple [ci; pn]) => Some (ci, pn)
      | _ => None
      end
    else None.
End ScopeInfoState.

(* The object db as MemoryDB holds and pickles it: {path: {scope key: ScopeInfo}}; pickling a ScopeInfo
   goes through __getstate__/__setstate__. Keys are plain strings (pickle keeps them). *)
Section ObjectDb.
  Variable isdig : N -> bool.
  Definition scopes := list (text * (pyval * pyval)).          (* key -> (call_info, per_name) *)
  Definition objdb := list (text * scopes).                    (* path -> scopes *)
  Definition saved_scopes := list (text * state).
  Definition saved_db := list (text * saved_scopes).

  Fixpoint save_scopes (s : scopes) : option saved_scopes :=
    match s with
    | [] => Some []
    | (k, (ci, pn)) :: r =>
        match getstate isdig ci pn, save_scopes r with
        | Some st, Some r' => Some ((k, st) :: r')
        | _, _ => None
        end
    end.
  Fixpoint save_db (d : objdb) : option saved_db :=
    match d with
    | [] => Some []
    | (p, s) :: r =>
        match save_scopes s, save_db r with
        | Some s', Some r' => Some ((p, s') :: r')
        | _, _ => None
        end
    end.
  Fixpoint load_scopes (s : saved_scopes) : option scopes :=
    match s with
    | [] => Some []
    | (k, st) :: r =>
        match setstate isdig st, load_scopes r with
        | Some v, Some r' => Some ((k, v) :: r')
        | _, _ => None
        end
    end.
  Fixpoint load_db (d : saved_db) : option objdb :=
    match d with
    | [] => Some []
    | (p, s) :: r =>
        match load_scopes s, load_db r with
        | Some s', Some r' => Some ((p, s') :: r')
        | _, _ => None
        end
    end.
  Definition wf_scopes (s : scopes) : bool :=
    forallb (fun kv => wf_py (fst (snd kv)) && wf_py (snd (snd kv))) s.
  Definition wf_db (d : objdb) : bool := forallb (fun ps => wf_scopes (snd ps)) d.
End ObjectDb.

(* ------------------------------------------------------------------------------------------------
   Ignored resources. History.do records a change iff some resource of get_changed_resources() is
   not ignored (History._is_change_interesting); a recorded change set is kept WHOLE, its children
   on ignored resources ('*~' backups, '*.pyc', files under .venv ...) included, and ChangeToData
   never asks whether a resource is ignored. [ign] is Project.is_ignored on paths. *)
Fixpoint changed_paths (c : change) : list text :=
  match c with
  | CContents p _ _ => [p]
  | CMove p _ q => [p; q]
  | CCreate p _ => [p]
  | CRemove p _ => [p]
  | CSet _ cs _ => flat_map changed_paths cs
  end.

(* the primitive changes in the order in which do() performs them *)
Fixpoint leaves (c : change) : list change :=
  match c with
  | CSet _ cs _ => flat_map leaves cs
  | _ => [c]
  end.

(* leaf entries of saved data: every tagged tuple that is not a ChangeSet *)
Fixpoint data_leaves (d : data) : list data :=
  match d with
  | DTuple [DStr tag; DTuple [DStr _; DList ds; _]] =>
      if text_eqb tag t_ChangeSet then flat_map data_leaves ds else [d]
  | _ => [d]
  end.

Section Ignored.
  Variable ign : text -> bool.
  Definition interesting (c : change) : bool := existsb (fun p => negb (ign p)) (changed_paths c).
  Definition touches_ignored (c : change) : bool := existsb ign (changed_paths c).
  (* a change that is recorded although part of it works on ignored resources *)
  Definition mixed (c : change) : bool := interesting c && touches_ignored c.
  Definition ignored_leaves (c : change) : list change := filter touches_ignored (leaves c).

  (* History.do after the change itself was performed: append when interesting and trim to the
     limit (_remove_extra_items), the redo list is emptied in either case *)
  Definition hist_do (limit : nat) (h : hist) (c : change) : hist :=
    {| undo_list := if interesting c then trim limit (undo_list h ++ [c]) else undo_list h;
       redo_list := [] |}.
End Ignored.

Definition ign_of (l : list text) (p : text) : bool := existsb (text_eqb p) l.
