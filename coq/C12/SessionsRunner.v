(* Correspondence runner for coq/C12/Sessions.v: History.undo() / History.redo() steps observed on the
   live (never closed) project vs Sessions.hist_undo / hist_redo, and whole sessions of the
   closed-and-reopened twin vs Sessions.live. Evaluated by vm_compute on cases the harness writes. *)
From Coq Require Import List NArith Bool.
From RopeVerif.Lib Require Import Text.
From RopeVerif.C12 Require Import Serializer Persist PersistRunner Sessions.
Import ListNotations.

(* one navigation step: kind 0 = undo(), 1 = redo(), 2 = undo(drop=True), 3 = clear(); lists before and after *)
Record ncase := {
  nc_kind : N;
  nc_undo : list change;
  nc_redo : list change;
  nc_undo_after : list change;
  nc_redo_after : list change
}.
Definition run_ncase (c : ncase) : N :=
  let h0 := {| undo_list := nc_undo c; redo_list := nc_redo c |} in
  if negb (N.eqb (nc_kind c) 1) then
    let h := if N.eqb (nc_kind c) 0 then hist_undo h0 else if N.eqb (nc_kind c) 2 then hist_undo_drop h0 else hist_clear h0 in
    if list_change_eqb (undo_list h) (nc_undo_after c) && list_change_eqb (redo_list h) (nc_redo_after c)
    then 0%N else 1%N
  else
    (* redo: ChangeSet.do re-stamps the sets it performs again; the model's [stamp] is the clock, so the
       undo list is compared with the time stamps forgotten, the redo list (untouched entries) exactly *)
    let h := hist_redo (fun x => x) h0 in
    if list_change_eqb (map erase_times (undo_list h)) (map erase_times (nc_undo_after c))
       && list_change_eqb (firstn (length (nc_undo c)) (nc_undo_after c)) (nc_undo c)
       && list_change_eqb (redo_list h) (nc_redo_after c)
    then 0%N else 2%N.
Fixpoint nmism_from (i : N) (cs : list ncase) : list (N * N) :=
  match cs with
  | [] => []
  | c :: r =>
      let code := run_ncase c in
      if N.eqb code 0 then nmism_from (N.succ i) r else (i, code) :: nmism_from (N.succ i) r
  end.
Definition nmismatches (cs : list ncase) : list (N * N) := nmism_from 0 cs.
(* steps on an empty list (HistoryError, nothing moves) *)
Definition count_empty_steps (cs : list ncase) : N :=
  N.of_nat (length (filter (fun c => match (if N.eqb (nc_kind c) 1 then nc_redo c else nc_undo c) with [] => true | _ => false end) cs)).
