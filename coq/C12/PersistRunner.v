(* Correspondence runner for change-data persistence. *)
From Coq Require Import List NArith ZArith Bool.
From RopeVerif.Lib Require Import Text.
From RopeVerif.C12 Require Import Serializer Persist.
Import ListNotations.

Definition rkind_eqb (a b : rkind) : bool := Bool.eqb (is_folder a) (is_folder b).
Definition opt_text_eqb (a b : option text) : bool :=
  match a, b with Some x, Some y => text_eqb x y | None, None => true | _, _ => false end.
Definition opt_N_eqb (a b : option N) : bool :=
  match a, b with Some x, Some y => N.eqb x y | None, None => true | _, _ => false end.

Fixpoint change_eqb (a b : change) {struct a} : bool :=
  match a, b with
  | CContents p n o, CContents p' n' o' => text_eqb p p' && text_eqb n n' && opt_text_eqb o o'
  | CMove p k q, CMove p' k' q' => text_eqb p p' && rkind_eqb k k' && text_eqb q q'
  | CCreate p k, CCreate p' k' => text_eqb p p' && rkind_eqb k k'
  | CRemove p k, CRemove p' k' => text_eqb p p' && rkind_eqb k k'
  | CSet d cs t, CSet d' cs' t' =>
      text_eqb d d' && opt_N_eqb t t' &&
      (fix go (l m : list change) {struct l} : bool :=
         match l, m with
         | [], [] => true
         | x :: l', y :: m' => change_eqb x y && go l' m'
         | _, _ => false
         end) cs cs'
  | _, _ => false
  end.

Fixpoint data_eqb (a b : data) {struct a} : bool :=
  match a, b with
  | DStr s, DStr t => text_eqb s t
  | DBool x, DBool y => Bool.eqb x y
  | DNone, DNone => true
  | DFloat x, DFloat y => N.eqb x y
  | DTuple l, DTuple m | DList l, DList m =>
      (fix go (l m : list data) {struct l} : bool :=
         match l, m with
         | [], [] => true
         | x :: l', y :: m' => data_eqb x y && go l' m'
         | _, _ => false
         end) l m
  | _, _ => false
  end.

Record pcase := {
  pc_change : change;
  pc_data : data;                 (* implementation: ChangeToData()(change) after pickle dumps/loads *)
  pc_back : option change;        (* implementation: DataToChange(project)(data), abstracted *)
  pc_ignored : list text;         (* implementation: the changed paths p with project.is_ignored(p) *)
  pc_interesting : bool           (* implementation: History._is_change_interesting(change) *)
}.

Definition opt_change_eqb (a b : option change) : bool :=
  match a, b with Some x, Some y => change_eqb x y | None, None => true | _, _ => false end.

(* 0 = agrees with the model variant; 1 = to_data differs; 2 = of_data differs; 3 = the saved data has
   not one leaf entry per primitive change (saved_data_keeps_every_leaf speaks about to_data, this is
   the same count on the implementation's data); 4 = History._is_change_interesting differs *)
Definition run_pcase (keep : bool) (c : pcase) : N :=
  if negb (data_eqb (to_data keep (pc_change c)) (pc_data c)) then 1%N
  else if negb (opt_change_eqb (of_data keep (pc_data c)) (pc_back c)) then 2%N
  else if negb (Nat.eqb (length (data_leaves (pc_data c))) (length (leaves (pc_change c)))) then 3%N
  else if negb (Bool.eqb (interesting (ign_of (pc_ignored c)) (pc_change c)) (pc_interesting c)) then 4%N
  else 0%N.
(* cases inside the domain of recorded_change_reloads_whole that carry a child on an ignored resource *)
Definition count_mixed (cs : list pcase) : N :=
  N.of_nat (length (filter (fun c => mixed (ign_of (pc_ignored c)) (pc_change c)) cs)).

Fixpoint pmism_from (keep : bool) (i : N) (cs : list pcase) : list (N * N) :=
  match cs with
  | [] => []
  | c :: r =>
      let code := run_pcase keep c in
      if N.eqb code 0 then pmism_from keep (N.succ i) r else (i, code) :: pmism_from keep (N.succ i) r
  end.
Definition pmismatches (keep : bool) (cs : list pcase) : list (N * N) := pmism_from keep 0 cs.

(* whole-history close/reopen on the model: [limit], lists, and the implementation's reopened lists *)
Record hcase := {
  hc_limit : nat;
  hc_undo : list change;
  hc_redo : list change;
  hc_undo_after : list change;
  hc_redo_after : list change
}.
Definition list_change_eqb (a b : list change) : bool :=
  change_eqb (CSet [] a None) (CSet [] b None).
Definition run_hcase (keep : bool) (c : hcase) : N :=
  match reopen keep (close keep (hc_limit c) {| undo_list := hc_undo c; redo_list := hc_redo c |}) with
  | Some h =>
      if list_change_eqb (undo_list h) (hc_undo_after c) && list_change_eqb (redo_list h) (hc_redo_after c)
      then 0%N else 1%N
  | None => 2%N
  end.
Fixpoint hmism_from (keep : bool) (i : N) (cs : list hcase) : list (N * N) :=
  match cs with
  | [] => []
  | c :: r =>
      let code := run_hcase keep c in
      if N.eqb code 0 then hmism_from keep (N.succ i) r else (i, code) :: hmism_from keep (N.succ i) r
  end.
Definition hmismatches (keep : bool) (cs : list hcase) : list (N * N) := hmism_from keep 0 cs.

(* one History.do step of a real session: lists before, the change, lists after *)
Record dcase := {
  dc_limit : nat;
  dc_ignored : list text;
  dc_undo : list change;
  dc_redo : list change;
  dc_change : change;
  dc_undo_after : list change;
  dc_redo_after : list change
}.
Definition run_dcase (c : dcase) : N :=
  let h := hist_do (ign_of (dc_ignored c)) (dc_limit c) {| undo_list := dc_undo c; redo_list := dc_redo c |} (dc_change c) in
  if list_change_eqb (undo_list h) (dc_undo_after c) && list_change_eqb (redo_list h) (dc_redo_after c)
  then 0%N else 1%N.
Fixpoint dmism_from (i : N) (cs : list dcase) : list (N * N) :=
  match cs with
  | [] => []
  | c :: r =>
      let code := run_dcase c in
      if N.eqb code 0 then dmism_from (N.succ i) r else (i, code) :: dmism_from (N.succ i) r
  end.
Definition dmismatches (cs : list dcase) : list (N * N) := dmism_from 0 cs.
Definition count_mixed_do (cs : list dcase) : N :=
  N.of_nat (length (filter (fun c => mixed (ign_of (dc_ignored c)) (dc_change c)) cs)).

(* object db: the live {path: {scope: (call_info, per_name)}} before close, and what the save wrote
   (read back from the JSON side file, which holds every ScopeInfo's __getstate__) *)
Require Import RopeVerif.C12.Runner.
Record ocase := {
  oc_digits : list N;
  oc_db : objdb;
  oc_saved : list (text * list (text * (jsval * list jsval * text)))
}.
Definition state_eqb (s : state) (t : jsval * list jsval * text) : bool :=
  jsval_eqb (st_data s) (fst (fst t)) && jsval_eqb (JArr (st_refs s)) (JArr (snd (fst t)))
  && text_eqb (st_marker s) (snd t).
Fixpoint sscopes_eqb (a : saved_scopes) (b : list (text * (jsval * list jsval * text))) : bool :=
  match a, b with
  | [], [] => true
  | (k, s) :: a', (k', t) :: b' => text_eqb k k' && state_eqb s t && sscopes_eqb a' b'
  | _, _ => false
  end.
Fixpoint sdb_eqb (a : saved_db) (b : list (text * list (text * (jsval * list jsval * text)))) : bool :=
  match a, b with
  | [], [] => true
  | (p, s) :: a', (p', t) :: b' => text_eqb p p' && sscopes_eqb s t && sdb_eqb a' b'
  | _, _ => false
  end.
Fixpoint scopes_eqb (a b : scopes) : bool :=
  match a, b with
  | [], [] => true
  | (k, (c, p)) :: a', (k', (c', p')) :: b' =>
      text_eqb k k' && pyval_eqb c c' && pyval_eqb p p' && scopes_eqb a' b'
  | _, _ => false
  end.
Fixpoint objdb_eqb (a b : objdb) : bool :=
  match a, b with
  | [], [] => true
  | (p, s) :: a', (p', t) :: b' => text_eqb p p' && scopes_eqb s t && objdb_eqb a' b'
  | _, _ => false
  end.
(* 0 agree; 1 model cannot save a db the implementation saved; 2 saved states differ; 3 model load
   of the saved states does not give the db back (excluded by C12_objectdb_roundtrip when wf) *)
Definition run_ocase (c : ocase) : N :=
  let isd := isdig_of (oc_digits c) in
  match save_db isd (oc_db c) with
  | None => 1%N
  | Some sd =>
      if negb (sdb_eqb sd (oc_saved c)) then 2%N
      else match load_db isd sd with
           | Some d => if objdb_eqb d (oc_db c) then 0%N else 3%N
           | None => 3%N
           end
  end.
Fixpoint omism_from (i : N) (cs : list ocase) : list (N * N) :=
  match cs with
  | [] => []
  | c :: r =>
      let code := run_ocase c in
      if N.eqb code 0 then omism_from (N.succ i) r else (i, code) :: omism_from (N.succ i) r
  end.
Definition omismatches (cs : list ocase) : list (N * N) := omism_from 0 cs.
(* scopes without any fact among the compared object dbs (domain of scopeinfo_empty_state) *)
Definition is_empty_scope (v : pyval * pyval) : bool :=
  match v with (PDict [], PDict []) => true | _ => false end.
Definition count_empty_scopes (cs : list ocase) : N :=
  N.of_nat (length (flat_map (fun c => flat_map (fun ps => filter (fun kv => is_empty_scope (snd kv)) (snd ps)) (oc_db c)) cs)).
