(* Correspondence runner for the serializer: the harness writes the value, the implementation's
   encoded JSON (after json.dumps/json.loads) and the implementation's decoded value; the comparison
   is computed here. *)
From Coq Require Import List NArith ZArith Bool.
From RopeVerif.Lib Require Import Text.
From RopeVerif.C12 Require Import Serializer.
Import ListNotations.

Fixpoint jsval_eqb (a b : jsval) {struct a} : bool :=
  match a, b with
  | JStr s, JStr t => text_eqb s t
  | JInt x, JInt y => Z.eqb x y
  | JBool x, JBool y => Bool.eqb x y
  | JNull, JNull => true
  | JArr l, JArr m =>
      (fix go (l m : list jsval) {struct l} : bool :=
         match l, m with
         | [], [] => true
         | x :: l', y :: m' => jsval_eqb x y && go l' m'
         | _, _ => false
         end) l m
  | JObj l, JObj m =>
      (fix go (l m : list (text * jsval)) {struct l} : bool :=
         match l, m with
         | [], [] => true
         | (k, x) :: l', (k', y) :: m' => text_eqb k k' && jsval_eqb x y && go l' m'
         | _, _ => false
         end) l m
  | _, _ => false
  end.

(* strict (type-preserving) equality of Python values: bool is not int here *)
Fixpoint pyval_eqb (a b : pyval) {struct a} : bool :=
  match a, b with
  | PStr s, PStr t => text_eqb s t
  | PInt x, PInt y => Z.eqb x y
  | PBool x, PBool y => Bool.eqb x y
  | PNone, PNone => true
  | PTuple l, PTuple m | PList l, PList m =>
      (fix go (l m : list pyval) {struct l} : bool :=
         match l, m with
         | [], [] => true
         | x :: l', y :: m' => pyval_eqb x y && go l' m'
         | _, _ => false
         end) l m
  | PDict l, PDict m =>
      (fix go (l m : list (pyval * pyval)) {struct l} : bool :=
         match l, m with
         | [], [] => true
         | (k, x) :: l', (k', y) :: m' => pyval_eqb k k' && pyval_eqb x y && go l' m'
         | _, _ => false
         end) l m
  | _, _ => false
  end.

Record case := {
  c_ver : N;
  c_digits : list N;                              (* code points c of the case with chr(c).isdigit() *)
  c_val : pyval;
  c_enc : option (jsval * list jsval);            (* implementation: (data, references) or raised *)
  c_dec : option pyval                            (* implementation: decoded value or raised *)
}.

Definition isdig_of (ds : list N) (c : N) : bool := existsb (N.eqb c) ds.

Definition opt_eqb {A} (eqb : A -> A -> bool) (a b : option A) : bool :=
  match a, b with Some x, Some y => eqb x y | None, None => true | _, _ => false end.

Definition enc_eqb (a b : jsval * list jsval) : bool :=
  jsval_eqb (fst a) (fst b) && jsval_eqb (JArr (snd a)) (JArr (snd b)).

(* result codes: 0 agree; 1 encoder differs; 2 decoder differs; 3 wf value whose round trip differs
   from the value (cannot happen while the theorem is in force; kept as a sanity channel) *)
Definition run_case (c : case) : N :=
  let isd := isdig_of (c_digits c) in
  let m_enc := python_to_json isd (c_ver c) (c_val c) in
  if negb (opt_eqb enc_eqb m_enc (c_enc c)) then 1%N
  else
    let m_dec := match m_enc with
                 | Some (d, r) => json_to_python isd (c_ver c) (json_rt d) (map json_rt r)
                 | None => None
                 end in
    if negb (opt_eqb pyval_eqb m_dec (c_dec c)) then 2%N
    else if wf_py (c_val c) && (N.eqb (c_ver c) 1 || N.eqb (c_ver c) 2)
            && negb (opt_eqb pyval_eqb m_dec (Some (c_val c))) then 3%N
    else 0%N.

Fixpoint mismatches_from (i : N) (cs : list case) : list (N * N) :=
  match cs with
  | [] => []
  | c :: r =>
      let code := run_case c in
      if N.eqb code 0 then mismatches_from (N.succ i) r else (i, code) :: mismatches_from (N.succ i) r
  end.
Definition mismatches (cs : list case) : list (N * N) := mismatches_from 0 cs.
(* re-export so that building Runner.vo builds the persistence runner too *)
(* PersistRunner imports this file; it is built as a separate target by the harness *)
Definition count_wf (cs : list case) : N :=
  N.of_nat (length (filter (fun c => wf_py (c_val c)) cs)).
