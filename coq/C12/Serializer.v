(* Model of rope/base/serializer.py: python_to_json / json_to_python (_py2js / _js2py).
   Definitions only; proofs are in SerializerProofs.v. *)
From Coq Require Import List NArith ZArith Bool.
From RopeVerif.Lib Require Import Text.
Import ListNotations.

(* Python values the serializer accepts (bool is a subclass of int and passes through unchanged). *)
Inductive pyval :=
| PStr (s : text) | PInt (z : Z) | PBool (b : bool) | PNone
| PTuple (l : list pyval) | PList (l : list pyval) | PDict (kvs : list (pyval * pyval)).

(* JSON values as json.loads returns them: objects keep insertion order. *)
Inductive jsval :=
| JStr (s : text) | JInt (z : Z) | JBool (b : bool) | JNull
| JArr (l : list jsval) | JObj (kvs : list (text * jsval)).

Definition s_dollar : text := [36%N].                              (* "$" *)
Definition s_items : text := [105; 116; 101; 109; 115]%N.          (* "items" *)
Definition s_t : text := [116%N].                                  (* "t" *)
Definition s_l : text := [108%N].                                  (* "l" *)

Definition wrap (tag : text) (items : list jsval) : jsval :=
  JObj [(s_dollar, JStr tag); (s_items, JArr items)].

(* Python's == on the values that can be dict keys: 1 == True, 0 == False. *)
Fixpoint py_eqb (a b : pyval) {struct a} : bool :=
  match a, b with
  | PStr s, PStr t => text_eqb s t
  | PInt x, PInt y => Z.eqb x y
  | PBool x, PBool y => Bool.eqb x y
  | PInt x, PBool y => Z.eqb x (if y then 1 else 0)
  | PBool x, PInt y => Z.eqb (if x then 1 else 0) y
  | PNone, PNone => true
  | PTuple l, PTuple m =>
      (fix go (l m : list pyval) {struct l} : bool :=
         match l, m with
         | [], [] => true
         | x :: l', y :: m' => py_eqb x y && go l' m'
         | _, _ => false
         end) l m
  | _, _ => false
  end.

Fixpoint hashable (v : pyval) : bool :=
  match v with
  | PStr _ | PInt _ | PBool _ | PNone => true
  | PTuple l => forallb hashable l
  | PList _ | PDict _ => false
  end.

(* result[key] = value on an insertion-ordered dict *)
Fixpoint dict_set (d : list (pyval * pyval)) (k v : pyval) : list (pyval * pyval) :=
  match d with
  | [] => [(k, v)]
  | (k0, v0) :: d' => if py_eqb k0 k then (k0, v) :: d' else (k0, v0) :: dict_set d' k v
  end.

Fixpoint assoc (k : text) (kvs : list (text * jsval)) : option jsval :=
  match kvs with
  | [] => None
  | (k0, v) :: r => if text_eqb k0 k then Some v else assoc k r
  end.

Section Ser.
  Variable isdig : N -> bool.      (* str.isdigit() on one code point (Unicode table supplied from outside) *)
  Variable ver : N.                (* serializer version, 1 or 2 *)

  Definition str_isdigit (s : text) : bool :=
    match s with [] => false | _ => forallb isdig s end.

  Definition key_is_dollar (k : pyval) : bool :=
    match k with PStr s => text_eqb s s_dollar | _ => false end.

  (* the assert in _py2js: isinstance(pykey, (str, int, tuple)) or pykey is None *)
  Definition key_kind_ok (k : pyval) : bool :=
    match k with PStr _ | PInt _ | PBool _ | PNone | PTuple _ => true | _ => false end.

  (* _py2js(o, references, version); None = the Python code raises *)
  Fixpoint py2js (v : pyval) (r : list jsval) {struct v} : option (jsval * list jsval) :=
    match v with
    | PStr s => Some (JStr s, r)
    | PInt z => Some (JInt z, r)
    | PBool b => Some (JBool b, r)
    | PNone => Some (JNull, r)
    | PTuple l =>
        let fix go (l : list pyval) (r : list jsval) : option (list jsval * list jsval) :=
          match l with
          | [] => Some ([], r)
          | x :: xs =>
              match py2js x r with
              | None => None
              | Some (jx, r1) =>
                  match go xs r1 with None => None | Some (js, r2) => Some (jx :: js, r2) end
              end
          end in
        match go l r with
        | None => None
        | Some (js, r') => Some (if N.eqb ver 1 then wrap s_t js else JArr js, r')
        end
    | PList l =>
        let fix go (l : list pyval) (r : list jsval) : option (list jsval * list jsval) :=
          match l with
          | [] => Some ([], r)
          | x :: xs =>
              match py2js x r with
              | None => None
              | Some (jx, r1) =>
                  match go xs r1 with None => None | Some (js, r2) => Some (jx :: js, r2) end
              end
          end in
        match go l r with
        | None => None
        | Some (js, r') => Some (if N.eqb ver 2 then wrap s_l js else JArr js, r')
        end
    | PDict kvs =>
        let fix go (kvs : list (pyval * pyval)) (r : list jsval)
            : option (list (text * jsval) * list jsval) :=
          match kvs with
          | [] => Some ([], r)
          | (k, x) :: rest =>
              if key_is_dollar k then None
              else
                match k with
                | PStr s =>
                    if negb (str_isdigit s) then
                      match py2js x r with
                      | None => None
                      | Some (jx, r1) =>
                          match go rest r1 with
                          | None => None
                          | Some (es, r2) => Some ((s, jx) :: es, r2)
                          end
                      end
                    else
                      let refid := N.of_nat (length r) in
                      match py2js x (r ++ [JStr s]) with
                      | None => None
                      | Some (jx, r1) =>
                          match go rest r1 with
                          | None => None
                          | Some (es, r2) => Some ((N_to_dec refid, jx) :: es, r2)
                          end
                      end
                | _ =>
                    if negb (key_kind_ok k) then None
                    else
                      let refid := N.of_nat (length r) in
                      match py2js k r with
                      | None => None
                      | Some (jk, r0) =>
                          match py2js x (r0 ++ [jk]) with
                          | None => None
                          | Some (jx, r1) =>
                              match go rest r1 with
                              | None => None
                              | Some (es, r2) => Some ((N_to_dec refid, jx) :: es, r2)
                              end
                          end
                      end
                end
          end in
        match go kvs r with None => None | Some (es, r') => Some (JObj es, r') end
    end.

  (* python_to_json: (data, references) ; the "references" member is dropped when empty, which the
     harness normalises to []. *)
  Definition python_to_json (v : pyval) : option (jsval * list jsval) :=
    if N.eqb ver 1 || N.eqb ver 2 then py2js v [] else None.

  (* _js2py(o, references, version) with explicit fuel; None = raises (or out of fuel). *)
  Fixpoint js2py (fuel : nat) (j : jsval) (refs : list jsval) {struct fuel} : option pyval :=
    match fuel with
    | O => None
    | S f =>
        let fix dec_list (l : list jsval) : option (list pyval) :=
          match l with
          | [] => Some []
          | x :: xs =>
              match js2py f x refs with
              | None => None
              | Some a => match dec_list xs with None => None | Some b => Some (a :: b) end
              end
          end in
        match j with
        | JStr s => Some (PStr s)
        | JInt z => Some (PInt z)
        | JBool b => Some (PBool b)
        | JNull => Some PNone
        | JArr l =>
            if N.eqb ver 1 then option_map PList (dec_list l)
            else if N.eqb ver 2 then option_map PTuple (dec_list l)
            else None
        | JObj kvs =>
            match assoc s_dollar kvs with
            | Some tag =>
                match tag with
                | JStr t =>
                    if text_eqb t s_t then
                      if N.eqb ver 1 then
                        match assoc s_items kvs with
                        | Some (JArr l) => option_map PTuple (dec_list l)
                        | _ => None
                        end
                      else None
                    else if text_eqb t s_l then
                      if N.eqb ver 2 then
                        match assoc s_items kvs with
                        | Some (JArr l) => option_map PList (dec_list l)
                        | _ => None
                        end
                      else None
                    else None
                | _ => None
                end
            | None =>
                (fix go (kvs : list (text * jsval)) (acc : list (pyval * pyval)) : option pyval :=
                   match kvs with
                   | [] => Some (PDict acc)
                   | (key, jx) :: rest =>
                       if str_isdigit key then
                         match dec_to_N key with
                         | None => None
                         | Some n =>
                             match nth_error refs (N.to_nat n) with
                             | None => None
                             | Some jk =>
                                 match js2py f jx refs, js2py f jk refs with
                                 | Some pv, Some pk =>
                                     if hashable pk then go rest (dict_set acc pk pv) else None
                                 | _, _ => None
                                 end
                             end
                         end
                       else
                         match js2py f jx refs with
                         | Some pv => go rest (dict_set acc (PStr key) pv)
                         | None => None
                         end
                   end) kvs []
            end
        end
    end.

  Fixpoint jsize (j : jsval) : nat :=
    match j with
    | JArr l => S (fold_right (fun x n => jsize x + n) 0 l)
    | JObj kvs => S (fold_right (fun kx n => jsize (snd kx) + n) 0 kvs)
    | _ => 1
    end.
  Definition refs_size (r : list jsval) : nat := fold_right (fun x n => jsize x + n) 0 r.

  Definition json_to_python (data : jsval) (refs : list jsval) : option pyval :=
    if N.eqb ver 1 || N.eqb ver 2 then js2py (jsize data + refs_size refs) data refs else None.

  (* what json.loads(json.dumps(.)) does to an object: a repeated key keeps its first position and
     its last value *)
  Fixpoint obj_set (d : list (text * jsval)) (k : text) (v : jsval) : list (text * jsval) :=
    match d with
    | [] => [(k, v)]
    | (k0, v0) :: d' => if text_eqb k0 k then (k0, v) :: d' else (k0, v0) :: obj_set d' k v
    end.
  Fixpoint json_rt (j : jsval) : jsval :=
    match j with
    | JArr l => JArr (map json_rt l)
    | JObj kvs =>
        JObj ((fix go (kvs : list (text * jsval)) (acc : list (text * jsval)) :=
                 match kvs with
                 | [] => acc
                 | (k, x) :: rest => go rest (obj_set acc k (json_rt x))
                 end) kvs [])
    | _ => j
    end.

  (* well-formedness of an accepted value: what a real Python object of these types satisfies
     (dict keys hashable and pairwise unequal) plus the serializer's documented restriction (no "$"). *)
  Fixpoint keys_distinct (ks : list pyval) : bool :=
    match ks with
    | [] => true
    | k :: r => forallb (fun k' => negb (py_eqb k k')) r && keys_distinct r
    end.

  Fixpoint wf_py (v : pyval) : bool :=
    match v with
    | PStr _ | PInt _ | PBool _ | PNone => true
    | PTuple l => forallb wf_py l
    | PList l => forallb wf_py l
    | PDict kvs =>
        forallb (fun kv => hashable (fst kv) && negb (key_is_dollar (fst kv))) kvs
        && keys_distinct (map fst kvs)
        && (fix go (kvs : list (pyval * pyval)) : bool :=
              match kvs with [] => true | (_, x) :: r => wf_py x && go r end) kvs
    end.
End Ser.
