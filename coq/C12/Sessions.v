(* Property C12, lifted over any number of sessions: a project whose history is saved at close and
   loaded at open (History.write / History._load_history, modelled by Persist.close / Persist.reopen)
   and, inside a session, changed by History.do / undo() / redo() (rope/base/history.py).
   Definitions only. *)
From Coq Require Import List NArith Bool Arith.
From RopeVerif.Lib Require Import Text.
From RopeVerif.C12 Require Import Serializer Persist.
Import ListNotations.

(* what a user does to the history inside one session *)
Inductive sop :=
  | SDo (c : change)          (* History.do(c) after c itself was performed *)
  | SUndo                     (* History.undo() of the last change *)
  | SRedo                     (* History.redo() of the last undone change *)
  | SUndoDrop                 (* History.undo(drop=True): undone and forgotten *)
  | SClear.                   (* History.clear() *)

Section Sessions.
  Variable ign : text -> bool.
  Variable limit : nat.       (* max_history_items *)
  (* ChangeSet.do stamps the set (and every nested set) with time.time() each time it runs, so a
     redone change is the undone one with new time stamps: any function of the clock *)
  Variable stamp : change -> change.

  (* History.undo(): HistoryError on an empty list leaves the history as it was; otherwise
     _perform_undos(1): redo_list.append(undo_list.pop()).  History.redo(): symmetric, and it
     does NOT call _remove_extra_items. *)
  Definition hist_undo (h : hist) : hist :=
    match rev (undo_list h) with
    | [] => h
    | c :: r => {| undo_list := rev r; redo_list := redo_list h ++ [c] |}
    end.
  Definition hist_redo (h : hist) : hist :=
    match rev (redo_list h) with
    | [] => h
    | c :: r => {| undo_list := undo_list h ++ [stamp c]; redo_list := rev r |}
    end.

  (* undo(drop=True): the undone change is appended to the redo list and deleted from it again *)
  Definition hist_undo_drop (h : hist) : hist :=
    match rev (undo_list h) with
    | [] => h
    | c :: r => {| undo_list := rev r; redo_list := redo_list h |}
    end.
  Definition hist_clear (h : hist) : hist := {| undo_list := []; redo_list := [] |}.

  Definition sstep (h : hist) (o : sop) : hist :=
    match o with
    | SDo c => hist_do ign limit h c
    | SUndo => hist_undo h
    | SRedo => hist_redo h
    | SUndoDrop => hist_undo_drop h
    | SClear => hist_clear h
    end.

  (* the project that is never closed *)
  Definition live (h : hist) (ops : list sop) : hist := fold_left sstep ops h.

  (* one session on top of what the previous close left on disk: open, work, close *)
  Definition session (d : data) (ops : list sop) : option data :=
    match reopen true d with
    | Some h => Some (close true limit (live h ops))
    | None => None                 (* the history file does not load: the property fails *)
    end.

  Fixpoint sessions (d : data) (ss : list (list sop)) : option data :=
    match ss with
    | [] => Some d
    | ops :: rest =>
        match session d ops with
        | Some d' => sessions d' rest
        | None => None
        end
    end.

  (* what History maintains from an empty history on: do trims and clears the redo list, undo and
     redo move one entry between the lists *)
  Definition within (h : hist) : Prop := length (undo_list h) + length (redo_list h) <= limit.

  Definition only_do (o : sop) : bool := match o with SDo _ => true | _ => false end.
End Sessions.

(* forgetting the time stamps (what the runner compares a redo step modulo) *)
Fixpoint erase_times (c : change) : change :=
  match c with
  | CSet d cs _ => CSet d ((fix go (l : list change) : list change :=
                              match l with [] => [] | x :: xs => erase_times x :: go xs end) cs) None
  | _ => c
  end.

Definition empty_hist : hist := {| undo_list := []; redo_list := [] |}.
