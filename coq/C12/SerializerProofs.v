(* Proofs about the serializer model: round trip through JSON for every accepted value. *)
From Coq Require Import List NArith ZArith Bool Lia Arith.
From RopeVerif.Lib Require Import Text.
From RopeVerif.C12 Require Import Serializer.
Import ListNotations.

Section Ind.
  Variable P : pyval -> Prop.
  Hypothesis Hs : forall s, P (PStr s).
  Hypothesis Hi : forall z, P (PInt z).
  Hypothesis Hb : forall b, P (PBool b).
  Hypothesis Hn : P PNone.
  Hypothesis Ht : forall l, Forall P l -> P (PTuple l).
  Hypothesis Hl : forall l, Forall P l -> P (PList l).
  Hypothesis Hd : forall kvs, Forall (fun kv => P (fst kv) /\ P (snd kv)) kvs -> P (PDict kvs).
  Fixpoint pyval_ind' (v : pyval) : P v :=
    match v with
    | PStr s => Hs s | PInt z => Hi z | PBool b => Hb b | PNone => Hn
    | PTuple l => Ht l ((fix go l : Forall P l :=
        match l with [] => Forall_nil _ | x :: xs => Forall_cons _ (pyval_ind' x) (go xs) end) l)
    | PList l => Hl l ((fix go l : Forall P l :=
        match l with [] => Forall_nil _ | x :: xs => Forall_cons _ (pyval_ind' x) (go xs) end) l)
    | PDict kvs => Hd kvs ((fix go l : Forall (fun kv => P (fst kv) /\ P (snd kv)) l :=
        match l with
        | [] => Forall_nil _
        | (k, x) :: xs => Forall_cons (k, x) (conj (pyval_ind' k) (pyval_ind' x)) (go xs)
        end) kvs)
    end.
End Ind.

Section Proofs.
  Variable isdig : N -> bool.
  Variable ver : N.
  Hypothesis isdig_ascii : forall c, is_ascii_digit c = true -> isdig c = true.
  Hypothesis ver_ok : ver = 1%N \/ ver = 2%N.

  Notation py2js := (py2js isdig ver).
  Notation js2py := (js2py isdig ver).
  Notation str_isdigit := (str_isdigit isdig).

  Lemma ver_cases :
    (ver = 1%N /\ N.eqb ver 1 = true /\ N.eqb ver 2 = false) \/
    (ver = 2%N /\ N.eqb ver 1 = false /\ N.eqb ver 2 = true).
  Proof. destruct ver_ok as [-> | ->]; [left|right]; repeat split; reflexivity. Qed.

  (* ---- top-level names for the inner loops, with unfolding equations ---- *)
  Fixpoint enc_list (l : list pyval) (r : list jsval) : option (list jsval * list jsval) :=
    match l with
    | [] => Some ([], r)
    | x :: xs =>
        match py2js x r with
        | None => None
        | Some (jx, r1) =>
            match enc_list xs r1 with None => None | Some (js, r2) => Some (jx :: js, r2) end
        end
    end.

  Definition enc_entry (k x : pyval) (r : list jsval)
      (go : list jsval -> option (list (text * jsval) * list jsval))
      : option (list (text * jsval) * list jsval) :=
    if key_is_dollar k then None
    else
      match k with
      | PStr s =>
          if negb (str_isdigit s) then
            match py2js x r with
            | None => None
            | Some (jx, r1) =>
                match go r1 with None => None | Some (es, r2) => Some ((s, jx) :: es, r2) end
            end
          else
            match py2js x (r ++ [JStr s]) with
            | None => None
            | Some (jx, r1) =>
                match go r1 with
                | None => None
                | Some (es, r2) => Some ((N_to_dec (N.of_nat (length r)), jx) :: es, r2)
                end
            end
      | _ =>
          if negb (key_kind_ok k) then None
          else
            match py2js k r with
            | None => None
            | Some (jk, r0) =>
                match py2js x (r0 ++ [jk]) with
                | None => None
                | Some (jx, r1) =>
                    match go r1 with
                    | None => None
                    | Some (es, r2) => Some ((N_to_dec (N.of_nat (length r)), jx) :: es, r2)
                    end
                end
            end
      end.

  Fixpoint enc_dict (kvs : list (pyval * pyval)) (r : list jsval)
      : option (list (text * jsval) * list jsval) :=
    match kvs with
    | [] => Some ([], r)
    | (k, x) :: rest => enc_entry k x r (enc_dict rest)
    end.

  Lemma py2js_tuple l r :
    py2js (PTuple l) r =
    match enc_list l r with
    | None => None
    | Some (js, r') => Some (if N.eqb ver 1 then wrap s_t js else JArr js, r')
    end.
  Proof.
    cbn [Serializer.py2js].
    match goal with |- match ?g l r with _ => _ end = _ =>
      assert (H : forall l0 r0, g l0 r0 = enc_list l0 r0) end.
    { clear. induction l0 as [|x xs IH]; intros r0; cbn [enc_list]; [reflexivity|].
      destruct (py2js x r0) as [[jx r1]|]; [|reflexivity]. rewrite IH. reflexivity. }
    rewrite H. reflexivity.
  Qed.

  Lemma py2js_list l r :
    py2js (PList l) r =
    match enc_list l r with
    | None => None
    | Some (js, r') => Some (if N.eqb ver 2 then wrap s_l js else JArr js, r')
    end.
  Proof.
    cbn [Serializer.py2js].
    match goal with |- match ?g l r with _ => _ end = _ =>
      assert (H : forall l0 r0, g l0 r0 = enc_list l0 r0) end.
    { clear. induction l0 as [|x xs IH]; intros r0; cbn [enc_list]; [reflexivity|].
      destruct (py2js x r0) as [[jx r1]|]; [|reflexivity]. rewrite IH. reflexivity. }
    rewrite H. reflexivity.
  Qed.

  Lemma py2js_dict kvs r :
    py2js (PDict kvs) r =
    match enc_dict kvs r with None => None | Some (es, r') => Some (JObj es, r') end.
  Proof.
    cbn [Serializer.py2js].
    match goal with |- match ?g kvs r with _ => _ end = _ =>
      assert (H : forall l0 r0, g l0 r0 = enc_dict l0 r0) end.
    { clear. induction l0 as [|[k x] xs IH]; intros r0; cbn [enc_dict]; [reflexivity|].
      unfold enc_entry. destruct (key_is_dollar k); [reflexivity|].
      destruct k; cbn [negb key_kind_ok];
        repeat first
          [ reflexivity
          | rewrite IH; reflexivity
          | match goal with
            | |- match ?e with _ => _ end = _ => destruct e as [[? ?]|]
            | |- (if ?b then _ else _) = _ => destruct b
            end ]. }
    rewrite H. reflexivity.
  Qed.

  Fixpoint dec_list (f : nat) (refs : list jsval) (l : list jsval) : option (list pyval) :=
    match l with
    | [] => Some []
    | x :: xs =>
        match js2py f x refs with
        | None => None
        | Some a => match dec_list f refs xs with None => None | Some b => Some (a :: b) end
        end
    end.

  Fixpoint dec_dict (f : nat) (refs : list jsval) (kvs : list (text * jsval))
      (acc : list (pyval * pyval)) : option pyval :=
    match kvs with
    | [] => Some (PDict acc)
    | (key, jx) :: rest =>
        if str_isdigit key then
          match dec_to_N key with
          | None => None
          | Some n =>
              match nth_error refs (N.to_nat n) with
              | None => None
              | Some jk =>
                  match js2py f jx refs, js2py f jk refs with
                  | Some pv, Some pk =>
                      if hashable pk then dec_dict f refs rest (dict_set acc pk pv) else None
                  | _, _ => None
                  end
              end
          end
        else
          match js2py f jx refs with
          | Some pv => dec_dict f refs rest (dict_set acc (PStr key) pv)
          | None => None
          end
    end.

  Lemma dec_list_eq f refs l :
    (fix dec_list (l : list jsval) : option (list pyval) :=
       match l with
       | [] => Some []
       | x :: xs =>
           match js2py f x refs with
           | None => None
           | Some a => match dec_list xs with None => None | Some b => Some (a :: b) end
           end
       end) l = dec_list f refs l.
  Proof. induction l as [|x xs IH]; cbn; [reflexivity|]. rewrite IH. reflexivity. Qed.

  Lemma js2py_arr f l refs :
    js2py (S f) (JArr l) refs =
    if N.eqb ver 1 then option_map PList (dec_list f refs l)
    else if N.eqb ver 2 then option_map PTuple (dec_list f refs l) else None.
  Proof. cbn [Serializer.js2py]. rewrite dec_list_eq. reflexivity. Qed.

  Lemma js2py_wrap_t f l refs :
    ver = 1%N -> js2py (S f) (wrap s_t l) refs = option_map PTuple (dec_list f refs l).
  Proof.
    intros Hv. unfold wrap. cbn [Serializer.js2py].
    cbn [assoc text_eqb s_dollar s_items s_t s_l andb N.eqb Pos.eqb].
    rewrite dec_list_eq. rewrite Hv. reflexivity.
  Qed.

  Lemma js2py_wrap_l f l refs :
    ver = 2%N -> js2py (S f) (wrap s_l l) refs = option_map PList (dec_list f refs l).
  Proof.
    intros Hv. unfold wrap. cbn [Serializer.js2py].
    cbn [assoc text_eqb s_dollar s_items s_t s_l andb N.eqb Pos.eqb].
    rewrite dec_list_eq. rewrite Hv. reflexivity.
  Qed.

  Lemma js2py_obj f kvs refs :
    assoc s_dollar kvs = None ->
    js2py (S f) (JObj kvs) refs = dec_dict f refs kvs [].
  Proof.
    intros H. cbn [Serializer.js2py]. rewrite H.
    generalize (@nil (pyval * pyval)). induction kvs as [|[key jx] rest IH]; intros acc; cbn; [reflexivity|].
    cbn in H. destruct (text_eqb key s_dollar); [discriminate|].
    destruct (str_isdigit key).
    - destruct (dec_to_N key); [|reflexivity]. destruct (nth_error refs (N.to_nat n)); [|reflexivity].
      destruct (js2py f jx refs); [|reflexivity]. destruct (js2py f j refs); [|reflexivity].
      destruct (hashable p0); [|reflexivity]. apply IH. exact H.
    - destruct (js2py f jx refs); [|reflexivity]. apply IH. exact H.
  Qed.

  (* ---- sizes ---- *)
  Lemma refs_size_app a b : refs_size (a ++ b) = refs_size a + refs_size b.
  Proof. unfold refs_size. induction a; cbn; [reflexivity|]. rewrite IHa. lia. Qed.

  Lemma jsize_pos j : 1 <= jsize j.
  Proof. destruct j; cbn; lia. Qed.

  Lemma nth_error_size (r : list jsval) n j : nth_error r n = Some j -> jsize j <= refs_size r.
  Proof.
    revert n; induction r as [|x r IH]; intros [|n]; cbn; try discriminate.
    - intros [= ->]. lia.
    - intros H. apply IH in H. unfold refs_size in H. lia.
  Qed.

  (* ---- hashable keys: encoding does not touch the table, decoding needs no table ---- *)
  Definition key_good (k : pyval) : Prop :=
    hashable k = true ->
    exists jk, (forall r, py2js k r = Some (jk, r)) /\
               (forall f refs, jsize jk <= f -> js2py f jk refs = Some k).

  Lemma key_good_all k : key_good k.
  Proof.
    induction k as [s|z|b| |l IH|l IH|kvs IH] using pyval_ind'; unfold key_good; intros Hh;
      try discriminate.
    - exists (JStr s). split; [reflexivity|]. intros [|f] refs Hf; [cbn in Hf; lia|reflexivity].
    - exists (JInt z). split; [reflexivity|]. intros [|f] refs Hf; [cbn in Hf; lia|reflexivity].
    - exists (JBool b). split; [reflexivity|]. intros [|f] refs Hf; [cbn in Hf; lia|reflexivity].
    - exists JNull. split; [reflexivity|]. intros [|f] refs Hf; [cbn in Hf; lia|reflexivity].
    - cbn in Hh.
      assert (H : exists js, (forall r, enc_list l r = Some (js, r)) /\
                forall f refs, fold_right (fun x n => jsize x + n) 0 js <= f -> dec_list f refs js = Some l).
      { induction IH as [|x xs Hx _ IHxs].
        - exists []. split; reflexivity.
        - cbn in Hh. apply andb_true_iff in Hh as [Hhx Hhxs].
          destruct (Hx Hhx) as [jx [Ex Dx]]. destruct (IHxs Hhxs) as [js [Es Ds]].
          exists (jx :: js). split.
          + intros r. cbn. rewrite Ex, Es. reflexivity.
          + intros f refs Hf. cbn in Hf |- *. rewrite Dx by lia. rewrite Ds by lia. reflexivity. }
      destruct H as [js [Es Ds]].
      exists (if N.eqb ver 1 then wrap s_t js else JArr js). split.
      + intros r. rewrite py2js_tuple, Es. reflexivity.
      + intros f refs Hf. destruct ver_cases as [[Hv [Hb1 Hb2]]|[Hv [Hb1 Hb2]]]; rewrite Hb1 in Hf |- *.
        * destruct f; [cbn in Hf; lia|]. rewrite js2py_wrap_t by exact Hv.
          rewrite Ds; [reflexivity|]. cbn in Hf. lia.
        * destruct f; [cbn in Hf; lia|]. rewrite js2py_arr. rewrite Hb1, Hb2.
          rewrite Ds; [reflexivity|]. cbn in Hf. lia.
  Qed.

  (* ---- object keys produced by the encoder ---- *)
  Lemma dec_not_dollar n : text_eqb (N_to_dec n) s_dollar = false.
  Proof.
    destruct (text_eqb_spec (N_to_dec n) s_dollar) as [E|]; [|reflexivity].
    pose proof (N_to_dec_digits n) as H. rewrite E in H. cbn in H. discriminate.
  Qed.

  Lemma dec_isdigit n : str_isdigit (N_to_dec n) = true.
  Proof.
    unfold Serializer.str_isdigit. pose proof (N_to_dec_nonempty n) as Hne.
    pose proof (N_to_dec_digits n) as H.
    destruct (N_to_dec n) as [|c t]; [congruence|].
    rewrite forallb_forall in *. intros x Hx. apply isdig_ascii. apply H. exact Hx.
  Qed.

  (* ---- dict_set on a fresh key appends ---- *)
  Lemma dict_set_fresh d k v :
    forallb (fun k' => negb (py_eqb k' k)) (map fst d) = true -> dict_set d k v = d ++ [(k, v)].
  Proof.
    induction d as [|[k0 v0] d IH]; cbn; [reflexivity|].
    intros H. apply andb_true_iff in H as [H1 H2]. apply negb_true_iff in H1. rewrite H1.
    rewrite IH by exact H2. reflexivity.
  Qed.

  Lemma py_eqb_sym a : forall b, py_eqb a b = py_eqb b a.
  Proof.
    induction a as [s|z|b0| |l IH|l IH|kvs IH] using pyval_ind'; intros [t|y|c| |m|m|m]; cbn; try reflexivity.
    - destruct (text_eqb_spec s t), (text_eqb_spec t s); congruence.
    - apply Z.eqb_sym.
    - apply Z.eqb_sym.
    - apply Z.eqb_sym.
    - destruct b0, c; reflexivity.
    - revert m. induction IH as [|x xs Hx _ IHxs]; intros [|y m]; cbn; try reflexivity.
      rewrite Hx, IHxs. reflexivity.
  Qed.

  (* ---- the main invariant ---- *)
  Definition good (v : pyval) : Prop :=
    wf_py v = true ->
    forall r j r', py2js v r = Some (j, r') ->
      (exists ext, r' = r ++ ext) /\
      forall more f, jsize j + refs_size (r' ++ more) <= f -> js2py f j (r' ++ more) = Some v.

  Lemma good_list l :
    Forall good l -> forallb wf_py l = true ->
    forall r js r', enc_list l r = Some (js, r') ->
      (exists ext, r' = r ++ ext) /\
      forall more f, fold_right (fun x n => jsize x + n) 0 js + refs_size (r' ++ more) <= f ->
                     dec_list f (r' ++ more) js = Some l.
  Proof.
    intros IH. induction IH as [|x xs Hx _ IHxs]; intros Hwf r js r' EL; cbn in EL.
    - inversion EL; subst. split; [exists []; now rewrite app_nil_r|]. reflexivity.
    - cbn in Hwf. apply andb_true_iff in Hwf as [Hwx Hwxs].
      destruct (py2js x r) as [[jx r1]|] eqn:E1; [|discriminate].
      destruct (enc_list xs r1) as [[js' r2]|] eqn:E2; [|discriminate].
      inversion EL; subst. clear EL.
      destruct (Hx Hwx _ _ _ E1) as [[e1 ->] D1]. destruct (IHxs Hwxs _ _ _ E2) as [[e2 ->] D2].
      split; [exists (e1 ++ e2); now rewrite app_assoc|].
      intros more f Hf. cbn in Hf. cbn [dec_list].
      rewrite <- app_assoc. rewrite D1.
      2:{ rewrite app_assoc. lia. }
      rewrite app_assoc. rewrite D2 by lia. reflexivity.
  Qed.

  Lemma good_all v : good v.
  Proof.
    induction v as [s|z|b| |l IH|l IH|kvs IH] using pyval_ind'; unfold good; intros Hwf r j r' E.
    - inversion E; subst. split; [exists []; now rewrite app_nil_r|].
      intros more [|f] Hf; [cbn in Hf; lia|reflexivity].
    - inversion E; subst. split; [exists []; now rewrite app_nil_r|].
      intros more [|f] Hf; [cbn in Hf; lia|reflexivity].
    - inversion E; subst. split; [exists []; now rewrite app_nil_r|].
      intros more [|f] Hf; [cbn in Hf; lia|reflexivity].
    - inversion E; subst. split; [exists []; now rewrite app_nil_r|].
      intros more [|f] Hf; [cbn in Hf; lia|reflexivity].
    - (* tuple *)
      rewrite py2js_tuple in E. destruct (enc_list l r) as [[js r2]|] eqn:EL; [|discriminate].
      inversion E; subst j r'. clear E. cbn in Hwf.
      destruct (good_list l IH Hwf _ _ _ EL) as [Hext Hdec]. split; [exact Hext|].
      intros more f Hf. destruct ver_cases as [[Hv [Hb1 Hb2]]|[Hv [Hb1 Hb2]]]; rewrite Hb1 in Hf |- *.
      + destruct f; [cbn in Hf; lia|]. rewrite js2py_wrap_t by exact Hv.
        rewrite Hdec; [reflexivity|]. cbn in Hf. lia.
      + destruct f; [cbn in Hf; lia|]. rewrite js2py_arr. rewrite Hb1, Hb2.
        rewrite Hdec; [reflexivity|]. cbn in Hf. lia.
    - (* list *)
      rewrite py2js_list in E. destruct (enc_list l r) as [[js r2]|] eqn:EL; [|discriminate].
      inversion E; subst j r'. clear E. cbn in Hwf.
      destruct (good_list l IH Hwf _ _ _ EL) as [Hext Hdec]. split; [exact Hext|].
      intros more f Hf. destruct ver_cases as [[Hv [Hb1 Hb2]]|[Hv [Hb1 Hb2]]]; rewrite Hb2 in Hf |- *.
      + destruct f; [cbn in Hf; lia|]. rewrite js2py_arr. rewrite Hb1.
        rewrite Hdec; [reflexivity|]. cbn in Hf. lia.
      + destruct f; [cbn in Hf; lia|]. rewrite js2py_wrap_l by exact Hv.
        rewrite Hdec; [reflexivity|]. cbn in Hf. lia.
    - (* dict *)
      rewrite py2js_dict in E. destruct (enc_dict kvs r) as [[es r2]|] eqn:EL; [|discriminate].
      inversion E; subst j r'. clear E.
      assert (Hwf' : forallb (fun kv => hashable (fst kv) && negb (key_is_dollar (fst kv))) kvs = true
                     /\ keys_distinct (map fst kvs) = true
                     /\ forallb (fun kv => wf_py (snd kv)) kvs = true).
      { cbn in Hwf. apply andb_true_iff in Hwf as [Hwf H3]. apply andb_true_iff in Hwf as [H1 H2].
        split; [exact H1|]. split; [exact H2|]. clear -H3.
        induction kvs as [|[k x] kvs IHk]; [reflexivity|]. cbn. apply andb_true_iff in H3 as [A B].
        rewrite A. cbn. apply IHk. exact B. }
      clear Hwf. destruct Hwf' as [Hk [Hd Hv]].
      (* generalised over the accumulator *)
      assert (H : (exists ext, r2 = r ++ ext) /\ assoc s_dollar es = None /\
                forall more f acc,
                  forallb (fun k => forallb (fun k' => negb (py_eqb k' k)) (map fst acc)) (map fst kvs) = true ->
                  fold_right (fun kx n => jsize (snd kx) + n) 0 es + refs_size (r2 ++ more) <= f ->
                  dec_dict f (r2 ++ more) es acc = Some (PDict (acc ++ kvs))).
      { revert r es r2 EL Hk Hd Hv.
        induction IH as [|[k x] rest [_ Hx] _ IHrest]; intros r es r2 EL Hk Hd Hv.
        - cbn in EL. inversion EL; subst. split; [exists []; now rewrite app_nil_r|]. split; [reflexivity|].
          intros more f acc _ _. cbn. now rewrite app_nil_r.
        - cbn [enc_dict] in EL. unfold enc_entry in EL.
          cbn [forallb fst] in Hk. apply andb_true_iff in Hk as [Hk1 Hk]. apply andb_true_iff in Hk1 as [Hhk Hnd].
          apply negb_true_iff in Hnd. rewrite Hnd in EL.
          cbn [map fst keys_distinct] in Hd. apply andb_true_iff in Hd as [Hd1 Hd].
          cbn [forallb snd] in Hv. apply andb_true_iff in Hv as [Hvx Hv].
          cbn [fst snd] in *.
          (* the three ways an entry is produced all reduce to: key k stored as `key`, value encoded
             against a table r0 extending r, in which (if refid) position (length r) holds jk. *)
          assert (Hcase :
            (exists s, k = PStr s /\ str_isdigit s = false /\
               exists jx r1 es', py2js x r = Some (jx, r1) /\ enc_dict rest r1 = Some (es', r2) /\ es = (s, jx) :: es')
            \/ (exists jk jx r1 es', (forall r, py2js k r = Some (jk, r)) /\
                  (forall f refs, jsize jk <= f -> js2py f jk refs = Some k) /\
                  py2js x (r ++ [jk]) = Some (jx, r1) /\ enc_dict rest r1 = Some (es', r2) /\
                  es = (N_to_dec (N.of_nat (length r)), jx) :: es')).
          { destruct (key_good_all k Hhk) as [jk [Ek Dk]].
            destruct k as [s|z|b| |l|l|l]; cbn [negb key_kind_ok] in EL; try discriminate.
            - destruct (str_isdigit s) eqn:Hsd; cbn [negb] in EL.
              + right. destruct (py2js x (r ++ [JStr s])) as [[jx r1]|] eqn:E1; [|discriminate].
                destruct (enc_dict rest r1) as [[es' r2']|] eqn:E2; [|discriminate].
                inversion EL; subst. exists jk, jx, r1, es'.
                assert (jk = JStr s) by (specialize (Ek []); cbn in Ek; congruence). subst jk.
                repeat split; assumption.
              + left. exists s. split; [reflexivity|]. split; [exact Hsd|].
                destruct (py2js x r) as [[jx r1]|] eqn:E1; [|discriminate].
                destruct (enc_dict rest r1) as [[es' r2']|] eqn:E2; [|discriminate].
                inversion EL; subst. exists jx, r1, es'. repeat split; assumption.
            - right. rewrite Ek in EL.
              destruct (py2js x (r ++ [jk])) as [[jx r1]|] eqn:E1; [|discriminate].
              destruct (enc_dict rest r1) as [[es' r2']|] eqn:E2; [|discriminate].
              inversion EL; subst. exists jk, jx, r1, es'. repeat split; assumption.
            - right. rewrite Ek in EL.
              destruct (py2js x (r ++ [jk])) as [[jx r1]|] eqn:E1; [|discriminate].
              destruct (enc_dict rest r1) as [[es' r2']|] eqn:E2; [|discriminate].
              inversion EL; subst. exists jk, jx, r1, es'. repeat split; assumption.
            - right. rewrite Ek in EL.
              destruct (py2js x (r ++ [jk])) as [[jx r1]|] eqn:E1; [|discriminate].
              destruct (enc_dict rest r1) as [[es' r2']|] eqn:E2; [|discriminate].
              inversion EL; subst. exists jk, jx, r1, es'. repeat split; assumption.
            - right. rewrite Ek in EL.
              destruct (py2js x (r ++ [jk])) as [[jx r1]|] eqn:E1; [|discriminate].
              destruct (enc_dict rest r1) as [[es' r2']|] eqn:E2; [|discriminate].
              inversion EL; subst. exists jk, jx, r1, es'. repeat split; assumption. }
          clear EL.
          destruct Hcase as [[s [-> [Hsd [jx [r1 [es' [E1 [E2 ->]]]]]]]] | [jk [jx [r1 [es' [Ek [Dk [E1 [E2 ->]]]]]]]]].
          + (* direct string key *)
            destruct (Hx Hvx _ _ _ E1) as [[e1 ->] D1].
            destruct (IHrest _ _ _ E2 Hk Hd Hv) as [[e2 ->] [Hnd' D2]].
            split; [exists (e1 ++ e2); now rewrite app_assoc|]. split.
            { cbn [assoc]. cbn in Hnd. rewrite Hnd. exact Hnd'. }
            intros more f acc Hacc Hf. cbn [dec_dict]. rewrite Hsd.
            cbn [map fst forallb] in Hacc. apply andb_true_iff in Hacc as [Hacc1 Hacc].
            cbn [fold_right snd] in Hf.
            rewrite <- app_assoc. rewrite D1.
            2:{ rewrite app_assoc. lia. }
            rewrite app_assoc. rewrite dict_set_fresh by exact Hacc1.
            rewrite D2.
            * rewrite <- app_assoc. reflexivity.
            * rewrite map_app, forallb_forall. intros k' Hk'.
              rewrite forallb_app. rewrite forallb_forall in Hacc. rewrite (Hacc _ Hk').
              cbn [map fst forallb andb].
              rewrite forallb_forall in Hd1. rewrite (Hd1 _ Hk'). reflexivity.
            * lia.
          + (* key through the reference table *)
            destruct (Hx Hvx _ _ _ E1) as [[e1 ->] D1].
            destruct (IHrest _ _ _ E2 Hk Hd Hv) as [[e2 ->] [Hnd' D2]].
            split; [exists ([jk] ++ e1 ++ e2); now rewrite <- !app_assoc|]. split.
            { cbn [assoc]. rewrite dec_not_dollar. exact Hnd'. }
            intros more f acc Hacc Hf. cbn [dec_dict]. rewrite dec_isdigit, dec_to_N_to_dec.
            rewrite Nnat.Nat2N.id.
            replace (nth_error ((((r ++ [jk]) ++ e1) ++ e2) ++ more) (length r)) with (Some jk).
            2:{ rewrite <- !app_assoc. rewrite nth_error_app2 by lia. rewrite Nat.sub_diag. reflexivity. }
            cbn [map fst forallb] in Hacc. apply andb_true_iff in Hacc as [Hacc1 Hacc].
            cbn [fold_right snd] in Hf.
            rewrite <- (app_assoc _ e2 more). rewrite D1.
            2:{ rewrite (app_assoc _ e2 more). lia. }
            rewrite Dk.
            2:{ rewrite <- !app_assoc in Hf. rewrite !refs_size_app in Hf. cbn in Hf.
                pose proof (jsize_pos jx). lia. }
            rewrite Hhk. rewrite (app_assoc _ e2 more). rewrite dict_set_fresh by exact Hacc1.
            rewrite D2.
            * rewrite <- app_assoc. reflexivity.
            * rewrite map_app, forallb_forall. intros k' Hk'.
              rewrite forallb_app. rewrite forallb_forall in Hacc. rewrite (Hacc _ Hk').
              cbn [map fst forallb andb].
              rewrite forallb_forall in Hd1. rewrite (Hd1 _ Hk'). reflexivity.
            * lia. }
      destruct H as [Hext [Hnd Hdec]]. split; [exact Hext|].
      intros more f Hf. destruct f; [cbn in Hf; lia|]. rewrite js2py_obj by exact Hnd.
      rewrite Hdec; [reflexivity| |cbn in Hf; lia].
      rewrite forallb_forall. intros; reflexivity.
  Qed.

  Theorem serializer_roundtrip v data refs :
    wf_py v = true ->
    python_to_json isdig ver v = Some (data, refs) ->
    json_to_python isdig ver data refs = Some v.
  Proof.
    unfold python_to_json, json_to_python. intros Hwf E.
    destruct (N.eqb ver 1 || N.eqb ver 2)%bool; [|discriminate].
    destruct (good_all v Hwf [] data refs E) as [_ D].
    specialize (D [] (jsize data + refs_size refs)). rewrite app_nil_r in D. apply D. lia.
  Qed.
End Proofs.

(* ------------------------------------------------------------------------------------------------
   The trip through JSON text: json.loads(json.dumps(x)) is the identity on everything the encoder
   produces, because no object it builds has a repeated key ("representation collisions"). *)
Section JsonText.
  Variable isdig : N -> bool.
  Variable ver : N.
  Hypothesis isdig_ascii : forall c, is_ascii_digit c = true -> isdig c = true.

  Notation py2js := (py2js isdig ver).
  Notation str_isdigit := (str_isdigit isdig).
  Notation enc_list := (enc_list isdig ver).
  Notation enc_dict := (enc_dict isdig ver).

  Definition extends (v : pyval) : Prop :=
    forall r j r', py2js v r = Some (j, r') -> exists ext, r' = r ++ ext.

  Lemma extends_list l :
    Forall extends l -> forall r js r', enc_list l r = Some (js, r') -> exists ext, r' = r ++ ext.
  Proof.
    intros IH. induction IH as [|x xs Hx _ IHxs]; intros r js r' E; cbn in E.
    - inversion E; subst. exists []. now rewrite app_nil_r.
    - destruct (py2js x r) as [[jx r1]|] eqn:E1; [|discriminate].
      destruct (enc_list xs r1) as [[js' r2]|] eqn:E2; [|discriminate]. inversion E; subst.
      destruct (Hx _ _ _ E1) as [e1 ->]. destruct (IHxs _ _ _ E2) as [e2 ->].
      exists (e1 ++ e2). now rewrite app_assoc.
  Qed.

  Lemma extends_dict kvs :
    Forall (fun kv => extends (fst kv) /\ extends (snd kv)) kvs ->
    forall r es r', enc_dict kvs r = Some (es, r') -> exists ext, r' = r ++ ext.
  Proof.
    intros IH. induction IH as [|[k x] rest [Hk Hx] _ IHrest]; intros r es r' E; cbn [SerializerProofs.enc_dict] in E.
    - inversion E; subst. exists []. now rewrite app_nil_r.
    - unfold enc_entry in E. cbn [fst snd] in *. destruct (key_is_dollar k); [discriminate|].
      assert (Hgen : forall r0 key, (exists e0, r0 = r ++ e0) ->
                match py2js x r0 with
                | None => None
                | Some (jx, r1) =>
                    match enc_dict rest r1 with
                    | None => None
                    | Some (es, r2) => Some ((key, jx) :: es, r2)
                    end
                end = Some (es, r') -> exists ext, r' = r ++ ext).
      { intros r0 key [e0 ->] E'. destruct (py2js x (r ++ e0)) as [[jx r1]|] eqn:E1; [|discriminate].
        destruct (enc_dict rest r1) as [[es' r2]|] eqn:E2; [|discriminate]. inversion E'; subst.
        destruct (Hx _ _ _ E1) as [e1 ->]. destruct (IHrest _ _ _ E2) as [e2 ->].
        exists (e0 ++ e1 ++ e2). now rewrite !app_assoc. }
      destruct k as [s|z|b| |l|l|l]; cbn [negb key_kind_ok] in E; try discriminate.
      + destruct (negb (str_isdigit s)).
        * eapply (Hgen r s); [exists []; now rewrite app_nil_r|exact E].
        * eapply (Hgen (r ++ [JStr s])); [eexists; reflexivity|exact E].
      + cbn [Serializer.py2js] in E. eapply (Hgen (r ++ [JInt z])); [eexists; reflexivity|exact E].
      + cbn [Serializer.py2js] in E. eapply (Hgen (r ++ [JBool b])); [eexists; reflexivity|exact E].
      + cbn [Serializer.py2js] in E. eapply (Hgen (r ++ [JNull])); [eexists; reflexivity|exact E].
      + destruct (py2js (PTuple l) r) as [[jk r0]|] eqn:Ek; [|discriminate].
        destruct (Hk _ _ _ Ek) as [e0 ->].
        eapply (Hgen ((r ++ e0) ++ [jk])); [exists (e0 ++ [jk]); now rewrite app_assoc|exact E].
  Qed.

  Lemma extends_all v : extends v.
  Proof.
    induction v as [s|z|b| |l IH|l IH|kvs IH] using pyval_ind'; unfold extends; intros r j r' E;
      try (inversion E; subst; exists []; now rewrite app_nil_r).
    - rewrite py2js_tuple in E. destruct (enc_list l r) as [[js r2]|] eqn:EL; [|discriminate].
      inversion E; subst. eapply extends_list; eassumption.
    - rewrite py2js_list in E. destruct (enc_list l r) as [[js r2]|] eqn:EL; [|discriminate].
      inversion E; subst. eapply extends_list; eassumption.
    - rewrite py2js_dict in E. destruct (enc_dict kvs r) as [[es r2]|] eqn:EL; [|discriminate].
      inversion E; subst. eapply extends_dict; eassumption.
  Qed.

  (* keys of an encoded object *)
  Definition key_shape (kvs : list (pyval * pyval)) (lo hi : nat) (key : text) : Prop :=
    (str_isdigit key = false /\ In (PStr key) (map fst kvs)) \/
    (exists n, key = N_to_dec (N.of_nat n) /\ lo <= n < hi).

  Lemma N_to_dec_inj a b : N_to_dec a = N_to_dec b -> a = b.
  Proof. intros H. apply (f_equal dec_to_N) in H. rewrite !dec_to_N_to_dec in H. congruence. Qed.

  Lemma enc_dict_keys kvs :
    forall r es r', enc_dict kvs r = Some (es, r') ->
      length r <= length r' /\ Forall (key_shape kvs (length r) (length r')) (map fst es).
  Proof.
    induction kvs as [|[k x] rest IH]; intros r es r' E; cbn [SerializerProofs.enc_dict] in E.
    - inversion E; subst. split; [lia|constructor].
    - unfold enc_entry in E. destruct (key_is_dollar k); [discriminate|].
      assert (Hgen : forall r0 key, length r <= length r0 ->
                key_shape ((k, x) :: rest) (length r) (length r0 + 0) key \/
                (str_isdigit key = false /\ k = PStr key) ->
                match py2js x r0 with
                | None => None
                | Some (jx, r1) =>
                    match enc_dict rest r1 with
                    | None => None
                    | Some (es, r2) => Some ((key, jx) :: es, r2)
                    end
                end = Some (es, r') ->
                length r <= length r' /\ Forall (key_shape ((k, x) :: rest) (length r) (length r')) (map fst es)).
      { intros r0 key Hle Hkey E'. destruct (py2js x r0) as [[jx r1]|] eqn:E1; [|discriminate].
        destruct (enc_dict rest r1) as [[es' r2]|] eqn:E2; [|discriminate]. inversion E'; subst.
        destruct (extends_all x _ _ _ E1) as [e1 ->]. destruct (IH _ _ _ E2) as [Hl Hf].
        rewrite app_length in *. split; [lia|]. cbn [map fst]. constructor.
        - destruct Hkey as [[[A B]|[n [A B]]]|[A B]].
          + left. split; assumption.
          + right. exists n. split; [assumption|lia].
          + left. split; [assumption|]. left. cbn. congruence.
        - eapply Forall_impl; [|exact Hf]. intros key' [[A B]|[n [A B]]].
          + left. split; [assumption|]. right. assumption.
          + right. exists n. split; [assumption|]. try rewrite app_length in B. lia. }
      destruct k as [s|z|b| |l|l|l]; cbn [negb key_kind_ok] in E; try discriminate.
      + destruct (str_isdigit s) eqn:Hsd; cbn [negb] in E.
        * eapply (Hgen (r ++ [JStr s])); [rewrite app_length; lia| |exact E].
          left. right. exists (length r). split; [reflexivity|]. rewrite app_length. cbn. lia.
        * eapply (Hgen r s); [lia| |exact E]. right. split; [assumption|reflexivity].
      + cbn [Serializer.py2js] in E. eapply (Hgen (r ++ [JInt z])); [rewrite app_length; lia| |exact E].
        left. right. exists (length r). split; [reflexivity|]. rewrite app_length. cbn. lia.
      + cbn [Serializer.py2js] in E. eapply (Hgen (r ++ [JBool b])); [rewrite app_length; lia| |exact E].
        left. right. exists (length r). split; [reflexivity|]. rewrite app_length. cbn. lia.
      + cbn [Serializer.py2js] in E. eapply (Hgen (r ++ [JNull])); [rewrite app_length; lia| |exact E].
        left. right. exists (length r). split; [reflexivity|]. rewrite app_length. cbn. lia.
      + destruct (py2js (PTuple l) r) as [[jk r0]|] eqn:Ek; [|discriminate].
        destruct (extends_all _ _ _ _ Ek) as [e0 ->].
        (* the refid is length r, taken before the key is encoded *)
        assert (Hgen' : forall r0 key, length r < length r0 ->
                  key = N_to_dec (N.of_nat (length r)) ->
                  match py2js x r0 with
                  | None => None
                  | Some (jx, r1) =>
                      match enc_dict rest r1 with
                      | None => None
                      | Some (es, r2) => Some ((key, jx) :: es, r2)
                      end
                  end = Some (es, r') ->
                  length r <= length r' /\ Forall (key_shape ((PTuple l, x) :: rest) (length r) (length r')) (map fst es)).
        { intros r0 key Hlt -> E'. destruct (py2js x r0) as [[jx r1]|] eqn:E1; [|discriminate].
          destruct (enc_dict rest r1) as [[es' r2]|] eqn:E2; [|discriminate]. inversion E'; subst.
          destruct (extends_all x _ _ _ E1) as [e1 ->]. destruct (IH _ _ _ E2) as [Hl Hf].
          rewrite app_length in *. split; [lia|]. cbn [map fst]. constructor.
          - right. exists (length r). split; [reflexivity|lia].
          - eapply Forall_impl; [|exact Hf]. intros key' [[A B]|[n [A B]]].
            + left. split; [assumption|]. right. assumption.
            + right. exists n. split; [assumption|]. try rewrite app_length in B. lia. }
        eapply (Hgen' ((r ++ e0) ++ [jk])); [rewrite !app_length; cbn; lia|reflexivity|exact E].
  Qed.

  Lemma obj_set_fresh d k v :
    ~ In k (map fst d) -> obj_set d k v = d ++ [(k, v)].
  Proof.
    induction d as [|[k0 v0] d IH]; cbn; [reflexivity|]. intros H.
    destruct (text_eqb_spec k0 k) as [->|Hne]; [exfalso; apply H; now left|].
    rewrite IH; [reflexivity|]. intros Hin. apply H. now right.
  Qed.

  Lemma json_rt_obj_id es :
    NoDup (map fst es) -> Forall (fun kx => json_rt (snd kx) = snd kx) es -> json_rt (JObj es) = JObj es.
  Proof.
    intros Hnd Hf. cbn [json_rt]. f_equal.
    assert (H : forall acc, (forall k, In k (map fst acc) -> In k (map fst es) -> False) ->
              (fix go (kvs acc : list (text * jsval)) {struct kvs} :=
                 match kvs with [] => acc | (k, x) :: rest => go rest (obj_set acc k (json_rt x)) end) es acc
              = acc ++ es).
    { induction es as [|[k x] rest IH]; intros acc Hdis; [now rewrite app_nil_r|].
      inversion Hnd as [|? ? Hnin Hnd']; subst. inversion Hf as [|? ? Hx Hf']; subst. cbn [snd] in Hx.
      rewrite Hx. rewrite obj_set_fresh.
      2:{ intros Hin. apply (Hdis k Hin). now left. }
      rewrite IH; [now rewrite <- app_assoc|assumption|assumption|].
      intros k' Hin1 Hin2. rewrite map_app, in_app_iff in Hin1. destruct Hin1 as [Hin1|[<-|[]]].
      - apply (Hdis k' Hin1). now right.
      - apply Hnin. exact Hin2. }
    rewrite H; [reflexivity|]. intros k [].
  Qed.

  Lemma keys_distinct_str s rest :
    forallb (fun k' => negb (py_eqb (PStr s) k')) rest = true -> ~ In (PStr s) rest.
  Proof.
    intros H Hin. rewrite forallb_forall in H. specialize (H _ Hin). cbn in H.
    rewrite text_eqb_refl in H. discriminate.
  Qed.

  Definition rt_fixed (v : pyval) : Prop :=
    wf_py v = true ->
    forall r j r', py2js v r = Some (j, r') ->
      json_rt j = j /\ (Forall (fun x => json_rt x = x) r -> Forall (fun x => json_rt x = x) r').

  Lemma json_rt_arr_id js : Forall (fun x => json_rt x = x) js -> json_rt (JArr js) = JArr js.
  Proof. intros H. cbn. f_equal. induction H; cbn; [reflexivity|]. congruence. Qed.

  Lemma rt_fixed_list l :
    Forall rt_fixed l -> forallb wf_py l = true ->
    forall r js r', enc_list l r = Some (js, r') ->
      Forall (fun x => json_rt x = x) js /\
      (Forall (fun x => json_rt x = x) r -> Forall (fun x => json_rt x = x) r').
  Proof.
    intros IH. induction IH as [|x xs Hx _ IHxs]; intros Hwf r js r' E; cbn in E.
    - inversion E; subst. split; [constructor|auto].
    - cbn in Hwf. apply andb_true_iff in Hwf as [Hwx Hwxs].
      destruct (py2js x r) as [[jx r1]|] eqn:E1; [|discriminate].
      destruct (enc_list xs r1) as [[js' r2]|] eqn:E2; [|discriminate]. inversion E; subst.
      destruct (Hx Hwx _ _ _ E1) as [A B]. destruct (IHxs Hwxs _ _ _ E2) as [C D].
      split; [constructor; assumption|auto].
  Qed.

  Lemma wrap_rt_id tag js :
    Forall (fun x => json_rt x = x) js -> json_rt (wrap tag js) = wrap tag js.
  Proof.
    intros H. unfold wrap. apply json_rt_obj_id.
    - cbn. constructor; [|constructor; [intros []|constructor]].
      intros [Hin|[]]. unfold s_items, s_dollar in Hin. discriminate.
    - constructor; [reflexivity|]. constructor; [|constructor]. cbn [snd]. apply json_rt_arr_id. exact H.
  Qed.

  Lemma rt_fixed_all v : rt_fixed v.
  Proof.
    induction v as [s|z|b| |l IH|l IH|kvs IH] using pyval_ind'; unfold rt_fixed; intros Hwf r j r' E;
      try (inversion E; subst; split; [reflexivity|auto]).
    - rewrite py2js_tuple in E. destruct (enc_list l r) as [[js r2]|] eqn:EL; [|discriminate].
      inversion E; subst. cbn in Hwf. destruct (rt_fixed_list l IH Hwf _ _ _ EL) as [A B].
      split; [|exact B]. destruct (N.eqb ver 1); [apply wrap_rt_id|apply json_rt_arr_id]; exact A.
    - rewrite py2js_list in E. destruct (enc_list l r) as [[js r2]|] eqn:EL; [|discriminate].
      inversion E; subst. cbn in Hwf. destruct (rt_fixed_list l IH Hwf _ _ _ EL) as [A B].
      split; [|exact B]. destruct (N.eqb ver 2); [apply wrap_rt_id|apply json_rt_arr_id]; exact A.
    - rewrite py2js_dict in E. destruct (enc_dict kvs r) as [[es r2]|] eqn:EL; [|discriminate].
      inversion E; subst j r'. clear E.
      assert (Hwf' : forallb (fun kv => hashable (fst kv) && negb (key_is_dollar (fst kv))) kvs = true
                     /\ keys_distinct (map fst kvs) = true
                     /\ forallb (fun kv => wf_py (snd kv)) kvs = true).
      { cbn in Hwf. apply andb_true_iff in Hwf as [Hwf H3]. apply andb_true_iff in Hwf as [H1 H2].
        split; [exact H1|]. split; [exact H2|]. clear -H3.
        induction kvs as [|[k x] kvs IHk]; [reflexivity|]. cbn. apply andb_true_iff in H3 as [A B].
        rewrite A. cbn. apply IHk. exact B. }
      clear Hwf. destruct Hwf' as [Hk [Hd Hv]].
      assert (H : NoDup (map fst es) /\ Forall (fun kx => json_rt (snd kx) = snd kx) es /\
                (Forall (fun x => json_rt x = x) r -> Forall (fun x => json_rt x = x) r2)).
      { revert r es r2 EL Hk Hd Hv.
        induction IH as [|[k x] rest [Hkk Hx] _ IHrest]; intros r es r2 EL Hk Hd Hv.
        - cbn in EL. inversion EL; subst. split; [constructor|]. split; [constructor|auto].
        - pose proof (enc_dict_keys _ _ _ _ EL) as [Hlen Hshape].
          cbn [SerializerProofs.enc_dict] in EL. unfold enc_entry in EL.
          cbn [forallb fst] in Hk. apply andb_true_iff in Hk as [Hk1 Hk]. apply andb_true_iff in Hk1 as [Hhk Hnd].
          apply negb_true_iff in Hnd. rewrite Hnd in EL.
          cbn [map fst keys_distinct] in Hd. apply andb_true_iff in Hd as [Hd1 Hd].
          cbn [forallb snd] in Hv. apply andb_true_iff in Hv as [Hvx Hv]. cbn [fst snd] in *.
          (* common tail: value encoded against r0, rest against r1 *)
          assert (Hgen : forall r0 key,
                    (Forall (fun x => json_rt x = x) r -> Forall (fun x => json_rt x = x) r0) ->
                    (forall es' r1 r2', enc_dict rest r1 = Some (es', r2') -> length r0 <= length r1 ->
                        ~ In key (map fst es')) ->
                    match py2js x r0 with
                    | None => None
                    | Some (jx, r1) =>
                        match enc_dict rest r1 with
                        | None => None
                        | Some (es, r2) => Some ((key, jx) :: es, r2)
                        end
                    end = Some (es, r2) ->
                    NoDup (map fst es) /\ Forall (fun kx => json_rt (snd kx) = snd kx) es /\
                    (Forall (fun x => json_rt x = x) r -> Forall (fun x => json_rt x = x) r2)).
          { intros r0 key Hr0 Hfresh E'. destruct (py2js x r0) as [[jx r1]|] eqn:E1; [|discriminate].
            destruct (enc_dict rest r1) as [[es' r2']|] eqn:E2; [|discriminate]. inversion E'; subst.
            destruct (Hx Hvx _ _ _ E1) as [A B]. destruct (IHrest _ _ _ E2 Hk Hd Hv) as [C [D F]].
            destruct (extends_all x _ _ _ E1) as [e1 ->].
            split; [|split].
            - cbn [map fst]. constructor; [|exact C]. eapply Hfresh; [exact E2|rewrite app_length; lia].
            - constructor; [exact A|exact D].
            - intros Hr. apply F, B, Hr0, Hr. }
          assert (Hrefkey : forall r0 : list jsval, length r < length r0 ->
                    forall es' r1 r2', enc_dict rest r1 = Some (es', r2') -> length r0 <= length r1 ->
                      ~ In (N_to_dec (N.of_nat (length r))) (map fst es')).
          { intros r0 Hlt es' r1 r2' E2 Hle Hin. destruct (enc_dict_keys _ _ _ _ E2) as [_ Hs].
            rewrite Forall_forall in Hs. destruct (Hs _ Hin) as [[A _]|[n [A B]]].
            - rewrite dec_isdigit in A by exact isdig_ascii. discriminate.
            - apply N_to_dec_inj in A. apply Nnat.Nat2N.inj in A. lia. }
          destruct k as [s|z|b| |l|l|l]; cbn [negb key_kind_ok] in EL; try discriminate.
          + destruct (str_isdigit s) eqn:Hsd; cbn [negb] in EL.
            * eapply (Hgen (r ++ [JStr s])); [| |exact EL].
              { intros Hr. apply Forall_app. split; [exact Hr|constructor; [reflexivity|constructor]]. }
              apply Hrefkey. rewrite app_length. cbn. lia.
            * eapply (Hgen r s); [auto| |exact EL].
              intros es' r1 r2' E2 _ Hin. destruct (enc_dict_keys _ _ _ _ E2) as [_ Hs].
              rewrite Forall_forall in Hs. destruct (Hs _ Hin) as [[_ B]|[n [A _]]].
              -- apply (keys_distinct_str _ _ Hd1 B).
              -- rewrite A in Hsd. rewrite dec_isdigit in Hsd by exact isdig_ascii. discriminate.
          + cbn [Serializer.py2js] in EL. eapply (Hgen (r ++ [JInt z])); [| |exact EL].
            { intros Hr. apply Forall_app. split; [exact Hr|constructor; [reflexivity|constructor]]. }
            apply Hrefkey. rewrite app_length. cbn. lia.
          + cbn [Serializer.py2js] in EL. eapply (Hgen (r ++ [JBool b])); [| |exact EL].
            { intros Hr. apply Forall_app. split; [exact Hr|constructor; [reflexivity|constructor]]. }
            apply Hrefkey. rewrite app_length. cbn. lia.
          + cbn [Serializer.py2js] in EL. eapply (Hgen (r ++ [JNull])); [| |exact EL].
            { intros Hr. apply Forall_app. split; [exact Hr|constructor; [reflexivity|constructor]]. }
            apply Hrefkey. rewrite app_length. cbn. lia.
          + destruct (py2js (PTuple l) r) as [[jk r0]|] eqn:Ek; [|discriminate].
            assert (Hwk : wf_py (PTuple l) = true).
            { clear -Hhk. cbn in Hhk |- *. induction l as [|y l IHl]; [reflexivity|]. cbn in *.
              apply andb_true_iff in Hhk as [A B]. rewrite (IHl B), andb_true_r.
              clear -A. induction y as [s|z|b| |l IH|l IH|kvs IH] using pyval_ind'; try reflexivity; try discriminate.
              cbn in A |- *. induction IH as [|y ys Hy _ IHys]; [reflexivity|]. cbn in *.
              apply andb_true_iff in A as [A1 A2]. rewrite (Hy A1), (IHys A2). reflexivity. }
            destruct (Hkk Hwk _ _ _ Ek) as [Ajk Brk]. destruct (extends_all _ _ _ _ Ek) as [e0 ->].
            eapply (Hgen ((r ++ e0) ++ [jk])); [| |exact EL].
            { intros Hr. apply Forall_app. split; [exact (Brk Hr)|constructor; [exact Ajk|constructor]]. }
            apply Hrefkey. rewrite !app_length. cbn. lia. }
      destruct H as [Hnd [Hf Hr]]. split; [|exact Hr]. apply json_rt_obj_id; assumption.
  Qed.

  Theorem json_text_roundtrip_id v data refs :
    wf_py v = true ->
    python_to_json isdig ver v = Some (data, refs) ->
    json_rt data = data /\ map json_rt refs = refs.
  Proof.
    unfold python_to_json. intros Hwf E. destruct (N.eqb ver 1 || N.eqb ver 2)%bool; [|discriminate].
    destruct (rt_fixed_all v Hwf [] data refs E) as [A B]. split; [exact A|].
    specialize (B (Forall_nil _)). clear E. induction B as [|y ys Hy _ IHys]; cbn [map]; [reflexivity|]. rewrite Hy, IHys. reflexivity.
  Qed.
End JsonText.

(* ------------------------------------------------------------------------------------------------
   The encoder accepts every well-formed value (so the round-trip theorem's hypothesis
   [python_to_json ... = Some ...] is never vacuous). *)
Section Total.
  Variable isdig : N -> bool.
  Variable ver : N.
  Hypothesis isdig_ascii : forall c, is_ascii_digit c = true -> isdig c = true.
  Hypothesis ver_ok : ver = 1%N \/ ver = 2%N.

  Notation py2js := (py2js isdig ver).
  Notation enc_list := (enc_list isdig ver).
  Notation enc_dict := (enc_dict isdig ver).

  Definition accepts (v : pyval) : Prop := wf_py v = true -> forall r, exists j r', py2js v r = Some (j, r').

  Lemma accepts_list l : Forall accepts l -> forallb wf_py l = true -> forall r, exists js r', enc_list l r = Some (js, r').
  Proof.
    intros IH. induction IH as [|x xs Hx _ IHxs]; intros Hwf r; cbn.
    - eauto.
    - cbn in Hwf. apply andb_true_iff in Hwf as [A B]. destruct (Hx A r) as [jx [r1 ->]].
      destruct (IHxs B r1) as [js [r2 ->]]. eauto.
  Qed.

  Lemma accepts_all v : accepts v.
  Proof.
    induction v as [s|z|b| |l IH|l IH|kvs IH] using pyval_ind'; unfold accepts; intros Hwf r; try (cbn; eauto; fail).
    - rewrite py2js_tuple. cbn in Hwf. destruct (accepts_list l IH Hwf r) as [js [r' ->]]. eauto.
    - rewrite py2js_list. cbn in Hwf. destruct (accepts_list l IH Hwf r) as [js [r' ->]]. eauto.
    - rewrite py2js_dict.
      assert (Hwf' : forallb (fun kv => hashable (fst kv) && negb (key_is_dollar (fst kv))) kvs = true
                     /\ forallb (fun kv => wf_py (snd kv)) kvs = true).
      { cbn in Hwf. apply andb_true_iff in Hwf as [Hwf H3]. apply andb_true_iff in Hwf as [H1 H2].
        split; [exact H1|]. clear -H3.
        induction kvs as [|[k x] kvs IHk]; [reflexivity|]. cbn. apply andb_true_iff in H3 as [A B].
        rewrite A. cbn. apply IHk. exact B. }
      clear Hwf. destruct Hwf' as [Hk Hv].
      assert (H : exists es r', enc_dict kvs r = Some (es, r')).
      { revert r. induction IH as [|[k x] rest [_ Hx] _ IHrest]; intros r; cbn [SerializerProofs.enc_dict].
        - eauto.
        - cbn [forallb fst snd] in Hk, Hv. apply andb_true_iff in Hk as [Hk1 Hk]. apply andb_true_iff in Hk1 as [Hhk Hnd].
          apply negb_true_iff in Hnd. apply andb_true_iff in Hv as [Hvx Hv]. cbn [fst snd] in *.
          unfold enc_entry. rewrite Hnd.
          destruct (key_good_all isdig ver ver_ok k Hhk) as [jk [Ek _]].
          assert (Hgen : forall r0 key, exists es r',
                    match py2js x r0 with
                    | None => None
                    | Some (jx, r1) =>
                        match enc_dict rest r1 with
                        | None => None
                        | Some (es, r2) => Some ((key, jx) :: es, r2)
                        end
                    end = Some (es, r')).
          { intros r0 key. destruct (Hx Hvx r0) as [jx [r1 ->]]. destruct (IHrest Hk Hv r1) as [es [r2 ->]]. eauto. }
          destruct k as [s|z|b| |l|l|l]; cbn [negb key_kind_ok]; try discriminate; try apply Hgen.
          + destruct (negb (str_isdigit isdig s)); apply Hgen.
          + rewrite Ek. apply Hgen. }
      destruct H as [es [r' ->]]. eauto.
  Qed.

  Theorem encoder_total v : wf_py v = true -> exists data refs, python_to_json isdig ver v = Some (data, refs).
  Proof.
    intros Hwf. unfold python_to_json.
    assert (N.eqb ver 1 || N.eqb ver 2 = true)%bool as -> by (destruct ver_ok as [-> | ->]; reflexivity).
    apply accepts_all. exact Hwf.
  Qed.
End Total.
