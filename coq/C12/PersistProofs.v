From Coq Require Import List NArith ZArith Bool Lia Arith.
From RopeVerif.Lib Require Import Text.
From RopeVerif.C12 Require Import Serializer SerializerProofs Persist.
Import ListNotations.

Section Ind.
  Variable P : change -> Prop.
  Hypothesis H1 : forall p n o, P (CContents p n o).
  Hypothesis H2 : forall p k q, P (CMove p k q).
  Hypothesis H3 : forall p k, P (CCreate p k).
  Hypothesis H4 : forall p k, P (CRemove p k).
  Hypothesis H5 : forall d cs t, Forall P cs -> P (CSet d cs t).
  Fixpoint change_ind' (c : change) : P c :=
    match c with
    | CContents p n o => H1 p n o | CMove p k q => H2 p k q | CCreate p k => H3 p k | CRemove p k => H4 p k
    | CSet d cs t => H5 d cs t ((fix go l : Forall P l :=
        match l with [] => Forall_nil _ | x :: xs => Forall_cons _ (change_ind' x) (go xs) end) cs)
    end.
End Ind.

Lemma kind_of_is_folder k : kind_of (is_folder k) = k.
Proof. destruct k; reflexivity. Qed.

Section Proofs.
  Variable keep_kind : bool.
  Notation to_data := (to_data keep_kind).
  Notation of_data := (of_data keep_kind).
  Notation reloaded := (reloaded keep_kind).

  Lemma of_data_list_eq ds :
    (fix go (ds : list data) : option (list change) :=
       match ds with
       | [] => Some []
       | x :: xs => match of_data x, go xs with Some c, Some cs => Some (c :: cs) | _, _ => None end
       end) ds = of_data_list keep_kind ds.
  Proof. induction ds as [|x xs IH]; cbn [of_data_list]; [reflexivity|]. rewrite IH. reflexivity. Qed.

  Lemma of_data_set descr ds t :
    of_data (DTuple [DStr t_ChangeSet; DTuple [DStr descr; DList ds; t]]) =
    match of_data_list keep_kind ds, t with
    | Some cs, DFloat b => Some (CSet descr cs (Some b))
    | Some cs, DNone => Some (CSet descr cs None)
    | _, _ => None
    end.
  Proof.
    cbn [Persist.of_data].
    change (text_eqb t_ChangeSet t_ChangeContents) with false.
    change (text_eqb t_ChangeSet t_MoveResource) with false.
    change (text_eqb t_ChangeSet t_CreateResource) with false.
    change (text_eqb t_ChangeSet t_RemoveResource) with false.
    change (text_eqb t_ChangeSet t_ChangeSet) with true. cbv iota.
    rewrite of_data_list_eq. reflexivity.
  Qed.

  Lemma of_to_data c : of_data (to_data c) = Some (reloaded c).
  Proof.
    induction c as [p n o|p k q|p k|p k|d cs t IH] using change_ind'.
    - destruct o; reflexivity.
    - cbn [Persist.to_data Persist.reloaded]. destruct keep_kind eqn:E.
      + cbn [Persist.of_data]. change (text_eqb t_MoveResource t_ChangeContents) with false.
        change (text_eqb t_MoveResource t_MoveResource) with true. cbv iota. rewrite kind_of_is_folder. reflexivity.
      + cbn [Persist.of_data]. reflexivity.
    - cbn. rewrite kind_of_is_folder. reflexivity.
    - cbn. rewrite kind_of_is_folder. reflexivity.
    - cbn [Persist.to_data]. rewrite of_data_set.
      assert (H : of_data_list keep_kind (map to_data cs) = Some (map reloaded cs)).
      { induction IH as [|x xs Hx _ IHxs]; cbn; [reflexivity|]. rewrite Hx, IHxs. reflexivity. }
      rewrite H. destruct t; reflexivity.
  Qed.

  Lemma of_to_data_list cs : of_data_list keep_kind (map to_data cs) = Some (map reloaded cs).
  Proof. induction cs as [|x xs IH]; cbn; [reflexivity|]. rewrite of_to_data, IH. reflexivity. Qed.

  Lemma reloaded_no_folder_move c : no_folder_move c = true -> reloaded c = c.
  Proof.
    induction c as [p n o|p k q|p k|p k|d cs t IH] using change_ind'; intros H; try reflexivity.
    - cbn in *. destruct k; [|discriminate]. destruct keep_kind; reflexivity.
    - cbn in *. f_equal. induction IH as [|x xs Hx _ IHxs]; [reflexivity|]. cbn in *.
      apply andb_true_iff in H as [A B]. rewrite (Hx A), (IHxs B). reflexivity.
  Qed.

  Lemma to_data_reloaded c : to_data (reloaded c) = to_data c.
  Proof.
    induction c as [p n o|p k q|p k|p k|d cs t IH] using change_ind'; try reflexivity.
    - cbn. destruct keep_kind; reflexivity.
    - cbn [Persist.to_data Persist.reloaded].
      assert (H : map to_data (map reloaded cs) = map to_data cs).
      { induction IH as [|x xs Hx _ IHxs]; [reflexivity|]. cbn [map]. rewrite Hx, IHxs. reflexivity. }
      rewrite H. reflexivity.
  Qed.

  Lemma reopen_close limit h :
    reopen keep_kind (close keep_kind limit h) =
    Some {| undo_list := map reloaded (trim limit (undo_list h)); redo_list := map reloaded (redo_list h) |}.
  Proof. unfold reopen, close. rewrite !of_to_data_list. reflexivity. Qed.

  Lemma trim_length limit l : length (trim limit l) <= limit.
  Proof. unfold trim. rewrite skipn_length. lia. Qed.

  Lemma trim_short limit (l : list change) : length l <= limit -> trim limit l = l.
  Proof. unfold trim. intros H. replace (length l - limit) with 0 by lia. reflexivity. Qed.

  Lemma trim_suffix limit l : exists pre, l = pre ++ trim limit l.
  Proof. unfold trim. exists (firstn (length l - limit) l). now rewrite firstn_skipn. Qed.

  Lemma close_reopen_close limit h h' :
    reopen keep_kind (close keep_kind limit h) = Some h' ->
    close keep_kind limit h' = close keep_kind limit h.
  Proof.
    rewrite reopen_close. intros [= <-]. unfold close. cbn [undo_list redo_list].
    rewrite trim_short by (rewrite map_length; apply trim_length).
    rewrite !map_map. f_equal. f_equal; [|f_equal].
    - f_equal. apply map_ext. intros; apply to_data_reloaded.
    - f_equal. apply map_ext. intros; apply to_data_reloaded.
  Qed.
End Proofs.

Lemma reloaded_keep c : reloaded true c = c.
Proof.
  induction c as [p n o|p k q|p k|p k|d cs t IH] using change_ind'; try reflexivity.
  cbn. f_equal. induction IH as [|x xs Hx _ IHxs]; [reflexivity|]. cbn. rewrite Hx, IHxs. reflexivity.
Qed.

Theorem change_data_roundtrip c : of_data true (to_data true c) = Some c.
Proof. rewrite of_to_data, reloaded_keep. reflexivity. Qed.

Theorem change_data_roundtrip_legacy c :
  no_folder_move c = true -> of_data false (to_data false c) = Some c.
Proof. intros H. rewrite of_to_data, reloaded_no_folder_move by exact H. reflexivity. Qed.

Theorem folder_move_reload_refuted :
  exists c, of_data false (to_data false c) <> Some c.
Proof. exists (CMove [100%N] RFolder [101%N]). cbn. discriminate. Qed.

Theorem reopen_lists limit h :
  length (undo_list h) <= limit ->
  reopen true (close true limit h) = Some h.
Proof.
  intros H. rewrite reopen_close, trim_short by exact H. destruct h as [u r]. cbn.
  f_equal. f_equal; (rewrite <- (map_id _) at 1; apply map_ext; intros; apply reloaded_keep) || idtac.
  - rewrite <- (map_id u) at 2. apply map_ext. intros; apply reloaded_keep.
  - rewrite <- (map_id r) at 2. apply map_ext. intros; apply reloaded_keep.
Qed.

Theorem reopen_trimmed limit h :
  reopen true (close true limit h) = Some {| undo_list := trim limit (undo_list h); redo_list := redo_list h |}.
Proof.
  rewrite reopen_close. f_equal. f_equal.
  - rewrite <- (map_id (trim limit (undo_list h))) at 2. apply map_ext. intros; apply reloaded_keep.
  - rewrite <- (map_id (redo_list h)) at 2. apply map_ext. intros; apply reloaded_keep.
Qed.

Section ScopeInfo.
  Variable isdig : N -> bool.
  Hypothesis isdig_ascii : forall c, is_ascii_digit c = true -> isdig c = true.

  Theorem scopeinfo_state ci pn s :
    wf_py ci = true -> wf_py pn = true ->
    getstate isdig ci pn = Some s -> setstate isdig s = Some (ci, pn).
  Proof.
    intros Hc Hp. unfold getstate, setstate.
    destruct (python_to_json isdig 2 (PTuple [ci; pn])) as [[d r]|] eqn:E; [|discriminate].
    intros [= <-]. cbn [st_marker st_data st_refs]. rewrite text_eqb_refl.
    rewrite (serializer_roundtrip isdig 2 isdig_ascii (or_intror eq_refl) (PTuple [ci; pn]) d r); [reflexivity| |exact E].
    cbn. rewrite Hc, Hp. reflexivity.
  Qed.

  Theorem scopeinfo_getstate_total ci pn :
    wf_py ci = true -> wf_py pn = true -> exists s, getstate isdig ci pn = Some s.
  Proof.
    intros Hc Hp. unfold getstate.
    destruct (encoder_total isdig 2 (or_intror eq_refl) (PTuple [ci; pn])) as [d [r ->]]; [|eauto].
    cbn. rewrite Hc, Hp. reflexivity.
  Qed.
End ScopeInfo.

Section ObjectDbProofs.
  Variable isdig : N -> bool.
  Hypothesis isdig_ascii : forall c, is_ascii_digit c = true -> isdig c = true.

  Lemma scopes_roundtrip s :
    wf_scopes s = true -> exists s', save_scopes isdig s = Some s' /\ load_scopes isdig s' = Some s.
  Proof.
    induction s as [|[k [ci pn]] r IH]; cbn; intros H; [eauto|].
    apply andb_true_iff in H as [H1 H2]. apply andb_true_iff in H1 as [Hc Hp]. cbn in Hc, Hp.
    destruct (scopeinfo_getstate_total isdig ci pn Hc Hp) as [st Est]. rewrite Est.
    destruct (IH H2) as [r' [Es El]]. rewrite Es. eexists. split; [reflexivity|].
    cbn. rewrite (scopeinfo_state isdig isdig_ascii ci pn st Hc Hp Est), El. reflexivity.
  Qed.

  Theorem objectdb_roundtrip d :
    wf_db d = true -> exists d', save_db isdig d = Some d' /\ load_db isdig d' = Some d.
  Proof.
    induction d as [|[p s] r IH]; cbn; intros H; [eauto|].
    apply andb_true_iff in H as [H1 H2]. cbn in H1.
    destruct (scopes_roundtrip s H1) as [s' [Es El]]. rewrite Es.
    destruct (IH H2) as [r' [Er Elr]]. rewrite Er. eexists. split; [reflexivity|].
    cbn. rewrite El, Elr. reflexivity.
  Qed.
End ObjectDbProofs.

(* ------------------------------------------------------------------------------------------------
   Ignored resources inside recorded change sets; the empty scope. *)
Lemma data_leaves_to_data keep c : data_leaves (to_data keep c) = map (to_data keep) (leaves c).
Proof.
  induction c as [p n o|p k q|p k|p k|d cs t IH] using change_ind'.
  - destruct o; reflexivity.
  - cbn [to_data leaves map]. destruct keep; reflexivity.
  - reflexivity.
  - reflexivity.
  - cbn [to_data leaves data_leaves]. change (text_eqb t_ChangeSet t_ChangeSet) with true. cbv iota.
    induction IH as [|x xs Hx _ IHxs]; [reflexivity|].
    cbn [map flat_map]. rewrite map_app, Hx, IHxs. reflexivity.
Qed.

Theorem saved_data_keeps_every_leaf keep c :
  data_leaves (to_data keep c) = map (to_data keep) (leaves c) /\
  length (data_leaves (to_data keep c)) = length (leaves c).
Proof. rewrite data_leaves_to_data, map_length. split; reflexivity. Qed.

Theorem reload_keeps_every_leaf (ign : text -> bool) c c' :
  of_data true (to_data true c) = Some c' ->
  leaves c' = leaves c /\ ignored_leaves ign c' = ignored_leaves ign c /\
  changed_paths c' = changed_paths c /\ interesting ign c' = interesting ign c.
Proof. rewrite change_data_roundtrip. intros [= <-]. repeat split. Qed.

Lemma trim_idem limit l : trim limit (trim limit l) = trim limit l.
Proof. apply trim_short, trim_length. Qed.

Lemma trim_snoc limit l (c : change) : 0 < limit -> exists pre, trim limit (l ++ [c]) = pre ++ [c].
Proof.
  intros H. unfold trim. rewrite app_length. cbn [length].
  exists (skipn (length l + 1 - limit) l). rewrite skipn_app.
  replace (length l + 1 - limit - length l) with 0 by lia. reflexivity.
Qed.

(* A change that History.do records is, after close and reopen, the last entry of the undo list and
   is the same change — all its children, those on ignored resources included. *)
Theorem recorded_change_reloads_whole (ign : text -> bool) limit h c :
  interesting ign c = true -> 0 < limit ->
  exists pre, reopen true (close true limit (hist_do ign limit h c)) =
              Some {| undo_list := pre ++ [c]; redo_list := [] |}.
Proof.
  intros Hi Hl. rewrite reopen_trimmed. unfold hist_do. cbn [undo_list redo_list]. rewrite Hi, trim_idem.
  destruct (trim_snoc limit (undo_list h) c Hl) as [pre ->]. exists pre. reflexivity.
Qed.

Theorem ignored_only_change_not_recorded (ign : text -> bool) limit h c :
  interesting ign c = false ->
  hist_do ign limit h c = {| undo_list := undo_list h; redo_list := [] |}.
Proof. intros Hi. unfold hist_do. rewrite Hi. reflexivity. Qed.

(* The scope without facts: its state is a real (non-None) value and restores two empty tables, for
   every digit predicate. *)
Theorem scopeinfo_empty_state (isdig : N -> bool) :
  exists s, getstate isdig (PDict []) (PDict []) = Some s /\
            setstate isdig s = Some (PDict [], PDict []).
Proof. eexists. split; reflexivity. Qed.
