(* Proofs about coq/C12/Sessions.v: closing and reopening between any operations of any number of
   sessions loses nothing of the history. *)
From Coq Require Import List NArith Bool Arith Lia.
From RopeVerif.Lib Require Import Text.
From RopeVerif.C12 Require Import Serializer Persist PersistProofs Sessions.
Import ListNotations.

Lemma rev_cons_length {A} (l : list A) c r : rev l = c :: r -> length l = S (length r).
Proof. intros H. rewrite <- (rev_length l), H. reflexivity. Qed.

Lemma skipn_add {A} a b : forall l : list A, skipn (a + b) l = skipn a (skipn b l).
Proof.
  induction b as [|b IH]; intros l.
  - rewrite Nat.add_0_r. reflexivity.
  - rewrite Nat.add_succ_r. destruct l as [|x l]; [now rewrite !skipn_nil|]. cbn [skipn]. apply IH.
Qed.

Section Proofs.
  Variable ign : text -> bool.
  Variable limit : nat.
  Variable stamp : change -> change.
  Notation sstep := (sstep ign limit stamp).
  Notation live := (live ign limit stamp).
  Notation session := (session ign limit stamp).
  Notation sessions := (sessions ign limit stamp).
  Notation within := (within limit).

  Lemma within_empty : within empty_hist.
  Proof. unfold within. cbn. lia. Qed.

  Lemma within_step h o : within h -> within (sstep h o).
  Proof.
    unfold within. intros H. destruct o as [c| | | |]; cbn [sstep].
    - unfold hist_do. cbn [undo_list redo_list length]. destruct (interesting ign c).
      + pose proof (trim_length limit (undo_list h ++ [c])). lia.
      + lia.
    - unfold hist_undo. destruct (rev (undo_list h)) as [|c r] eqn:E; [exact H|].
      apply rev_cons_length in E. cbn [undo_list redo_list]. rewrite rev_length, app_length. cbn [length]. lia.
    - unfold hist_redo. destruct (rev (redo_list h)) as [|c r] eqn:E; [exact H|].
      apply rev_cons_length in E. cbn [undo_list redo_list]. rewrite rev_length, app_length. cbn [length]. lia.
    - unfold hist_undo_drop. destruct (rev (undo_list h)) as [|c r] eqn:E; [exact H|].
      apply rev_cons_length in E. cbn [undo_list redo_list]. rewrite rev_length. lia.
    - cbn. lia.
  Qed.

  Lemma within_live ops : forall h, within h -> within (live h ops).
  Proof.
    induction ops as [|o ops IH]; intros h H; [exact H|].
    unfold Sessions.live. cbn [fold_left]. apply IH, within_step, H.
  Qed.

  Lemma within_reopen h : within h -> reopen true (close true limit h) = Some h.
  Proof. intros H. apply reopen_lists. unfold Sessions.within in H. lia. Qed.

  Lemma live_app h a b : live h (a ++ b) = live (live h a) b.
  Proof. unfold Sessions.live. apply fold_left_app. Qed.

  (* any number of sessions, any operations in each: what is on disk after the last close is what
     the project that was never closed would write *)
  Theorem sessions_lose_nothing ss : forall h,
    within h ->
    sessions (close true limit h) ss = Some (close true limit (live h (concat ss))).
  Proof.
    induction ss as [|ops rest IH]; intros h H; [reflexivity|].
    cbn [Sessions.sessions concat]. unfold Sessions.session. rewrite (within_reopen h H).
    rewrite (IH _ (within_live ops h H)), live_app. reflexivity.
  Qed.

  (* ... and the next open loads exactly the never-closed project's lists *)
  Theorem sessions_reopen ss h d :
    within h ->
    sessions (close true limit h) ss = Some d ->
    reopen true d = Some (live h (concat ss)).
  Proof.
    intros H. rewrite (sessions_lose_nothing ss h H). intros [= <-].
    apply within_reopen, within_live, H.
  Qed.

  Theorem sessions_from_empty ss :
    exists d, sessions (close true limit empty_hist) ss = Some d /\
              reopen true d = Some (live empty_hist (concat ss)) /\
              within (live empty_hist (concat ss)).
  Proof.
    eexists. split; [apply sessions_lose_nothing, within_empty|]. split.
    - apply within_reopen, within_live, within_empty.
    - apply within_live, within_empty.
  Qed.

  (* Without the invariant (a history longer than max_history_items, e.g. after the limit was
     lowered): for sessions that only do changes, trimming at close commutes with trimming at do. *)
  Lemma trim_app (u v : list change) : trim limit (u ++ v) = trim limit (trim limit u ++ v).
  Proof.
    destruct (le_lt_dec (length u) limit) as [Hle|Hgt].
    - rewrite (trim_short limit u Hle). reflexivity.
    - unfold trim. set (k := length u - limit).
      assert (Hk : length (skipn k u) = limit) by (rewrite skipn_length; unfold k; lia).
      rewrite !app_length, Hk.
      replace (limit + length v - limit) with (length v) by lia.
      replace (length u + length v - limit) with (length v + k) by (unfold k; lia).
      rewrite skipn_add. f_equal. rewrite skipn_app.
      replace (k - length u) with 0 by (unfold k; lia). reflexivity.
  Qed.

  Definition same_saved (h h' : hist) : Prop :=
    trim limit (undo_list h) = trim limit (undo_list h') /\ redo_list h = redo_list h'.

  Lemma same_saved_close h h' : same_saved h h' -> close true limit h = close true limit h'.
  Proof. intros [Hu Hr]. unfold close. rewrite Hu, Hr. reflexivity. Qed.

  Lemma same_saved_do h h' c : same_saved h h' -> same_saved (hist_do ign limit h c) (hist_do ign limit h' c).
  Proof.
    intros [Hu Hr]. unfold same_saved, hist_do. cbn [undo_list redo_list]. split; [|reflexivity].
    destruct (interesting ign c); [|exact Hu].
    rewrite !trim_idem, (trim_app (undo_list h)), (trim_app (undo_list h')), Hu. reflexivity.
  Qed.

  Lemma same_saved_live ops : forall h h',
    forallb only_do ops = true -> same_saved h h' -> same_saved (live h ops) (live h' ops).
  Proof.
    induction ops as [|o ops IH]; intros h h' Ho Hs; [exact Hs|].
    cbn [forallb] in Ho. apply andb_prop in Ho as [Ho Hos].
    unfold Sessions.live. cbn [fold_left]. apply IH; [exact Hos|].
    destruct o; try discriminate Ho. cbn [Sessions.sstep]. apply same_saved_do, Hs.
  Qed.

  Lemma same_saved_trimmed h :
    same_saved {| undo_list := trim limit (undo_list h); redo_list := redo_list h |} h.
  Proof. split; [apply trim_idem|reflexivity]. Qed.

  Theorem do_sessions_lose_nothing ss : forall h,
    forallb (forallb only_do) ss = true ->
    sessions (close true limit h) ss = Some (close true limit (live h (concat ss))).
  Proof.
    induction ss as [|ops rest IH]; intros h Ho; [reflexivity|].
    cbn [forallb] in Ho. apply andb_prop in Ho as [Ho Hos].
    cbn [Sessions.sessions concat]. unfold Sessions.session. rewrite reopen_trimmed.
    rewrite (IH _ Hos), live_app. f_equal.
    apply same_saved_close, same_saved_live.
    - clear -Hos. induction rest as [|r rest IH]; [reflexivity|].
      cbn [forallb concat] in *. apply andb_prop in Hos as [H1 H2]. rewrite forallb_app, H1. cbn. apply IH, H2.
    - apply same_saved_live; [exact Ho|]. apply same_saved_trimmed.
  Qed.
End Proofs.

(* redo does not trim: outside the invariant, a redo makes the live undo list longer than the
   limit, and close then drops an entry the never-closed project still has *)
Theorem redo_beyond_limit_trimmed_at_close :
  exists (ign : text -> bool) limit h ops h',
    ~ within limit h /\
    reopen true (close true limit (live ign limit (fun c => c) h ops)) = Some h' /\
    h' <> live ign limit (fun c => c) h ops.
Proof.
  exists (fun _ => false), 1,
    {| undo_list := [CCreate [97%N] RFile]; redo_list := [CCreate [98%N] RFile] |}, [SRedo].
  eexists. split; [unfold within; cbn; lia|]. split; [vm_compute; reflexivity|]. discriminate.
Qed.
