(* C16 — File.read / write_file / File.write / ChangeContents.do over a byte string.

   File.read():           file_data_to_unicode(read_bytes()) ; remembers self.newlines
                          [since fe48e43: unless the text has no line break and self.newlines is already set]
   _decode_data:          encoding = read_str_coding(data) or "utf-8"; try data.decode(encoding)
                          except (UnicodeError, LookupError): data.decode("latin1")
   write_file(res, text): [since f64a998: if res.newlines is None and res.exists(): res.read()]
                          unicode_to_file_data(text, newlines=res.newlines): replace "\n", look the cookie
                          up IN THE TEXT, encode (default str.encode() = UTF-8); exceptions propagate and
                          nothing is written
   File.write(text):      if text == self.read(): return   else project.do(ChangeContents(self, text))
   ChangeContents.do():   if self.old_contents is None: self.old_contents = self.resource.read()
                          write_file(self.resource, self.new_contents)

   The model is parametrised by the VERSION of rope: [repaired] is the code in /repo now and is what the
   theorems and the correspondence run are about; [legacy] is the code before the first three C16 fixes (f64a998,
   c286168, 2fa467c), [before_fe48e43] the code before the fourth; both are only used by the `_refuted` lemmas that
   document the fixed defects.
   [lookup] stands for codecs.lookup (None = LookupError).  Definitions only. *)
From Coq Require Import List NArith Bool.
From RopeVerif.Lib Require Import Text.
From RopeVerif.C16 Require Import Newlines Codec Cookie.
Import ListNotations.
Local Open Scope N_scope.

Record version := {
  v_cookie_bytes : list N -> option text;     (* read_str_coding(bytes) *)
  v_cookie_text : text -> tcookie;            (* read_str_coding(str), may raise UnicodeEncodeError in legacy *)
  v_detect : bool;                            (* write_file reads the file when File.newlines is None *)
  v_keep : bool                               (* File.read keeps a remembered convention when the text has no line break *)
}.

Definition repaired : version :=
  {| v_cookie_bytes := cookie_of; v_cookie_text := fun t => tcookie_of (cookie_of t); v_detect := true;
     v_keep := true |}.

(* the code between the first three C16 fixes and fe48e43 (only used to document the defect that commit fixed) *)
Definition before_fe48e43 : version :=
  {| v_cookie_bytes := cookie_of; v_cookie_text := fun t => tcookie_of (cookie_of t); v_detect := true;
     v_keep := false |}.

Definition legacy : version :=
  {| v_cookie_bytes := legacy_cookie_bytes; v_cookie_text := legacy_cookie_text; v_detect := false;
     v_keep := false |}.

Inductive wres := WBytes (b : list N) | WSkipped | WLookupError | WEncodeError.

Section Model.
  Variable v : version.
  Variable lookup : text -> option codec.

  (* the codec File.read tries first; None = LookupError *)
  Definition declared_codec (b : list N) : option codec :=
    match v_cookie_bytes v b with
    | None => Some utf8
    | Some name => lookup name
    end.

  Definition decode_data (b : list N) : text :=
    match declared_codec b with
    | Some c => match dec c b with Some t => t | None => b end   (* latin1 fallback: bytes are code points *)
    | None => b
    end.

  (* File.read(): (contents, File.newlines) *)
  Definition from_bytes (b : list N) : text * nl := decode_nl (decode_data b).

  (* unicode_to_file_data(contents, newlines=newlines) *)
  Definition to_bytes (t : text) (newlines : option nl) : wres :=
    let t' := encode_nl t newlines in
    match v_cookie_text v t' with
    | TEncodeError => WEncodeError
    | TName name =>
        match lookup name with
        | None => WLookupError
        | Some c => match enc c t' with Some b => WBytes b | None => WEncodeError end
        end
    | TNone => match enc utf8 t' with Some b => WBytes b | None => WEncodeError end
    end.

  (* write_file(resource, text) on a File object whose newlines attribute is [newlines]; the file exists and
     holds [b] *)
  Definition write_file (b : list N) (newlines : option nl) (t : text) : wres :=
    let newlines' := match newlines with
                     | None => if v_detect v then Some (snd (from_bytes b)) else None
                     | Some n => Some n
                     end in
    to_bytes t newlines'.

  (* ChangeContents(resource, new, old).do() on a File object whose newlines attribute is [newlines] and whose
     bytes on disk are [b] *)
  Definition change_do (b : list N) (newlines : option nl) (new : text) (old : option text) : wres :=
    let newlines' := match old with None => Some (snd (from_bytes b)) | Some _ => newlines end in
    write_file b newlines' new.

  (* File.write(contents) on a File object that has not seen another state of the file (its first action is
     read(); Session.v has the general case) *)
  Definition file_write (b : list N) (contents : text) : wres :=
    if text_eqb contents (fst (from_bytes b)) then WSkipped
    else change_do b (Some (snd (from_bytes b))) contents None.

  (* bytes on disk afterwards *)
  Definition after (b : list N) (r : wres) : list N :=
    match r with WBytes b' => b' | _ => b end.
End Model.
