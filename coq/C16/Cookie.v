(* C16 — PEP 263 cookie detection as rope does it (rope/base/fscommands.py read_str_coding).

   CURRENT code (after the fixes c286168 "take the declared source encoding from the PEP 263 match" and 2fa467c
   "look for the coding line in the first two lines of CR-only files too"):

       for line in re.split(r"\r\n|\r|\n", source, 2)[:2]:
           m = re.match(r"^[ \t\f]*#.*?coding[:=][ \t]*([-_.a-zA-Z0-9]+)", line)
           if m: return m.group(1)
       return None

   modelled by [cookie_of] at the end of this file (the same function on str and on bytes).

   LEGACY code (before those commits), kept as the [legacy] variant of the file model so that the fixed
   defects stay documented by the `_refuted` lemmas; everything named legacy_*, [gate], [find_coding] and the
   side conditions [cookie_clean], [first_coding_is_cookie] belong to it:

   read_str_coding(source):
       for line in source.split("\n", 2)[:2]:
           if re.match(r"^[ \t\f]*#.*?coding[:=][ \t]*([-_.a-zA-Z0-9]+)", line):
               return _find_coding(line)            # also when that returns None
       return None
   _find_coding(text): (str is first encoded as UTF-8) position of the FIRST "coding"; the next byte must be
       ':' or '='; skip bytes b with chr(b).isspace(); take bytes b with chr(b).isalnum() or b in "-_";
       decode them as UTF-8 (a decoding error is swallowed by `except ValueError` -> None).

   The regular expression is a hand-written scanner here ([gate]); since none of the character classes
   overlap with what follows them, "a match exists" is "after leading blanks comes '#', and somewhere
   later 'coding', ':' or '=', blanks, one name character".
   Definitions only; proofs are in CookieProofs.v. *)
From Coq Require Import List NArith Bool.
From RopeVerif.Lib Require Import Text.
From RopeVerif.C16 Require Import Newlines Codec.
Import ListNotations.
Local Open Scope N_scope.

(* ---- source.split("\n", 2)[:2] ---------------------------------------------------------------- *)
Fixpoint take_line (t : text) : text * option text :=
  match t with
  | [] => ([], None)
  | c :: r =>
      if is_lf c then ([], Some r)
      else let (l, rest) := take_line r in (c :: l, rest)
  end.

Definition first_two_lines (t : text) : list text :=
  let (l1, r) := take_line t in
  match r with
  | None => [l1]
  | Some r1 => let (l2, _) := take_line r1 in [l1; l2]
  end.

(* ---- scanners ----------------------------------------------------------------------------------- *)
Fixpoint skip_while (p : N -> bool) (t : text) : text :=
  match t with
  | [] => []
  | c :: r => if p c then skip_while p r else t
  end.

Fixpoint take_while (p : N -> bool) (t : text) : text :=
  match t with
  | [] => []
  | c :: r => if p c then c :: take_while p r else []
  end.

Fixpoint strip_prefix (p t : text) : option text :=
  match p with
  | [] => Some t
  | x :: p' =>
      match t with
      | y :: t' => if N.eqb x y then strip_prefix p' t' else None
      | [] => None
      end
  end.

(* the rest of [t] after the first occurrence of [p]  (t.index(p) + len(p)) *)
Fixpoint find_after (p t : text) : option text :=
  match strip_prefix p t with
  | Some rest => Some rest
  | None => match t with [] => None | _ :: r => find_after p r end
  end.

Definition coding_lit : text := [99; 111; 100; 105; 110; 103].   (* "coding" *)

Definition is_colon_eq (c : N) : bool := N.eqb c 58 || N.eqb c 61.
Definition is_sp_tab (c : N) : bool := N.eqb c 32 || N.eqb c 9.
Definition is_sp_tab_ff (c : N) : bool := N.eqb c 32 || N.eqb c 9 || N.eqb c 12.
(* [-_.a-zA-Z0-9] *)
Definition is_gate_namechar (c : N) : bool :=
  ascii_alnum c || N.eqb c 45 || N.eqb c 95 || N.eqb c 46.

(* "coding[:=][ \t]*[-_.a-zA-Z0-9]" matches at the head of t *)
Definition cookie_here (t : text) : bool :=
  match strip_prefix coding_lit t with
  | Some (x :: r) =>
      is_colon_eq x &&
      match skip_while is_sp_tab r with
      | y :: _ => is_gate_namechar y
      | [] => false
      end
  | _ => false
  end.

Fixpoint cookie_somewhere (t : text) : bool :=
  match t with
  | [] => false
  | _ :: r => cookie_here t || cookie_somewhere r
  end.

(* re.match(CODING_LINE_PATTERN, line) is not None; '.' matches everything but "\n", and a line has none *)
Definition gate (line : text) : bool :=
  match skip_while is_sp_tab_ff line with
  | c :: r => N.eqb c 35 && cookie_somewhere r
  | [] => false
  end.

(* chr(b).isspace() and chr(b).isalnum() for a byte b (b < 256): Latin-1 code points *)
Definition byte_isspace (b : N) : bool :=
  ((9 <=? b) && (b <=? 13)) || ((28 <=? b) && (b <=? 32)) || N.eqb b 133 || N.eqb b 160.
Definition byte_isalnum (b : N) : bool :=
  ascii_alnum b
  || N.eqb b 170 || N.eqb b 178 || N.eqb b 179 || N.eqb b 181 || N.eqb b 185 || N.eqb b 186
  || N.eqb b 188 || N.eqb b 189 || N.eqb b 190
  || ((192 <=? b) && (b <=? 255) && negb (N.eqb b 215) && negb (N.eqb b 247)).
Definition is_find_namechar (b : N) : bool := byte_isalnum b || N.eqb b 45 || N.eqb b 95.

(* _find_coding on a byte string.  `text[start]` raises IndexError when "coding" ends the line; that
   branch yields None here and [find_coding_index_error] tells it apart: CookieProofs.gate_no_index_error
   shows it is never reached from read_str_coding (the gate guarantees two more characters). *)
Definition find_coding (line : list N) : option text :=
  match find_after coding_lit line with
  | Some (x :: r) =>
      if is_colon_eq x
      then utf8_dec (take_while is_find_namechar (skip_while byte_isspace r))
      else None
  | _ => None
  end.

Definition find_coding_index_error (line : list N) : bool :=
  match find_after coding_lit line with
  | Some [] => true
  | _ => false
  end.

(* ---- read_str_coding on bytes and on str --------------------------------------------------------- *)
Fixpoint coding_of_lines_bytes (lines : list (list N)) : option text :=
  match lines with
  | [] => None
  | l :: rest => if gate l then find_coding l else coding_of_lines_bytes rest
  end.

Definition legacy_cookie_bytes (b : list N) : option text := coding_of_lines_bytes (first_two_lines b).

(* on str the line is encoded as UTF-8 before _find_coding; a lone surrogate makes that raise *)
Inductive tcookie := TNone | TName (n : text) | TEncodeError.

Fixpoint coding_of_lines_text (lines : list text) : tcookie :=
  match lines with
  | [] => TNone
  | l :: rest =>
      if gate l then
        match enc utf8 l with
        | Some bytes => match find_coding bytes with Some n => TName n | None => TNone end
        | None => TEncodeError
        end
      else coding_of_lines_text rest
  end.

Definition legacy_cookie_text (t : text) : tcookie := coding_of_lines_text (first_two_lines t).

(* ---- specification side: what PEP 263 / CPython's tokenizer reads from one line ------------------
   group 1 of the same regular expression at its leftmost match: the name after the first position
   where "coding[:=][ \t]*name" matches *)
Fixpoint pep263_scan (t : text) : option text :=
  match t with
  | [] => None
  | _ :: r =>
      if cookie_here t then
        match strip_prefix coding_lit t with
        | Some (_ :: r') => Some (take_while is_gate_namechar (skip_while is_sp_tab r'))
        | _ => None
        end
      else pep263_scan r
  end.

Definition pep263_line (line : text) : option text :=
  match skip_while is_sp_tab_ff line with
  | c :: r => if N.eqb c 35 then pep263_scan r else None
  | [] => None
  end.

(* first line that has a cookie among the first two (rope's loop; CPython additionally wants line 1 to be
   blank or a comment before it looks at line 2) *)
Fixpoint pep263_of_lines (lines : list text) : option text :=
  match lines with
  | [] => None
  | l :: rest => match pep263_line l with Some n => Some n | None => pep263_of_lines rest end
  end.
Definition pep263_bytes (b : list N) : option text := pep263_of_lines (first_two_lines b).

(* ---- side conditions (boolean) ------------------------------------------------------------------- *)
Definition is_ascii_namechar (c : N) : bool := ascii_alnum c || N.eqb c 45 || N.eqb c 95.

(* On this line the text path (UTF-8 of the line) and the bytes path (file bytes) of _find_coding cannot
   differ: if the first "coding" is followed by ':' or '=', then blanks, a name character, and the run of
   ASCII name characters ends at the end of the line or before an ASCII character. *)
Definition cookie_clean_line (l : text) : bool :=
  match find_after coding_lit l with
  | Some (x :: r) =>
      if is_colon_eq x then
        match skip_while is_sp_tab r with
        | y :: r1 =>
            is_gate_namechar y &&
            match skip_while is_ascii_namechar (y :: r1) with
            | [] => true
            | z :: _ => z <? 128
            end
        | [] => false
        end
      else true
  | _ => true
  end.

Definition cookie_clean (t : text) : bool := forallb cookie_clean_line (first_two_lines t).

(* the first occurrence of "coding" on the line is the cookie (excludes the refuted shape) and the name
   has no '.', so that rope's extraction is the regular expression's group *)
Definition first_coding_is_cookie (l : text) : bool :=
  match find_after coding_lit l with
  | Some (x :: r) =>
      is_colon_eq x &&
      match skip_while is_sp_tab r with
      | y :: r1 =>
          is_gate_namechar y &&
          match skip_while is_ascii_namechar (y :: r1) with
          | [] => true
          | z :: _ => (z <? 128) && negb (N.eqb z 46)
          end
      | [] => false
      end
  | _ => true
  end.

(* the declaration as CPython sees it: universal newlines first (bytes level; ASCII-transparent codecs) *)
Definition pep263_universal (b : list N) : option text := pep263_bytes (fst (decode_nl b)).

(* the first two "\n"-lines of P stay the first two lines whatever follows P *)
Definition two_lf (P : text) : bool :=
  match snd (take_line P) with
  | Some r => match snd (take_line r) with Some _ => true | None => false end
  | None => false
  end.

(* ================================================================================================
   CURRENT read_str_coding
   ================================================================================================ *)
(* re.split(r"\r\n|\r|\n", source, 2): one piece and the rest behind the first line break *)
Fixpoint take_line_u (t : text) : text * option text :=
  match t with
  | [] => ([], None)
  | c :: r =>
      if is_cr c then
        match r with
        | d :: r' => if is_lf d then ([], Some r') else ([], Some r)
        | [] => ([], Some r)
        end
      else if is_lf c then ([], Some r)
      else let (l, rest) := take_line_u r in (c :: l, rest)
  end.

Definition first_two_lines_u (t : text) : list text :=
  let (l1, r) := take_line_u t in
  match r with
  | None => [l1]
  | Some r1 => let (l2, _) := take_line_u r1 in [l1; l2]
  end.

(* group 1 of the first of these lines the regular expression matches; [pep263_line] is that group
   (leftmost position where "coding[:=][ \t]*name" matches, the name taken greedily) *)
Definition cookie_of (src : list N) : option text := pep263_of_lines (first_two_lines_u src).

Definition tcookie_of (o : option text) : tcookie := match o with Some n => TName n | None => TNone end.

(* the first two lines of P (any line break) stay the first two lines whatever follows P *)
Definition two_breaks (P : text) : bool :=
  match snd (take_line_u P) with
  | Some r => match snd (take_line_u r) with Some _ => true | None => false end
  | None => false
  end.
