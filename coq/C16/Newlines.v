(* C16 — newline normalisation of rope/base/fscommands.py.

   file_data_to_unicode:   if "\r\n" in result: result = result.replace("\r\n", "\n"); newline = "\r\n"
                           if "\r"   in result: result = result.replace("\r", "\n");   newline = "\r"
   unicode_to_file_data:   if newlines and newlines != "\n": contents = contents.replace("\n", newlines)

   Text is a list of code points.  Definitions only; proofs are in NewlinesProofs.v. *)
From Coq Require Import List NArith Bool.
From RopeVerif.Lib Require Import Text.
Import ListNotations.
Local Open Scope N_scope.

Inductive nl := NlLF | NlCRLF | NlCR.

Definition nl_text (n : nl) : text :=
  match n with NlLF => [10] | NlCRLF => [13; 10] | NlCR => [13] end.

Definition nl_eqb (a b : nl) : bool :=
  match a, b with NlLF, NlLF | NlCRLF, NlCRLF | NlCR, NlCR => true | _, _ => false end.

Definition is_cr (c : N) : bool := N.eqb c 13.
Definition is_lf (c : N) : bool := N.eqb c 10.

(* "\r\n" in t *)
Fixpoint has_crlf (t : text) : bool :=
  match t with
  | [] => false
  | a :: t' =>
      match t' with
      | b :: _ => (is_cr a && is_lf b) || has_crlf t'
      | [] => false
      end
  end.

(* t.replace("\r\n", "\n"): leftmost, non-overlapping *)
Fixpoint repl_crlf (t : text) : text :=
  match t with
  | [] => []
  | a :: t' =>
      match t' with
      | b :: r => if is_cr a && is_lf b then 10 :: repl_crlf r else a :: repl_crlf t'
      | [] => [a]
      end
  end.

Definition has_cr (t : text) : bool := existsb is_cr t.
Definition has_lf (t : text) : bool := existsb is_lf t.

(* t.replace("\r", "\n") *)
Definition repl_cr (t : text) : text := map (fun c => if is_cr c then 10 else c) t.

(* the two cascaded tests of file_data_to_unicode, in the order of the code *)
Definition decode_nl (t : text) : text * nl :=
  let r1 := if has_crlf t then (repl_crlf t, NlCRLF) else (t, NlLF) in
  if has_cr (fst r1) then (repl_cr (fst r1), NlCR) else r1.

(* t.replace("\n", s) *)
Definition subst_lf (s : text) (t : text) : text :=
  flat_map (fun c => if is_lf c then s else [c]) t.

(* [newlines] is File.newlines: None until the first read() of that File object *)
Definition encode_nl (t : text) (newlines : option nl) : text :=
  match newlines with
  | Some NlCRLF => subst_lf [13; 10] t
  | Some NlCR => subst_lf [13] t
  | Some NlLF | None => t
  end.

(* ---- what "a consistent newline convention" means (boolean, evaluated by the harness too) ---- *)

(* every CR is followed by LF and every LF is preceded by CR *)
Fixpoint crlf_ok (t : text) : bool :=
  match t with
  | [] => true
  | a :: t' =>
      if is_cr a then
        match t' with
        | b :: r => is_lf b && crlf_ok r
        | [] => false
        end
      else negb (is_lf a) && crlf_ok t'
  end.

Definition consistentb (n : nl) (t : text) : bool :=
  match n with
  | NlLF => negb (has_cr t)
  | NlCR => negb (has_lf t)
  | NlCRLF => crlf_ok t
  end.

Definition has_break (t : text) : bool := has_cr t || has_lf t.

Definition consistent_any (t : text) : bool :=
  consistentb NlLF t || consistentb NlCRLF t || consistentb NlCR t.
