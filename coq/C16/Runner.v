(* C16 — correspondence runner.  The harness writes, per case, the bytes of the file, the operation, the
   text written and what rope did (File.read(), File.newlines, read_str_coding(bytes), outcome of the write,
   bytes afterwards, File.read() afterwards); the model is evaluated and compared here. *)
From Coq Require Import List NArith Bool.
From RopeVerif.Lib Require Import Text.
From RopeVerif.C16 Require Import Newlines Codec Cookie FileModel.
Import ListNotations.
Local Open Scope N_scope.

Record case := {
  c_bytes : list N;                    (* file on disk before *)
  c_tbls : list (text * list N);       (* single-byte codecs of the case: name as spelled -> 256-entry decoding table *)
  c_unknown : list text;               (* names for which codecs.lookup raises LookupError *)
  c_op : N;                            (* 0 File.write(new); 1 project.do(ChangeContents(fresh File, new));
                                          2 project.do(ChangeContents(fresh File, new, old_contents=read())) *)
  c_new : text;
  c_read : text * N;                   (* impl: File.read(), File.newlines (0 LF, 1 CRLF, 2 CR) *)
  c_cookie : option text;              (* impl: read_str_coding(bytes) *)
  c_pep : option text;                 (* CPython: tokenize.cookie_re group on the first two lines, universal newlines *)
  c_res : N;                           (* impl: 0 written, 1 skipped, 2 LookupError, 3 UnicodeEncodeError *)
  c_after : list N;                    (* impl: bytes on disk afterwards *)
  c_reread : text * N                  (* impl: File.read() / newlines afterwards on a fresh File *)
}.

Definition nl_code (n : nl) : N := match n with NlLF => 0 | NlCRLF => 1 | NlCR => 2 end.

Definition opt_text_eqb (a b : option text) : bool :=
  match a, b with Some x, Some y => text_eqb x y | None, None => true | _, _ => false end.

Fixpoint assoc_text {A} (k : text) (l : list (text * A)) : option A :=
  match l with
  | [] => None
  | (k', v) :: r => if text_eqb k k' then Some v else assoc_text k r
  end.

(* outer None: the model does not know this name (the case is then left to the oracle) *)
Definition case_lookup (c : case) (name : text) : option (option codec) :=
  if existsb (fun x => 128 <=? x) name then None
  else match std_id name with
       | Some i => Some (Some (codec_of_id i))
       | None =>
           match assoc_text name (c_tbls c) with
           | Some tbl => Some (Some (charmap tbl))
           | None => if mem_text name (c_unknown c) then Some None else None
           end
       end.

Definition lk (c : case) (name : text) : option codec :=
  match case_lookup c name with Some r => r | None => None end.

Definition modelled_b (c : case) (o : option text) : bool :=
  match o with None => true | Some n => match case_lookup c n with Some _ => true | None => false end end.
Definition modelled_t (c : case) (o : tcookie) : bool :=
  match o with TName n => match case_lookup c n with Some _ => true | None => false end | _ => true end.

Definition read_eqb (m : text * nl) (i : text * N) : bool :=
  text_eqb (fst m) (fst i) && N.eqb (nl_code (snd m)) (snd i).

Definition res_code (r : wres) : N :=
  match r with WBytes _ => 0 | WSkipped => 1 | WLookupError => 2 | WEncodeError => 3 end.

Definition model_op (c : case) : wres :=
  let b := c_bytes c in
  if N.eqb (c_op c) 0 then file_write repaired (lk c) b (c_new c)
  else if N.eqb (c_op c) 1 then change_do repaired (lk c) b None (c_new c) None
  else change_do repaired (lk c) b None (c_new c) (Some (fst (from_bytes repaired (lk c) b))).

(* newline attribute used by the write of this case *)
Definition op_newlines (c : case) : option nl := Some (snd (from_bytes repaired (lk c) (c_bytes c))).

(* the domain of C16_bytes_roundtrip, as a boolean *)
Definition in_domain (look : text -> option codec) (b : list N) : bool :=
  match declared_codec repaired look b with
  | Some cd =>
      match dec cd b with
      | Some t => match enc cd t with Some b' => text_eqb b' b | None => false end && consistent_any t
      | None => false
      end
  | None => false
  end.

Definition roundtrip_ok (look : text -> option codec) (b : list N) : bool :=
  match to_bytes repaired look (fst (from_bytes repaired look b)) (Some (snd (from_bytes repaired look b))) with
  | WBytes b' => text_eqb b' b
  | _ => false
  end.

(* 0 agree; 1 read; 2 cookie of bytes; 3 outcome of the write; 4 bytes afterwards; 5 read afterwards;
   6 PEP 263 specification function vs CPython's regular expression; 7 theorem conclusion fails inside its
   domain (cannot happen while the proofs check); 9 a single-byte table of the case is
   not ASCII-transparent (CodecProofs.charmap_ok would not apply); 100 codec not modelled *)
Definition run_case (c : case) : N :=
  let b := c_bytes c in
  if negb (modelled_b c (cookie_of b) && modelled_b c (cookie_of (c_after c))
           && modelled_b c (cookie_of (encode_nl (c_new c) (op_newlines c)))) then 100
  else if negb (opt_text_eqb (pep263_universal b) (c_pep c)) then 6
  else if negb (read_eqb (from_bytes repaired (lk c) b) (c_read c)) then 1
  else if negb (opt_text_eqb (cookie_of b) (c_cookie c)) then 2
  else if negb (forallb (fun kv => charmap_table_ok (snd kv)) (c_tbls c)) then 9
  else
    let r := model_op c in
    if negb (N.eqb (res_code r) (c_res c)) then 3
    else if negb (text_eqb (after b r) (c_after c)) then 4
    else if negb (read_eqb (from_bytes repaired (lk c) (c_after c)) (c_reread c)) then 5
    else if in_domain (lk c) b && negb (roundtrip_ok (lk c) b) then 7
    else 0.

Fixpoint mismatches_from (i : N) (cs : list case) : list (N * N) :=
  match cs with
  | [] => []
  | c :: r =>
      let code := run_case c in
      if N.eqb code 0 then mismatches_from (N.succ i) r else (i, code) :: mismatches_from (N.succ i) r
  end.
Definition mismatches (cs : list case) : list (N * N) := mismatches_from 0 cs.

Definition count_in_domain (cs : list case) : N :=
  N.of_nat (length (filter (fun c => in_domain (lk c) (c_bytes c)) cs)).

(* ---- sessions (Session.v): the harness records, after every step, the outcome, the bytes on disk and
   f.newlines of the caller's File object; the whole trace is recomputed here ------------------------------- *)
From RopeVerif.C16 Require Import Session.

Record scase := {
  sc_bytes : list N;
  sc_tbls : list (text * list N);
  sc_unknown : list text;
  sc_soa : bool;                               (* automatic_soa on and a Python file *)
  sc_steps : list step;
  sc_obs : list (N * list N * N)               (* impl: outcome, bytes on disk, f.newlines (3 = None) *)
}.

Definition slk (c : scase) (name : text) : option codec :=
  if existsb (fun x => 128 <=? x) name then None
  else match std_id name with
       | Some i => Some (codec_of_id i)
       | None => match assoc_text name (sc_tbls c) with Some tbl => Some (charmap tbl) | None => None end
       end.

(* first step whose observation differs: 10 * (index + 1) + (1 outcome | 2 bytes | 3 f.newlines); 5 lengths *)
Fixpoint cmp_trace (k : N) (m i : list (N * list N * N)) : N :=
  match m, i with
  | [], [] => 0
  | (o, d, n) :: m', (o', d', n') :: i' =>
      if negb (N.eqb o o') then 10 * k + 1
      else if negb (text_eqb d d') then 10 * k + 2
      else if negb (N.eqb n n') then 10 * k + 3
      else cmp_trace (N.succ k) m' i'
  | _, _ => 5
  end.

Definition run_scase (c : scase) : N :=
  if negb (forallb (fun kv => charmap_table_ok (snd kv)) (sc_tbls c)) then 9
  else cmp_trace 1 (trace repaired (slk c) (sc_soa c) (initial (sc_bytes c)) (sc_steps c)) (sc_obs c).

Fixpoint smismatches_from (i : N) (cs : list scase) : list (N * N) :=
  match cs with
  | [] => []
  | c :: r =>
      let code := run_scase c in
      if N.eqb code 0 then smismatches_from (N.succ i) r else (i, code) :: smismatches_from (N.succ i) r
  end.
Definition smismatches (cs : list scase) : list (N * N) := smismatches_from 0 cs.
