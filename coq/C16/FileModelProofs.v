(* C16 — the theorems about File.read / write_file / ChangeContents for the code in /repo now ([repaired]),
   and the computed refutations for the code before the three C16 fixes ([legacy]). *)
From Coq Require Import List NArith Bool Lia.
From RopeVerif.Lib Require Import Text.
From RopeVerif.C16 Require Import Newlines Codec Cookie FileModel NewlinesProofs CodecProofs CookieProofs.
Import ListNotations.
Local Open Scope N_scope.

Section Proofs.
  Variable lookup : text -> option codec.

  Lemma decode_data_declared b c t :
    codec_ok c -> declared_codec repaired lookup b = Some c -> enc c t = Some b ->
    decode_data repaired lookup b = t.
  Proof. intros Hc Hd He. unfold decode_data. rewrite Hd, (ok_dec_enc c Hc t b He). reflexivity. Qed.

  Lemma to_bytes_codec b c t nl0 :
    declared_codec repaired lookup b = Some c ->
    cookie_of (encode_nl t nl0) = cookie_of b ->
    to_bytes repaired lookup t nl0 =
    match enc c (encode_nl t nl0) with Some x => WBytes x | None => WEncodeError end.
  Proof.
    intros Hd Hck. unfold to_bytes, declared_codec in *. cbn [v_cookie_text v_cookie_bytes repaired] in *.
    rewrite Hck. destruct (cookie_of b) as [name|]; cbn [tcookie_of].
    - rewrite Hd. reflexivity.
    - apply some_inj in Hd. subst c. reflexivity.
  Qed.

  (* Reading a file and writing the same text back leaves its bytes unchanged. *)
  Theorem bytes_roundtrip c t n b :
    codec_ok c ->
    enc c t = Some b ->                                (* the file holds the text t in the encoding c ... *)
    declared_codec repaired lookup b = Some c ->       (* ... which its coding line names, or UTF-8 without one *)
    consistentb n t = true ->                          (* one newline convention *)
    to_bytes repaired lookup (fst (from_bytes repaired lookup b)) (Some (snd (from_bytes repaired lookup b))) = WBytes b
    /\ has_cr (fst (from_bytes repaired lookup b)) = false
    /\ (has_break t = true -> snd (from_bytes repaired lookup b) = n).
  Proof.
    intros Hc He Hd Hn. unfold from_bytes. rewrite (decode_data_declared b c t Hc Hd He).
    destruct (newline_roundtrip n t Hn) as (R1 & R2 & R3 & _). split; [|split; assumption].
    rewrite (to_bytes_codec b c _ _ Hd); rewrite R1; [rewrite He; reflexivity|].
    apply (cookie_of_enc c Hc t b He).
  Qed.

  (* Text written through rope reads back equal. *)
  Theorem text_roundtrip t n b :
    (forall name c, lookup name = Some c -> codec_ok c) ->
    has_cr t = false ->
    to_bytes repaired lookup t (Some n) = WBytes b ->
    from_bytes repaired lookup b = (t, if has_lf t then n else NlLF).
  Proof.
    intros Hlk Hcr. unfold to_bytes, from_bytes, decode_data, declared_codec.
    cbn [v_cookie_text v_cookie_bytes repaired].
    set (t' := encode_nl t (Some n)) in *. rewrite <- (newline_write_read t n Hcr). fold t'.
    destruct (cookie_of t') as [name|] eqn:Ect; cbn [tcookie_of].
    - destruct (lookup name) as [c|] eqn:El; [|discriminate].
      destruct (enc c t') as [b'|] eqn:He; [|discriminate]. intros Hb. injection Hb as ->.
      pose proof (Hlk _ _ El) as Hc. rewrite <- (cookie_of_enc c Hc t' b He), Ect, El, (ok_dec_enc c Hc _ _ He).
      reflexivity.
    - destruct (enc utf8 t') as [b'|] eqn:He; [|discriminate]. intros Hb. injection Hb as ->.
      rewrite <- (cookie_of_enc utf8 utf8_ok t' b He), Ect. cbn [dec utf8]. rewrite (utf8_dec_enc _ _ He). reflexivity.
  Qed.

  (* An edit of one region of the text changes exactly the image of that region in the bytes written. *)
  Theorem edit_preserves_rest p m m' s nl0 b b' :
    to_bytes repaired lookup (p ++ m ++ s) nl0 = WBytes b ->
    to_bytes repaired lookup (p ++ m' ++ s) nl0 = WBytes b' ->
    cookie_of (encode_nl (p ++ m' ++ s) nl0) = cookie_of (encode_nl (p ++ m ++ s) nl0) ->
    exists c bp bm bm' bs,
      b = bp ++ bm ++ bs /\ b' = bp ++ bm' ++ bs
      /\ enc c (encode_nl p nl0) = Some bp /\ enc c (encode_nl s nl0) = Some bs
      /\ enc c (encode_nl m nl0) = Some bm /\ enc c (encode_nl m' nl0) = Some bm'.
  Proof.
    unfold to_bytes. cbn [v_cookie_text repaired]. intros H H' Hck. rewrite Hck in H'. revert H H'.
    assert (forall c x x', enc c (encode_nl (p ++ m ++ s) nl0) = Some x ->
                           enc c (encode_nl (p ++ m' ++ s) nl0) = Some x' ->
            exists bp bm bm' bs, x = bp ++ bm ++ bs /\ x' = bp ++ bm' ++ bs
              /\ enc c (encode_nl p nl0) = Some bp /\ enc c (encode_nl s nl0) = Some bs
              /\ enc c (encode_nl m nl0) = Some bm /\ enc c (encode_nl m' nl0) = Some bm') as Key.
    { intros c x x'. rewrite !encode_nl_app. intros Hx Hx'.
      apply enc_app_inv in Hx as (bp & y & Hp & Hy & ->). apply enc_app_inv in Hy as (bm & bs & Hm & Hs & ->).
      apply enc_app_inv in Hx' as (bp' & y' & Hp' & Hy' & ->). apply enc_app_inv in Hy' as (bm' & bs' & Hm' & Hs' & ->).
      rewrite Hp in Hp'. rewrite Hs in Hs'. apply some_inj in Hp'. apply some_inj in Hs'. subst bp' bs'.
      exists bp, bm, bm', bs. auto 10. }
    destruct (cookie_of (encode_nl (p ++ m ++ s) nl0)) as [name|]; cbn [tcookie_of].
    - destruct (lookup name) as [c|]; [|discriminate].
      destruct (enc c (encode_nl (p ++ m ++ s) nl0)) as [x|] eqn:Ex; [|discriminate].
      destruct (enc c (encode_nl (p ++ m' ++ s) nl0)) as [x'|] eqn:Ex'; [|discriminate].
      intros H H'. injection H as <-. injection H' as <-. exists c. eapply Key; eassumption.
    - destruct (enc utf8 (encode_nl (p ++ m ++ s) nl0)) as [x|] eqn:Ex; [|discriminate].
      destruct (enc utf8 (encode_nl (p ++ m' ++ s) nl0)) as [x'|] eqn:Ex'; [|discriminate].
      intros H H'. injection H as <-. injection H' as <-. exists utf8. eapply Key; eassumption.
  Qed.

  (* ... performed by ChangeContents.do() on a File object that has not read the file yet, WITH OR WITHOUT
     old_contents (without: do() reads; with: write_file reads, fix f64a998), on a file inside the property:
     the rest of the FILE is untouched, the region is written in the file's encoding and newline convention. *)
  Theorem change_preserves_rest c n b p m m' s old b' :
    codec_ok c ->
    enc c (encode_nl (p ++ m ++ s) (Some n)) = Some b ->
    declared_codec repaired lookup b = Some c ->
    has_cr (p ++ m ++ s) = false -> has_lf (p ++ m ++ s) = true ->
    cookie_of (encode_nl (p ++ m' ++ s) (Some n)) = cookie_of (encode_nl (p ++ m ++ s) (Some n)) ->
    change_do repaired lookup b None (p ++ m' ++ s) old = WBytes b' ->
    exists bp bm bm' bs,
      b = bp ++ bm ++ bs /\ b' = bp ++ bm' ++ bs
      /\ enc c (encode_nl p (Some n)) = Some bp /\ enc c (encode_nl s (Some n)) = Some bs
      /\ enc c (encode_nl m (Some n)) = Some bm /\ enc c (encode_nl m' (Some n)) = Some bm'.
  Proof.
    intros Hc He Hd Hcr Hlf Hck. unfold change_do, write_file. cbn [v_detect repaired].
    assert (snd (from_bytes repaired lookup b) = n) as Hn.
    { unfold from_bytes. rewrite (decode_data_declared b c _ Hc Hd He), (newline_write_read _ n Hcr), Hlf. reflexivity. }
    assert (to_bytes repaired lookup (p ++ m' ++ s) (Some n) = WBytes b' ->
            exists bp bm bm' bs,
              b = bp ++ bm ++ bs /\ b' = bp ++ bm' ++ bs
              /\ enc c (encode_nl p (Some n)) = Some bp /\ enc c (encode_nl s (Some n)) = Some bs
              /\ enc c (encode_nl m (Some n)) = Some bm /\ enc c (encode_nl m' (Some n)) = Some bm') as Key.
    { rewrite (to_bytes_codec b c _ _ Hd).
      2:{ rewrite Hck. apply (cookie_of_enc c Hc _ b He). }
      destruct (enc c (encode_nl (p ++ m' ++ s) (Some n))) as [x'|] eqn:Ex'; [|discriminate]. intros H'. injection H' as ->.
      rewrite !encode_nl_app in He, Ex'.
      apply enc_app_inv in He as (bp & y & Hp & Hy & ->). apply enc_app_inv in Hy as (bm & bs & Hm & Hs & ->).
      apply enc_app_inv in Ex' as (bp' & y' & Hp' & Hy' & ->). apply enc_app_inv in Hy' as (bm' & bs' & Hm' & Hs' & ->).
      rewrite Hp in Hp'. rewrite Hs in Hs'. apply some_inj in Hp'. apply some_inj in Hs'. subst bp' bs'.
      exists bp, bm, bm', bs. auto 10. }
    destruct old; rewrite Hn; exact Key.
  Qed.
End Proofs.

(* ---- an edit behind the second line break of the file as written cannot change the declaration ---------- *)
Theorem cookie_behind_header p m m' s nl0 :
  two_breaks (encode_nl p nl0) = true ->
  cookie_of (encode_nl (p ++ m' ++ s) nl0) = cookie_of (encode_nl (p ++ m ++ s) nl0).
Proof.
  intros H. unfold cookie_of. rewrite !(encode_nl_app p), !first_two_lines_u_prefix by assumption. reflexivity.
Qed.

(* ---- the same relative to the PEP 263 declaration as CPython reads it (regular expression's group on the
   first two lines under universal newlines): no side condition is left ----------------------------------- *)
Theorem bytes_roundtrip_pep263 lookup c t n b :
  codec_ok c -> enc c t = Some b ->
  match pep263_universal b with None => c = utf8 | Some name => lookup name = Some c end ->
  consistentb n t = true ->
  to_bytes repaired lookup (fst (from_bytes repaired lookup b)) (Some (snd (from_bytes repaired lookup b))) = WBytes b
  /\ has_cr (fst (from_bytes repaired lookup b)) = false
  /\ (has_break t = true -> snd (from_bytes repaired lookup b) = n).
Proof.
  intros Hc He Hdecl. apply (bytes_roundtrip lookup c t n b); try assumption.
  unfold declared_codec. cbn [v_cookie_bytes repaired]. rewrite (cookie_of_is_pep263 b).
  destruct (pep263_universal b); [exact Hdecl | subst c; reflexivity].
Qed.

(* ---- closed instances: the three codecs implemented here, every other name unknown --------------------- *)
Theorem bytes_roundtrip_std c t n b :
  (c = utf8 \/ c = latin1 \/ c = ascii) ->
  enc c t = Some b -> declared_codec repaired std_lookup b = Some c -> consistentb n t = true ->
  to_bytes repaired std_lookup (fst (from_bytes repaired std_lookup b)) (Some (snd (from_bytes repaired std_lookup b))) = WBytes b
  /\ has_cr (fst (from_bytes repaired std_lookup b)) = false
  /\ (has_break t = true -> snd (from_bytes repaired std_lookup b) = n).
Proof.
  intros Hc. apply bytes_roundtrip. destruct Hc as [->|[->| ->]]; [exact utf8_ok | exact latin1_ok | exact ascii_ok].
Qed.

Theorem text_roundtrip_std t n b :
  has_cr t = false -> to_bytes repaired std_lookup t (Some n) = WBytes b ->
  from_bytes repaired std_lookup b = (t, if has_lf t then n else NlLF).
Proof. apply text_roundtrip. exact std_lookup_ok. Qed.

(* ---- non-vacuity: concrete files inside the hypotheses ----------------------------------------------------
   "# -*- coding: latin-1 -*-\r\ns = 'é'\r\nx = 1" (no final newline), CRLF, Latin-1 *)
Definition ex_text_raw : text :=
  [35;32;45;42;45;32;99;111;100;105;110;103;58;32;108;97;116;105;110;45;49;32;45;42;45;13;10;
   115;32;61;32;39;233;39;13;10;120;32;61;32;49].
Definition ex_text : text := fst (decode_nl ex_text_raw).

Example ex_bytes_roundtrip_hyps :
  enc latin1 ex_text_raw = Some ex_text_raw
  /\ declared_codec repaired std_lookup ex_text_raw = Some latin1
  /\ consistentb NlCRLF ex_text_raw = true
  /\ has_break ex_text_raw = true /\ existsb (fun x => 128 <=? x) ex_text_raw = true.
Proof. vm_compute. repeat split; reflexivity. Qed.

Example ex_text_roundtrip_hyps :
  has_cr ex_text = false /\ to_bytes repaired std_lookup ex_text (Some NlCRLF) = WBytes ex_text_raw.
Proof. vm_compute. repeat split; reflexivity. Qed.

(* an astral character and U+00A0 in a UTF-8 file without declaration, CR-only *)
Definition ex_utf8_text : text := [115;32;61;32;39;128512;160;39;13;120;32;61;32;49;13].
Definition ex_utf8_bytes : list N := Eval vm_compute in match enc utf8 ex_utf8_text with Some b => b | None => [] end.
Example ex_utf8_hyps :
  enc utf8 ex_utf8_text = Some ex_utf8_bytes
  /\ declared_codec repaired std_lookup ex_utf8_bytes = Some utf8 /\ consistentb NlCR ex_utf8_text = true.
Proof.
  split; [vm_compute; reflexivity|]. split; [|vm_compute; reflexivity].
  unfold declared_codec. cbn [v_cookie_bytes repaired].
  assert (cookie_of ex_utf8_bytes = None) as -> by (vm_compute; reflexivity). reflexivity.
Qed.

Definition bytes_of (r : wres) : list N := match r with WBytes b => b | _ => [] end.
Definition some_of (o : option (list N)) : list N := match o with Some b => b | None => [] end.

(* ---- refutations (computed witnesses) ------------------------------------------------------------------- *)
(* mixed newlines do not survive (outside the property: it promises a consistent convention) *)
Theorem mixed_newlines_refuted :
  exists t, encode_nl (fst (decode_nl t)) (Some (snd (decode_nl t))) <> t.
Proof. exists [97; 13; 10; 98; 10]. vm_compute. discriminate. Qed.

(* The three lemmas below are about [legacy] = rope BEFORE the fixes; each is paired with a `_fixed` example
   showing that [repaired] = the code in /repo now does the right thing on the same witness. *)

(* FIXED by c286168.  "# encoding coding: latin-1\nx = 'é'\n" in Latin-1: the declared name (PEP 263) is
   latin-1, legacy rope found none, and ChangeContents.do of the text with one more line wrote UTF-8 *)
Definition refute_cookie_file : list N :=
  [35;32;101;110;99;111;100;105;110;103;32;99;111;100;105;110;103;58;32;108;97;116;105;110;45;49;10;
   120;32;61;32;39;233;39;10].
Definition latin_1_name : text := [108;97;116;105;110;45;49].

Theorem cookie_first_coding_refuted :
  exists b new b' expected,
    pep263_bytes b = Some latin_1_name /\ legacy_cookie_bytes b = None
    /\ forallb first_coding_is_cookie (first_two_lines b) = false
    /\ enc latin1 (fst (from_bytes legacy std_lookup b)) = Some b    (* the file was read correctly (fallback) *)
    /\ new = fst (from_bytes legacy std_lookup b) ++ [121; 10]
    /\ change_do legacy std_lookup b None new None = WBytes b'
    /\ enc latin1 new = Some expected /\ b' <> expected.
Proof.
  exists refute_cookie_file.
  exists (fst (from_bytes legacy std_lookup refute_cookie_file) ++ [121; 10]).
  exists (bytes_of (change_do legacy std_lookup refute_cookie_file None (fst (from_bytes legacy std_lookup refute_cookie_file) ++ [121; 10]) None)).
  exists (some_of (enc latin1 (fst (from_bytes legacy std_lookup refute_cookie_file) ++ [121; 10]))).
  vm_compute. repeat split; try reflexivity. discriminate.
Qed.

Example cookie_first_coding_fixed :
  cookie_of refute_cookie_file = Some latin_1_name
  /\ change_do repaired std_lookup refute_cookie_file None (fst (from_bytes repaired std_lookup refute_cookie_file) ++ [121; 10]) None
     = WBytes (refute_cookie_file ++ [121; 10]).
Proof. vm_compute. split; reflexivity. Qed.

(* FIXED by f64a998.  ChangeContents with old_contents supplied (History reloaded after reopening the project;
   undo/redo) on a fresh File object: File.newlines was None, the CRLF file was rewritten with LF line ends *)
Theorem stale_newlines_refuted :
  exists b old new b1 b2,
    consistentb NlCRLF b = true /\ from_bytes legacy std_lookup b = (old, NlCRLF)
    /\ change_do legacy std_lookup b None new (Some old) = WBytes b1 /\ has_cr b1 = false
    /\ change_do legacy std_lookup b None new None = WBytes b2 /\ consistentb NlCRLF b2 = true /\ has_cr b2 = true.
Proof.
  exists [120; 13; 10; 121; 13; 10], [120; 10; 121; 10], [120; 10; 121; 10; 122; 10].
  exists (bytes_of (change_do legacy std_lookup [120; 13; 10; 121; 13; 10] None [120; 10; 121; 10; 122; 10] (Some [120; 10; 121; 10]))).
  exists (bytes_of (change_do legacy std_lookup [120; 13; 10; 121; 13; 10] None [120; 10; 121; 10; 122; 10] None)).
  vm_compute. repeat split; reflexivity.
Qed.

Example stale_newlines_fixed :
  change_do repaired std_lookup [120; 13; 10; 121; 13; 10] None [120; 10; 121; 10; 122; 10] (Some [120; 10; 121; 10])
  = WBytes [120; 13; 10; 121; 13; 10; 122; 13; 10].
Proof. vm_compute. reflexivity. Qed.

(* FIXED by 2fa467c.  CR-only file "\r# coding: latin-1\rx = 'é'\r": for CPython (universal newlines) line 2
   declares latin-1; legacy read_str_coding split on "\n" only, saw one line starting with "\r", found nothing
   and wrote UTF-8 *)
Definition refute_cr_file : list N :=
  [13;35;32;99;111;100;105;110;103;58;32;108;97;116;105;110;45;49;13;120;32;61;32;39;233;39;13].

Theorem cr_only_declaration_refuted :
  exists b b' expected,
    consistentb NlCR b = true /\ pep263_universal b = Some latin_1_name /\ legacy_cookie_bytes b = None
    /\ change_do legacy std_lookup b None (fst (from_bytes legacy std_lookup b) ++ [121; 10]) None = WBytes b'
    /\ enc latin1 (encode_nl (fst (from_bytes legacy std_lookup b) ++ [121; 10]) (Some NlCR)) = Some expected
    /\ b' <> expected.
Proof.
  exists refute_cr_file.
  exists (bytes_of (change_do legacy std_lookup refute_cr_file None (fst (from_bytes legacy std_lookup refute_cr_file) ++ [121; 10]) None)).
  exists (some_of (enc latin1 (encode_nl (fst (from_bytes legacy std_lookup refute_cr_file) ++ [121; 10]) (Some NlCR)))).
  vm_compute. repeat split; try reflexivity. discriminate.
Qed.

Example cr_only_declaration_fixed :
  cookie_of refute_cr_file = Some latin_1_name
  /\ change_do repaired std_lookup refute_cr_file None (fst (from_bytes repaired std_lookup refute_cr_file) ++ [121; 10]) None
     = WBytes (refute_cr_file ++ [121; 13]).
Proof. vm_compute. split; reflexivity. Qed.

(* ---- the hypothesis "the edit keeps the declaration" of C16_change_preserves_rest is necessary --------------------
   (findings C16-import-above-header / C16-move-takes-header / C16-move-above-blank-header, fixed in the refactorings
   by 0fb88c4 / 495d665 / 40406b4: refactorings whose
   NEW TEXT has the coding line below line 2 or not at all)
   file "#!/bin/sh\n# coding: latin-1\ns = 'é'\n" in Latin-1; new text = "import d\n" + the old text: the declaration
   is on line 3 of the new text, write_file finds none and writes UTF-8 *)
Definition moved_decl_file : list N := [35;33;47;98;105;110;47;115;104;10;35;32;99;111;100;105;110;103;58;32;108;97;116;105;110;45;49;10;115;32;61;32;39;233;39;10].
Definition moved_decl_new : text := [105;109;112;111;114;116;32;100;10;35;33;47;98;105;110;47;115;104;10;35;32;99;111;100;105;110;103;58;32;108;97;116;105;110;45;49;10;115;32;61;32;39;233;39;10].

Theorem edit_moving_declaration_refuted :
  exists b new b' expected,
    declared_codec repaired std_lookup b = Some latin1 /\ enc latin1 (fst (from_bytes repaired std_lookup b)) = Some b
    /\ cookie_of new = None /\ cookie_of b = Some latin_1_name
    /\ change_do repaired std_lookup b None new None = WBytes b'
    /\ enc latin1 new = Some expected /\ b' <> expected.
Proof.
  exists moved_decl_file, moved_decl_new.
  exists (bytes_of (change_do repaired std_lookup moved_decl_file None moved_decl_new None)).
  exists (some_of (enc latin1 moved_decl_new)).
  vm_compute. repeat split; try reflexivity. discriminate.
Qed.
