(* C16 — sessions: several reads / edits / undos / redos / external rewrites on ONE live project.

   What carries state across the steps is the `newlines` attribute of each File OBJECT (rope hands out a new
   File object for every project.get_file(); a ChangeContents keeps the object it was made with, and
   History keeps the ChangeContents):

     File.read()               self.newlines := convention detected in the bytes on disk now
                               [fe48e43: unless the text has no line break and self.newlines is already set]
     write_file(obj, text)     if obj.newlines is None (and the file exists): obj.read()      [f64a998]
                               bytes := unicode_to_file_data(text, newlines=obj.newlines)
                               observers: with automatic_soa and a Python file, pycore's observer calls
                               perform_soa_on_changed_scopes(project, obj, ...) -> obj.read() on the NEW bytes
                               (History.current_change is set during do/undo/redo, so it always runs)
     ChangeContents.do()       if old_contents is None: old_contents = obj.read();  write_file(obj, new)
     ChangeContents.undo()     write_file(obj, old_contents)             (no read)
     History.do / undo / redo  push / move the change between undo_list and redo_list after success
     project close + reopen    history is saved as (path, new, old) and reloaded with fresh File objects
     external rewrite          bytes change; project.validate() does not touch File objects

   Definitions only; proofs are in SessionProofs.v. *)
From Coq Require Import List NArith Bool.
From RopeVerif.Lib Require Import Text.
From RopeVerif.C16 Require Import Newlines Codec Cookie FileModel.
Import ListNotations.
Local Open Scope N_scope.

Definition hentry := (nat * text * text)%type.        (* File object, old_contents, new_contents *)

Record sess := {
  s_disk : list N;
  s_objs : list (option nl);       (* newlines attribute of the File objects; object 0 is the caller's *)
  s_undo : list hentry;            (* head = last done *)
  s_redo : list hentry             (* head = last undone *)
}.

Inductive step :=
| SRead                            (* f.read() on object 0 *)
| SWrite (t : text)                (* f.write(t): File.write on object 0 *)
| SDoFresh (t : text)              (* project.do(ChangeContents(project.get_file(path), t)) *)
| SDoSame (t : text)               (* project.do(ChangeContents(f, t)) *)
| SUndo                            (* project.history.undo() *)
| SRedo                            (* project.history.redo() *)
| SExternal (b : list N)           (* the file is rewritten outside rope; project.validate() *)
| SReopen.                         (* project.close(); Project(root); f = project.get_file(path) *)

(* 0 written, 1 skipped, 2 LookupError, 3 UnicodeEncodeError, 4 read, 5 HistoryError (nothing to undo/redo),
   6 external rewrite, 7 reopened *)
Definition wres_code (r : wres) : N :=
  match r with WBytes _ => 0 | WSkipped => 1 | WLookupError => 2 | WEncodeError => 3 end.

Fixpoint set_nth {A} (l : list A) (i : nat) (x : A) : list A :=
  match l, i with
  | [], _ => []
  | _ :: r, O => x :: r
  | a :: r, S k => a :: set_nth r k x
  end.

Section Session.
  Variable v : version.
  Variable lookup : text -> option codec.
  Variable soa : bool.             (* automatic_soa is on and the file is a Python file *)

  Definition get_obj (s : sess) (i : nat) : option nl := nth i (s_objs s) None.
  Definition with_obj (s : sess) (i : nat) (x : option nl) : sess :=
    {| s_disk := s_disk s; s_objs := set_nth (s_objs s) i x; s_undo := s_undo s; s_redo := s_redo s |}.
  Definition with_disk (s : sess) (b : list N) : sess :=
    {| s_disk := b; s_objs := s_objs s; s_undo := s_undo s; s_redo := s_redo s |}.

  Definition detected (s : sess) : nl := snd (from_bytes v lookup (s_disk s)).

  (* obj.read() *)
  Definition obj_read (s : sess) (i : nat) : sess :=
    with_obj s i
      (match get_obj s i with
       | Some m =>
           if v_keep v && negb (has_lf (fst (from_bytes v lookup (s_disk s)))) then Some m else Some (detected s)
       | None => Some (detected s)
       end).

  (* write_file(obj i, t) while History.current_change is set *)
  Definition obj_write (s : sess) (i : nat) (t : text) : sess * wres :=
    let s1 := match get_obj s i with
              | None => if v_detect v then obj_read s i else s
              | Some _ => s
              end in
    match to_bytes v lookup t (get_obj s1 i) with
    | WBytes b' =>
        let s2 := with_disk s1 b' in
        ((if soa then obj_read s2 i else s2), WBytes b')
    | r => (s1, r)
    end.

  (* project.do(ChangeContents(obj i, t)) *)
  Definition do_change (s : sess) (i : nat) (t : text) : sess * N :=
    let old := fst (from_bytes v lookup (s_disk s)) in
    let s1 := obj_read s i in
    let (s2, r) := obj_write s1 i t in
    match r with
    | WBytes _ =>
        ({| s_disk := s_disk s2; s_objs := s_objs s2; s_undo := (i, old, t) :: s_undo s2; s_redo := [] |}, 0)
    | _ => (s2, wres_code r)
    end.

  Definition renumber (start : nat) (l : list hentry) : list hentry :=
    combine (combine (seq start (length l)) (map (fun e => snd (fst e)) l)) (map (fun e => snd e) l).

  Definition run_step (s : sess) (st : step) : sess * N :=
    match st with
    | SRead => (obj_read s 0, 4)
    | SWrite t =>
        let s1 := obj_read s 0 in
        if text_eqb t (fst (from_bytes v lookup (s_disk s))) then (s1, 1) else do_change s1 0 t
    | SDoFresh t =>
        let i := length (s_objs s) in
        do_change {| s_disk := s_disk s; s_objs := s_objs s ++ [None]; s_undo := s_undo s; s_redo := s_redo s |} i t
    | SDoSame t => do_change s 0 t
    | SUndo =>
        match s_undo s with
        | [] => (s, 5)
        | (i, old, new) :: u =>
            let (s2, r) := obj_write s i old in
            match r with
            | WBytes _ =>
                ({| s_disk := s_disk s2; s_objs := s_objs s2; s_undo := u; s_redo := (i, old, new) :: s_redo s2 |}, 0)
            | _ => (s2, wres_code r)
            end
        end
    | SRedo =>
        match s_redo s with
        | [] => (s, 5)
        | (i, old, new) :: u =>
            let (s2, r) := obj_write s i new in
            match r with
            | WBytes _ =>
                ({| s_disk := s_disk s2; s_objs := s_objs s2; s_undo := (i, old, new) :: s_undo s2; s_redo := u |}, 0)
            | _ => (s2, wres_code r)
            end
        end
    | SExternal b => (with_disk s b, 6)
    | SReopen =>
        let n := (length (s_undo s) + length (s_redo s))%nat in
        ({| s_disk := s_disk s; s_objs := repeat None (S n);
            s_undo := renumber 1 (s_undo s); s_redo := renumber (S (length (s_undo s))) (s_redo s) |}, 7)
    end.

  Fixpoint run_steps (s : sess) (steps : list step) : sess :=
    match steps with
    | [] => s
    | st :: r => run_steps (fst (run_step s st)) r
    end.

  (* what the harness observes after every step: outcome, bytes on disk, f.newlines (3 = None) *)
  Definition nl_opt_code (o : option nl) : N :=
    match o with None => 3 | Some NlLF => 0 | Some NlCRLF => 1 | Some NlCR => 2 end.

  Fixpoint trace (s : sess) (steps : list step) : list (N * list N * N) :=
    match steps with
    | [] => []
    | st :: r =>
        let (s', o) := run_step s st in
        (o, s_disk s', nl_opt_code (get_obj s' 0)) :: trace s' r
    end.
End Session.

Definition initial (b : list N) : sess := {| s_disk := b; s_objs := [None]; s_undo := []; s_redo := [] |}.

(* ---- what a session preserves (statement side of C16_session_preserves) ------------------------------------
   [c], [n], [ck]: the file's codec, newline convention and declaration.  A text is [ok_text] when it can be the
   contents of such a file: CR-free, same declaration, encodable; it is [good] when it also has a line break, so
   that the file shows its convention. *)
Section Invariant.
  Variable lookup : text -> option codec.
  Variable c : codec.
  Variable n : nl.
  Variable ck : option text.

  Definition file_of (t : text) : option (list N) := enc c (encode_nl t (Some n)).

  Definition ok_text (t : text) : Prop :=
    has_cr t = false /\ cookie_of (encode_nl t (Some n)) = ck /\ file_of t <> None.
  Definition good (t : text) : Prop := ok_text t /\ has_lf t = true.

  Definition codec_declared : Prop :=
    match ck with None => c = utf8 | Some name => lookup name = Some c end.

  Definition obj_ok (o : option nl) : Prop := o = None \/ o = Some n.
  (* a history entry refers to an existing File object and holds texts of the file *)
  Definition entry_ok (len : nat) (e : hentry) : Prop :=
    (fst (fst e) < len)%nat /\ ok_text (snd (fst e)) /\ ok_text (snd e).

  Definition session_inv (s : sess) : Prop :=
    (exists T, ok_text T /\ file_of T = Some (s_disk s))
    /\ (0 < length (s_objs s))%nat /\ Forall obj_ok (s_objs s)
    /\ Forall (entry_ok (length (s_objs s))) (s_undo s) /\ Forall (entry_ok (length (s_objs s))) (s_redo s).

  (* the text File.read() returns now, and: File object i has read the file before, or the file shows its
     convention (a File object that never read the file takes the convention from the bytes on disk) *)
  Definition cur_text (s : sess) : text := fst (from_bytes repaired lookup (s_disk s)).
  Definition obj_knows (s : sess) (i : nat) : Prop := get_obj s i = None -> has_lf (cur_text s) = true.

  (* edits write texts of the file (a line break is NOT required); an external rewrite keeps codec, convention
     and declaration and shows the convention; a fresh File object is only used while the file shows it *)
  Definition step_ok (s : sess) (st : step) : Prop :=
    match st with
    | SRead => obj_knows s 0
    | SWrite t | SDoSame t => ok_text t /\ obj_knows s 0
    | SDoFresh t => ok_text t /\ has_lf (cur_text s) = true
    | SUndo => match s_undo s with (i, _, _) :: _ => obj_knows s i | [] => True end
    | SRedo => match s_redo s with (i, _, _) :: _ => obj_knows s i | [] => True end
    | SExternal b => exists T, good T /\ file_of T = Some b
    | SReopen => True
    end.

  Fixpoint steps_ok (soa : bool) (s : sess) (steps : list step) : Prop :=
    match steps with
    | [] => True
    | st :: r => step_ok s st /\ steps_ok soa (fst (run_step repaired lookup soa s st)) r
    end.

  (* static version for one File object: no fresh objects, no reopening *)
  Definition step_single (st : step) : Prop :=
    match st with
    | SWrite t | SDoSame t => ok_text t
    | SExternal b => exists T, good T /\ file_of T = Some b
    | SRead | SUndo | SRedo => True
    | SDoFresh _ | SReopen => False
    end.

  (* the bytes on disk after a step, given the state before it *)
  Definition step_bytes (s : sess) (st : step) (d' : list N) : Prop :=
    match st with
    | SWrite t | SDoFresh t | SDoSame t => file_of t = Some d'
    | SUndo => match s_undo s with (_, old, _) :: _ => file_of old = Some d' | [] => d' = s_disk s end
    | SRedo => match s_redo s with (_, _, new) :: _ => file_of new = Some d' | [] => d' = s_disk s end
    | SExternal b => d' = b
    | SRead | SReopen => d' = s_disk s
    end.
End Invariant.
