(* C16 — codecs.  A (stateless) codec is given by the encoding of one code point and a decoder;
   [enc] of a text is the concatenation, so encoding is a homomorphism by construction.
   Concrete instances: utf8 (strict, as CPython's: no overlong forms, no surrogates, <= U+10FFFF),
   latin1, ascii.  Also the name normalisation of codecs.lookup for the names the cookie scanner
   can produce, and the alias tables of these three codecs.
   Definitions only; the laws are proved in CodecProofs.v. *)
From Coq Require Import List NArith Bool.
From RopeVerif.Lib Require Import Text.
Import ListNotations.
Local Open Scope N_scope.

Record codec := { encc : N -> option (list N); dec : list N -> option text }.

Definition ocons {A} (x : A) (o : option (list A)) : option (list A) :=
  match o with Some l => Some (x :: l) | None => None end.
Definition oapp {A} (x : list A) (o : option (list A)) : option (list A) :=
  match o with Some l => Some (x ++ l) | None => None end.

Fixpoint enc (c : codec) (t : text) : option (list N) :=
  match t with
  | [] => Some []
  | ch :: r =>
      match encc c ch with
      | Some bs => oapp bs (enc c r)
      | None => None
      end
  end.

(* ---- UTF-8 ---------------------------------------------------------------------------------- *)
Definition is_surrogate (cp : N) : bool := (55296 <=? cp) && (cp <? 57344).

Definition utf8_encc (cp : N) : option (list N) :=
  if cp <? 128 then Some [cp]
  else if cp <? 2048 then Some [192 + cp / 64; 128 + cp mod 64]
  else if cp <? 65536 then
    if is_surrogate cp then None
    else Some [224 + cp / 4096; 128 + (cp / 64) mod 64; 128 + cp mod 64]
  else if cp <? 1114112 then
    Some [240 + cp / 262144; 128 + (cp / 4096) mod 64; 128 + (cp / 64) mod 64; 128 + cp mod 64]
  else None.

Definition is_cont (b : N) : bool := (128 <=? b) && (b <? 192).

Fixpoint utf8_dec (b : list N) : option text :=
  match b with
  | [] => Some []
  | b0 :: r0 =>
      if b0 <? 128 then ocons b0 (utf8_dec r0)
      else if b0 <? 194 then None
      else if b0 <? 224 then
        match r0 with
        | b1 :: r1 =>
            if is_cont b1 then ocons ((b0 - 192) * 64 + (b1 - 128)) (utf8_dec r1) else None
        | [] => None
        end
      else if b0 <? 240 then
        match r0 with
        | b1 :: (b2 :: r2) =>
            let cp := (b0 - 224) * 4096 + (b1 - 128) * 64 + (b2 - 128) in
            if is_cont b1 && is_cont b2 && (2048 <=? cp) && negb (is_surrogate cp)
            then ocons cp (utf8_dec r2) else None
        | _ => None
        end
      else if b0 <? 245 then
        match r0 with
        | b1 :: (b2 :: (b3 :: r3)) =>
            let cp := (b0 - 240) * 262144 + (b1 - 128) * 4096 + (b2 - 128) * 64 + (b3 - 128) in
            if is_cont b1 && is_cont b2 && is_cont b3 && (65536 <=? cp) && (cp <? 1114112)
            then ocons cp (utf8_dec r3) else None
        | _ => None
        end
      else None
  end.

Definition utf8 : codec := {| encc := utf8_encc; dec := utf8_dec |}.

(* ---- Latin-1 and ASCII ------------------------------------------------------------------------ *)
Definition latin1_encc (cp : N) : option (list N) := if cp <? 256 then Some [cp] else None.
Definition latin1_dec (b : list N) : option text := if forallb (fun x => x <? 256) b then Some b else None.
Definition latin1 : codec := {| encc := latin1_encc; dec := latin1_dec |}.

Definition ascii_encc (cp : N) : option (list N) := if cp <? 128 then Some [cp] else None.
Definition ascii_dec (b : list N) : option text := if forallb (fun x => x <? 128) b then Some b else None.
Definition ascii : codec := {| encc := ascii_encc; dec := ascii_dec |}.

(* a single-byte "charmap" codec given by its 256-entry decoding table (0 = undefined byte unless index 0):
   cp1252, koi8-r, iso-8859-15, cp1251 ... ; the table of a case is supplied by the harness *)
Fixpoint index_of (x : N) (l : list N) (i : N) : option N :=
  match l with
  | [] => None
  | y :: r => if N.eqb x y then Some i else index_of x r (N.succ i)
  end.
Definition charmap_undefined : N := 1114112.   (* marks an undefined byte in a table *)
Definition charmap_encc (tbl : list N) (cp : N) : option (list N) :=
  if N.eqb cp charmap_undefined then None
  else match index_of cp tbl 0 with Some i => Some [i] | None => None end.
Fixpoint charmap_dec (tbl : list N) (b : list N) : option text :=
  match b with
  | [] => Some []
  | x :: r =>
      match nth_error tbl (N.to_nat x) with
      | Some cp => if N.eqb cp charmap_undefined then None else ocons cp (charmap_dec tbl r)
      | None => None
      end
  end.
Definition charmap (tbl : list N) : codec := {| encc := charmap_encc tbl; dec := charmap_dec tbl |}.

(* ---- codecs.lookup: encodings.normalize_encoding + lower-casing, on ASCII names ----------------- *)
Definition is_upper (c : N) : bool := (65 <=? c) && (c <=? 90).
Definition is_lower (c : N) : bool := (97 <=? c) && (c <=? 122).
Definition is_digit (c : N) : bool := (48 <=? c) && (c <=? 57).
Definition ascii_alnum (c : N) : bool := is_upper c || is_lower c || is_digit c.
Definition lower (c : N) : N := if is_upper c then c + 32 else c.

(* chars: alphanumerics and '.' are kept (lower-cased), every run of other characters becomes one '_',
   leading and trailing runs are dropped *)
Fixpoint norm_go (t : text) (punct started : bool) : text :=
  match t with
  | [] => []
  | c :: r =>
      if ascii_alnum c || N.eqb c 46
      then (if punct && started then [95] else []) ++ lower c :: norm_go r false true
      else norm_go r true started
  end.
Definition norm_name (t : text) : text := norm_go t false false.

Inductive codec_id := IdUtf8 | IdLatin1 | IdAscii.

Definition mem_text (x : text) (l : list text) : bool := existsb (text_eqb x) l.

(* "utf_8" "utf8" "u8" "utf" "utf8_ucs2" "utf8_ucs4" "cp65001" *)
Definition utf8_names : list text :=
  [ [117;116;102;95;56]; [117;116;102;56]; [117;56]; [117;116;102];
    [117;116;102;56;95;117;99;115;50]; [117;116;102;56;95;117;99;115;52]; [99;112;54;53;48;48;49] ].
(* "latin_1" "latin1" "iso_8859_1" "iso8859_1" "8859" "cp819" "csisolatin1" "ibm819" "iso8859"
   "iso_8859_1_1987" "iso_ir_100" "l1" "latin" *)
Definition latin1_names : list text :=
  [ [108;97;116;105;110;95;49]; [108;97;116;105;110;49]; [105;115;111;95;56;56;53;57;95;49];
    [105;115;111;56;56;53;57;95;49]; [56;56;53;57]; [99;112;56;49;57];
    [99;115;105;115;111;108;97;116;105;110;49]; [105;98;109;56;49;57]; [105;115;111;56;56;53;57];
    [105;115;111;95;56;56;53;57;95;49;95;49;57;56;55]; [105;115;111;95;105;114;95;49;48;48];
    [108;49]; [108;97;116;105;110] ].
(* "ascii" "646" "ansi_x3_4_1968" "ansi_x3_4_1986" "cp367" "csascii" "ibm367" "iso646_us" "iso_ir_6" "us" "us_ascii" *)
Definition ascii_names : list text :=
  [ [97;115;99;105;105]; [54;52;54]; [97;110;115;105;95;120;51;95;52;95;49;57;54;56];
    [97;110;115;105;95;120;51;95;52;95;49;57;56;54]; [99;112;51;54;55]; [99;115;97;115;99;105;105];
    [105;98;109;51;54;55]; [105;115;111;54;52;54;95;117;115]; [105;115;111;95;105;114;95;54];
    [117;115]; [117;115;95;97;115;99;105;105];
    (* "ansi_x3.4_1968" "ansi_x3.4_1986" "iso_646.irv_1991": the regular expression's group may contain '.' *)
    [97;110;115;105;95;120;51;46;52;95;49;57;54;56]; [97;110;115;105;95;120;51;46;52;95;49;57;56;54]; [105;115;111;95;54;52;54;46;105;114;118;95;49;57;57;49] ].

Definition std_id (name : text) : option codec_id :=
  let n := norm_name name in
  if mem_text n utf8_names then Some IdUtf8
  else if mem_text n latin1_names then Some IdLatin1
  else if mem_text n ascii_names then Some IdAscii
  else None.

Definition codec_of_id (i : codec_id) : codec :=
  match i with IdUtf8 => utf8 | IdLatin1 => latin1 | IdAscii => ascii end.

(* the lookup used by the closed theorems: the three built-in codecs, every other name is unknown *)
Definition std_lookup (name : text) : option codec := option_map codec_of_id (std_id name).

(* ---- the laws the theorems need from a codec (proved for utf8, latin1, ascii and checked charmap tables in
   CodecProofs.v; hypotheses for every other codec) ---------------------------------------------------------- *)
Record codec_ok (c : codec) : Prop := {
  (* decoding what was encoded gives the text back *)
  ok_dec_enc : forall t b, enc c t = Some b -> dec c b = Some t;
  (* ASCII-transparent: an ASCII code point is the same single byte ... *)
  ok_ascii : forall ch, ch < 128 -> encc c ch = Some [ch];
  (* ... and nothing else maps into the ASCII range *)
  ok_high : forall ch bs, 128 <= ch -> encc c ch = Some bs -> bs <> [] /\ Forall (fun x => 128 <= x) bs
}.

(* a decoding table for which [charmap] is such a codec: its first 128 entries are the identity (then the
   first index of an ASCII code point is itself and every other code point sits at an index >= 128) *)
Fixpoint N_seq (start : N) (len : nat) : list N :=
  match len with O => [] | S k => start :: N_seq (N.succ start) k end.
Definition charmap_table_ok (tbl : list N) : bool := text_eqb (firstn 128 tbl) (N_seq 0 128).
