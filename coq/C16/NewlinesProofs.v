(* C16 — proofs about newline normalisation. *)
From Coq Require Import List NArith Bool Lia.
From RopeVerif.Lib Require Import Text.
From RopeVerif.C16 Require Import Newlines.
Import ListNotations.
Local Open Scope N_scope.

Lemma list_ind2 (P : text -> Prop) :
  P [] -> (forall a, P [a]) -> (forall a b r, P r -> P (b :: r) -> P (a :: b :: r)) -> forall l, P l.
Proof.
  intros H0 H1 H2 l. assert (P l /\ forall a, P (a :: l)) as [H _]; [|exact H].
  induction l as [|b r [IH1 IH2]]; split; auto.
Qed.

Lemma is_cr_lf c : is_cr c = true -> is_lf c = false.
Proof. unfold is_cr, is_lf. intros H. apply N.eqb_eq in H. subst. reflexivity. Qed.
Lemma is_lf_cr c : is_lf c = true -> is_cr c = false.
Proof. unfold is_cr, is_lf. intros H. apply N.eqb_eq in H. subst. reflexivity. Qed.
Lemma is_cr_eq c : is_cr c = true -> c = 13.
Proof. apply N.eqb_eq. Qed.
Lemma is_lf_eq c : is_lf c = true -> c = 10.
Proof. apply N.eqb_eq. Qed.

Lemma subst_lf_app s a b : subst_lf s (a ++ b) = subst_lf s a ++ subst_lf s b.
Proof. apply flat_map_app. Qed.

Lemma encode_nl_app a b n : encode_nl (a ++ b) n = encode_nl a n ++ encode_nl b n.
Proof. destruct n as [[| |]|]; cbn [encode_nl]; auto using subst_lf_app. Qed.

Lemma subst_lf_cons s c t : subst_lf s (c :: t) = (if is_lf c then s else [c]) ++ subst_lf s t.
Proof. reflexivity. Qed.

(* ---- no CR at all ---- *)
Lemma no_cr_no_crlf t : has_cr t = false -> has_crlf t = false.
Proof.
  induction t as [|a t IH]; [reflexivity|]. unfold has_cr in *. cbn [existsb has_crlf].
  intros H. apply orb_false_iff in H as [Ha Ht]. destruct t as [|b r]; [reflexivity|].
  rewrite Ha. cbn [andb orb]. apply IH, Ht.
Qed.

Lemma has_crlf_cons a b r : has_crlf (a :: b :: r) = (is_cr a && is_lf b) || has_crlf (b :: r).
Proof. reflexivity. Qed.
Lemma repl_crlf_cons a b r :
  repl_crlf (a :: b :: r) = if is_cr a && is_lf b then 10 :: repl_crlf r else a :: repl_crlf (b :: r).
Proof. reflexivity. Qed.
Lemma crlf_ok_cons a t :
  crlf_ok (a :: t) = if is_cr a then match t with b :: r => is_lf b && crlf_ok r | [] => false end
                     else negb (is_lf a) && crlf_ok t.
Proof. reflexivity. Qed.

Lemma no_lf_no_crlf t : has_lf t = false -> has_crlf t = false.
Proof.
  induction t as [|a|a b r _ IH] using list_ind2; try reflexivity.
  unfold has_lf in *. cbn [existsb]. intros H.
  apply orb_false_iff in H as [Ha H]. pose proof H as H'. cbn [existsb] in IH.
  apply orb_false_iff in H as [Hb Hr]. rewrite has_crlf_cons, Hb, andb_false_r. cbn [orb]. apply IH, H'.
Qed.

(* ---- CR only ---- *)
Lemma cr_roundtrip t : has_lf t = false -> subst_lf [13] (repl_cr t) = t /\ has_cr (repl_cr t) = false.
Proof.
  induction t as [|a t IH]; [split; reflexivity|]. unfold has_lf, has_cr, repl_cr in *. cbn [existsb map].
  intros H. apply orb_false_iff in H as [Ha Ht]. destruct (IH Ht) as [I1 I2].
  rewrite subst_lf_cons. cbn [existsb]. destruct (is_cr a) eqn:Ea.
  - change (is_lf 10) with true. change (is_cr 10) with false. cbn [app orb].
    apply is_cr_eq in Ea. subst a. split; [f_equal; exact I1 | exact I2].
  - rewrite Ha, Ea. cbn [app orb]. split; [f_equal; exact I1 | exact I2].
Qed.

(* ---- CRLF ---- *)
Lemma crlf_ok_roundtrip t :
  crlf_ok t = true -> subst_lf [13; 10] (repl_crlf t) = t /\ has_cr (repl_crlf t) = false.
Proof.
  induction t as [|a|a b r IHr IHbr] using list_ind2.
  - split; reflexivity.
  - rewrite crlf_ok_cons. destruct (is_cr a) eqn:Ea; [discriminate|]. rewrite andb_true_r.
    intros H. apply negb_true_iff in H. cbn [repl_crlf]. unfold has_cr. cbn [existsb].
    rewrite subst_lf_cons, H, Ea. split; reflexivity.
  - rewrite crlf_ok_cons, repl_crlf_cons. destruct (is_cr a) eqn:Ea.
    + intros H. apply andb_true_iff in H as [Hb Hr]. rewrite Hb. cbn [andb].
      destruct (IHr Hr) as [I1 I2]. rewrite subst_lf_cons. change (is_lf 10) with true.
      apply is_cr_eq in Ea. apply is_lf_eq in Hb. subst a b. cbn [app]. unfold has_cr in *. cbn [existsb].
      change (is_cr 10) with false. cbn [orb]. split; [do 2 f_equal; exact I1 | exact I2].
    + intros H. apply andb_true_iff in H as [Ha Hbr]. apply negb_true_iff in Ha. cbn [andb].
      destruct (IHbr Hbr) as [I1 I2]. rewrite subst_lf_cons, Ha. cbn [app]. unfold has_cr in *. cbn [existsb].
      rewrite Ea. cbn [orb]. split; [f_equal; exact I1 | exact I2].
Qed.

Lemma crlf_ok_no_crlf t : crlf_ok t = true -> has_crlf t = false -> has_cr t = false /\ has_lf t = false.
Proof.
  induction t as [|a|a b r IHr IHbr] using list_ind2.
  - split; reflexivity.
  - rewrite crlf_ok_cons. destruct (is_cr a) eqn:Ea; [discriminate|]. rewrite andb_true_r.
    intros H _. apply negb_true_iff in H. unfold has_cr, has_lf. cbn [existsb]. rewrite H, Ea. split; reflexivity.
  - rewrite crlf_ok_cons, has_crlf_cons. destruct (is_cr a) eqn:Ea.
    + intros H. apply andb_true_iff in H as [Hb _]. rewrite Hb. cbn. discriminate.
    + intros H. apply andb_true_iff in H as [Ha Hbr]. apply negb_true_iff in Ha. cbn [andb orb]. intros Hc.
      destruct (IHbr Hbr Hc) as [I1 I2]. unfold has_cr, has_lf in *. cbn [existsb] in *.
      rewrite Ea, Ha. cbn [orb]. split; assumption.
Qed.

Lemma crlf_ok_has_crlf t : crlf_ok t = true -> has_crlf t = has_cr t.
Proof.
  induction t as [|a|a b r IHr IHbr] using list_ind2.
  - reflexivity.
  - rewrite crlf_ok_cons. destruct (is_cr a) eqn:Ea; [discriminate|]. intros _.
    unfold has_cr. cbn. rewrite Ea. reflexivity.
  - rewrite crlf_ok_cons, has_crlf_cons. unfold has_cr in *. cbn [existsb] in *. destruct (is_cr a) eqn:Ea.
    + intros H. apply andb_true_iff in H as [Hb _]. rewrite Hb. reflexivity.
    + intros H. apply andb_true_iff in H as [_ Hbr]. cbn [andb orb]. apply IHbr, Hbr.
Qed.

Lemma crlf_ok_lf_cr t : crlf_ok t = true -> has_lf t = true -> has_cr t = true.
Proof.
  induction t as [|a|a b r IHr IHbr] using list_ind2.
  - discriminate.
  - rewrite crlf_ok_cons. unfold has_lf, has_cr. cbn [existsb]. destruct (is_cr a) eqn:Ea; [discriminate|].
    intros H. apply andb_true_iff in H as [H _]. apply negb_true_iff in H. rewrite H. discriminate.
  - rewrite crlf_ok_cons. unfold has_lf, has_cr in *. cbn [existsb] in *. destruct (is_cr a) eqn:Ea; [reflexivity|].
    intros H. apply andb_true_iff in H as [Ha Hbr]. apply negb_true_iff in Ha. rewrite Ha. cbn [orb].
    apply IHbr, Hbr.
Qed.

(* ---- the round trip read -> write of the newline layer ---- *)
Theorem newline_roundtrip n t :
  consistentb n t = true ->
  encode_nl (fst (decode_nl t)) (Some (snd (decode_nl t))) = t
  /\ has_cr (fst (decode_nl t)) = false
  /\ (has_break t = true -> snd (decode_nl t) = n)
  /\ (has_break t = false -> decode_nl t = (t, NlLF)).
Proof.
  unfold decode_nl, has_break. destruct n; cbn [consistentb]; intros H.
  - apply negb_true_iff in H. rewrite (no_cr_no_crlf _ H). cbn [fst snd]. rewrite H. cbn [fst snd encode_nl].
    repeat split; auto.
  - destruct (has_crlf t) eqn:Ec; cbn [fst snd].
    + destruct (crlf_ok_roundtrip _ H) as [R1 R2]. rewrite R2. cbn [fst snd encode_nl].
      rewrite (crlf_ok_has_crlf _ H) in Ec. rewrite Ec. repeat split; auto. discriminate.
    + destruct (crlf_ok_no_crlf _ H Ec) as [N1 N2]. rewrite N1, N2. cbn [fst snd encode_nl].
      repeat split; auto. discriminate.
  - apply negb_true_iff in H. rewrite (no_lf_no_crlf _ H). cbn [fst snd]. rewrite H.
    destruct (has_cr t) eqn:Ec; cbn [fst snd encode_nl orb].
    + destruct (cr_roundtrip _ H) as [R1 R2]. repeat split; auto. discriminate.
    + unfold has_cr in Ec. repeat split; auto. discriminate.
Qed.

(* ---- the converse: only consistent texts survive ---- *)
Lemma subst_cr_no_lf t : has_lf (subst_lf [13] t) = false.
Proof.
  induction t as [|a t IH]; [reflexivity|]. rewrite subst_lf_cons. unfold has_lf in *.
  rewrite existsb_app, IH, orb_false_r. destruct (is_lf a) eqn:E; cbn; [reflexivity|]. rewrite E. reflexivity.
Qed.

Lemma subst_crlf_ok t : has_cr t = false -> crlf_ok (subst_lf [13; 10] t) = true.
Proof.
  induction t as [|a t IH]; [reflexivity|]. unfold has_cr in *. cbn [existsb]. intros H.
  apply orb_false_iff in H as [Ha Ht]. rewrite subst_lf_cons. destruct (is_lf a) eqn:E; cbn [app].
  - rewrite crlf_ok_cons. change (is_cr 13) with true. cbn iota. change (is_lf 10) with true. cbn [andb].
    apply IH, Ht.
  - rewrite crlf_ok_cons, Ha, E. cbn [negb andb]. apply IH, Ht.
Qed.

Theorem newline_roundtrip_only_if t :
  encode_nl (fst (decode_nl t)) (Some (snd (decode_nl t))) = t -> consistent_any t = true.
Proof.
  unfold decode_nl, consistent_any. cbn [consistentb].
  destruct (has_crlf t) eqn:Ec; cbn [fst snd].
  - destruct (has_cr (repl_crlf t)) eqn:Er; cbn [fst snd encode_nl]; intros H.
    + assert (has_lf t = false) as -> by (rewrite <- H; apply subst_cr_no_lf). cbn. apply orb_true_r.
    + assert (crlf_ok t = true) as -> by (rewrite <- H; apply subst_crlf_ok, Er). rewrite orb_true_r. reflexivity.
  - destruct (has_cr t) eqn:Er; cbn [fst snd encode_nl]; intros H.
    + assert (has_lf t = false) as -> by (rewrite <- H; apply subst_cr_no_lf). cbn. apply orb_true_r.
    + reflexivity.
Qed.

(* ---- the round trip write -> read of the newline layer ---- *)
Lemma subst_crlf_decode t :
  has_cr t = false ->
  has_crlf (subst_lf [13; 10] t) = has_lf t /\ repl_crlf (subst_lf [13; 10] t) = t.
Proof.
  induction t as [|a t IH]; [split; reflexivity|]. unfold has_cr, has_lf in *. cbn [existsb]. intros H.
  apply orb_false_iff in H as [Ha Ht]. destruct (IH Ht) as [I1 I2]. rewrite subst_lf_cons.
  destruct (is_lf a) eqn:E; cbn [app orb].
  - rewrite has_crlf_cons, repl_crlf_cons. change (is_cr 13 && is_lf 10) with true. cbn [orb].
    apply is_lf_eq in E. subst a. split; [reflexivity | f_equal; exact I2].
  - destruct (subst_lf [13; 10] t) as [|b r] eqn:Es.
    + cbn [has_crlf repl_crlf]. split; [exact I1 | f_equal; exact I2].
    + rewrite has_crlf_cons, repl_crlf_cons, Ha. cbn [andb orb]. split; [exact I1 | f_equal; exact I2].
Qed.

Lemma subst_cr_decode t :
  has_cr t = false -> has_cr (subst_lf [13] t) = has_lf t /\ repl_cr (subst_lf [13] t) = t.
Proof.
  induction t as [|a t IH]; [split; reflexivity|]. unfold has_cr, has_lf, repl_cr in *. cbn [existsb]. intros H.
  apply orb_false_iff in H as [Ha Ht]. destruct (IH Ht) as [I1 I2]. rewrite subst_lf_cons.
  rewrite existsb_app, map_app, I1, I2. destruct (is_lf a) eqn:E; cbn [existsb map app orb].
  - change (is_cr 13) with true. cbn [orb]. apply is_lf_eq in E. subst a. split; reflexivity.
  - rewrite Ha. cbn [orb]. split; reflexivity.
Qed.

Lemma subst_lf_id s t : has_lf t = false -> subst_lf s t = t.
Proof.
  induction t as [|a t IH]; [reflexivity|]. unfold has_lf in *. cbn [existsb]. intros El.
  apply orb_false_iff in El as [Ea Et]. rewrite subst_lf_cons, Ea, (IH Et). reflexivity.
Qed.

Theorem newline_write_read t n :
  has_cr t = false ->
  decode_nl (encode_nl t (Some n)) = (t, if has_lf t then n else NlLF).
Proof.
  intros H. unfold decode_nl. destruct n; cbn [encode_nl].
  - rewrite (no_cr_no_crlf _ H). cbn [fst]. rewrite H. destruct (has_lf t); reflexivity.
  - destruct (subst_crlf_decode _ H) as [D1 D2]. rewrite D1, D2. destruct (has_lf t) eqn:El; cbn [fst].
    + rewrite H. reflexivity.
    + rewrite (subst_lf_id _ _ El), H. reflexivity.
  - rewrite (no_lf_no_crlf _ (subst_cr_no_lf t)). cbn [fst]. destruct (subst_cr_decode _ H) as [D1 D2].
    rewrite D1, D2. destruct (has_lf t) eqn:El; [reflexivity|]. rewrite (subst_lf_id _ _ El). reflexivity.
Qed.
