(* C16 — a whole session keeps the file's encoding, newline convention and declaration. *)
From Coq Require Import List NArith Bool Lia PeanoNat.
From RopeVerif.Lib Require Import Text.
From RopeVerif.C16 Require Import Newlines Codec Cookie FileModel Session
  NewlinesProofs CodecProofs CookieProofs FileModelProofs.
Import ListNotations.
Local Open Scope N_scope.

Lemma set_nth_forall {A} (P : A -> Prop) (l : list A) i x : Forall P l -> P x -> Forall P (set_nth l i x).
Proof.
  intros Hl Hx. revert i. induction Hl as [|a l Ha Hl IH]; intros i; [constructor|].
  destruct i; cbn [set_nth]; constructor; auto.
Qed.

Lemma set_nth_length {A} (l : list A) i x : length (set_nth l i x) = length l.
Proof. revert i. induction l as [|a l IH]; intros i; [reflexivity|]. destruct i; cbn [set_nth length]; auto. Qed.

Lemma nth_set_nth {A} (l : list A) i x d : (i < length l)%nat -> nth i (set_nth l i x) d = x.
Proof.
  revert i. induction l as [|a l IH]; intros i H; cbn [length] in H; [lia|].
  destruct i; cbn [set_nth nth]; [reflexivity|]. apply IH. lia.
Qed.

Lemma nth_forall {A} (P : A -> Prop) (l : list A) i d : Forall P l -> P d -> P (nth i l d).
Proof.
  intros Hl Hd. revert i. induction Hl as [|a l Ha Hl IH]; intros i; destruct i; cbn [nth]; auto.
Qed.

Lemma renumber_cons k e l :
  renumber k (e :: l) = (k, snd (fst e), snd e) :: renumber (S k) l.
Proof. reflexivity. Qed.

Ltac split5 := split; [|split; [|split; [|split]]].

Section Proofs.
  Variable lookup : text -> option codec.
  Variable soa : bool.
  Variable c : codec.
  Variable n : nl.
  Variable ck : option text.
  Hypothesis Hc : codec_ok c.
  Hypothesis Hdecl : codec_declared lookup c ck.

  Notation good := (good c n ck).
  Notation file_of := (file_of c n).
  Notation obj_ok := (obj_ok n).
  Notation entry_ok := (entry_ok c n ck).
  Notation inv := (session_inv c n ck).

  Lemma declared_of T d : good T -> file_of T = Some d -> declared_codec repaired lookup d = Some c.
  Proof.
    intros (_ & _ & Hck & _) Hd. unfold declared_codec. cbn [v_cookie_bytes repaired].
    rewrite <- (cookie_of_enc c Hc _ d Hd), Hck. unfold codec_declared in Hdecl.
    destruct ck; [exact Hdecl | subst c; reflexivity].
  Qed.

  (* File.read() of such a file *)
  Lemma read_good T d : good T -> file_of T = Some d -> from_bytes repaired lookup d = (T, n).
  Proof.
    intros HT Hd. pose proof HT as (Hcr & Hlf & _). unfold from_bytes.
    rewrite (decode_data_declared lookup d c _ Hc (declared_of T d HT Hd) Hd).
    rewrite (newline_write_read T n Hcr), Hlf. reflexivity.
  Qed.

  (* unicode_to_file_data of a good text with the file's convention *)
  Lemma write_good T d t :
    good T -> file_of T = Some d -> good t ->
    exists d', file_of t = Some d' /\ to_bytes repaired lookup t (Some n) = WBytes d'.
  Proof.
    intros HT Hd Ht. pose proof Ht as (_ & _ & Hck & Hne).
    destruct (file_of t) as [d'|] eqn:Ed; [|congruence]. exists d'. split; [reflexivity|].
    rewrite (to_bytes_codec lookup d c t (Some n) (declared_of T d HT Hd)).
    - unfold Session.file_of in Ed. rewrite Ed. reflexivity.
    - destruct HT as (_ & _ & HckT & _). rewrite Hck, <- HckT. apply (cookie_of_enc c Hc _ d Hd).
  Qed.

  Definition disk_ok (d : list N) : Prop := exists T, good T /\ file_of T = Some d.

  Lemma detected_ok s : disk_ok (s_disk s) -> detected repaired lookup s = n.
  Proof. intros (T & HT & Hd). unfold detected. rewrite (read_good T _ HT Hd). reflexivity. Qed.

  Lemma obj_read_inv s i : inv s -> inv (obj_read repaired lookup s i).
  Proof.
    intros (Hd & Hpos & Ho & Hu & Hr). unfold obj_read, with_obj, session_inv. cbn [s_disk s_objs s_undo s_redo].
    rewrite set_nth_length. split5; try assumption.
    apply set_nth_forall; [assumption|]. right. rewrite (detected_ok s Hd). reflexivity.
  Qed.

  (* write_file through an object of the session writes the text in the file's encoding and convention *)
  Lemma obj_write_good s i t :
    inv s -> (i < length (s_objs s))%nat -> good t ->
    exists d' s', obj_write repaired lookup soa s i t = (s', WBytes d')
                  /\ file_of t = Some d' /\ s_disk s' = d' /\ inv s'
                  /\ s_undo s' = s_undo s /\ s_redo s' = s_redo s /\ length (s_objs s') = length (s_objs s).
  Proof.
    intros Hinv Hi Ht. unfold obj_write.
    set (s1 := match get_obj s i with
               | None => if v_detect repaired then obj_read repaired lookup s i else s
               | Some _ => s end).
    assert (inv s1 /\ s_disk s1 = s_disk s /\ s_undo s1 = s_undo s /\ s_redo s1 = s_redo s
            /\ length (s_objs s1) = length (s_objs s) /\ get_obj s1 i = Some n)
      as (H1 & Hd1 & Hu1 & Hr1 & Hl1 & Hg).
    { subst s1. destruct (get_obj s i) as [m|] eqn:Eg.
      - split; [exact Hinv|]. do 4 (split; [reflexivity|]).
        destruct Hinv as (_ & _ & Ho & _). pose proof (nth_forall obj_ok (s_objs s) i None Ho (or_introl eq_refl)) as Hm.
        unfold get_obj in *. rewrite Eg in Hm. destruct Hm as [Hm|Hm]; [discriminate | rewrite Eg; exact Hm].
      - cbn [v_detect repaired]. split; [apply obj_read_inv; exact Hinv|]. do 3 (split; [reflexivity|]).
        split.
        + unfold obj_read, with_obj. cbn [s_objs]. apply set_nth_length.
        + unfold get_obj, obj_read, with_obj. cbn [s_objs]. rewrite nth_set_nth by assumption.
          destruct Hinv as (Hd & _). rewrite (detected_ok s Hd). reflexivity. }
    pose proof H1 as ((T & HT & HdT) & Hpos1 & Ho1 & Hun1 & Hre1).
    destruct (write_good T _ t HT HdT Ht) as (d' & Hf & Hw). rewrite Hg, Hw. exists d'.
    set (s2 := with_disk s1 d').
    assert (inv s2) as H2.
    { unfold s2, with_disk, session_inv. cbn [s_disk s_objs s_undo s_redo]. split5; try assumption.
      exists t. split; assumption. }
    destruct soa.
    - exists (obj_read repaired lookup s2 i).
      split; [reflexivity|]. split; [exact Hf|]. split; [reflexivity|]. split; [apply obj_read_inv, H2|].
      split; [exact Hu1|]. split; [exact Hr1|].
      unfold obj_read, with_obj, s2, with_disk. cbn [s_objs]. rewrite set_nth_length. exact Hl1.
    - exists s2.
      split; [reflexivity|]. split; [exact Hf|]. split; [reflexivity|]. split; [exact H2|].
      split; [exact Hu1|]. split; [exact Hr1|]. exact Hl1.
  Qed.

  Lemma entries_weaken len len' l : (len <= len')%nat -> Forall (entry_ok len) l -> Forall (entry_ok len') l.
  Proof.
    intros Hle H. induction H as [|e l (Hi & Ho & Hn) _ IH]; constructor; [|exact IH].
    split; [lia | split; assumption].
  Qed.

  (* project.do(ChangeContents(obj i, t)) *)
  Lemma do_change_good s i t :
    inv s -> (i < length (s_objs s))%nat -> good t ->
    exists s', do_change repaired lookup soa s i t = (s', 0)
               /\ file_of t = Some (s_disk s') /\ inv s'.
  Proof.
    intros Hinv Hi Ht. unfold do_change.
    pose proof (obj_read_inv s i Hinv) as H1.
    assert (i < length (s_objs (obj_read repaired lookup s i)))%nat as Hi1.
    { unfold obj_read, with_obj. cbn [s_objs]. rewrite set_nth_length. exact Hi. }
    destruct (obj_write_good _ i t H1 Hi1 Ht) as (d' & s2 & Hw & Hf & Hd & H2 & Hu & Hr & Hl). rewrite Hw.
    eexists. split; [reflexivity|]. cbn [s_disk]. split; [rewrite Hd; exact Hf|].
    destruct H2 as (Hdk & Hpos & Ho & Hun & Hre). unfold session_inv. cbn [s_disk s_objs s_undo s_redo].
    split5; try assumption; [|constructor]. constructor; [|exact Hun].
    destruct Hinv as ((T & HT & HdT) & _). unfold Session.entry_ok. cbn [fst snd]. rewrite (read_good T _ HT HdT). cbn [fst].
    split; [|split; assumption]. rewrite Hl. exact Hi1.
  Qed.

  Lemma renumber_ok : forall l k len,
    (k + length l <= len)%nat -> Forall (fun e => good (snd (fst e)) /\ good (snd e)) l ->
    Forall (entry_ok len) (renumber k l).
  Proof.
    induction l as [|e l IH]; intros k len Hk H; [constructor|]. rewrite renumber_cons.
    inversion H as [|? ? He Hl]; subst. cbn [length] in Hk. constructor.
    - split; [cbn; lia | exact He].
    - apply IH; [lia | exact Hl].
  Qed.

  Lemma entries_texts len l : Forall (entry_ok len) l -> Forall (fun e => good (snd (fst e)) /\ good (snd e)) l.
  Proof. intros H. induction H as [|e l (_ & Ho) _ IH]; constructor; assumption. Qed.

  (* ---- one step ---- *)
  Theorem session_step s st :
    inv s -> step_good c n ck st ->
    inv (fst (run_step repaired lookup soa s st))
    /\ step_bytes c n s st (s_disk (fst (run_step repaired lookup soa s st))).
  Proof.
    intros Hinv Hst. pose proof Hinv as (Hdk & Hpos & Ho & Hun & Hre).
    destruct st as [|t|t|t| | |b|]; cbn [run_step step_bytes step_good] in *.
    - (* read *) split; [apply obj_read_inv, Hinv | reflexivity].
    - (* File.write *)
      pose proof (obj_read_inv s 0 Hinv) as H1. destruct Hdk as (T & HT & HdT).
      rewrite (read_good T _ HT HdT). cbn [fst].
      destruct (text_eqb_spec t T) as [->|Hne].
      + cbn [fst]. split; [exact H1 | exact HdT].
      + assert (0 < length (s_objs (obj_read repaired lookup s 0)))%nat as H0.
        { unfold obj_read, with_obj. cbn [s_objs]. rewrite set_nth_length. exact Hpos. }
        destruct (do_change_good _ 0%nat t H1 H0 Hst) as (s' & Hd & Hf & H'). rewrite Hd. cbn [fst]. split; assumption.
    - (* a fresh File object *)
      set (s0 := {| s_disk := s_disk s; s_objs := s_objs s ++ [None]; s_undo := s_undo s; s_redo := s_redo s |}).
      assert (inv s0) as H0.
      { unfold s0, session_inv. cbn [s_disk s_objs s_undo s_redo]. rewrite app_length. cbn [length].
        split5; try assumption; try lia.
        - apply Forall_app. split; [assumption|]. constructor; [left; reflexivity | constructor].
        - apply (entries_weaken (length (s_objs s))); [lia | assumption].
        - apply (entries_weaken (length (s_objs s))); [lia | assumption]. }
      assert (length (s_objs s) < length (s_objs s0))%nat as Hi.
      { unfold s0. cbn [s_objs]. rewrite app_length. cbn [length]. lia. }
      destruct (do_change_good s0 _ t H0 Hi Hst) as (s' & Hd & Hf & H'). rewrite Hd. cbn [fst]. split; assumption.
    - (* the caller's object *)
      destruct (do_change_good s 0%nat t Hinv Hpos Hst) as (s' & Hd & Hf & H'). rewrite Hd. cbn [fst]. split; assumption.
    - (* undo *)
      destruct (s_undo s) as [|[[i old] new] u] eqn:Eu; [split; [exact Hinv | reflexivity]|].
      inversion Hun as [|? ? (Hi & Hold & Hnew) Hu']; subst. cbn [fst snd] in *.
      destruct (obj_write_good s i old Hinv Hi Hold) as (d' & s2 & Hw & Hf & Hd & H2 & Hu2 & Hr2 & Hl). rewrite Hw.
      cbn [fst s_disk]. split; [|rewrite Hd; exact Hf].
      destruct H2 as (Hdk2 & Hpos2 & Ho2 & _ & _). unfold session_inv. cbn [s_disk s_objs s_undo s_redo].
      rewrite Hl, Hr2. split5; try assumption. constructor; [|exact Hre]. unfold Session.entry_ok. cbn [fst snd]. auto.
    - (* redo *)
      destruct (s_redo s) as [|[[i old] new] u] eqn:Eu; [split; [exact Hinv | reflexivity]|].
      inversion Hre as [|? ? (Hi & Hold & Hnew) Hu']; subst. cbn [fst snd] in *.
      destruct (obj_write_good s i new Hinv Hi Hnew) as (d' & s2 & Hw & Hf & Hd & H2 & Hu2 & Hr2 & Hl). rewrite Hw.
      cbn [fst s_disk]. split; [|rewrite Hd; exact Hf].
      destruct H2 as (Hdk2 & Hpos2 & Ho2 & _ & _). unfold session_inv. cbn [s_disk s_objs s_undo s_redo].
      rewrite Hl, Hu2. split5; try assumption. constructor; [|exact Hun]. unfold Session.entry_ok. cbn [fst snd]. auto.
    - (* external rewrite that keeps codec, convention and declaration *)
      cbn [fst]. split; [|reflexivity]. unfold with_disk, session_inv. cbn [s_disk s_objs s_undo s_redo].
      split5; assumption.
    - (* close / reopen *)
      cbn [fst s_disk]. split; [|reflexivity]. unfold session_inv. cbn [s_disk s_objs s_undo s_redo].
      rewrite repeat_length. split5; try assumption; try lia.
      + clear. induction (length (s_undo s) + length (s_redo s))%nat as [|k IH]; cbn [repeat];
          constructor; [left; reflexivity | constructor | left; reflexivity | exact IH].
      + apply renumber_ok; [unfold hentry in *; lia | apply (entries_texts _ _ Hun)].
      + apply renumber_ok; [unfold hentry in *; lia | apply (entries_texts _ _ Hre)].
  Qed.

  (* ---- any number of steps ---- *)
  Theorem session_preserves steps : forall s,
    inv s -> Forall (step_good c n ck) steps -> inv (run_steps repaired lookup soa s steps).
  Proof.
    induction steps as [|st steps IH]; intros s Hinv Hst; [exact Hinv|]. cbn [run_steps].
    inversion Hst; subst. apply IH; [|assumption]. apply session_step; assumption.
  Qed.

  (* a file inside the property, freshly opened *)
  Lemma initial_inv T d : good T -> file_of T = Some d -> inv (initial d).
  Proof.
    intros HT Hd. unfold initial, session_inv. cbn [s_disk s_objs s_undo s_redo length]. split5; try constructor; try lia.
    - exists T. split; assumption.
    - left. reflexivity.
    - constructor.
  Qed.
End Proofs.

(* ---- non-vacuity: a Latin-1 CRLF file and a session with edit, undo, reopen, redo, external rewrite -------- *)
Definition ex_session_steps : list step :=
  [SRead; SWrite (ex_text ++ [10; 121; 32; 61; 32; 50; 10]); SUndo; SReopen; SRedo;
   SExternal ex_text_raw; SDoFresh (ex_text ++ [10]); SDoSame ex_text; SUndo].

Lemma ex_good t :
  has_cr t = false -> has_lf t = true -> cookie_of (encode_nl t (Some NlCRLF)) = Some latin_1_name ->
  (exists x, enc latin1 (encode_nl t (Some NlCRLF)) = Some x) -> good latin1 NlCRLF (Some latin_1_name) t.
Proof. intros H1 H2 H3 (x & H4). repeat split; try assumption. unfold file_of. rewrite H4. discriminate. Qed.

Example ex_session_hyps :
  codec_declared std_lookup latin1 (Some latin_1_name)
  /\ good latin1 NlCRLF (Some latin_1_name) ex_text
  /\ file_of latin1 NlCRLF ex_text = Some ex_text_raw
  /\ Forall (step_good latin1 NlCRLF (Some latin_1_name)) ex_session_steps
  /\ s_disk (run_steps repaired std_lookup true (initial ex_text_raw) ex_session_steps) = ex_text_raw ++ [13; 10].
Proof.
  assert (forall t, has_cr t = false -> has_lf t = true ->
                    cookie_of (encode_nl t (Some NlCRLF)) = Some latin_1_name ->
                    (exists x, enc latin1 (encode_nl t (Some NlCRLF)) = Some x) ->
                    good latin1 NlCRLF (Some latin_1_name) t) as G by exact ex_good.
  split; [vm_compute; reflexivity|].
  split; [apply G; try (vm_compute; reflexivity); eexists; vm_compute; reflexivity|].
  split; [vm_compute; reflexivity|].
  split; [|vm_compute; reflexivity].
  unfold ex_session_steps. repeat constructor; cbn [step_good].
  - apply G; try (vm_compute; reflexivity). eexists; vm_compute; reflexivity.
  - exists ex_text. split; [|vm_compute; reflexivity].
    apply G; try (vm_compute; reflexivity). eexists; vm_compute; reflexivity.
  - apply G; try (vm_compute; reflexivity). eexists; vm_compute; reflexivity.
  - apply G; try (vm_compute; reflexivity). eexists; vm_compute; reflexivity.
Qed.

(* ---- OPEN FINDING C16-oneline-resets-newlines -------------------------------------------------------------
   "import os\r\nvalue = 1" (CRLF, Python file, automatic_soa on): File.write("value = 1") leaves a file without
   line break, the SOA observer re-reads it through the same File object (newlines := "\n"), and undo restores
   the old text with LF.  Without the observer (automatic_soa off / not a Python file) undo restores the bytes.
   The text written has no line break, which is what [good] (has_lf) excludes in C16_session_preserves. *)
Definition oneline_file : list N := [105;109;112;111;114;116;32;111;115;13;10;118;97;108;117;101;32;61;32;49].
Definition oneline_text : text := [118;97;108;117;101;32;61;32;49].

Theorem oneline_resets_newlines_refuted :
  exists b t,
    consistentb NlCRLF b = true /\ has_lf t = false
    /\ s_disk (run_steps repaired std_lookup true (initial b) [SWrite t; SUndo]) <> b
    /\ has_cr (s_disk (run_steps repaired std_lookup true (initial b) [SWrite t; SUndo])) = false
    /\ s_disk (run_steps repaired std_lookup false (initial b) [SWrite t; SUndo]) = b.
Proof. exists oneline_file, oneline_text. vm_compute. repeat split; try reflexivity. discriminate. Qed.
