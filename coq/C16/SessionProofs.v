(* C16 — a whole session keeps the file's encoding, newline convention and declaration. *)
From Coq Require Import List NArith Bool Lia PeanoNat.
From RopeVerif.Lib Require Import Text.
From RopeVerif.C16 Require Import Newlines Codec Cookie FileModel Session
  NewlinesProofs CodecProofs CookieProofs FileModelProofs.
Import ListNotations.
Local Open Scope N_scope.

Lemma set_nth_forall {A} (P : A -> Prop) (l : list A) i x : Forall P l -> P x -> Forall P (set_nth l i x).
Proof.
  intros Hl Hx. revert i. induction Hl as [|a l Ha Hl IH]; intros i; [constructor|].
  destruct i; cbn [set_nth]; constructor; auto.
Qed.

Lemma set_nth_length {A} (l : list A) i x : length (set_nth l i x) = length l.
Proof. revert i. induction l as [|a l IH]; intros i; [reflexivity|]. destruct i; cbn [set_nth length]; auto. Qed.

Lemma nth_set_nth {A} (l : list A) i x d : (i < length l)%nat -> nth i (set_nth l i x) d = x.
Proof.
  revert i. induction l as [|a l IH]; intros i H; cbn [length] in H; [lia|].
  destruct i; cbn [set_nth nth]; [reflexivity|]. apply IH. lia.
Qed.

Lemma nth_forall {A} (P : A -> Prop) (l : list A) i d : Forall P l -> P d -> P (nth i l d).
Proof.
  intros Hl Hd. revert i. induction Hl as [|a l Ha Hl IH]; intros i; destruct i; cbn [nth]; auto.
Qed.

Lemma renumber_cons k e l :
  renumber k (e :: l) = (k, snd (fst e), snd e) :: renumber (S k) l.
Proof. reflexivity. Qed.

Ltac split5 := split; [|split; [|split; [|split]]].

Section Proofs.
  Variable lookup : text -> option codec.
  Variable soa : bool.
  Variable c : codec.
  Variable n : nl.
  Variable ck : option text.
  Hypothesis Hc : codec_ok c.
  Hypothesis Hdecl : codec_declared lookup c ck.

  Notation ok_text := (ok_text c n ck).
  Notation file_of := (file_of c n).
  Notation obj_ok := (obj_ok n).
  Notation entry_ok := (entry_ok c n ck).
  Notation inv := (session_inv c n ck).
  Notation obj_knows := (obj_knows lookup).
  Notation cur_text := (cur_text lookup).

  Lemma declared_of T d : ok_text T -> file_of T = Some d -> declared_codec repaired lookup d = Some c.
  Proof.
    intros (_ & Hck & _) Hd. unfold declared_codec. cbn [v_cookie_bytes repaired].
    rewrite <- (cookie_of_enc c Hc _ d Hd), Hck. unfold codec_declared in Hdecl.
    destruct ck; [exact Hdecl | subst c; reflexivity].
  Qed.

  (* File.read() of such a file: the text, and the convention if the file shows one *)
  Lemma read_ok T d :
    ok_text T -> file_of T = Some d -> from_bytes repaired lookup d = (T, if has_lf T then n else NlLF).
  Proof.
    intros HT Hd. pose proof HT as (Hcr & _). unfold from_bytes.
    rewrite (decode_data_declared lookup d c _ Hc (declared_of T d HT Hd) Hd).
    apply (newline_write_read T n Hcr).
  Qed.

  (* unicode_to_file_data of a text of the file with the file's convention *)
  Lemma write_ok T d t :
    ok_text T -> file_of T = Some d -> ok_text t ->
    exists d', file_of t = Some d' /\ to_bytes repaired lookup t (Some n) = WBytes d'.
  Proof.
    intros HT Hd Ht. pose proof Ht as (_ & Hck & Hne).
    destruct (file_of t) as [d'|] eqn:Ed; [|congruence]. exists d'. split; [reflexivity|].
    rewrite (to_bytes_codec lookup d c t (Some n) (declared_of T d HT Hd)).
    - unfold Session.file_of in Ed. rewrite Ed. reflexivity.
    - destruct HT as (_ & HckT & _). rewrite Hck, <- HckT. apply (cookie_of_enc c Hc _ d Hd).
  Qed.

  Definition disk_ok (d : list N) : Prop := exists T, ok_text T /\ file_of T = Some d.

  (* obj.read(): the attribute stays None-or-n, provided a File object that never read the file sees a line break *)
  Lemma obj_read_inv s i : inv s -> obj_knows s i -> inv (obj_read repaired lookup s i).
  Proof.
    intros ((T & HT & HdT) & Hpos & Ho & Hu & Hr) Hk. unfold obj_read, with_obj, session_inv.
    cbn [s_disk s_objs s_undo s_redo]. rewrite set_nth_length. split5; try assumption; [exists T; auto|].
    apply set_nth_forall; [assumption|]. unfold obj_knows, Session.cur_text, detected in *.
    rewrite (read_ok T _ HT HdT) in *. cbn [fst snd v_keep repaired andb] in *.
    pose proof (nth_forall obj_ok (s_objs s) i None Ho (or_introl eq_refl)) as Hm. fold (get_obj s i) in Hm.
    destruct (get_obj s i) as [m|].
    - destruct Hm as [Hm|Hm]; [discriminate|]. injection Hm as ->.
      destruct (has_lf T); cbn [negb]; right; reflexivity.
    - rewrite (Hk eq_refl). right. reflexivity.
  Qed.

  Lemma obj_read_get s i :
    inv s -> (i < length (s_objs s))%nat -> obj_knows s i -> get_obj (obj_read repaired lookup s i) i = Some n.
  Proof.
    intros ((T & HT & HdT) & Hpos & Ho & Hu & Hr) Hi Hk. unfold obj_read, with_obj, get_obj at 1. cbn [s_objs].
    rewrite nth_set_nth by assumption. unfold obj_knows, Session.cur_text, detected in *.
    rewrite (read_ok T _ HT HdT) in *. cbn [fst snd v_keep repaired andb] in *.
    pose proof (nth_forall obj_ok (s_objs s) i None Ho (or_introl eq_refl)) as Hm. fold (get_obj s i) in Hm.
    destruct (get_obj s i) as [m|].
    - destruct Hm as [Hm|Hm]; [discriminate|]. injection Hm as ->. destruct (has_lf T); reflexivity.
    - rewrite (Hk eq_refl). reflexivity.
  Qed.

  (* write_file through an object of the session writes the text in the file's encoding and convention *)
  Lemma obj_write_ok s i t :
    inv s -> (i < length (s_objs s))%nat -> obj_knows s i -> ok_text t ->
    exists d' s', obj_write repaired lookup soa s i t = (s', WBytes d')
                  /\ file_of t = Some d' /\ s_disk s' = d' /\ inv s'
                  /\ s_undo s' = s_undo s /\ s_redo s' = s_redo s /\ length (s_objs s') = length (s_objs s)
                  /\ get_obj s' i = Some n.
  Proof.
    intros Hinv Hi Hk Ht. unfold obj_write.
    set (s1 := match get_obj s i with
               | None => if v_detect repaired then obj_read repaired lookup s i else s
               | Some _ => s end).
    assert (inv s1 /\ s_disk s1 = s_disk s /\ s_undo s1 = s_undo s /\ s_redo s1 = s_redo s
            /\ length (s_objs s1) = length (s_objs s) /\ get_obj s1 i = Some n)
      as (H1 & Hd1 & Hu1 & Hr1 & Hl1 & Hg).
    { subst s1. destruct (get_obj s i) as [m|] eqn:Eg.
      - split; [exact Hinv|]. do 4 (split; [reflexivity|]).
        destruct Hinv as (_ & _ & Ho & _). pose proof (nth_forall obj_ok (s_objs s) i None Ho (or_introl eq_refl)) as Hm.
        unfold get_obj in *. rewrite Eg in Hm. destruct Hm as [Hm|Hm]; [discriminate | rewrite Eg; exact Hm].
      - cbn [v_detect repaired]. split; [apply obj_read_inv; assumption|]. do 3 (split; [reflexivity|]).
        split; [unfold obj_read, with_obj; cbn [s_objs]; apply set_nth_length | apply obj_read_get; assumption]. }
    pose proof H1 as ((T & HT & HdT) & Hpos1 & Ho1 & Hun1 & Hre1).
    destruct (write_ok T _ t HT HdT Ht) as (d' & Hf & Hw). rewrite Hg, Hw. exists d'.
    set (s2 := with_disk s1 d').
    assert (inv s2) as H2.
    { unfold s2, with_disk, session_inv. cbn [s_disk s_objs s_undo s_redo]. split5; try assumption.
      exists t. split; assumption. }
    assert (obj_knows s2 i) as Hk2.
    { unfold obj_knows, s2, with_disk, get_obj. cbn [s_objs]. fold (get_obj s1 i). rewrite Hg. discriminate. }
    destruct soa.
    - exists (obj_read repaired lookup s2 i).
      split; [reflexivity|]. split; [exact Hf|]. split; [reflexivity|]. split; [apply obj_read_inv; assumption|].
      split; [exact Hu1|]. split; [exact Hr1|].
      split; [unfold obj_read, with_obj, s2, with_disk; cbn [s_objs]; rewrite set_nth_length; exact Hl1|].
      apply obj_read_get; try assumption. unfold s2, with_disk. cbn [s_objs]. rewrite Hl1. exact Hi.
    - exists s2.
      split; [reflexivity|]. split; [exact Hf|]. split; [reflexivity|]. split; [exact H2|].
      split; [exact Hu1|]. split; [exact Hr1|]. split; [exact Hl1 | exact Hg].
  Qed.

  Lemma entries_weaken len len' l : (len <= len')%nat -> Forall (entry_ok len) l -> Forall (entry_ok len') l.
  Proof.
    intros Hle H. induction H as [|e l (Hi & Ho & Hn) _ IH]; constructor; [|exact IH].
    split; [lia | split; assumption].
  Qed.

  (* project.do(ChangeContents(obj i, t)) *)
  Lemma do_change_ok s i t :
    inv s -> (i < length (s_objs s))%nat -> obj_knows s i -> ok_text t ->
    exists s', do_change repaired lookup soa s i t = (s', 0)
               /\ file_of t = Some (s_disk s') /\ inv s'
               /\ length (s_objs s') = length (s_objs s) /\ get_obj s' i = Some n
               /\ (exists old, s_undo s' = (i, old, t) :: s_undo s) /\ s_redo s' = [].
  Proof.
    intros Hinv Hi Hk Ht. unfold do_change.
    pose proof (obj_read_inv s i Hinv Hk) as H1.
    assert (i < length (s_objs (obj_read repaired lookup s i)))%nat as Hi1.
    { unfold obj_read, with_obj. cbn [s_objs]. rewrite set_nth_length. exact Hi. }
    assert (obj_knows (obj_read repaired lookup s i) i) as Hk1.
    { unfold obj_knows. rewrite (obj_read_get s i Hinv Hi Hk). discriminate. }
    destruct (obj_write_ok _ i t H1 Hi1 Hk1 Ht) as (d' & s2 & Hw & Hf & Hd & H2 & Hu & Hr & Hl & Hg). rewrite Hw.
    eexists. split; [reflexivity|]. cbn [s_disk s_objs s_undo s_redo]. split; [rewrite Hd; exact Hf|].
    split.
    { destruct H2 as (Hdk & Hpos & Ho & Hun & Hre). unfold session_inv. cbn [s_disk s_objs s_undo s_redo].
      split5; try assumption; [|constructor]. constructor; [|exact Hun].
      destruct Hinv as ((T & HT & HdT) & _). unfold Session.entry_ok. cbn [fst snd]. rewrite (read_ok T _ HT HdT). cbn [fst].
      split; [|split; assumption]. rewrite Hl. exact Hi1. }
    split; [rewrite Hl; unfold obj_read, with_obj; cbn [s_objs]; apply set_nth_length|].
    split; [exact Hg|]. split; [|reflexivity]. eexists. rewrite Hu. reflexivity.
  Qed.

  Lemma renumber_ok : forall l k len,
    (k + length l <= len)%nat -> Forall (fun e => ok_text (snd (fst e)) /\ ok_text (snd e)) l ->
    Forall (entry_ok len) (renumber k l).
  Proof.
    induction l as [|e l IH]; intros k len Hk H; [constructor|]. rewrite renumber_cons.
    inversion H as [|? ? He Hl]; subst. cbn [length] in Hk. constructor.
    - split; [cbn; lia | exact He].
    - apply IH; [lia | exact Hl].
  Qed.

  Lemma entries_texts len l : Forall (entry_ok len) l -> Forall (fun e => ok_text (snd (fst e)) /\ ok_text (snd e)) l.
  Proof. intros H. induction H as [|e l (_ & Ho) _ IH]; constructor; assumption. Qed.

  (* ---- one step ---- *)
  Theorem session_step s st :
    inv s -> step_ok lookup c n ck s st ->
    inv (fst (run_step repaired lookup soa s st))
    /\ step_bytes c n s st (s_disk (fst (run_step repaired lookup soa s st))).
  Proof.
    intros Hinv Hst. pose proof Hinv as (Hdk & Hpos & Ho & Hun & Hre).
    destruct st as [|t|t|t| | |b|]; cbn [run_step step_bytes step_ok] in *.
    - (* read *) split; [apply obj_read_inv; assumption | reflexivity].
    - (* File.write *)
      destruct Hst as (Ht & Hk). pose proof (obj_read_inv s 0 Hinv Hk) as H1. destruct Hdk as (T & HT & HdT).
      rewrite (read_ok T _ HT HdT). cbn [fst].
      destruct (text_eqb_spec t T) as [->|Hne].
      + cbn [fst]. split; [exact H1 | exact HdT].
      + assert (0 < length (s_objs (obj_read repaired lookup s 0)))%nat as H0.
        { unfold obj_read, with_obj. cbn [s_objs]. rewrite set_nth_length. exact Hpos. }
        assert (obj_knows (obj_read repaired lookup s 0) 0) as Hk1.
        { unfold obj_knows. rewrite (obj_read_get s 0%nat Hinv Hpos Hk). discriminate. }
        destruct (do_change_ok _ 0%nat t H1 H0 Hk1 Ht) as (s' & Hd & Hf & H' & _). rewrite Hd. cbn [fst]. split; assumption.
    - (* a fresh File object: it takes the convention from the bytes on disk *)
      destruct Hst as (Ht & Hlf).
      set (s0 := {| s_disk := s_disk s; s_objs := s_objs s ++ [None]; s_undo := s_undo s; s_redo := s_redo s |}).
      assert (inv s0) as H0.
      { unfold s0, session_inv. cbn [s_disk s_objs s_undo s_redo]. rewrite app_length. cbn [length].
        split5; try assumption; try lia.
        - apply Forall_app. split; [assumption|]. constructor; [left; reflexivity | constructor].
        - apply (entries_weaken (length (s_objs s))); [lia | assumption].
        - apply (entries_weaken (length (s_objs s))); [lia | assumption]. }
      assert (length (s_objs s) < length (s_objs s0))%nat as Hi.
      { unfold s0. cbn [s_objs]. rewrite app_length. cbn [length]. lia. }
      assert (obj_knows s0 (length (s_objs s))) as Hk0 by (intros _; exact Hlf).
      destruct (do_change_ok s0 _ t H0 Hi Hk0 Ht) as (s' & Hd & Hf & H' & _). rewrite Hd. cbn [fst]. split; assumption.
    - (* the caller's object *)
      destruct Hst as (Ht & Hk).
      destruct (do_change_ok s 0%nat t Hinv Hpos Hk Ht) as (s' & Hd & Hf & H' & _). rewrite Hd. cbn [fst]. split; assumption.
    - (* undo *)
      destruct (s_undo s) as [|[[i old] new] u] eqn:Eu; [split; [exact Hinv | reflexivity]|].
      inversion Hun as [|? ? (Hi & Hold & Hnew) Hu']; subst. cbn [fst snd] in *.
      destruct (obj_write_ok s i old Hinv Hi Hst Hold) as (d' & s2 & Hw & Hf & Hd & H2 & Hu2 & Hr2 & Hl & _). rewrite Hw.
      cbn [fst s_disk]. split; [|rewrite Hd; exact Hf].
      destruct H2 as (Hdk2 & Hpos2 & Ho2 & _ & _). unfold session_inv. cbn [s_disk s_objs s_undo s_redo].
      rewrite Hl, Hr2. split5; try assumption. constructor; [|exact Hre]. unfold Session.entry_ok. cbn [fst snd]. auto.
    - (* redo *)
      destruct (s_redo s) as [|[[i old] new] u] eqn:Eu; [split; [exact Hinv | reflexivity]|].
      inversion Hre as [|? ? (Hi & Hold & Hnew) Hu']; subst. cbn [fst snd] in *.
      destruct (obj_write_ok s i new Hinv Hi Hst Hnew) as (d' & s2 & Hw & Hf & Hd & H2 & Hu2 & Hr2 & Hl & _). rewrite Hw.
      cbn [fst s_disk]. split; [|rewrite Hd; exact Hf].
      destruct H2 as (Hdk2 & Hpos2 & Ho2 & _ & _). unfold session_inv. cbn [s_disk s_objs s_undo s_redo].
      rewrite Hl, Hu2. split5; try assumption. constructor; [|exact Hun]. unfold Session.entry_ok. cbn [fst snd]. auto.
    - (* external rewrite that keeps codec, convention and declaration *)
      cbn [fst]. split; [|reflexivity]. unfold with_disk, session_inv. cbn [s_disk s_objs s_undo s_redo].
      split5; try assumption. destruct Hst as (T & (HT & _) & Hb). exists T. split; assumption.
    - (* close / reopen *)
      cbn [fst s_disk]. split; [|reflexivity]. unfold session_inv. cbn [s_disk s_objs s_undo s_redo].
      rewrite repeat_length. split5; try assumption; try lia.
      + clear. induction (length (s_undo s) + length (s_redo s))%nat as [|k IH]; cbn [repeat];
          constructor; [left; reflexivity | constructor | left; reflexivity | exact IH].
      + apply renumber_ok; [unfold hentry in *; lia | apply (entries_texts _ _ Hun)].
      + apply renumber_ok; [unfold hentry in *; lia | apply (entries_texts _ _ Hre)].
  Qed.

  (* ---- any number of steps ---- *)
  Theorem session_preserves steps : forall s,
    inv s -> steps_ok lookup c n ck soa s steps -> inv (run_steps repaired lookup soa s steps).
  Proof.
    induction steps as [|st steps IH]; intros s Hinv Hst; [exact Hinv|]. cbn [run_steps steps_ok] in *.
    destruct Hst as (H1 & H2). apply IH; [|exact H2]. apply session_step; assumption.
  Qed.

  (* a file inside the property, freshly opened *)
  Lemma initial_inv T d : ok_text T -> file_of T = Some d -> inv (initial d).
  Proof.
    intros HT Hd. unfold initial, session_inv. cbn [s_disk s_objs s_undo s_redo length]. split5; try constructor; try lia.
    - exists T. split; assumption.
    - left. reflexivity.
    - constructor.
  Qed.

  (* ---- ONE File object, no reopening: no line break is needed in the texts written -------------------------- *)
  Definition single (s : sess) : Prop :=
    inv s /\ length (s_objs s) = 1%nat
    /\ (get_obj s 0 = Some n \/ has_lf (cur_text s) = true)
    /\ Forall (fun e => fst (fst e) = 0%nat) (s_undo s) /\ Forall (fun e => fst (fst e) = 0%nat) (s_redo s)
    /\ (get_obj s 0 = None -> s_undo s = [] /\ s_redo s = []).

  Lemma single_knows s : single s -> obj_knows s 0.
  Proof. intros (_ & _ & [H|H] & _) Hn; [congruence | exact H]. Qed.

  Lemma single_step_ok s st : single s -> step_single c n ck st -> step_ok lookup c n ck s st.
  Proof.
    intros Hs Hst. pose proof (single_knows s Hs) as Hk. destruct Hs as (_ & _ & _ & Hu & Hr & _).
    destruct st as [|t|t|t| | |b|]; cbn [step_single step_ok] in *; try contradiction; auto.
    - destruct (s_undo s) as [|[[i old] new] u]; [exact I|]. inversion Hu; subst. cbn [fst] in *. subst i. exact Hk.
    - destruct (s_redo s) as [|[[i old] new] u]; [exact I|]. inversion Hr; subst. cbn [fst] in *. subst i. exact Hk.
  Qed.
  Lemma cur_has_lf_of_good s b T :
    good c n ck T -> file_of T = Some b -> has_lf (cur_text (with_disk s b)) = true.
  Proof.
    intros (HT & Hlf) Hb. unfold Session.cur_text, with_disk. cbn [s_disk]. rewrite (read_ok T _ HT Hb). exact Hlf.
  Qed.

  Lemma obj_read_get_single s :
    inv s -> length (s_objs s) = 1%nat -> obj_knows s 0 -> get_obj (obj_read repaired lookup s 0) 0 = Some n.
  Proof. intros Hinv Hl Hk. apply obj_read_get; [assumption | lia | assumption]. Qed.

  Theorem single_step s st :
    single s -> step_single c n ck st -> single (fst (run_step repaired lookup soa s st)).
  Proof.
    intros Hs Hst. pose proof (single_knows s Hs) as Hk. pose proof (single_step_ok s st Hs Hst) as Hok.
    destruct Hs as (Hinv & Hlen & Hob & Hu & Hr & Hnone).
    assert (0 < length (s_objs s))%nat as Hpos by lia.
    destruct st as [|t|t|t| | |b|]; cbn [step_single run_step] in *; try contradiction.
    - (* read *)
      cbn [fst]. unfold single. split; [apply obj_read_inv; assumption|].
      split; [unfold obj_read, with_obj; cbn [s_objs]; rewrite set_nth_length; exact Hlen|].
      split; [left; apply obj_read_get_single; assumption|].
      split; [exact Hu|]. split; [exact Hr|]. rewrite (obj_read_get_single s Hinv Hlen Hk). discriminate.
    - (* File.write *)
      pose proof (obj_read_inv s 0 Hinv Hk) as H1. pose proof (obj_read_get_single s Hinv Hlen Hk) as Hg1.
      assert (length (s_objs (obj_read repaired lookup s 0)) = 1%nat) as Hl1.
      { unfold obj_read, with_obj. cbn [s_objs]. rewrite set_nth_length. exact Hlen. }
      destruct (text_eqb t (fst (from_bytes repaired lookup (s_disk s)))).
      + cbn [fst]. unfold single. split; [exact H1|]. split; [exact Hl1|]. split; [left; exact Hg1|].
        split; [exact Hu|]. split; [exact Hr|]. rewrite Hg1. discriminate.
      + assert (obj_knows (obj_read repaired lookup s 0) 0) as Hk1 by (unfold obj_knows; rewrite Hg1; discriminate).
        destruct (do_change_ok _ 0%nat t H1 ltac:(lia) Hk1 Hst) as (s' & Hd & _ & H' & Hl' & Hg' & (old & Hu') & Hr').
        rewrite Hd. cbn [fst]. unfold single. split; [exact H'|]. split; [lia|]. split; [left; exact Hg'|].
        split; [rewrite Hu'; constructor; [reflexivity | exact Hu]|]. split; [rewrite Hr'; constructor|].
        rewrite Hg'. discriminate.
    - (* ChangeContents on the caller's object *)
      destruct (do_change_ok s 0%nat t Hinv Hpos Hk Hst) as (s' & Hd & _ & H' & Hl' & Hg' & (old & Hu') & Hr').
      rewrite Hd. cbn [fst]. unfold single. split; [exact H'|]. split; [lia|]. split; [left; exact Hg'|].
      split; [rewrite Hu'; constructor; [reflexivity | exact Hu]|]. split; [rewrite Hr'; constructor|].
      rewrite Hg'. discriminate.
    - (* undo *)
      destruct (s_undo s) as [|[[i old] new] u] eqn:Eu.
      { cbn [fst]. unfold single. rewrite Eu. auto 10. }
      inversion Hu as [|? ? Hi0 Hu0]; subst. cbn [fst] in Hi0. subst i.
      destruct Hinv as (Hdk & Hp & Ho & Hun & Hre). pose proof Hun as Hun'. rewrite Eu in Hun'.
      inversion Hun' as [|? ? (_ & Hold & Hnew) Htail]; subst. cbn [fst snd] in *.
      assert (inv s) as Hinv by (unfold session_inv; auto).
      destruct (obj_write_ok s 0%nat old Hinv Hpos Hk Hold) as (d' & s2 & Hw & Hf & Hd & H2 & Hu2 & Hr2 & Hl & Hg).
      rewrite Hw. cbn [fst]. unfold single. cbn [s_objs s_undo s_redo].
      assert (get_obj {| s_disk := s_disk s2; s_objs := s_objs s2; s_undo := u; s_redo := (0%nat, old, new) :: s_redo s2 |} 0
              = Some n) as Hg' by exact Hg.
      split.
      { destruct H2 as (Hdk2 & Hpos2 & Ho2 & _ & _). unfold session_inv. cbn [s_disk s_objs s_undo s_redo].
        rewrite Hl, Hr2. split5; try assumption. constructor; [|exact Hre].
        unfold Session.entry_ok. cbn [fst snd]. auto. }
      split; [lia|]. split; [left; exact Hg'|]. split; [exact Hu0|].
      split; [rewrite Hr2; constructor; [reflexivity | exact Hr]|]. rewrite Hg'. discriminate.
    - (* redo *)
      destruct (s_redo s) as [|[[i old] new] u] eqn:Eu.
      { cbn [fst]. unfold single. rewrite Eu. auto 10. }
      inversion Hr as [|? ? Hi0 Hr0]; subst. cbn [fst] in Hi0. subst i.
      destruct Hinv as (Hdk & Hp & Ho & Hun & Hre). pose proof Hre as Hre'. rewrite Eu in Hre'.
      inversion Hre' as [|? ? (_ & Hold & Hnew) Htail]; subst. cbn [fst snd] in *.
      assert (inv s) as Hinv by (unfold session_inv; auto).
      destruct (obj_write_ok s 0%nat new Hinv Hpos Hk Hnew) as (d' & s2 & Hw & Hf & Hd & H2 & Hu2 & Hr2 & Hl & Hg).
      rewrite Hw. cbn [fst]. unfold single. cbn [s_objs s_undo s_redo].
      assert (get_obj {| s_disk := s_disk s2; s_objs := s_objs s2; s_undo := (0%nat, old, new) :: s_undo s2; s_redo := u |} 0
              = Some n) as Hg' by exact Hg.
      split.
      { destruct H2 as (Hdk2 & Hpos2 & Ho2 & _ & _). unfold session_inv. cbn [s_disk s_objs s_undo s_redo].
        rewrite Hl, Hu2. split5; try assumption. constructor; [|exact Hun].
        unfold Session.entry_ok. cbn [fst snd]. auto. }
      split; [lia|]. split; [left; exact Hg'|].
      split; [rewrite Hu2; constructor; [reflexivity | exact Hu]|]. split; [exact Hr0|]. rewrite Hg'. discriminate.
    - (* external rewrite *)
      cbn [fst]. destruct Hst as (T & HT & Hb). unfold single.
      split; [apply (session_step s (SExternal b) Hinv); cbn [step_ok]; exists T; auto|].
      split; [exact Hlen|]. split; [right; apply (cur_has_lf_of_good s b T HT Hb)|].
      split; [exact Hu|]. split; [exact Hr|]. exact Hnone.
  Qed.

  Theorem single_step_full s st :
    single s -> step_single c n ck st ->
    single (fst (run_step repaired lookup soa s st)) /\ step_ok lookup c n ck s st.
  Proof. intros Hs Hst. split; [apply single_step; assumption | apply single_step_ok; assumption]. Qed.

  Theorem single_preserves steps : forall s,
    single s -> Forall (step_single c n ck) steps -> single (run_steps repaired lookup soa s steps).
  Proof.
    induction steps as [|st steps IH]; intros s Hs Hst; [exact Hs|]. cbn [run_steps].
    inversion Hst; subst. apply IH; [|assumption]. apply single_step; assumption.
  Qed.

  (* a file inside the property that shows its convention, freshly opened *)
  Lemma initial_single T d : good c n ck T -> file_of T = Some d -> single (initial d).
  Proof.
    intros (HT & Hlf) Hd. unfold single. split; [apply (initial_inv T d HT Hd)|]. split; [reflexivity|].
    split; [right; unfold Session.cur_text, initial; cbn [s_disk]; rewrite (read_ok T _ HT Hd); exact Hlf|].
    cbn. auto.
  Qed.
End Proofs.

(* ---- non-vacuity --------------------------------------------------------------------------------------------
   the Latin-1 CRLF file of FileModelProofs ("# -*- coding: latin-1 -*-" CRLF "s = 'é'" CRLF "x = 1") *)
Definition ex_ck : option text := Some latin_1_name.
Definition ex_cookie_line : text :=
  [35;32;45;42;45;32;99;111;100;105;110;103;58;32;108;97;116;105;110;45;49;32;45;42;45].

Lemma ex_ok t :
  has_cr t = false -> cookie_of (encode_nl t (Some NlCRLF)) = ex_ck ->
  (exists x, enc latin1 (encode_nl t (Some NlCRLF)) = Some x) -> ok_text latin1 NlCRLF ex_ck t.
Proof. intros H1 H3 (x & H4). repeat split; try assumption. unfold file_of. rewrite H4. discriminate. Qed.

Ltac ex_ok_tac := apply ex_ok; [vm_compute; reflexivity | vm_compute; reflexivity | eexists; vm_compute; reflexivity].

(* one File object; the second step writes a text WITHOUT any line break, undo and redo go through it *)
Definition ex_single_steps : list step :=
  [SRead; SWrite ex_cookie_line; SUndo; SRedo; SDoSame ex_text; SExternal ex_text_raw; SUndo; SUndo].

Example ex_single_hyps :
  codec_declared std_lookup latin1 ex_ck
  /\ good latin1 NlCRLF ex_ck ex_text /\ file_of latin1 NlCRLF ex_text = Some ex_text_raw
  /\ Forall (step_single latin1 NlCRLF ex_ck) ex_single_steps
  /\ has_lf ex_cookie_line = false
  /\ s_disk (run_steps repaired std_lookup true (initial ex_text_raw) ex_single_steps) = ex_text_raw.
Proof.
  split; [vm_compute; reflexivity|].
  split; [split; [ex_ok_tac | vm_compute; reflexivity]|].
  split; [vm_compute; reflexivity|].
  split; [|split; vm_compute; reflexivity].
  unfold ex_single_steps. repeat constructor; cbn [step_single]; try ex_ok_tac.
  exists ex_text. split; [split; [ex_ok_tac | vm_compute; reflexivity] | vm_compute; reflexivity].
Qed.

(* fresh File object, close/reopen, undo through the reloaded history: allowed while the file shows a line break *)
Definition ex_session_steps : list step := [SDoFresh (ex_text ++ [10]); SReopen; SUndo; SRedo; SWrite ex_cookie_line].

Example ex_session_hyps :
  ok_text latin1 NlCRLF ex_ck ex_text /\ file_of latin1 NlCRLF ex_text = Some ex_text_raw
  /\ steps_ok std_lookup latin1 NlCRLF ex_ck true (initial ex_text_raw) ex_session_steps.
Proof.
  split; [ex_ok_tac|]. split; [vm_compute; reflexivity|].
  unfold ex_session_steps. cbn [steps_ok step_ok].
  split; [split; [ex_ok_tac | vm_compute; reflexivity]|].
  split; [exact I|].
  split; [vm_compute; intros _; reflexivity|].
  split; [vm_compute; intros _; reflexivity|].
  split; [|exact I]. split; [ex_ok_tac | vm_compute; intros _; reflexivity].
Qed.

(* ---- FIXED by fe48e43 (mechanisms: automatic_soa re-read, File.read, File.write through the same object) -------
   "import os\r\nvalue = 1" (CRLF, Python file, automatic_soa on): File.write("value = 1") leaves a file without
   line break; BEFORE fe48e43 the observer's re-read reset File.newlines to "\n" and undo restored the old text
   with LF; now the object keeps its convention. *)
Definition oneline_file : list N := [105;109;112;111;114;116;32;111;115;13;10;118;97;108;117;101;32;61;32;49].
Definition oneline_text : text := [118;97;108;117;101;32;61;32;49].

Theorem oneline_resets_newlines_refuted :
  exists b t,
    consistentb NlCRLF b = true /\ has_lf t = false
    /\ s_disk (run_steps before_fe48e43 std_lookup true (initial b) [SWrite t; SUndo]) <> b
    /\ has_cr (s_disk (run_steps before_fe48e43 std_lookup true (initial b) [SWrite t; SUndo])) = false
    /\ s_disk (run_steps before_fe48e43 std_lookup false (initial b) [SDoSame t; SRead; SUndo]) <> b.
Proof. exists oneline_file, oneline_text. vm_compute. repeat split; try reflexivity; discriminate. Qed.

Example oneline_resets_newlines_fixed :
  s_disk (run_steps repaired std_lookup true (initial oneline_file) [SWrite oneline_text; SUndo]) = oneline_file
  /\ s_disk (run_steps repaired std_lookup false (initial oneline_file) [SDoSame oneline_text; SRead; SUndo]) = oneline_file
  /\ s_disk (run_steps repaired std_lookup true (initial oneline_file) [SWrite oneline_text; SUndo; SRedo; SWrite [97; 10; 98; 10]])
     = [97; 13; 10; 98; 13; 10].
Proof. vm_compute. repeat split; reflexivity. Qed.

(* ---- OPEN FINDING C16-oneline-reopen-loses-newlines (code in /repo now) ------------------------------------------
   the same edit, then close and reopen the project, then undo: the history holds texts only, the reloaded change
   has a fresh File object, write_file detects the convention from the one-line file ("\n") and the old text comes
   back with LF line ends.  [obj_knows] in C16_session_step excludes exactly this use of a fresh object. *)
Theorem oneline_reopen_refuted :
  exists b t,
    consistentb NlCRLF b = true /\ has_lf t = false
    /\ s_disk (run_steps repaired std_lookup true (initial b) [SWrite t; SReopen; SUndo]) <> b
    /\ has_cr (s_disk (run_steps repaired std_lookup false (initial b) [SWrite t; SReopen; SUndo])) = false
    /\ s_disk (run_steps repaired std_lookup true (initial b) [SWrite t; SUndo]) = b.
Proof. exists oneline_file, oneline_text. vm_compute. repeat split; try reflexivity; discriminate. Qed.
