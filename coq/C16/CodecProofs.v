(* C16 — the codec laws for utf8, latin1, ascii. *)
From Coq Require Import List NArith Bool Lia.
From RopeVerif.Lib Require Import Text.
From RopeVerif.C16 Require Import Codec.
Import ListNotations.
Local Open Scope N_scope.

Ltac dm_step :=
  match goal with
  | |- context[N.div ?a ?b] => is_var a;
      let q := fresh "q" in let r := fresh "r" in
      pose proof (N.div_mod a b ltac:(lia)); pose proof (N.mod_lt a b ltac:(lia));
      set (q := N.div a b) in *; set (r := N.modulo a b) in *; clearbody q r
  | |- context[N.modulo ?a ?b] => is_var a;
      let q := fresh "q" in let r := fresh "r" in
      pose proof (N.div_mod a b ltac:(lia)); pose proof (N.mod_lt a b ltac:(lia));
      set (q := N.div a b) in *; set (r := N.modulo a b) in *; clearbody q r
  end.
Ltac dm_lia := repeat dm_step; lia.

(* ---- enc is a homomorphism ---- *)
Lemma enc_cons c ch r :
  enc c (ch :: r) = match encc c ch with Some bs => oapp bs (enc c r) | None => None end.
Proof. reflexivity. Qed.

Lemma enc_app c a b :
  enc c (a ++ b) = match enc c a, enc c b with Some x, Some y => Some (x ++ y) | _, _ => None end.
Proof.
  induction a as [|ch a IH]; cbn [app].
  - cbn [enc]. destruct (enc c b); reflexivity.
  - rewrite !enc_cons. destruct (encc c ch) as [bs|]; [|reflexivity]. rewrite IH.
    destruct (enc c a), (enc c b); cbn [oapp]; try reflexivity. rewrite app_assoc. reflexivity.
Qed.

Lemma enc_app_some c a b x y : enc c a = Some x -> enc c b = Some y -> enc c (a ++ b) = Some (x ++ y).
Proof. intros Ha Hb. rewrite enc_app, Ha, Hb. reflexivity. Qed.

Lemma enc_app_inv c a b z :
  enc c (a ++ b) = Some z -> exists x y, enc c a = Some x /\ enc c b = Some y /\ z = x ++ y.
Proof.
  rewrite enc_app. destruct (enc c a) as [x|]; [|discriminate]. destruct (enc c b) as [y|]; [|discriminate].
  intros [= <-]. eauto.
Qed.

(* ---- latin1 / ascii ---- *)
Lemma enc_below (k : N) (c : codec) :
  (forall ch, encc c ch = if ch <? k then Some [ch] else None) ->
  forall t b, enc c t = Some b -> b = t /\ forallb (fun x => x <? k) t = true.
Proof.
  intros Hc. induction t as [|ch t IH]; intros b.
  - cbn. intros [= <-]. split; reflexivity.
  - rewrite enc_cons, Hc. destruct (ch <? k) eqn:E; [|discriminate].
    destruct (enc c t) as [bt|] eqn:Et; [|discriminate]. cbn [oapp app]. intros [= <-].
    destruct (IH bt eq_refl) as [-> Hf]. cbn [forallb]. rewrite E, Hf. split; reflexivity.
Qed.

Lemma latin1_ok : codec_ok latin1.
Proof.
  split.
  - intros t b H. destruct (enc_below 256 latin1 (fun _ => eq_refl) t b H) as [-> Hf].
    cbn [dec latin1]. unfold latin1_dec. rewrite Hf. reflexivity.
  - intros ch H. cbn [encc latin1]. unfold latin1_encc.
    destruct (N.ltb_spec ch 256); [reflexivity | lia].
  - intros ch bs H. cbn [encc latin1]. unfold latin1_encc. destruct (ch <? 256); [|discriminate].
    intros [= <-]. split; [discriminate|]. constructor; [exact H | constructor].
Qed.

Lemma ascii_ok : codec_ok ascii.
Proof.
  split.
  - intros t b H. destruct (enc_below 128 ascii (fun _ => eq_refl) t b H) as [-> Hf].
    cbn [dec ascii]. unfold ascii_dec. rewrite Hf. reflexivity.
  - intros ch H. cbn [encc ascii]. unfold ascii_encc.
    destruct (N.ltb_spec ch 128); [reflexivity | lia].
  - intros ch bs H. cbn [encc ascii]. unfold ascii_encc.
    destruct (N.ltb_spec ch 128); [lia | discriminate].
Qed.

(* ---- utf8: one decoding step per sequence length ---- *)
Ltac ltb_all :=
  repeat match goal with
         | |- context[N.ltb ?a ?b] => destruct (N.ltb_spec a b); try lia
         | |- context[N.leb ?a ?b] => destruct (N.leb_spec a b); try lia
         end.

Lemma utf8_dec_1 b0 r : b0 < 128 -> utf8_dec (b0 :: r) = ocons b0 (utf8_dec r).
Proof. intros. cbn [utf8_dec]. ltb_all. reflexivity. Qed.

Lemma utf8_dec_2 b0 b1 r :
  194 <= b0 < 224 -> 128 <= b1 < 192 ->
  utf8_dec (b0 :: b1 :: r) = ocons ((b0 - 192) * 64 + (b1 - 128)) (utf8_dec r).
Proof. intros. cbn [utf8_dec]. unfold is_cont. ltb_all. reflexivity. Qed.

Lemma utf8_dec_3 b0 b1 b2 r :
  224 <= b0 < 240 -> 128 <= b1 < 192 -> 128 <= b2 < 192 ->
  let cp := (b0 - 224) * 4096 + (b1 - 128) * 64 + (b2 - 128) in
  2048 <= cp -> is_surrogate cp = false ->
  utf8_dec (b0 :: b1 :: b2 :: r) = ocons cp (utf8_dec r).
Proof.
  intros H0 H1 H2 cp Hcp Hs. cbn [utf8_dec]. fold cp. rewrite Hs. unfold is_cont.
  destruct (N.ltb_spec b0 128); try lia. destruct (N.ltb_spec b0 194); try lia.
  destruct (N.ltb_spec b0 224); try lia. destruct (N.ltb_spec b0 240); try lia.
  destruct (N.leb_spec 128 b1); try lia. destruct (N.ltb_spec b1 192); try lia.
  destruct (N.leb_spec 128 b2); try lia. destruct (N.ltb_spec b2 192); try lia.
  destruct (N.leb_spec 2048 cp); try lia. reflexivity.
Qed.

Lemma utf8_dec_4 b0 b1 b2 b3 r :
  240 <= b0 < 245 -> 128 <= b1 < 192 -> 128 <= b2 < 192 -> 128 <= b3 < 192 ->
  let cp := (b0 - 240) * 262144 + (b1 - 128) * 4096 + (b2 - 128) * 64 + (b3 - 128) in
  65536 <= cp < 1114112 ->
  utf8_dec (b0 :: b1 :: b2 :: b3 :: r) = ocons cp (utf8_dec r).
Proof.
  intros H0 H1 H2 H3 cp Hcp. cbn [utf8_dec]. fold cp. unfold is_cont.
  destruct (N.ltb_spec b0 128); try lia. destruct (N.ltb_spec b0 194); try lia.
  destruct (N.ltb_spec b0 224); try lia. destruct (N.ltb_spec b0 240); try lia.
  destruct (N.ltb_spec b0 245); try lia.
  destruct (N.leb_spec 128 b1); try lia. destruct (N.ltb_spec b1 192); try lia.
  destruct (N.leb_spec 128 b2); try lia. destruct (N.ltb_spec b2 192); try lia.
  destruct (N.leb_spec 128 b3); try lia. destruct (N.ltb_spec b3 192); try lia.
  destruct (N.leb_spec 65536 cp); try lia. destruct (N.ltb_spec cp 1114112); try lia. reflexivity.
Qed.

Lemma oapp_some {A} (x y : list A) : oapp x (Some y) = Some (x ++ y).
Proof. reflexivity. Qed.

Lemma some_inj {A} (x y : A) : Some x = Some y -> x = y.
Proof. congruence. Qed.

(* (injection would unfold the additions on literals) *)
Ltac open_bytes :=
  rewrite oapp_some; let H := fresh "Hb" in intros H; apply some_inj in H; subst;
  rewrite <- ?app_comm_cons, ?app_nil_l.

Lemma utf8_dec_enc : forall t b, enc utf8 t = Some b -> utf8_dec b = Some t.
Proof.
  induction t as [|ch t IH]; intros b.
  - cbn. intros [= <-]. reflexivity.
  - rewrite enc_cons. cbn [encc utf8]. unfold utf8_encc.
    destruct (N.ltb_spec ch 128) as [L1|L1].
    { destruct (enc utf8 t) as [bt|]; [|discriminate]. open_bytes.
      rewrite utf8_dec_1 by lia. rewrite (IH bt eq_refl). reflexivity. }
    destruct (N.ltb_spec ch 2048) as [L2|L2].
    { destruct (enc utf8 t) as [bt|]; [|discriminate]. open_bytes.
      rewrite utf8_dec_2 by dm_lia. rewrite (IH bt eq_refl). unfold ocons. do 2 f_equal. dm_lia. }
    destruct (N.ltb_spec ch 65536) as [L3|L3].
    { destruct (is_surrogate ch) eqn:Es; [discriminate|].
      destruct (enc utf8 t) as [bt|]; [|discriminate]. open_bytes.
      assert ((224 + ch / 4096 - 224) * 4096 + (128 + (ch / 64) mod 64 - 128) * 64 + (128 + ch mod 64 - 128) = ch)
        as E by dm_lia.
      rewrite utf8_dec_3; try (rewrite E); try assumption; try dm_lia.
      rewrite (IH bt eq_refl). reflexivity. }
    destruct (N.ltb_spec ch 1114112) as [L4|L4]; [|discriminate].
    destruct (enc utf8 t) as [bt|]; [|discriminate]. open_bytes.
    assert ((240 + ch / 262144 - 240) * 262144 + (128 + (ch / 4096) mod 64 - 128) * 4096
            + (128 + (ch / 64) mod 64 - 128) * 64 + (128 + ch mod 64 - 128) = ch) as E by dm_lia.
    rewrite utf8_dec_4; try (rewrite E); try dm_lia.
    rewrite (IH bt eq_refl). reflexivity.
Qed.

Lemma utf8_ok : codec_ok utf8.
Proof.
  split.
  - exact utf8_dec_enc.
  - intros ch H. cbn [encc utf8]. unfold utf8_encc. destruct (N.ltb_spec ch 128); [reflexivity | lia].
  - intros ch bs H. cbn [encc utf8]. unfold utf8_encc.
    destruct (N.ltb_spec ch 128); [lia|].
    destruct (N.ltb_spec ch 2048).
    { intros Hb; apply some_inj in Hb; subst bs. split; [discriminate|].
      repeat (apply Forall_cons; [dm_lia|]). apply Forall_nil. }
    destruct (N.ltb_spec ch 65536).
    { destruct (is_surrogate ch); [discriminate|]. intros Hb; apply some_inj in Hb; subst bs.
      split; [discriminate|]. repeat (apply Forall_cons; [dm_lia|]). apply Forall_nil. }
    destruct (N.ltb_spec ch 1114112); [|discriminate].
    intros Hb; apply some_inj in Hb; subst bs. split; [discriminate|].
    repeat (apply Forall_cons; [dm_lia|]). apply Forall_nil.
Qed.

Lemma codec_of_id_ok i : codec_ok (codec_of_id i).
Proof. destruct i; [exact utf8_ok | exact latin1_ok | exact ascii_ok]. Qed.

Lemma std_lookup_ok name c : std_lookup name = Some c -> codec_ok c.
Proof.
  unfold std_lookup. destruct (std_id name) as [i|]; [|discriminate]. intros [= <-]. apply codec_of_id_ok.
Qed.

(* ASCII text: every ASCII-transparent codec encodes it as itself *)
Lemma enc_ascii c t : codec_ok c -> forallb (fun x => x <? 128) t = true -> enc c t = Some t.
Proof.
  intros Hc. induction t as [|ch t IH]; [reflexivity|]. cbn [forallb]. intros H.
  apply andb_true_iff in H as [H1 H2]. apply N.ltb_lt in H1.
  rewrite enc_cons, (ok_ascii c Hc ch H1), (IH H2). reflexivity.
Qed.

Lemma utf8_dec_ascii t : forallb (fun x => x <? 128) t = true -> utf8_dec t = Some t.
Proof. intros H. apply utf8_dec_enc. apply (enc_ascii utf8 t utf8_ok H). Qed.

(* ---- table-driven single-byte codecs ---- *)
Lemma index_of_spec x : forall l k i,
  index_of x l k = Some i -> exists j, i = k + N.of_nat j /\ nth_error l j = Some x.
Proof.
  induction l as [|y l IH]; intros k i; cbn [index_of]; [discriminate|].
  destruct (N.eqb_spec x y).
  - intros [= <-]. exists 0%nat. subst. split; [lia | reflexivity].
  - intros H. destruct (IH _ _ H) as (j & -> & Hj). exists (S j). split; [lia | exact Hj].
Qed.

Lemma index_of_seq x rest : forall n k,
  index_of x (N_seq k n ++ rest) k =
  if (k <=? x) && (x <? k + N.of_nat n) then Some x else index_of x rest (k + N.of_nat n).
Proof.
  induction n as [|n IH]; intros k.
  - cbn [N_seq app N.of_nat]. rewrite N.add_0_r.
    destruct (N.leb_spec k x), (N.ltb_spec x k); try reflexivity; lia.
  - cbn [N_seq app index_of]. destruct (N.eqb_spec x k).
    + subst. destruct (N.leb_spec k k), (N.ltb_spec k (k + N.of_nat (S n))); try reflexivity; lia.
    + rewrite IH. replace (N.succ k + N.of_nat n) with (k + N.of_nat (S n)) by lia.
      destruct (N.leb_spec (N.succ k) x), (N.leb_spec k x), (N.ltb_spec x (k + N.of_nat (S n)));
        try reflexivity; lia.
Qed.

Lemma charmap_ok tbl : charmap_table_ok tbl = true -> codec_ok (charmap tbl).
Proof.
  unfold charmap_table_ok. intros Hok. apply text_eqb_eq in Hok.
  assert (tbl = N_seq 0 128 ++ skipn 128 tbl) as Htbl.
  { rewrite <- Hok. symmetry. apply firstn_skipn. }
  split.
  - induction t as [|ch t IH]; intros b.
    + cbn. intros [= <-]. reflexivity.
    + rewrite enc_cons. cbn [encc charmap]. unfold charmap_encc.
      destruct (N.eqb_spec ch charmap_undefined) as [|Hne]; [discriminate|].
      destruct (index_of ch tbl 0) as [i|] eqn:Ei; [|discriminate].
      destruct (enc (charmap tbl) t) as [bt|]; [|discriminate]. rewrite oapp_some. intros Hb.
      apply some_inj in Hb. subst b. destruct (index_of_spec _ _ _ _ Ei) as (j & -> & Hj).
      cbn [app dec charmap charmap_dec]. rewrite N.add_0_l, Nnat.Nat2N.id, Hj.
      destruct (N.eqb_spec ch charmap_undefined); [contradiction|].
      change (charmap_dec tbl bt) with (dec (charmap tbl) bt). rewrite (IH bt eq_refl). reflexivity.
  - intros ch Hch. cbn [encc charmap]. unfold charmap_encc.
    destruct (N.eqb_spec ch charmap_undefined) as [E|_]; [unfold charmap_undefined in E; lia|].
    rewrite Htbl, index_of_seq. change (N.of_nat 128) with 128.
    destruct (N.leb_spec 0 ch), (N.ltb_spec ch (0 + 128)); try lia. reflexivity.
  - intros ch bs Hch. cbn [encc charmap]. unfold charmap_encc.
    destruct (N.eqb ch charmap_undefined); [discriminate|].
    rewrite Htbl, index_of_seq. change (N.of_nat 128) with 128.
    destruct (N.leb_spec 0 ch), (N.ltb_spec ch (0 + 128)); try lia. cbn [andb].
    destruct (index_of ch (skipn 128 tbl) (0 + 128)) as [i|] eqn:Ei; [|discriminate].
    intros Hbs. apply some_inj in Hbs. subst bs. split; [discriminate|].
    destruct (index_of_spec _ _ _ _ Ei) as (j & -> & _). repeat constructor. lia.
Qed.

(* non-vacuity: the decoding table of cp1252 as CPython has it (1114112 = undefined byte) *)
Definition cp1252_table : list N :=
  [0; 1; 2; 3; 4; 5; 6; 7; 8; 9; 10; 11; 12; 13; 14; 15; 16; 17; 18; 19; 20; 21; 22; 23; 24; 25; 26; 27; 28; 29; 30; 31; 32; 33; 34; 35; 36; 37; 38; 39; 40; 41; 42; 43; 44; 45; 46; 47; 48; 49; 50; 51; 52; 53; 54; 55; 56; 57; 58; 59; 60; 61; 62; 63; 64; 65; 66; 67; 68; 69; 70; 71; 72; 73; 74; 75; 76; 77; 78; 79; 80; 81; 82; 83; 84; 85; 86; 87; 88; 89; 90; 91; 92; 93; 94; 95; 96; 97; 98; 99; 100; 101; 102; 103; 104; 105; 106; 107; 108; 109; 110; 111; 112; 113; 114; 115; 116; 117; 118; 119; 120; 121; 122; 123; 124; 125; 126; 127; 8364; 1114112; 8218; 402; 8222; 8230; 8224; 8225; 710; 8240; 352; 8249; 338; 1114112; 381; 1114112; 1114112; 8216; 8217; 8220; 8221; 8226; 8211; 8212; 732; 8482; 353; 8250; 339; 1114112; 382; 376; 160; 161; 162; 163; 164; 165; 166; 167; 168; 169; 170; 171; 172; 173; 174; 175; 176; 177; 178; 179; 180; 181; 182; 183; 184; 185; 186; 187; 188; 189; 190; 191; 192; 193; 194; 195; 196; 197; 198; 199; 200; 201; 202; 203; 204; 205; 206; 207; 208; 209; 210; 211; 212; 213; 214; 215; 216; 217; 218; 219; 220; 221; 222; 223; 224; 225; 226; 227; 228; 229; 230; 231; 232; 233; 234; 235; 236; 237; 238; 239; 240; 241; 242; 243; 244; 245; 246; 247; 248; 249; 250; 251; 252; 253; 254; 255].
Example cp1252_table_ok : charmap_table_ok cp1252_table = true.
Proof. vm_compute. reflexivity. Qed.
