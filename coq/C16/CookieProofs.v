(* C16 — proofs about the cookie scanners: they see the same thing in a text and in its encoding by any
   ASCII-transparent codec. *)
From Coq Require Import List NArith Bool Lia.
From RopeVerif.Lib Require Import Text.
From RopeVerif.C16 Require Import Newlines Codec Cookie NewlinesProofs CodecProofs.
Import ListNotations.
Local Open Scope N_scope.

Definition ascii_only (p : N -> bool) : Prop := forall x, p x = true -> x < 128.
Definition high (l : list N) : Prop := Forall (fun x => 128 <= x) l.

Ltac nb := repeat match goal with
                  | H : N.eqb _ _ = true |- _ => apply N.eqb_eq in H
                  | H : N.leb _ _ = true |- _ => apply N.leb_le in H
                  | H : N.ltb _ _ = true |- _ => apply N.ltb_lt in H
                  | H : andb _ _ = true |- _ => apply andb_true_iff in H; destruct H
                  | H : orb _ _ = true |- _ => apply orb_true_iff in H; destruct H
                  end.

Lemma ao_lf : ascii_only is_lf. Proof. intros x H. unfold is_lf in H. nb. lia. Qed.
Lemma ao_sp_tab : ascii_only is_sp_tab. Proof. intros x H. unfold is_sp_tab in H. nb; lia. Qed.
Lemma ao_sp_tab_ff : ascii_only is_sp_tab_ff. Proof. intros x H. unfold is_sp_tab_ff in H. nb; lia. Qed.
Lemma ao_colon_eq : ascii_only is_colon_eq. Proof. intros x H. unfold is_colon_eq in H. nb; lia. Qed.
Lemma ao_alnum : ascii_only ascii_alnum.
Proof. intros x H. unfold ascii_alnum, is_upper, is_lower, is_digit in H. nb; lia. Qed.
Lemma ao_gate_namechar : ascii_only is_gate_namechar.
Proof. intros x H. unfold is_gate_namechar in H. nb; try lia. apply ao_alnum. assumption. Qed.
Lemma ao_ascii_namechar : ascii_only is_ascii_namechar.
Proof. intros x H. unfold is_ascii_namechar in H. nb; try lia. apply ao_alnum. assumption. Qed.

Lemma ao_false p x : ascii_only p -> 128 <= x -> p x = false.
Proof. intros Hp Hx. destruct (p x) eqn:E; [|reflexivity]. apply Hp in E. lia. Qed.

(* on ASCII bytes _find_coding's name characters are [-_a-zA-Z0-9] *)
Lemma find_namechar_ascii x : x < 128 -> is_find_namechar x = is_ascii_namechar x.
Proof.
  intros H. unfold is_find_namechar, is_ascii_namechar, byte_isalnum. f_equal. f_equal.
  repeat match goal with |- context[N.eqb x ?k] => destruct (N.eqb_spec x k); [lia|] end.
  destruct (N.leb_spec 192 x); [lia|]. cbn. rewrite !orb_false_r. reflexivity.
Qed.

Lemma gate_namechar_not_space x : is_gate_namechar x = true -> byte_isspace x = false.
Proof.
  unfold is_gate_namechar, ascii_alnum, is_upper, is_lower, is_digit, byte_isspace. intros H.
  nb; repeat match goal with
             | |- context[N.leb ?a ?b] => destruct (N.leb_spec a b)
             | |- context[N.eqb ?a ?b] => destruct (N.eqb_spec a b)
             end; try reflexivity; lia.
Qed.

Lemma sp_tab_space x : is_sp_tab x = true -> byte_isspace x = true.
Proof. unfold is_sp_tab. intros H. nb; subst; reflexivity. Qed.

(* ---- generic scanners ---- *)
Lemma skip_while_weaker (p q : N -> bool) l y r :
  (forall x, p x = true -> q x = true) -> skip_while p l = y :: r -> q y = false -> skip_while q l = y :: r.
Proof.
  intros Hpq. induction l as [|a l IH]; cbn [skip_while]; [discriminate|].
  destruct (p a) eqn:Ep.
  - intros H Hy. rewrite (Hpq a Ep). apply IH; assumption.
  - intros [= -> ->] Hy. rewrite Hy. reflexivity.
Qed.

Lemma take_while_all p l : forallb p (take_while p l) = true.
Proof. induction l as [|a l IH]; [reflexivity|]. cbn. destruct (p a) eqn:E; [cbn; rewrite E, IH|]; reflexivity. Qed.

Lemma strip_prefix_length p : forall t r, strip_prefix p t = Some r -> length t = (length p + length r)%nat.
Proof.
  induction p as [|x p IH]; intros t r; cbn [strip_prefix].
  - intros [= ->]. reflexivity.
  - destruct t as [|y t]; [discriminate|]. destruct (N.eqb x y); [|discriminate]. intros H.
    cbn [length]. rewrite (IH _ _ H). reflexivity.
Qed.

Lemma strip_coding_length t r : strip_prefix coding_lit t = Some r -> length t = (6 + length r)%nat.
Proof. intros H. apply strip_prefix_length in H. exact H. Qed.

Lemma find_after_unfold p t :
  find_after p t = match strip_prefix p t with
                   | Some rest => Some rest
                   | None => match t with [] => None | _ :: r => find_after p r end
                   end.
Proof. destruct t; reflexivity. Qed.

(* ================================================================================================ *)
Section Transparent.
  Variable c : codec.
  Hypothesis Hc : codec_ok c.

  Notation R t b := (enc c t = Some b).

  (* relation between optional rests *)
  Definition orel (o : option text) (o' : option (list N)) : Prop :=
    match o, o' with
    | Some r, Some r' => R r r'
    | None, None => True
    | _, _ => False
    end.

  Lemma R_nil b : R [] b -> b = [].
  Proof. cbn. congruence. Qed.

  Lemma R_cons_inv ch t b :
    R (ch :: t) b -> exists bs bt, encc c ch = Some bs /\ R t bt /\ b = bs ++ bt.
  Proof.
    rewrite enc_cons. destruct (encc c ch) as [bs|]; [|discriminate].
    destruct (enc c t) as [bt|]; [|discriminate]. cbn [oapp]. intros H. apply some_inj in H. eauto.
  Qed.

  Lemma R_cons_ascii ch t b : ch < 128 -> R (ch :: t) b -> exists bt, R t bt /\ b = ch :: bt.
  Proof.
    intros Hch H. apply R_cons_inv in H as (bs & bt & Hb & Ht & ->).
    rewrite (ok_ascii c Hc ch Hch) in Hb. apply some_inj in Hb. subst bs. eauto.
  Qed.

  Lemma R_cons_high ch t b :
    128 <= ch -> R (ch :: t) b -> exists b0 bs bt, R t bt /\ b = b0 :: bs ++ bt /\ 128 <= b0 /\ high bs.
  Proof.
    intros Hch H. apply R_cons_inv in H as (bs & bt & Hb & Ht & ->).
    destruct (ok_high c Hc ch bs Hch Hb) as [Hne Hhi]. destruct bs as [|b0 bs]; [congruence|].
    inversion Hhi; subst. exists b0, bs, bt. auto.
  Qed.

  Lemma R_cons_ascii_intro ch t bt : ch < 128 -> R t bt -> R (ch :: t) (ch :: bt).
  Proof. intros Hch Ht. rewrite enc_cons, (ok_ascii c Hc ch Hch), Ht. reflexivity. Qed.

  Lemma ascii_or_high (ch : N) : ch < 128 \/ 128 <= ch. Proof. lia. Qed.

  (* ---- heads ---- *)
  Lemma head_pred p t b :
    ascii_only p -> R t b ->
    match t with y :: _ => p y | [] => false end = match b with y :: _ => p y | [] => false end.
  Proof.
    intros Hp H. destruct t as [|ch t].
    - apply R_nil in H. subst. reflexivity.
    - destruct (ascii_or_high ch) as [Hch|Hch].
      + apply (R_cons_ascii _ _ _ Hch) in H as (bt & _ & ->). reflexivity.
      + apply (R_cons_high _ _ _ Hch) in H as (b0 & bs & bt & _ & -> & Hb0 & _).
        rewrite !(ao_false p) by assumption. reflexivity.
  Qed.

  (* ---- skip_while over ASCII-only classes ---- *)
  Lemma skip_enc p : ascii_only p -> forall t b, R t b -> R (skip_while p t) (skip_while p b).
  Proof.
    intros Hp. induction t as [|ch t IH]; intros b H.
    - apply R_nil in H. subst. reflexivity.
    - destruct (ascii_or_high ch) as [Hch|Hch].
      + pose proof H as H'. apply (R_cons_ascii _ _ _ Hch) in H as (bt & Ht & ->). cbn [skip_while].
        destruct (p ch); [apply IH, Ht | exact H'].
      + pose proof H as H'. apply (R_cons_high _ _ _ Hch) in H as (b0 & bs & bt & _ & -> & Hb0 & _).
        cbn [skip_while]. rewrite !(ao_false p) by assumption. exact H'.
  Qed.

  (* ---- literal ASCII prefixes ---- *)
  Lemma strip_enc p : Forall (fun x => x < 128) p ->
    forall t b, R t b -> orel (strip_prefix p t) (strip_prefix p b).
  Proof.
    induction 1 as [|x p Hx Hp IH]; intros t b H; cbn [strip_prefix orel]; [exact H|].
    destruct t as [|ch t].
    - apply R_nil in H. subst. exact I.
    - destruct (ascii_or_high ch) as [Hch|Hch].
      + apply (R_cons_ascii _ _ _ Hch) in H as (bt & Ht & ->).
        destruct (N.eqb x ch); [apply IH, Ht | exact I].
      + apply (R_cons_high _ _ _ Hch) in H as (b0 & bs & bt & _ & -> & Hb0 & _).
        destruct (N.eqb_spec x ch); [lia|]. destruct (N.eqb_spec x b0); [lia|]. exact I.
  Qed.

  Lemma coding_lit_ascii : Forall (fun x => x < 128) coding_lit.
  Proof. unfold coding_lit. repeat constructor. Qed.

  Lemma strip_coding_high b0 l : 128 <= b0 -> strip_prefix coding_lit (b0 :: l) = None.
  Proof. intros H. unfold coding_lit. cbn [strip_prefix]. destruct (N.eqb_spec 99 b0); [lia | reflexivity]. Qed.

  (* ---- the regular expression gate ---- *)
  Lemma cookie_here_enc t b : R t b -> cookie_here t = cookie_here b.
  Proof.
    intros H. unfold cookie_here. pose proof (strip_enc _ coding_lit_ascii t b H) as Hs.
    destruct (strip_prefix coding_lit t) as [r|], (strip_prefix coding_lit b) as [r'|]; cbn [orel] in Hs;
      try contradiction; [|reflexivity].
    destruct r as [|x r].
    { apply R_nil in Hs. subst. reflexivity. }
    destruct (ascii_or_high x) as [Hx|Hx].
    - apply (R_cons_ascii _ _ _ Hx) in Hs as (bt & Ht & ->). f_equal.
      apply (head_pred is_gate_namechar _ _ ao_gate_namechar). apply skip_enc; [exact ao_sp_tab | exact Ht].
    - apply (R_cons_high _ _ _ Hx) in Hs as (b0 & bs & bt & _ & -> & Hb0 & _).
      rewrite !(ao_false is_colon_eq) by (auto using ao_colon_eq). reflexivity.
  Qed.

  Lemma cookie_here_high b0 l : 128 <= b0 -> cookie_here (b0 :: l) = false.
  Proof. intros H. unfold cookie_here. rewrite strip_coding_high by assumption. reflexivity. Qed.

  Lemma cookie_somewhere_high bs l : high bs -> cookie_somewhere (bs ++ l) = cookie_somewhere l.
  Proof.
    induction 1 as [|b0 bs Hb0 Hbs IH]; [reflexivity|]. cbn [app cookie_somewhere].
    rewrite cookie_here_high by assumption. exact IH.
  Qed.

  Lemma cookie_somewhere_enc : forall t b, R t b -> cookie_somewhere t = cookie_somewhere b.
  Proof.
    induction t as [|ch t IH]; intros b H.
    - apply R_nil in H. subst. reflexivity.
    - pose proof (cookie_here_enc _ _ H) as Hh. destruct (ascii_or_high ch) as [Hch|Hch].
      + apply (R_cons_ascii _ _ _ Hch) in H as (bt & Ht & ->). cbn [cookie_somewhere].
        rewrite Hh, (IH _ Ht). reflexivity.
      + apply (R_cons_high _ _ _ Hch) in H as (b0 & bs & bt & Ht & -> & Hb0 & Hbs).
        cbn [cookie_somewhere]. rewrite !cookie_here_high by assumption. cbn [orb].
        rewrite cookie_somewhere_high by assumption. apply IH, Ht.
  Qed.

  Lemma gate_enc t b : R t b -> gate t = gate b.
  Proof.
    intros H. unfold gate. pose proof (skip_enc _ ao_sp_tab_ff _ _ H) as Hs.
    destruct (skip_while is_sp_tab_ff t) as [|ch r].
    - apply R_nil in Hs. rewrite Hs. reflexivity.
    - destruct (ascii_or_high ch) as [Hch|Hch].
      + apply (R_cons_ascii _ _ _ Hch) in Hs as (bt & Ht & ->). f_equal. apply cookie_somewhere_enc, Ht.
      + apply (R_cons_high _ _ _ Hch) in Hs as (b0 & bs & bt & _ & -> & Hb0 & _).
        destruct (N.eqb_spec ch 35); [lia|]. destruct (N.eqb_spec b0 35); [lia|]. reflexivity.
  Qed.

  (* ---- lines ---- *)
  Lemma take_line_high bs l : high bs -> take_line (bs ++ l) = (bs ++ fst (take_line l), snd (take_line l)).
  Proof.
    induction 1 as [|b0 bs Hb0 Hbs IH]; [cbn [app]; destruct (take_line l); reflexivity|]. cbn [app take_line].
    rewrite (ao_false is_lf) by (auto using ao_lf). rewrite IH. reflexivity.
  Qed.

  Lemma take_line_enc : forall t b, R t b ->
    R (fst (take_line t)) (fst (take_line b)) /\ orel (snd (take_line t)) (snd (take_line b)).
  Proof.
    induction t as [|ch t IH]; intros b H.
    - apply R_nil in H. subst. split; [reflexivity | exact I].
    - destruct (ascii_or_high ch) as [Hch|Hch].
      + apply (R_cons_ascii _ _ _ Hch) in H as (bt & Ht & ->). cbn [take_line].
        destruct (is_lf ch); [split; [reflexivity | exact Ht]|].
        destruct (IH _ Ht) as [I1 I2]. destruct (take_line t) as [l rest], (take_line bt) as [l' rest'].
        cbn [fst snd] in *. split; [apply R_cons_ascii_intro; assumption | exact I2].
      + pose proof H as H'. apply (R_cons_high _ _ _ Hch) in H as (b0 & bs & bt & Ht & -> & Hb0 & Hbs).
        cbn [take_line]. rewrite !(ao_false is_lf) by (auto using ao_lf).
        rewrite take_line_high by assumption. destruct (IH _ Ht) as [I1 I2].
        destruct (take_line t) as [l rest]. destruct (take_line bt) as [l' rest']. cbn [fst snd] in *.
        split; [|exact I2]. apply R_cons_inv in H' as (bs' & bt' & Hb & Ht' & Heq).
        rewrite Ht in Ht'. apply some_inj in Ht'. subst bt'.
        change (b0 :: bs ++ bt) with ((b0 :: bs) ++ bt) in Heq. apply app_inv_tail in Heq. subst bs'.
        rewrite enc_cons, Hb, I1. cbn [oapp]. rewrite <- app_comm_cons. reflexivity.
  Qed.

  Lemma first_two_lines_enc t b :
    R t b -> Forall2 (fun l l' => R l l') (first_two_lines t) (first_two_lines b).
  Proof.
    intros H. unfold first_two_lines. destruct (take_line_enc _ _ H) as [H1 H2].
    destruct (take_line t) as [l1 r], (take_line b) as [l1' r']. cbn [fst snd] in *.
    destruct r as [r1|], r' as [r1'|]; cbn [orel] in H2; try contradiction.
    - destruct (take_line_enc _ _ H2) as [H3 _].
      destruct (take_line r1) as [l2 ?], (take_line r1') as [l2' ?]. cbn [fst] in H3.
      repeat constructor; assumption.
    - repeat constructor; assumption.
  Qed.

  (* ---- _find_coding ---- *)
  Lemma find_after_high p bs l :
    (forall b0 l', 128 <= b0 -> strip_prefix p (b0 :: l') = None) -> high bs ->
    find_after p (bs ++ l) = find_after p l.
  Proof.
    intros Hp. induction 1 as [|b0 bs Hb0 Hbs IH]; [reflexivity|]. cbn [app].
    rewrite find_after_unfold, Hp by assumption. exact IH.
  Qed.

  Lemma find_after_enc : forall t b, R t b -> orel (find_after coding_lit t) (find_after coding_lit b).
  Proof.
    induction t as [|ch t IH]; intros b H.
    - apply R_nil in H. subst. exact I.
    - pose proof (strip_enc _ coding_lit_ascii _ _ H) as Hs. rewrite (find_after_unfold _ (ch :: t)).
      rewrite (find_after_unfold _ b).
      destruct (strip_prefix coding_lit (ch :: t)) as [r|], (strip_prefix coding_lit b) as [r'|];
        cbn [orel] in Hs; try contradiction; [exact Hs|].
      destruct (ascii_or_high ch) as [Hch|Hch].
      + apply (R_cons_ascii _ _ _ Hch) in H as (bt & Ht & ->). apply IH, Ht.
      + apply (R_cons_high _ _ _ Hch) in H as (b0 & bs & bt & Ht & -> & Hb0 & Hbs).
        rewrite (find_after_high _ _ _ strip_coding_high Hbs). apply IH, Ht.
  Qed.

  (* the name as the text shows it *)
  Definition find_coding_ref (l : text) : option text :=
    match find_after coding_lit l with
    | Some (x :: r) =>
        if is_colon_eq x then Some (take_while is_ascii_namechar (skip_while is_sp_tab r)) else None
    | _ => None
    end.

  Lemma take_name_enc : forall u U, R u U ->
    match skip_while is_ascii_namechar u with [] => true | z :: _ => z <? 128 end = true ->
    take_while is_find_namechar U = take_while is_ascii_namechar u.
  Proof.
    induction u as [|ch u IH]; intros U H Hend.
    - apply R_nil in H. subst. reflexivity.
    - cbn [skip_while take_while] in *. destruct (is_ascii_namechar ch) eqn:En.
      + pose proof (ao_ascii_namechar _ En) as Hch.
        apply (R_cons_ascii _ _ _ Hch) in H as (bt & Ht & ->). cbn [take_while].
        rewrite (find_namechar_ascii _ Hch), En. f_equal. apply IH; assumption.
      + apply N.ltb_lt in Hend. apply (R_cons_ascii _ _ _ Hend) in H as (bt & Ht & ->). cbn [take_while].
        rewrite (find_namechar_ascii _ Hend), En. reflexivity.
  Qed.

  Lemma ascii_namechars_ascii l : forallb (fun x => x <? 128) (take_while is_ascii_namechar l) = true.
  Proof.
    induction l as [|a l IH]; [reflexivity|]. cbn [take_while]. destruct (is_ascii_namechar a) eqn:E; [|reflexivity].
    cbn [forallb]. rewrite IH, andb_true_r. apply N.ltb_lt. apply ao_ascii_namechar, E.
  Qed.

  Lemma find_coding_enc l L :
    R l L -> cookie_clean_line l = true -> find_coding L = find_coding_ref l.
  Proof.
    intros H Hclean. unfold find_coding, find_coding_ref, cookie_clean_line in *.
    pose proof (find_after_enc _ _ H) as Hf.
    destruct (find_after coding_lit l) as [r|], (find_after coding_lit L) as [r'|]; cbn [orel] in Hf;
      try contradiction; [|reflexivity].
    destruct r as [|x r].
    { apply R_nil in Hf. subst. reflexivity. }
    destruct (ascii_or_high x) as [Hx|Hx].
    2:{ apply (R_cons_high _ _ _ Hx) in Hf as (b0 & bs & bt & _ & -> & Hb0 & _).
        rewrite !(ao_false is_colon_eq) by (auto using ao_colon_eq). reflexivity. }
    apply (R_cons_ascii _ _ _ Hx) in Hf as (bt & Ht & ->).
    destruct (is_colon_eq x); [|reflexivity].
    pose proof (skip_enc _ ao_sp_tab _ _ Ht) as Hs.
    destruct (skip_while is_sp_tab r) as [|y r1] eqn:Er; [discriminate|].
    apply andb_true_iff in Hclean as [Hy Hend].
    pose proof (ao_gate_namechar _ Hy) as Hy128. pose proof Hs as Hs'.
    apply (R_cons_ascii _ _ _ Hy128) in Hs as (R1 & HR1 & Hskip).
    rewrite (skip_while_weaker is_sp_tab byte_isspace bt y R1 sp_tab_space Hskip (gate_namechar_not_space _ Hy)).
    rewrite Hskip in Hs'.
    rewrite (take_name_enc _ _ Hs' Hend). apply utf8_dec_ascii, ascii_namechars_ascii.
  Qed.
  (* ---- CURRENT read_str_coding: the regular expression's group, universal line breaks ---- *)
  Lemma take_enc p : ascii_only p -> forall t b, R t b -> take_while p t = take_while p b.
  Proof.
    intros Hp. induction t as [|ch t IH]; intros b H.
    - apply R_nil in H. subst. reflexivity.
    - destruct (ascii_or_high ch) as [Hch|Hch].
      + apply (R_cons_ascii _ _ _ Hch) in H as (bt & Ht & ->). cbn [take_while].
        rewrite (IH _ Ht). reflexivity.
      + apply (R_cons_high _ _ _ Hch) in H as (b0 & bs & bt & _ & -> & Hb0 & _).
        cbn [take_while]. rewrite !(ao_false p) by assumption. reflexivity.
  Qed.

  Lemma ao_cr : ascii_only is_cr. Proof. intros x H. unfold is_cr in H. nb. lia. Qed.

  Lemma take_line_u_high bs l :
    high bs -> take_line_u (bs ++ l) = (bs ++ fst (take_line_u l), snd (take_line_u l)).
  Proof.
    induction 1 as [|b0 bs Hb0 Hbs IH]; [cbn [app]; destruct (take_line_u l); reflexivity|].
    cbn [app take_line_u]. rewrite (ao_false is_cr), (ao_false is_lf) by (auto using ao_cr, ao_lf).
    rewrite IH. reflexivity.
  Qed.

  Lemma take_line_u_enc : forall t b, R t b ->
    R (fst (take_line_u t)) (fst (take_line_u b)) /\ orel (snd (take_line_u t)) (snd (take_line_u b)).
  Proof.
    induction t as [|ch t IH]; intros b H.
    - apply R_nil in H. subst. split; [reflexivity | exact I].
    - destruct (ascii_or_high ch) as [Hch|Hch].
      + apply (R_cons_ascii _ _ _ Hch) in H as (bt & Ht & ->). cbn [take_line_u].
        destruct (is_cr ch).
        { destruct t as [|d t'].
          - apply R_nil in Ht. subst. split; [reflexivity | reflexivity].
          - destruct (ascii_or_high d) as [Hd|Hd].
            + pose proof Ht as Ht'. apply (R_cons_ascii _ _ _ Hd) in Ht as (bt' & Ht'' & ->).
              destruct (is_lf d); (split; [reflexivity | assumption]).
            + pose proof Ht as Ht'. apply (R_cons_high _ _ _ Hd) in Ht as (b0 & bs & bt' & _ & -> & Hb0 & _).
              rewrite !(ao_false is_lf) by (auto using ao_lf). split; [reflexivity | exact Ht']. }
        destruct (is_lf ch); [split; [reflexivity | exact Ht]|].
        destruct (IH _ Ht) as [I1 I2]. destruct (take_line_u t) as [l rest], (take_line_u bt) as [l' rest'].
        cbn [fst snd] in *. split; [apply R_cons_ascii_intro; assumption | exact I2].
      + pose proof H as H'. apply (R_cons_high _ _ _ Hch) in H as (b0 & bs & bt & Ht & -> & Hb0 & Hbs).
        cbn [take_line_u]. rewrite !(ao_false is_cr), !(ao_false is_lf) by (auto using ao_cr, ao_lf).
        rewrite take_line_u_high by assumption. destruct (IH _ Ht) as [I1 I2].
        destruct (take_line_u t) as [l rest]. destruct (take_line_u bt) as [l' rest']. cbn [fst snd] in *.
        split; [|exact I2]. apply R_cons_inv in H' as (bs' & bt' & Hb & Ht' & Heq).
        rewrite Ht in Ht'. apply some_inj in Ht'. subst bt'.
        change (b0 :: bs ++ bt) with ((b0 :: bs) ++ bt) in Heq. apply app_inv_tail in Heq. subst bs'.
        rewrite enc_cons, Hb, I1. cbn [oapp]. rewrite <- app_comm_cons. reflexivity.
  Qed.

  Lemma first_two_lines_u_enc t b :
    R t b -> Forall2 (fun l l' => R l l') (first_two_lines_u t) (first_two_lines_u b).
  Proof.
    intros H. unfold first_two_lines_u. destruct (take_line_u_enc _ _ H) as [H1 H2].
    destruct (take_line_u t) as [l1 r], (take_line_u b) as [l1' r']. cbn [fst snd] in *.
    destruct r as [r1|], r' as [r1'|]; cbn [orel] in H2; try contradiction.
    - destruct (take_line_u_enc _ _ H2) as [H3 _].
      destruct (take_line_u r1) as [l2 ?], (take_line_u r1') as [l2' ?]. cbn [fst] in H3.
      repeat constructor; assumption.
    - repeat constructor; assumption.
  Qed.

  Lemma pep263_scan_high bs l : high bs -> pep263_scan (bs ++ l) = pep263_scan l.
  Proof.
    induction 1 as [|b0 bs Hb0 Hbs IH]; [reflexivity|]. cbn [app pep263_scan].
    rewrite cookie_here_high by assumption. exact IH.
  Qed.

  Lemma cookie_name_enc t b :
    R t b -> cookie_here t = true ->
    match strip_prefix coding_lit t with
    | Some (_ :: r') => Some (take_while is_gate_namechar (skip_while is_sp_tab r'))
    | _ => None
    end =
    match strip_prefix coding_lit b with
    | Some (_ :: r') => Some (take_while is_gate_namechar (skip_while is_sp_tab r'))
    | _ => None
    end.
  Proof.
    intros H Hh. unfold cookie_here in Hh. pose proof (strip_enc _ coding_lit_ascii t b H) as Hs.
    destruct (strip_prefix coding_lit t) as [[|x r]|]; try discriminate.
    destruct (strip_prefix coding_lit b) as [r'|]; cbn [orel] in Hs; [|contradiction].
    apply andb_true_iff in Hh as [Hx _]. pose proof (ao_colon_eq _ Hx) as Hx128.
    apply (R_cons_ascii _ _ _ Hx128) in Hs as (bt & Ht & ->). f_equal.
    apply (take_enc _ ao_gate_namechar). apply skip_enc; [exact ao_sp_tab | exact Ht].
  Qed.

  Lemma pep263_scan_enc : forall t b, R t b -> pep263_scan t = pep263_scan b.
  Proof.
    induction t as [|ch t IH]; intros b H.
    - apply R_nil in H. subst. reflexivity.
    - pose proof (cookie_here_enc _ _ H) as Hh. pose proof (cookie_name_enc _ _ H) as Hn.
      destruct (ascii_or_high ch) as [Hch|Hch].
      + apply (R_cons_ascii _ _ _ Hch) in H as (bt & Ht & ->). cbn [pep263_scan].
        rewrite <- Hh. destruct (cookie_here (ch :: t)); [apply Hn; reflexivity | apply IH, Ht].
      + apply (R_cons_high _ _ _ Hch) in H as (b0 & bs & bt & Ht & -> & Hb0 & Hbs).
        cbn [pep263_scan]. rewrite !cookie_here_high by assumption.
        rewrite pep263_scan_high by assumption. apply IH, Ht.
  Qed.

  Lemma pep263_line_enc t b : R t b -> pep263_line t = pep263_line b.
  Proof.
    intros H. unfold pep263_line. pose proof (skip_enc _ ao_sp_tab_ff _ _ H) as Hs.
    destruct (skip_while is_sp_tab_ff t) as [|ch r].
    - apply R_nil in Hs. rewrite Hs. reflexivity.
    - destruct (ascii_or_high ch) as [Hch|Hch].
      + apply (R_cons_ascii _ _ _ Hch) in Hs as (bt & Ht & ->).
        destruct (N.eqb ch 35); [apply pep263_scan_enc, Ht | reflexivity].
      + apply (R_cons_high _ _ _ Hch) in Hs as (b0 & bs & bt & _ & -> & Hb0 & _).
        destruct (N.eqb_spec ch 35); [lia|]. destruct (N.eqb_spec b0 35); [lia|]. reflexivity.
  Qed.

  (* The declaration found in a text is the declaration found in its encoding. *)
  Theorem cookie_of_enc t b : R t b -> cookie_of t = cookie_of b.
  Proof.
    intros H. unfold cookie_of. pose proof (first_two_lines_u_enc _ _ H) as HF.
    induction HF as [|l L ls Ls HL _ IH]; [reflexivity|]. cbn [pep263_of_lines].
    rewrite (pep263_line_enc _ _ HL), IH. reflexivity.
  Qed.
End Transparent.

(* ================================================================================================ *)

Lemma coding_of_lines_agree c : codec_ok c ->
  forall ls Ls,
    Forall2 (fun l L => enc c l = Some L) ls Ls ->
    forallb cookie_clean_line ls = true ->
    coding_of_lines_text ls <> TEncodeError ->
    coding_of_lines_text ls = tcookie_of (coding_of_lines_bytes Ls).
Proof.
  intros Hc ls Ls H. induction H as [|l L ls Ls HL Hrest IH]; intros Hclean Hne.
  - reflexivity.
  - cbn [forallb] in Hclean. apply andb_true_iff in Hclean as [Hcl Hcls].
    cbn [coding_of_lines_text coding_of_lines_bytes] in *. rewrite <- (gate_enc c Hc l L HL).
    destruct (gate l).
    + destruct (enc utf8 l) as [U|] eqn:HlU; [|congruence].
      rewrite (find_coding_enc utf8 utf8_ok l U HlU Hcl).
      rewrite (find_coding_enc c Hc l L HL Hcl). destruct (find_coding_ref l); reflexivity.
    + apply IH; assumption.
Qed.

(* The encoding rope chooses when it writes a text is the one it finds when it reads the bytes back. *)
Theorem cookie_agree_noerr c t b :
  codec_ok c -> enc c t = Some b -> cookie_clean t = true -> legacy_cookie_text t <> TEncodeError ->
  legacy_cookie_text t = tcookie_of (legacy_cookie_bytes b).
Proof.
  intros Hc Hb Hclean Hne. unfold legacy_cookie_text, legacy_cookie_bytes.
  apply (coding_of_lines_agree c Hc); [apply first_two_lines_enc; assumption | exact Hclean | exact Hne].
Qed.

Lemma lines_no_encode_error ls Us :
  Forall2 (fun l U => enc utf8 l = Some U) ls Us -> coding_of_lines_text ls <> TEncodeError.
Proof.
  induction 1 as [|l U ls Us HlU _ IH]; cbn [coding_of_lines_text]; [discriminate|].
  destruct (gate l); [|exact IH]. rewrite HlU. destruct (find_coding U); discriminate.
Qed.

Theorem cookie_agree c t b u :
  codec_ok c -> enc c t = Some b -> enc utf8 t = Some u -> cookie_clean t = true ->
  legacy_cookie_text t = tcookie_of (legacy_cookie_bytes b).
Proof.
  intros Hc Hb Hu Hclean. apply (cookie_agree_noerr c); try assumption.
  apply (lines_no_encode_error _ (first_two_lines u)). apply (first_two_lines_enc utf8 utf8_ok); assumption.
Qed.

(* ---- rope's extraction vs the regular expression's group ---------------------------------------------- *)
Definition idcodec : codec := {| encc := fun ch => Some [ch]; dec := fun b => Some b |}.

Lemma idcodec_enc t : enc idcodec t = Some t.
Proof. induction t as [|ch t IH]; [reflexivity|]. rewrite enc_cons. cbn [encc idcodec]. rewrite IH. reflexivity. Qed.

Lemma idcodec_ok : codec_ok idcodec.
Proof.
  split.
  - intros t b H. rewrite idcodec_enc in H. apply some_inj in H. subst. reflexivity.
  - reflexivity.
  - intros ch bs H [= <-]. split; [discriminate|]. repeat constructor. exact H.
Qed.

Lemma clean_of_first l : first_coding_is_cookie l = true -> cookie_clean_line l = true.
Proof.
  unfold first_coding_is_cookie, cookie_clean_line. destruct (find_after coding_lit l) as [[|x r]|]; auto.
  destruct (is_colon_eq x); [|discriminate]. cbn [andb].
  destruct (skip_while is_sp_tab r) as [|y r1]; [auto|]. destruct (is_gate_namechar y); [|auto]. cbn [andb].
  destruct (skip_while is_ascii_namechar (y :: r1)) as [|z ?]; [auto|]. intros H. apply andb_true_iff in H. tauto.
Qed.

Lemma find_coding_is_ref l : cookie_clean_line l = true -> find_coding l = find_coding_ref l.
Proof. apply (find_coding_enc idcodec idcodec_ok). apply idcodec_enc. Qed.

Lemma gate_pep l : gate l = match pep263_line l with Some _ => true | None => false end.
Proof.
  unfold gate, pep263_line. destruct (skip_while is_sp_tab_ff l) as [|ch r]; [reflexivity|].
  destruct (N.eqb ch 35); [|reflexivity]. cbn [andb].
  induction r as [|a r IH]; [reflexivity|]. cbn [cookie_somewhere pep263_scan].
  destruct (cookie_here (a :: r)) eqn:E.
  - unfold cookie_here in E. destruct (strip_prefix coding_lit (a :: r)) as [[|x r']|]; try discriminate. reflexivity.
  - exact IH.
Qed.

(* the first occurrence of "coding" inside a suffix *)
Lemma skip_sp_tab_ff_no_c l : find_after coding_lit l =
  match skip_while is_sp_tab_ff l with
  | ch :: r => if N.eqb ch 35 then find_after coding_lit r else find_after coding_lit (skip_while is_sp_tab_ff l)
  | [] => None
  end.
Proof.
  induction l as [|a l IH]; [reflexivity|]. cbn [skip_while]. destruct (is_sp_tab_ff a) eqn:E.
  - rewrite find_after_unfold. unfold is_sp_tab_ff in E.
    assert (strip_prefix coding_lit (a :: l) = None) as ->.
    { unfold coding_lit. cbn [strip_prefix]. destruct (N.eqb_spec 99 a); [|reflexivity]. subst. discriminate. }
    exact IH.
  - destruct (N.eqb_spec a 35); [|reflexivity]. subst a. rewrite find_after_unfold. reflexivity.
Qed.

Lemma name_no_dot l :
  match skip_while is_ascii_namechar l with [] => true | z :: _ => (z <? 128) && negb (N.eqb z 46) end = true ->
  take_while is_gate_namechar l = take_while is_ascii_namechar l.
Proof.
  induction l as [|a l IH]; [reflexivity|]. cbn [skip_while take_while].
  assert (is_gate_namechar a = is_ascii_namechar a || N.eqb a 46) as Hg by reflexivity.
  destruct (is_ascii_namechar a) eqn:E.
  - rewrite Hg. cbn [orb]. intros H. f_equal. apply IH, H.
  - rewrite Hg. cbn [orb]. intros H. apply andb_true_iff in H as [_ H]. apply negb_true_iff in H. rewrite H. reflexivity.
Qed.

Lemma pep263_scan_short : forall r, (length r < 7)%nat -> pep263_scan r = None.
Proof.
  induction r as [|a r IH]; [reflexivity|]. intros Hlen. cbn [pep263_scan]. unfold cookie_here.
  destruct (strip_prefix coding_lit (a :: r)) as [[|x r']|] eqn:E.
  - apply IH. cbn [length] in Hlen. lia.
  - apply strip_coding_length in E. cbn [length] in *. lia.
  - apply IH. cbn [length] in Hlen. lia.
Qed.

Lemma pep_scan_first r :
  first_coding_is_cookie r = true ->
  pep263_scan r = find_coding_ref r.
Proof.
  unfold find_coding_ref, first_coding_is_cookie.
  induction r as [|a r IH]; [reflexivity|]. rewrite (find_after_unfold _ (a :: r)). cbn [pep263_scan].
  unfold cookie_here. destruct (strip_prefix coding_lit (a :: r)) as [rest|] eqn:Es.
  - destruct rest as [|x r'].
    { intros _. apply pep263_scan_short. apply strip_coding_length in Es. cbn [length] in Es. lia. }
    destruct (is_colon_eq x); [|discriminate]. cbn [andb].
    destruct (skip_while is_sp_tab r') as [|y r1]; [discriminate|]. intros H.
    apply andb_true_iff in H as [Hy Hend]. rewrite Hy. f_equal. apply name_no_dot, Hend.
  - exact IH.
Qed.

Lemma pep_line_first l :
  first_coding_is_cookie l = true -> gate l = true -> pep263_line l = find_coding_ref l.
Proof.
  intros Hf Hg. unfold pep263_line. unfold gate in Hg. unfold find_coding_ref, first_coding_is_cookie in *.
  rewrite skip_sp_tab_ff_no_c in *. destruct (skip_while is_sp_tab_ff l) as [|ch r]; [discriminate|].
  destruct (N.eqb ch 35); [|discriminate]. apply pep_scan_first. exact Hf.
Qed.

(* Where the first "coding" of the declaring line is the declaration, rope finds the PEP 263 name. *)
Theorem cookie_is_pep263 b :
  forallb first_coding_is_cookie (first_two_lines b) = true -> legacy_cookie_bytes b = pep263_bytes b.
Proof.
  unfold legacy_cookie_bytes, pep263_bytes. induction (first_two_lines b) as [|l ls IH]; [reflexivity|].
  cbn [forallb coding_of_lines_bytes pep263_of_lines]. intros H. apply andb_true_iff in H as [Hl Hls].
  pose proof (gate_pep l) as Hg. destruct (gate l) eqn:Eg.
  - rewrite (find_coding_is_ref l (clean_of_first l Hl)), <- (pep_line_first l Hl Eg).
    destruct (pep263_line l); [reflexivity | discriminate].
  - destruct (pep263_line l); [discriminate|]. apply IH, Hls.
Qed.

(* ---- the IndexError branch of _find_coding is unreachable behind the gate ---- *)
Lemma find_after_nonempty : forall l s x r',
  (exists pre, l = pre ++ s) -> strip_prefix coding_lit s = Some (x :: r') ->
  exists y rest, find_after coding_lit l = Some (y :: rest).
Proof.
  induction l as [|a l IH]; intros s x r' [pre Hpre] Hs.
  - destruct pre; [|discriminate]. cbn in Hpre. subst s. discriminate.
  - rewrite find_after_unfold. destruct (strip_prefix coding_lit (a :: l)) as [rest|] eqn:E.
    + destruct rest as [|y rest]; [|eauto]. exfalso.
      apply strip_coding_length in E. apply strip_coding_length in Hs.
      apply (f_equal (@length N)) in Hpre. rewrite app_length in Hpre. cbn [length] in *. lia.
    + destruct pre as [|p pre].
      * cbn in Hpre. subst s. congruence.
      * cbn in Hpre. injection Hpre as _ Hl. apply (IH s x r'); eauto.
Qed.

Lemma cookie_somewhere_witness : forall r, cookie_somewhere r = true ->
  exists pre s x r', r = pre ++ s /\ strip_prefix coding_lit s = Some (x :: r').
Proof.
  induction r as [|a r IH]; [discriminate|]. cbn [cookie_somewhere]. intros H.
  apply orb_true_iff in H as [H|H].
  - unfold cookie_here in H. destruct (strip_prefix coding_lit (a :: r)) as [[|x r']|] eqn:E; try discriminate.
    exists [], (a :: r), x, r'. auto.
  - destruct (IH H) as (pre & s & x & r' & -> & Hs). exists (a :: pre), s, x, r'. auto.
Qed.

Theorem gate_no_index_error l : gate l = true -> find_coding_index_error l = false.
Proof.
  unfold gate, find_coding_index_error. intros H.
  destruct (skip_while is_sp_tab_ff l) as [|ch r] eqn:Es; [discriminate|].
  apply andb_true_iff in H as [_ H]. destruct (cookie_somewhere_witness _ H) as (pre & s & x & r' & -> & Hs).
  assert (exists pre', l = pre' ++ s) as Hpre.
  { clear -Es. revert Es. induction l as [|a l IH]; cbn [skip_while]; [discriminate|].
    destruct (is_sp_tab_ff a).
    - intros H. destruct (IH H) as [p ->]. exists (a :: p). reflexivity.
    - intros [= -> ->]. exists (ch :: pre). reflexivity. }
  destruct (find_after_nonempty l s x r' Hpre Hs) as (y & rest & ->). reflexivity.
Qed.

(* ================================================================================================
   CURRENT read_str_coding: splitting on "\r\n|\r|\n" is reading with universal newlines
   ================================================================================================ *)
Definition norm_nl (b : text) : text := repl_cr (repl_crlf b).

Lemma repl_crlf_id t : has_crlf t = false -> repl_crlf t = t.
Proof.
  induction t as [|a|a b r _ IH] using list_ind2; try reflexivity.
  rewrite has_crlf_cons, repl_crlf_cons. intros H. apply orb_false_iff in H as [H1 H2]. rewrite H1, (IH H2). reflexivity.
Qed.

Lemma repl_cr_id t : has_cr t = false -> repl_cr t = t.
Proof.
  induction t as [|a t IH]; [reflexivity|]. unfold has_cr, repl_cr in *. cbn [existsb map]. intros H.
  apply orb_false_iff in H as [H1 H2]. rewrite H1, (IH H2). reflexivity.
Qed.

Lemma decode_nl_norm b : fst (decode_nl b) = norm_nl b.
Proof.
  unfold decode_nl, norm_nl. destruct (has_crlf b) eqn:Ec; cbn [fst].
  - destruct (has_cr (repl_crlf b)) eqn:Er; cbn [fst]; [reflexivity | symmetry; apply repl_cr_id, Er].
  - rewrite (repl_crlf_id _ Ec). destruct (has_cr b) eqn:Er; cbn [fst]; [reflexivity | symmetry; apply repl_cr_id, Er].
Qed.

Lemma norm_nl_cons_plain a t : is_cr a = false -> norm_nl (a :: t) = a :: norm_nl t.
Proof.
  intros Ha. unfold norm_nl. destruct t as [|b r].
  - cbn [repl_crlf]. unfold repl_cr. cbn [map]. rewrite Ha. reflexivity.
  - rewrite repl_crlf_cons, Ha. cbn [andb]. unfold repl_cr. cbn [map]. rewrite Ha. reflexivity.
Qed.

Lemma take_line_u_cons c r :
  take_line_u (c :: r) =
  if is_cr c then match r with
                  | d :: r' => if is_lf d then ([], Some r') else ([], Some r)
                  | [] => ([], Some r)
                  end
  else if is_lf c then ([], Some r)
  else let (l, rest) := take_line_u r in (c :: l, rest).
Proof. reflexivity. Qed.

Lemma take_line_u_norm : forall b,
  take_line (norm_nl b) = (fst (take_line_u b), option_map norm_nl (snd (take_line_u b))).
Proof.
  induction b as [|a|a b r IHr IHbr] using list_ind2.
  - reflexivity.
  - unfold norm_nl. cbn [repl_crlf take_line_u]. unfold repl_cr. cbn [map]. destruct (is_cr a) eqn:Ea.
    + reflexivity.
    + cbn [take_line]. destruct (is_lf a); reflexivity.
  - rewrite (take_line_u_cons a). destruct (is_cr a) eqn:Ea.
    + unfold norm_nl. rewrite repl_crlf_cons, Ea. cbn [andb]. destruct (is_lf b) eqn:Eb.
      * unfold repl_cr. cbn [map]. change (is_cr 10) with false. cbn iota. cbn [take_line].
        change (is_lf 10) with true. cbn iota. reflexivity.
      * unfold repl_cr at 1. cbn [map]. rewrite Ea. cbn [take_line]. change (is_lf 10) with true. cbn iota.
        reflexivity.
    + rewrite (norm_nl_cons_plain _ _ Ea). cbn [take_line]. destruct (is_lf a); [reflexivity|].
      rewrite IHbr. destruct (take_line_u (b :: r)) as [l rest]. reflexivity.
Qed.

Lemma first_two_lines_u_norm b : first_two_lines_u b = first_two_lines (norm_nl b).
Proof.
  unfold first_two_lines_u, first_two_lines. rewrite take_line_u_norm.
  destruct (take_line_u b) as [l1 [r1|]]; cbn [fst snd option_map]; [|reflexivity].
  rewrite take_line_u_norm. destruct (take_line_u r1) as [l2 r2]. reflexivity.
Qed.

(* rope's declaration is the PEP 263 declaration as CPython reads it (universal newlines), for every input *)
Theorem cookie_of_is_pep263 b : cookie_of b = pep263_universal b.
Proof.
  unfold cookie_of, pep263_universal, pep263_bytes. rewrite decode_nl_norm, first_two_lines_u_norm. reflexivity.
Qed.

(* ---- an edit behind the second line break cannot change the declaration ---- *)
Lemma take_line_u_app_fst : forall P r x,
  snd (take_line_u P) = Some r -> fst (take_line_u (P ++ x)) = fst (take_line_u P).
Proof.
  induction P as [|c P IH]; intros r x; [discriminate|]. cbn [app take_line_u]. destruct (is_cr c).
  - destruct P as [|d P']; cbn [app].
    + intros _. destruct x as [|d x']; [reflexivity|]. destruct (is_lf d); reflexivity.
    + intros _. destruct (is_lf d); reflexivity.
  - destruct (is_lf c); [reflexivity|]. destruct (take_line_u P) as [l rest] eqn:E. cbn [fst snd]. intros H.
    specialize (IH r x H). destruct (take_line_u (P ++ x)) as [l' rest']. cbn [fst] in *. congruence.
Qed.

Lemma take_line_u_app_snd : forall P r x,
  snd (take_line_u P) = Some r -> r <> [] -> snd (take_line_u (P ++ x)) = Some (r ++ x).
Proof.
  induction P as [|c P IH]; intros r x; [discriminate|]. cbn [app take_line_u]. destruct (is_cr c).
  - destruct P as [|d P']; cbn [app snd].
    + intros [= <-] Hne. congruence.
    + destruct (is_lf d); cbn [snd]; intros [= <-] _; reflexivity.
  - destruct (is_lf c); [cbn [snd]; intros [= <-] _; reflexivity|].
    destruct (take_line_u P) as [l rest] eqn:E. cbn [fst snd]. intros H Hne.
    specialize (IH r x H Hne). destruct (take_line_u (P ++ x)) as [l' rest']. cbn [snd] in *. exact IH.
Qed.

Lemma first_two_lines_u_prefix P x : two_breaks P = true -> first_two_lines_u (P ++ x) = first_two_lines_u P.
Proof.
  unfold two_breaks, first_two_lines_u. destruct (take_line_u P) as [l1 r1] eqn:E1. cbn [snd].
  destruct r1 as [r1|]; [|discriminate]. destruct (take_line_u r1) as [l2 r2] eqn:E2. cbn [snd].
  destruct r2 as [r2|]; [|discriminate]. intros _.
  assert (r1 <> []) as Hne by (intros ->; discriminate).
  pose proof (take_line_u_app_fst P r1 x) as F1. pose proof (take_line_u_app_snd P r1 x) as S1.
  rewrite E1 in F1, S1. cbn [fst snd] in F1, S1. specialize (F1 eq_refl). specialize (S1 eq_refl Hne).
  destruct (take_line_u (P ++ x)) as [l1' r1']. cbn [fst snd] in F1, S1. subst l1' r1'.
  pose proof (take_line_u_app_fst r1 r2 x) as F2. rewrite E2 in F2. cbn [fst snd] in F2. specialize (F2 eq_refl).
  destruct (take_line_u (r1 ++ x)) as [l2' ?]. cbn [fst] in F2. subst l2'. reflexivity.
Qed.
