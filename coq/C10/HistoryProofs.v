(* History-level statements of C10, refutations for the code as found, and non-vacuity witnesses. *)
From stdpp Require Import gmap list.
From Coq Require Import NArith Lia.
From RopeVerif.Lib Require Import Text.
From RopeVerif.C10 Require Import FsModel FsProofs Change ChangeProofs.

Lemma set_fs_same s : set_fs s (h_fs s) = s.
Proof. destruct s; reflexivity. Qed.

Lemma single_failure_notify k x : single_failure k x -> single_failure (notify k) x.
Proof. apply single_failure_next. apply mono_notify. Qed.

(* ----------------------------------------------------------------------- atomicity theorems *)
Theorem history_do_atomic f c s k s' k' x :
  wf_fs (h_fs s) ->
  history_do repaired f c s k = HErr s' k' x ->
  irrev k' = false -> single_failure k x ->
  s' = s /\ clean x = true.
Proof.
  intros Hwf H Hirr Hsf. unfold history_do in H.
  destruct (run repaired f true (notify k) Do c (h_fs s)) as [m' k1 c'|m' k1 x1] eqn:Er; [discriminate|].
  inversion H; subst s' k1 x1; clear H.
  destruct (atom_all f _ _ _ _ _ _ _ Hwf Er Hirr (single_failure_notify _ _ Hsf)) as [-> [_ Hc]].
  split; [apply set_fs_same|exact Hc].
Qed.

Theorem history_undo_atomic f s k s' k' x :
  wf_fs (h_fs s) ->
  history_undo repaired f s k = HErr s' k' x ->
  irrev k' = false -> single_failure k x ->
  s' = s /\ clean x = true.
Proof.
  intros Hwf H Hirr Hsf. unfold history_undo in H.
  destruct (h_undo s) as [|c0 rest]; [inversion H; subst; auto|].
  destruct (run repaired f true (notify k) Undo (List.last rest c0) (h_fs s)) as [m' k1 c'|m' k1 x1] eqn:Er;
    [discriminate|].
  inversion H; subst s' k1 x1; clear H.
  destruct (atom_all f _ _ _ _ _ _ _ Hwf Er Hirr (single_failure_notify _ _ Hsf)) as [-> [_ Hc]].
  split; [apply set_fs_same|exact Hc].
Qed.

Theorem history_redo_atomic f s k s' k' x :
  wf_fs (h_fs s) ->
  history_redo repaired f s k = HErr s' k' x ->
  irrev k' = false -> single_failure k x ->
  s' = s /\ clean x = true.
Proof.
  intros Hwf H Hirr Hsf. unfold history_redo in H.
  destruct (h_redo s) as [|c0 rest]; [inversion H; subst; auto|].
  destruct (run repaired f true (notify k) Do (List.last rest c0) (h_fs s)) as [m' k1 c'|m' k1 x1] eqn:Er;
    [discriminate|].
  inversion H; subst s' k1 x1; clear H.
  destruct (atom_all f _ _ _ _ _ _ _ Hwf Er Hirr (single_failure_notify _ _ Hsf)) as [-> [_ Hc]].
  split; [apply set_fs_same|exact Hc].
Qed.

(* what was done can be compensated: the lemma behind the rollback, stated for whole changes *)
Theorem done_change_compensable f k d c m m1 k1 c1 :
  wf_fs m -> run repaired f true k d c m = Ok m1 k1 c1 -> irrev k1 = false ->
  wf_fs m1 /\ forall k0, flt k0 = None -> exists c2, run repaired f false k0 (opp d) c1 m1 = Ok m k0 c2.
Proof. apply inv_all. Qed.

(* ------------------------------------------------------ a static class: edits and creations *)
(* change trees whose leaves are ChangeContents without recorded old contents and CreateResource *)
Fixpoint static_ok (c : change) : bool :=
  match c with
  | CC _ _ None => true
  | CR _ _ => true
  | CS _ cs => forallb static_ok cs
  | _ => false
  end.

Lemma leaf_nojs_irrev v k d c m : irrev (res_k (leaf v false k d c m)) = irrev k.
Proof.
  rewrite leaf_nojs. pose proof (body_sched k d c m) as (_ & _ & H & _). exact H.
Qed.

Lemma body_cc_fresh_ok k p new m m1 k1 c1 :
  body k Do (CC p new None) m = Ok m1 k1 c1 -> leaf_rev Do (CC p new None) m = true.
Proof.
  cbn [body]. destruct (prim_read k (p_read p m)) as [[o k']|[k' y]] eqn:E1; [|discriminate].
  intros _. apply prim_read_inl in E1. destruct E1 as [E1 _]. unfold p_read in E1. cbn [leaf_rev].
  destruct (m !! p) as [[o'|]|]; try discriminate. reflexivity.
Qed.

Lemma leaf_static_irrev v k c m :
  static_ok c = true -> is_leaf c -> irrev (res_k (leaf v true k Do c m)) = irrev k.
Proof.
  intros Hs Hl. unfold leaf. cbn [andb]. destruct (stopped k); [reflexivity|].
  pose proof (body_sched (notify k) Do c m) as (_ & _ & Hb & _).
  destruct (body (notify k) Do c m) as [m' k2 c'|m' k2 x] eqn:Eb; cbn [res_k] in *.
  - assert (Hrev : leaf_rev Do c m = true).
    { destruct c as [p new [o|]|p q b|p b|p b|t cs]; try discriminate; try destruct Hl.
      - eapply body_cc_fresh_ok; eauto.
      - reflexivity. }
    rewrite Hrev. cbn [negb]. destruct (fin_chk v && stopped k2); cbn [res_k].
    + rewrite Hb. apply notify_irrev.
    + rewrite notify_irrev, Hb. apply notify_irrev.
  - rewrite Hb. apply notify_irrev.
Qed.

Definition NOJS (v : variant) (f : nat) : Prop :=
  forall k d c m, irrev (res_k (run v f false k d c m)) = irrev k.

Lemma back_irrev v f d (IH : NOJS v f) l : forall m k, irrev (snd (fst (back v f d l m k))) = irrev k.
Proof.
  induction l as [|c l IHl]; intros m k; cbn [back]; [reflexivity|].
  pose proof (IH k (opp d) c m) as Hc.
  destruct (run v f false k (opp d) c m) as [m2 k2 c2|m2 k2 y]; cbn [res_k fst snd] in *.
  - rewrite IHl. exact Hc.
  - exact Hc.
Qed.

Lemma run_nojs_irrev v f : NOJS v f.
Proof.
  induction f as [|f IH]; intros k d c m; [reflexivity|].
  destruct c as [p new old|p q b|p b|p b|t cs]; try (rewrite run_leaf by exact I; apply leaf_nojs_irrev).
  rewrite run_CS.
  assert (Hl : forall l m k done, irrev (res_k (loop v f false d l m k done)) = irrev k).
  { induction l as [|c l IHl]; intros m0 k0 done; cbn [loop]; [reflexivity|].
    pose proof (IH k0 d c m0) as Hc.
    destruct (run v f false k0 d c m0) as [m' k' c'|m' k' x]; cbn [res_k] in *.
    - rewrite IHl. exact Hc.
    - pose proof (back_irrev v f d IH (if rb_rev v then done else rev done) m' k') as Hb.
      destruct (back v f d (if rb_rev v then done else rev done) m' k') as [[mb kb] y]. cbn [res_k fst snd] in *.
      congruence. }
  specialize (Hl (order d cs) m k []).
  destruct (loop v f false d (order d cs) m k []); cbn [res_k] in *; exact Hl.
Qed.

Lemma run_static_irrev v f : forall k c m,
  static_ok c = true -> irrev (res_k (run v f true k Do c m)) = irrev k.
Proof.
  induction f as [|f IH]; intros k c m Hs; [reflexivity|].
  destruct c as [p new old|p q b|p b|p b|t cs];
    try (rewrite run_leaf by exact I; apply leaf_static_irrev; [exact Hs|exact I]).
  rewrite run_CS. cbn [static_ok] in Hs. cbn [order].
  assert (Hl : forall l m k done, forallb static_ok l = true ->
                 irrev (res_k (loop v f true Do l m k done)) = irrev k).
  { induction l as [|c l IHl]; intros m0 k0 done Hf; cbn [loop]; [reflexivity|].
    cbn [forallb] in Hf. apply andb_true_iff in Hf. destruct Hf as [Hc Hl].
    pose proof (IH k0 c m0 Hc) as Hr.
    destruct (run v f true k0 Do c m0) as [m' k' c'|m' k' x]; cbn [res_k] in *.
    - rewrite IHl by exact Hl. exact Hr.
    - pose proof (back_irrev v f Do (run_nojs_irrev v f) (if rb_rev v then done else rev done) m' k') as Hb.
      destruct (back v f Do (if rb_rev v then done else rev done) m' k') as [[mb kb] y]. cbn [res_k fst snd] in *.
      congruence. }
  specialize (Hl cs m k [] Hs).
  destruct (loop v f true Do cs m k []); cbn [res_k] in *; exact Hl.
Qed.

Theorem edits_creations_atomic f c s k s' k' x :
  static_ok c = true ->
  wf_fs (h_fs s) -> irrev k = false ->
  history_do repaired f c s k = HErr s' k' x ->
  single_failure k x ->
  s' = s /\ clean x = true.
Proof.
  intros Hs Hwf Hk H Hsf. eapply history_do_atomic; eauto.
  unfold history_do in H.
  pose proof (run_static_irrev repaired f (notify k) c (h_fs s) Hs) as Hi.
  destruct (run repaired f true (notify k) Do c (h_fs s)) as [m' k1 c'|m' k1 x1]; [discriminate|].
  inversion H; subst. cbn [res_k] in Hi. rewrite Hi, notify_irrev. exact Hk.
Qed.

(* ------------------------------------------------------------ an injected fault is reported *)
Definition armed (k : sched) : Prop := exists n, flt k = Some n.

Lemma tick_armed k : armed k -> fst (tick k) = false -> armed (snd (tick k)).
Proof.
  intros [n Hn]. unfold tick. rewrite Hn. destruct n; cbn; [discriminate|].
  intros _. exists n. destruct k; reflexivity.
Qed.

Lemma prim_inl_fire k r m' k' : prim k r = inl (m', k') -> fst (tick k) = false.
Proof. unfold prim. destruct (tick k) as [fire k1]. cbn. destruct fire; [discriminate|reflexivity]. Qed.

Lemma prim_read_inl_fire k r o k' : prim_read k r = inl (o, k') -> fst (tick k) = false.
Proof. unfold prim_read. destruct (tick k) as [fire k1]. cbn. destruct fire; [discriminate|reflexivity]. Qed.

Lemma lift_prim_armed m c w k r m1 k1 c1 : lift m c w (prim k r) = Ok m1 k1 c1 -> armed k -> armed k1.
Proof.
  intros H Ha. apply lift_ok in H. destruct H as [H _].
  pose proof (prim_inl_fire _ _ _ _ H) as Hf. apply prim_inl in H. destruct H as [_ ->].
  apply tick_armed; assumption.
Qed.

Lemma body_armed k d c m m1 k1 c1 : body k d c m = Ok m1 k1 c1 -> armed k -> armed k1.
Proof.
  destruct c as [p new [o|]|p q f|p f|p f|t cs], d; cbn [body]; intros H Ha;
    try discriminate; try (eapply lift_prim_armed; eauto; fail).
  - destruct (prim_read k (p_read p m)) as [[o k']|[k' y]] eqn:E1; [|discriminate].
    pose proof (prim_read_inl_fire _ _ _ _ E1) as Hf. apply prim_read_inl in E1. destruct E1 as [_ ->].
    eapply lift_prim_armed; [exact H|]. apply tick_armed; assumption.
  - destruct (exists_b m p); [discriminate|]. destruct (negb (exists_b m (parent p))); [discriminate|].
    eapply lift_prim_armed; eauto.
Qed.

Lemma armed_notify k : armed k -> armed (notify k).
Proof. intros [n Hn]. exists n. rewrite notify_flt. exact Hn. Qed.

Lemma leaf_armed v js k d c m m1 k1 c1 : leaf v js k d c m = Ok m1 k1 c1 -> armed k -> armed k1.
Proof.
  unfold leaf. destruct (js && stopped k); [discriminate|].
  destruct (body (if js then notify k else k) d c m) as [m' k2 c'|m' k2 y] eqn:Eb; [|discriminate].
  intros H Ha.
  assert (Ha2 : armed k2).
  { eapply body_armed; [exact Eb|]. destruct js; [apply armed_notify|]; exact Ha. }
  set (k3 := if js && negb (leaf_rev d c m) then set_irrev k2 else k2) in *.
  assert (Ha3 : armed k3).
  { subst k3. destruct (js && negb (leaf_rev d c m)); [|exact Ha2]. destruct Ha2 as [n Hn]. exists n. exact Hn. }
  destruct (js && fin_chk v && stopped k3); [discriminate|]. inversion H; subst.
  destruct js; [apply armed_notify|]; exact Ha3.
Qed.

Lemma run_armed v f : forall js k d c m m1 k1 c1,
  run v f js k d c m = Ok m1 k1 c1 -> armed k -> armed k1.
Proof.
  induction f as [|f IH]; intros js k d c m m1 k1 c1 H Ha; [discriminate|].
  destruct c as [p new old|p q b|p b|p b|t cs]; try (rewrite run_leaf in H by exact I; eapply leaf_armed; eauto; fail).
  rewrite run_CS in H.
  assert (Hl : forall l m k done m1 k1 done1,
             loop v f js d l m k done = Ok m1 k1 done1 -> armed k -> armed k1).
  { induction l as [|c l IHl]; intros m0 k0 done m2 k2 done2 Hloop Ha0; cbn [loop] in Hloop.
    - inversion Hloop; subst; exact Ha0.
    - destruct (run v f js k0 d c m0) as [m' k' c'|m' k' x] eqn:Ec.
      + eapply IHl; [exact Hloop|]. eapply IH; eauto.
      + destruct (back v f d _ m' k') as [[mb kb] y]. discriminate. }
  destruct (loop v f js d (order d cs) m k []) as [m' k' done|m' k' x] eqn:El; [|discriminate].
  inversion H; subst. eapply Hl; eauto.
Qed.

(* if History.do returns normally, a pending injected fault has not fired *)
Theorem fault_never_swallowed v f c s k s' k' :
  history_do v f c s k = HOk s' k' -> armed k -> armed k'.
Proof.
  unfold history_do. intros H Ha.
  destruct (run v f true (notify k) Do c (h_fs s)) as [m' k1 c'|m' k1 x1] eqn:Er; [|discriminate].
  inversion H; subst. eapply run_armed; [exact Er|]. apply armed_notify; exact Ha.
Qed.

(* History bookkeeping on success *)
Theorem history_do_effect v f c s k s' k' :
  history_do v f c s k = HOk s' k' ->
  h_redo s' = [] /\ h_limit s' = h_limit s /\
  exists c', run v f true (notify k) Do c (h_fs s) = Ok (h_fs s') k' c' /\
             h_undo s' = (if interesting c' then trim (h_limit s) (h_undo s ++ [c']) else h_undo s).
Proof.
  unfold history_do. intros H.
  destruct (run v f true (notify k) Do c (h_fs s)) as [m' k1 c'|m' k1 x1] eqn:Er; [|discriminate].
  inversion H; subst. cbn. repeat split. exists c'. split; reflexivity.
Qed.

(* ------------------------------------------------------------------ witnesses and refutations *)
Definition pa : list N := [1%N].
Definition pb : list N := [2%N].
Definition pd : list N := [4%N].
Definition pda : list N := [4%N; 1%N].
Definition pdb : list N := [4%N; 2%N].
Definition px : list N := [6%N].
Definition cA : list N := [65%N; 10%N].
Definition cB : list N := [66%N; 10%N].
Definition cC : list N := [67%N].

Definition st (t : list (list N * node)) : hist := Hist (list_to_map t) [] [] 100.

(* two edits of one file, then a creation that is refused: forward-order rollback leaves "B" *)
Definition w_order_s : hist := st [(pa, File cA)].
Definition w_order_c : change := CS 1 [CC pa cB None; CC pa cC None; CR pa false].

Lemma rollback_order_refuted :
  exists f c s k s' k' x,
    wf_fs (h_fs s) /\ history_do as_found f c s k = HErr s' k' x /\
    irrev k' = false /\ single_failure k x /\ h_fs s' <> h_fs s.
Proof.
  exists 4, w_order_c, w_order_s, quiet. eexists. eexists. eexists.
  split; [apply wf_fsb_sound; vm_compute; reflexivity|].
  split; [vm_compute; reflexivity|].
  split; [reflexivity|]. split; [left; reflexivity|].
  intros Heq. apply (f_equal (fun m : fs => m !! pa)) in Heq. vm_compute in Heq. discriminate.
Qed.

(* the same input is handled by the repaired variant *)
Lemma rollback_order_repaired :
  exists s' k' x, history_do repaired 4 w_order_c w_order_s quiet = HErr s' k' x /\ x = E Exists /\ s' = w_order_s.
Proof.
  eexists. eexists. eexists. split; [vm_compute; reflexivity|]. split; [reflexivity|].
  refine (proj1 (history_do_atomic 4 w_order_c w_order_s quiet _ _ (E Exists) _ _ _ _)).
  - apply wf_fsb_sound; vm_compute; reflexivity.
  - vm_compute; reflexivity.
  - reflexivity.
  - left; reflexivity.
Qed.

(* stop() requested while the first edit runs: finished_job raises after the write *)
Definition w_stop_s : hist := st [(pa, File cA); (pb, File cB)].
Definition w_stop_c : change := CS 1 [CC pa cC None; CC pb cC None].
Definition w_stop_k : sched := Sched None (Some 1) false false.

Lemma stop_at_finish_refuted :
  exists f c s k s' k' x,
    wf_fs (h_fs s) /\ history_do as_found f c s k = HErr s' k' x /\
    irrev k' = false /\ single_failure k x /\ h_fs s' <> h_fs s.
Proof.
  exists 4, w_stop_c, w_stop_s, w_stop_k. eexists. eexists. eexists.
  split; [apply wf_fsb_sound; vm_compute; reflexivity|].
  split; [vm_compute; reflexivity|].
  split; [reflexivity|]. split; [left; reflexivity|].
  intros Heq. apply (f_equal (fun m : fs => m !! pa)) in Heq. vm_compute in Heq. discriminate.
Qed.

(* a removal followed by a refused creation: not restorable even with reversed rollback; the
   hypothesis [irrev k' = false] of the theorems cannot be dropped *)
Definition w_rm_c : change := CS 1 [RM pa false; CR pb false].

Lemma remove_not_undoable_refuted :
  exists f c s k s' k' x,
    wf_fs (h_fs s) /\ history_do repaired f c s k = HErr s' k' x /\
    single_failure k x /\ h_fs s' <> h_fs s /\ irrev k' = true.
Proof.
  exists 4, w_rm_c, w_stop_s, quiet. eexists. eexists. eexists.
  split; [apply wf_fsb_sound; vm_compute; reflexivity|].
  split; [vm_compute; reflexivity|].
  split; [left; reflexivity|]. split; [|reflexivity].
  intros Heq. apply (f_equal (fun m : fs => m !! pa)) in Heq. vm_compute in Heq. discriminate.
Qed.

(* non-vacuity: a nested, dependent change set (folder, file in it, edit, move into the folder, move
   of the folder) whose sixth primitive call (the folder move) raises: all hypotheses of history_do_atomic hold, four
   sub-changes had been performed and are rolled back *)
Definition w_nest_s : hist := Hist (list_to_map [(pb, File cB)]) [CS 9 [CC pb cB (Some cA)]] [] 100.
Definition w_nest_c : change :=
  CS 1 [CS 2 [CR pd true; CS 3 [CR pda false; CC pda cC None]]; MV pb pdb false; MV pd px true].
Definition w_nest_k : sched := Sched (Some 5) None false false.

Lemma do_atomic_example :
  exists s' k' x,
    wf_fs (h_fs w_nest_s) /\ history_do repaired 6 w_nest_c w_nest_s w_nest_k = HErr s' k' x /\
    irrev k' = false /\ single_failure w_nest_k x /\ static_ok w_nest_c = false.
Proof.
  eexists. eexists. eexists.
  split; [apply wf_fsb_sound; vm_compute; reflexivity|].
  split; [vm_compute; reflexivity|].
  split; [reflexivity|]. split; [right; reflexivity|reflexivity].
Qed.

(* without the fault the same change succeeds and is recorded *)
Lemma do_success_example :
  exists s' k', history_do repaired 6 w_nest_c w_nest_s quiet = HOk s' k' /\
                length (h_undo s') = 2 /\ h_fs s' !! (px ++ [2%N]) = Some (File cB).
Proof. eexists. eexists. split; [vm_compute; reflexivity|]. split; [reflexivity|vm_compute; reflexivity]. Qed.

(* non-vacuity for undo: the recorded change of the previous example is undone, the task is
   stopped at the 4th notification, two sub-changes had been undone and are re-done *)
Definition w_undo_s : hist :=
  Hist (list_to_map [(px, Dir); (px ++ [1%N], File cC); (px ++ [2%N], File cB)])
       [CS 1 [CS 2 [CR pd true; CS 3 [CR pda false; CC pda cC (Some [])]]; MV pb pdb false; MV pd px true]] [] 100.
Definition w_undo_k : sched := Sched None (Some 4) false false.

Lemma undo_atomic_example :
  exists s' k' x,
    wf_fs (h_fs w_undo_s) /\ history_undo repaired 6 w_undo_s w_undo_k = HErr s' k' x /\
    irrev k' = false /\ single_failure w_undo_k x /\ x = E Interrupted.
Proof.
  eexists. eexists. eexists.
  split; [apply wf_fsb_sound; vm_compute; reflexivity|].
  split; [vm_compute; reflexivity|].
  split; [reflexivity|]. split; [left; reflexivity|reflexivity].
Qed.

Lemma edits_creations_example :
  exists s' k' x,
    static_ok (CS 1 [CR pd true; CS 2 [CR pda false; CC pda cC None]; CC pb cA None; CR pb true]) = true /\
    history_do repaired 6 (CS 1 [CR pd true; CS 2 [CR pda false; CC pda cC None]; CC pb cA None; CR pb true])
      w_stop_s quiet = HErr s' k' x /\ x = E Exists.
Proof. eexists. eexists. eexists. split; [reflexivity|]. split; [vm_compute; reflexivity|reflexivity]. Qed.

(* forward-order compensation in ChangeSet.undo: three edits of one file are undone, the third undo
   is hit by the fault, the first two are re-done in the wrong order *)
Definition w_undo3_s : hist :=
  Hist (list_to_map [(pa, File [])])
       [CS 12 [CC pa cB (Some cA); CC pa cC (Some cB); CC pa [] (Some cC)]] [] 100.

Lemma undo_rollback_order_refuted :
  exists f s k s' k' x,
    wf_fs (h_fs s) /\ history_undo as_found f s k = HErr s' k' x /\
    irrev k' = false /\ single_failure k x /\ h_fs s' <> h_fs s.
Proof.
  exists 4, w_undo3_s, (Sched (Some 2) None false false). eexists. eexists. eexists.
  split; [apply wf_fsb_sound; vm_compute; reflexivity|].
  split; [vm_compute; reflexivity|].
  split; [reflexivity|]. split; [right; reflexivity|].
  intros Heq. apply (f_equal (fun m : fs => m !! pa)) in Heq. vm_compute in Heq. discriminate.
Qed.

(* ------------------------- with the rollback-order repair alone: atomic as long as nobody stops *)
Definition nostop (k : sched) : Prop := stp k = None /\ stopped k = false.

Lemma notify_nostop k : nostop k -> notify k = k.
Proof. intros [H _]. unfold notify. rewrite H. reflexivity. Qed.

Lemma leaf_nostop b js k d c m :
  nostop k ->
  leaf (Variant true b) js k d c m = leaf repaired js k d c m /\ nostop (res_k (leaf repaired js k d c m)).
Proof.
  intros Hn. pose proof Hn as [Hs Hst]. unfold leaf. cbn [fin_chk repaired]. rewrite Hst, andb_false_r.
  assert (Hk1 : (if js then notify k else k) = k) by (destruct js; [apply notify_nostop; exact Hn|reflexivity]).
  rewrite Hk1. pose proof (body_sched k d c m) as (Hb1 & Hb2 & _ & _).
  destruct (body k d c m) as [m' k2 c'|m' k2 x]; cbn [res_k] in *.
  - set (k3 := if js && negb (leaf_rev d c m) then set_irrev k2 else k2).
    assert (Hn3 : nostop k3).
    { subst k3. destruct (js && negb (leaf_rev d c m)); split; cbn; congruence. }
    destruct Hn3 as [Hs3 Hst3]. rewrite Hst3, !andb_false_r. cbn [andb].
    split; [reflexivity|]. cbn [res_k].
    destruct js; [rewrite notify_nostop by (split; assumption)|]; split; assumption.
  - split; [reflexivity|]. split; congruence.
Qed.

Definition NOSTOP (b : bool) (f : nat) : Prop :=
  forall js k d c m, nostop k ->
    run (Variant true b) f js k d c m = run repaired f js k d c m /\
    nostop (res_k (run repaired f js k d c m)).

Lemma back_nostop b f d (IH : NOSTOP b f) l : forall m k, nostop k ->
  back (Variant true b) f d l m k = back repaired f d l m k /\
  nostop (snd (fst (back repaired f d l m k))).
Proof.
  induction l as [|c l IHl]; intros m k Hn; cbn [back]; [split; [reflexivity|exact Hn]|].
  destruct (IH false k (opp d) c m Hn) as [-> Hn'].
  destruct (run repaired f false k (opp d) c m) as [m2 k2 c2|m2 k2 y]; cbn [res_k fst snd] in *.
  - apply IHl; exact Hn'.
  - split; [reflexivity|exact Hn'].
Qed.

Lemma loop_nostop b f js d (IH : NOSTOP b f) l : forall m k done, nostop k ->
  loop (Variant true b) f js d l m k done = loop repaired f js d l m k done /\
  nostop (res_k (loop repaired f js d l m k done)).
Proof.
  induction l as [|c l IHl]; intros m k done Hn; cbn [loop]; [split; [reflexivity|exact Hn]|].
  destruct (IH js k d c m Hn) as [-> Hn'].
  destruct (run repaired f js k d c m) as [m' k' c'|m' k' x]; cbn [res_k] in *.
  - apply IHl; exact Hn'.
  - cbn [rb_rev repaired]. destruct (back_nostop b f d IH done m' k' Hn') as [-> Hb].
    destruct (back repaired f d done m' k') as [[mb kb] y]. cbn [res_k fst snd] in *.
    split; [reflexivity|exact Hb].
Qed.

Lemma run_nostop b f : NOSTOP b f.
Proof.
  induction f as [|f IH]; intros js k d c m Hn; [split; [reflexivity|exact Hn]|].
  destruct c as [p new old|p q fl|p fl|p fl|t cs]; try (rewrite !run_leaf by exact I; apply leaf_nostop; exact Hn).
  rewrite !run_CS. destruct (loop_nostop b f js d IH (order d cs) m k [] Hn) as [-> Hl].
  destruct (loop repaired f js d (order d cs) m k []); cbn [res_k] in *; split; auto.
Qed.

Theorem history_do_atomic_nostop b f c s k s' k' x :
  wf_fs (h_fs s) -> nostop k ->
  history_do (Variant true b) f c s k = HErr s' k' x ->
  irrev k' = false -> single_failure k x ->
  s' = s /\ clean x = true.
Proof.
  intros Hwf Hn H. eapply history_do_atomic; [exact Hwf|].
  unfold history_do in *. rewrite (notify_nostop k Hn) in *.
  destruct (run_nostop b f true k Do c (h_fs s) Hn) as [E _]. rewrite <- E. exact H.
Qed.

Theorem history_undo_atomic_nostop b f s k s' k' x :
  wf_fs (h_fs s) -> nostop k ->
  history_undo (Variant true b) f s k = HErr s' k' x ->
  irrev k' = false -> single_failure k x ->
  s' = s /\ clean x = true.
Proof.
  intros Hwf Hn H. eapply history_undo_atomic; [exact Hwf|].
  unfold history_undo in *. rewrite (notify_nostop k Hn) in *.
  destruct (h_undo s) as [|c0 rest]; [exact H|].
  destruct (run_nostop b f true k Undo (List.last rest c0) (h_fs s) Hn) as [E _]. rewrite <- E. exact H.
Qed.

Lemma do_atomic_order_fix_example :
  exists s' k' x,
    wf_fs (h_fs w_nest_s) /\ nostop w_nest_k /\
    history_do (Variant true true) 6 w_nest_c w_nest_s w_nest_k = HErr s' k' x /\
    irrev k' = false /\ single_failure w_nest_k x.
Proof.
  eexists. eexists. eexists.
  split; [apply wf_fsb_sound; vm_compute; reflexivity|].
  split; [split; reflexivity|].
  split; [vm_compute; reflexivity|].
  split; [reflexivity|right; reflexivity].
Qed.
