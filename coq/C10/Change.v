(* The change algebra of rope.base.change and the history of rope.base.history, as an executable
   model over FsModel.  Shared by C10 (atomicity), later C09/C11/C13.

   change      rope class                       fields kept
   CC p n o    ChangeContents                   resource path, new_contents, old_contents (None until done)
   MV p q f    MoveResource (exact paths)       resource, new_resource, resource.is_folder() at construction
   CR p f      CreateResource/CreateFile/Folder resource, is_folder
   RM p f      RemoveResource                   resource, is_folder
   CS t cs     ChangeSet                        description (interned as t), children

   [run] is ChangeSet.do / ChangeSet.undo with the [done] list and the rollback loop; the two places
   where the repaired behaviour differs from the code as found are parameters ([variant]):
     rb_rev   the rollback loop iterates reversed(done) (repaired) or done (as found);
     fin_chk  JobSet.finished_job() re-checks the stop flag after the operation ran (as found) or not.
   [leaf] is one decorated do/undo: _handle_job_set = started_job (check, notify); operation;
   finished_job (check, notify).  Rollback calls use the default (null) job set: [js = false]. *)
From stdpp Require Import gmap list.
From Coq Require Import NArith Lia.
From RopeVerif.Lib Require Import Text.
From RopeVerif.C10 Require Import FsModel.

Inductive change :=
| CC (p : path) (new : content) (old : option content)
| MV (p q : path) (isdir : bool)
| CR (p : path) (isdir : bool)
| RM (p : path) (isdir : bool)
| CS (tag : N) (cs : list change).

Inductive dir := Do | Undo.
Definition opp (d : dir) : dir := match d with Do => Undo | Undo => Do end.

Record variant := Variant { rb_rev : bool; fin_chk : bool }.
Definition as_found : variant := Variant false true.     (* rope as of the verified snapshot *)
Definition repaired : variant := Variant true false.

Inductive res (A : Type) := Ok (m : fs) (k : sched) (a : A) | Err (m : fs) (k : sched) (x : err).
Arguments Ok {A}. Arguments Err {A}.

(* --------------------------------------------------------------------------- reversibility *)
(* A move that can be compensated by the opposite move: existing source, free destination inside an
   existing folder, not below the source. *)
Definition simple_move (p q : path) (m : fs) : bool :=
  nonroot p && nonroot q
  && match m !! p with Some _ => true | None => false end
  && negb (exists_b m q) && is_dir m (parent q) && negb (is_prefix p q).

(* [leaf_rev d c m]: IF the leaf succeeds from m, the opposite leaf restores m exactly.  It fails for:
   RemoveResource.do (undo is not implemented); a ChangeContents whose recorded old contents are not
   what the file holds (or that creates the file); a move that overwrites a file or lands inside an
   existing folder; undoing a creation when the resource is no longer empty. *)
Definition leaf_rev (d : dir) (c : change) (m : fs) : bool :=
  match c, d with
  | CC p _ old, Do =>
      match m !! p with
      | Some (File o) => match old with None => true | Some o' => text_eqb o o' end
      | _ => false
      end
  | CC p new _, Undo =>
      match m !! p with Some (File x) => text_eqb x new | _ => false end
  | MV p q _, Do => simple_move p q m
  | MV p q _, Undo => simple_move q p m
  | CR _ _, Do => true
  | CR p isdir, Undo =>
      match m !! p with
      | Some (File c) => negb isdir && match c with [] => true | _ => false end
      | Some Dir => isdir && negb (has_children m p)
      | None => false
      end
  | RM _ _, _ => false
  | CS _ _, _ => true
  end.

(* ------------------------------------------------------------------------------------ leaves *)
Definition lift (m : fs) (c : change) (wrap : bool) (r : (fs * sched) + (sched * ecls)) : res change :=
  match r with
  | inl (m', k') => Ok m' k' c
  | inr (k', x) => Err m k' (if wrap then W x else E x)
  end.

(* the undecorated do/undo bodies *)
Definition body (k : sched) (d : dir) (c : change) (m : fs) : res change :=
  match c, d with
  | CC p new None, Do =>
      (* self.old_contents = self.resource.read(); then write_file *)
      match prim_read k (p_read p m) with
      | inr (k', x) => Err m k' (E x)
      | inl (o, k') => lift m (CC p new (Some o)) false (prim k' (p_write p new m))
      end
  | CC p new (Some _), Do => lift m c false (prim k (p_write p new m))
  | CC p new None, Undo => Err m k (E NotDone)
  | CC p new (Some o), Undo => lift m c false (prim k (p_write p o m))
  | MV p q _, Do => lift m c false (prim k (p_move p q m))
  | MV p q _, Undo => lift m c false (prim k (p_move q p m))
  | CR p isdir, Do =>
      (* _ResourceOperations._create_resource *)
      if exists_b m p then Err m k (E Exists)
      else if negb (exists_b m (parent p)) then Err m k (E NoParent)
      else lift m c true (prim k (p_create isdir p m))
  | CR p _, Undo => lift m c false (prim k (p_remove p m))
  | RM p _, Do => lift m c false (prim k (p_remove p m))
  | RM _ _, Undo => Err m k (E NotImpl)
  | CS _ _, _ => Err m k (E OutOfFuel)
  end.

Definition leaf (v : variant) (js : bool) (k : sched) (d : dir) (c : change) (m : fs) : res change :=
  if js && stopped k then Err m k (E Interrupted)              (* started_job: check_status *)
  else
    let k1 := if js then notify k else k in                    (* started_job: inform observers *)
    match body k1 d c m with
    | Err m' k' x => Err m' k' x
    | Ok m' k2 c' =>
        let k3 := if js && negb (leaf_rev d c m) then set_irrev k2 else k2 in
        if js && fin_chk v && stopped k3 then Err m' k3 (E Interrupted)   (* finished_job: check *)
        else Ok m' (if js then notify k3 else k3) c'                      (* finished_job: inform *)
    end.

(* ------------------------------------------------------------- ChangeSet.do / ChangeSet.undo *)
Definition order (d : dir) (cs : list change) : list change :=
  match d with Do => cs | Undo => rev cs end.

Section run.
Variable v : variant.

(* [fuel] bounds the nesting depth (the rollback re-runs the RETURNED children, which is not
   structural).  [Err _ _ (E OutOfFuel)] only if fuel <= nesting depth. *)
Fixpoint run (fuel : nat) (js : bool) (k : sched) (d : dir) (c : change) (m : fs) : res change :=
  match fuel with
  | O => Err m k (E OutOfFuel)
  | S f =>
    match c with
    | CS t cs =>
        let fix loop (l : list change) (m : fs) (k : sched) (done : list change) : res (list change) :=
          match l with
          | [] => Ok m k done
          | c :: rest =>
              match run f js k d c m with
              | Ok m' k' c' => loop rest m' k' (c' :: done)
              | Err m' k' x =>
                  (* except Exception: for change in done: change.undo() / change.do(); raise *)
                  let fix back (l : list change) (m : fs) (k : sched) : fs * sched * option err :=
                    match l with
                    | [] => (m, k, None)
                    | c :: rest =>
                        match run f false k (opp d) c m with
                        | Ok m2 k2 _ => back rest m2 k2
                        | Err m2 k2 y => (m2, k2, Some y)
                        end
                    end in
                  let '(mb, kb, y) := back (if rb_rev v then done else rev done) m' k' in
                  Err mb kb (match y with None => x | Some y => During y x end)
              end
          end in
        match loop (order d cs) m k [] with
        | Ok m' k' done => Ok m' k' (CS t (match d with Do => rev done | Undo => done end))
        | Err m' k' x => Err m' k' x
        end
    | _ => leaf v js k d c m
    end
  end.
End run.

Fixpoint depth (c : change) : nat :=
  match c with
  | CS _ cs => S (fold_right (fun c n => Nat.max (depth c) n) O cs)
  | _ => O
  end.

(* ---------------------------------------------------------------------------------- History *)
(* Lists are in Python order: the most recent change is the LAST element. *)
Record hist := Hist { h_fs : fs; h_undo : list change; h_redo : list change; h_limit : nat }.

Inductive hres := HOk (s : hist) (k : sched) | HErr (s : hist) (k : sched) (x : err).

Fixpoint n_leaves (c : change) : nat :=
  match c with
  | CS _ cs => fold_right (fun c n => n_leaves c + n) O cs
  | _ => 1
  end.

(* History._is_change_interesting when no resource is ignored: some resource is changed *)
Definition interesting (c : change) : bool := negb (Nat.eqb (n_leaves c) 0).

(* History._remove_extra_items *)
Definition trim (limit : nat) (l : list change) : list change := skipn (length l - limit) l.

Definition set_fs (s : hist) (m : fs) : hist := Hist m (h_undo s) (h_redo s) (h_limit s).

(* History.do(changes, task_handle): create_job_set informs the observers once *)
Definition history_do (v : variant) (fuel : nat) (c : change) (s : hist) (k : sched) : hres :=
  match run v fuel true (notify k) Do c (h_fs s) with
  | Ok m' k' c' =>
      HOk (Hist m' (if interesting c' then trim (h_limit s) (h_undo s ++ [c']) else h_undo s)
                [] (h_limit s)) k'
  | Err m' k' x => HErr (set_fs s m') k' x
  end.

(* History.undo() with change=None: the last done change, no other dependency *)
Definition history_undo (v : variant) (fuel : nat) (s : hist) (k : sched) : hres :=
  match h_undo s with
  | [] => HErr s k (E HistEmpty)
  | c0 :: rest =>
      let c := List.last rest c0 in
      match run v fuel true (notify k) Undo c (h_fs s) with
      | Ok m' k' _ => HOk (Hist m' (removelast (h_undo s)) (h_redo s ++ [c]) (h_limit s)) k'
      | Err m' k' x => HErr (set_fs s m') k' x
      end
  end.

(* History.redo() with change=None *)
Definition history_redo (v : variant) (fuel : nat) (s : hist) (k : sched) : hres :=
  match h_redo s with
  | [] => HErr s k (E HistEmpty)
  | c0 :: rest =>
      let c := List.last rest c0 in
      match run v fuel true (notify k) Do c (h_fs s) with
      | Ok m' k' c' => HOk (Hist m' (h_undo s ++ [c']) (removelast (h_redo s)) (h_limit s)) k'
      | Err m' k' x => HErr (set_fs s m') k' x
      end
  end.

(* ------------------------------------------------------------------------ statement helpers *)
Definition is_fault (x : err) : bool :=
  match x with E Fault | W Fault => true | _ => false end.

(* at most one injected fault, and it is the reported failure (not one hit during rollback) *)
Definition single_failure (k : sched) (x : err) : Prop := flt k = None \/ is_fault x = true.

Definition clean (x : err) : bool := match x with During _ _ => false | _ => true end.
